(** C11: the encoding invariant (shape of the UF / UF-index / view tables, self-loop/domain
    closure, soundness w.r.t. the congruence closure of the asserted unions) is preserved by every
    ruleset of the maintenance program, hence by every schedule over it. *)
From Coq Require Import List Arith ZArith Bool PeanoNat Lia.
Import ListNotations.
Require Import Verif.Base.Res Verif.Egg.Model Verif.Egg.CCDefs
  Verif.Encoding.Datalog Verif.Encoding.DatalogFacts Verif.Encoding.Templates Verif.Encoding.Maint.

Lemma val_eq_dec (a b : val) : {a = b} + {a <> b}.
Proof. decide equality; [apply Nat.eq_dec|apply Z.eq_dec]. Qed.

Lemma op_eq_dec (a b : op) : {a = b} + {a <> b}.
Proof.
  decide equality; try apply val_eq_dec; try apply Nat.eq_dec; apply (list_eq_dec val_eq_dec).
Qed.

Lemma Forall2_comp {A B C} (P : A -> B -> Prop) (R : B -> C -> Prop) (Q : A -> C -> Prop) :
  (forall a b c, P a b -> R b c -> Q a c) ->
  forall l1 l2 l3, Forall2 P l1 l2 -> Forall2 R l2 l3 -> Forall2 Q l1 l3.
Proof.
  intros H l1 l2 l3 H1. revert l3. induction H1; intros l3 H2; inversion H2; subst; constructor; eauto.
Qed.

Lemma Forall2_in_r {A B} (R : A -> B -> Prop) l1 l2 y : Forall2 R l1 l2 -> In y l2 -> exists x, In x l1 /\ R x y.
Proof.
  induction 1 as [|a b l1 l2 Hab Hl IH]; intros Hy; [destruct Hy|].
  destruct Hy as [<-|Hy]; [exists a; simpl; auto|]. destruct (IH Hy) as (x & Hx & Hr). exists x. simpl. auto.
Qed.

Lemma Forall2_len {A B} (R : A -> B -> Prop) l1 l2 : Forall2 R l1 l2 -> length l1 = length l2.
Proof. induction 1; cbn [length]; auto. Qed.

Lemma tabs_distinct f g :
  tUF <> tUFf /\ tView f <> tUF /\ tView f <> tUFf /\ tDel f <> tUF /\ tDel f <> tUFf /\ tView f <> tDel g /\
  (tView f = tView g -> f = g) /\ (tDel f = tDel g -> f = g).
Proof. unfold tUF, tUFf, tView, tDel. repeat split; lia. Qed.

Section Inv.
  Variable sg : sigT.
  Variable U : list (term * term).
  Variable w : list term.

  Definition in_dom (d : db) (v : val) : Prop := exists p, ufE d v p.
  Definition col_ok (b : bool) (v : val) : Prop := if b then is_id v else ~ is_id v.

  Record Inv (d : db) : Prop := {
    iv_len : length d = 2 + 2 * length sg;
    iv_uf : forall r, In r (gett d tUF) -> exists i j, dkey r = [VId i; VId j] /\ j <= i;
    iv_uff : forall r, In r (gett d tUFf) -> exists a b, dkey r = [VId a] /\ dval r = VId b;
    iv_view : forall f kinds r, nth_error sg f = Some kinds -> In r (gett d (tView f)) ->
              exists cs o, dkey r = cs ++ [VId o] /\ Forall2 col_ok kinds cs;
    iv_del : forall f, gett d (tDel f) = [];
    iv_dom_uf : forall a b, ufE d a b -> in_dom d b;
    iv_dom_uff : forall a b, uffE d a b -> in_dom d b;
    iv_dom_uffk : forall a b, uffE d a b -> in_dom d a;
    iv_dom_view : forall f kinds k v, nth_error sg f = Some kinds -> viewE d f k -> In v k -> is_id v -> in_dom d v;
    iv_bound : forall v, in_dom d v -> exists j, v = VId j /\ j < length w;
    iv_s_uf : forall a b, ufE d a b -> CC U (witv w a) (witv w b);
    iv_s_uff : forall a b, uffE d a b -> CC U (witv w a) (witv w b);
    iv_s_view : forall f kinds cs o, nth_error sg f = Some kinds -> viewE d f (cs ++ [o]) ->
                CC U (T f (map (witv w) cs)) (witv w o)
  }.

  Definition NewUF (d : db) (a b : val) : Prop :=
    (exists i j, a = VId i /\ b = VId j /\ j <= i) /\ in_dom d a /\ in_dom d b /\ CC U (witv w a) (witv w b).

  Lemma ufE_ids d a b : Inv d -> ufE d a b -> exists i j, a = VId i /\ b = VId j /\ j <= i.
  Proof.
    intros HI (r & Hr & Hk). destruct (iv_uf _ HI r Hr) as (i & j & Hk' & Hle). rewrite Hk in Hk'.
    injection Hk' as -> ->. eauto.
  Qed.

  Lemma uf_keys d : Inv d -> forall r, In r (gett d tUF) -> exists a b, dkey r = [a; b].
  Proof. intros HI r Hr. destruct (iv_uf _ HI r Hr) as (i & j & Hk & _). eauto. Qed.

  Lemma uf_keys_id d : Inv d -> forall r, In r (gett d tUF) -> exists a b, dkey r = [VId a; VId b].
  Proof. intros HI r Hr. destruct (iv_uf _ HI r Hr) as (i & j & Hk & _). eauto. Qed.

  Lemma uffE_ids d a b : Inv d -> uffE d a b -> exists i j, a = VId i /\ b = VId j.
  Proof.
    intros HI (r & Hr & Hk & Hv). destruct (iv_uff _ HI r Hr) as (i & j & Hk' & Hv'). rewrite Hk in Hk'.
    injection Hk' as ->. rewrite Hv in Hv'. subst b. eauto.
  Qed.

  Lemma Rleader_col d b v v' : Inv d -> col_ok b v -> Rleader d v v' -> col_ok b v'.
  Proof.
    intros HI Hc [->|Hu]; [exact Hc|]. destruct (uffE_ids _ _ _ HI Hu) as (i & j & -> & ->).
    destruct b; [exact I|]. exfalso. apply Hc. exact I.
  Qed.

  Lemma Rleader_cc d v v' : Inv d -> Rleader d v v' -> CC U (witv w v) (witv w v').
  Proof. intros HI [->|Hu]; [apply cc_refl|apply (iv_s_uff _ HI); exact Hu]. Qed.

  (** the generic preservation step: new rows only of the stated, justified kinds *)
  Lemma inv_step d d' : Inv d -> length d' = length d ->
    (forall r, In r (gett d' tUF) -> In r (gett d tUF) \/ exists a b, dkey r = [a; b] /\ NewUF d a b) ->
    (forall r, In r (gett d' tUFf) -> In r (gett d tUFf) \/ exists a b, dkey r = [a] /\ dval r = b /\ ufE d a b) ->
    (forall f r, In r (gett d' (tView f)) ->
       In r (gett d (tView f)) \/ exists k0, viewE d f k0 /\ Forall2 (Rleader d) k0 (dkey r)) ->
    (forall f, gett d' (tDel f) = []) ->
    (forall v, in_dom d v -> in_dom d' v) ->
    Inv d'.
  Proof.
    intros HI Hlen Huf Huff Hview Hdel Hdom.
    assert (Huf' : forall a b, ufE d' a b -> ufE d a b \/ NewUF d a b).
    { intros a b (r & Hr & Hk). destruct (Huf r Hr) as [Ho|(a' & b' & Hk' & Hn)]; [left; exists r; auto|].
      rewrite Hk in Hk'. injection Hk' as <- <-. right. exact Hn. }
    assert (Huff' : forall a b, uffE d' a b -> uffE d a b \/ ufE d a b).
    { intros a b (r & Hr & Hk & Hv). destruct (Huff r Hr) as [Ho|(a' & b' & Hk' & Hv' & Hn)]; [left; exists r; auto|].
      rewrite Hk in Hk'. injection Hk' as <-. right. congruence. }
    assert (Hview' : forall f k, viewE d' f k -> viewE d f k \/ exists k0, viewE d f k0 /\ Forall2 (Rleader d) k0 k).
    { intros f k (r & Hr & Hk). destruct (Hview f r Hr) as [Ho|(k0 & Hk0 & HF)]; [left; exists r; auto|].
      right. exists k0. rewrite <- Hk. auto. }
    constructor.
    - rewrite Hlen. apply (iv_len _ HI).
    - intros r Hr. destruct (Huf r Hr) as [Ho|(a & b & Hk & ((i & j & -> & -> & Hle) & _))]; [apply (iv_uf _ HI); exact Ho|].
      exists i, j. auto.
    - intros r Hr. destruct (Huff r Hr) as [Ho|(a & b & Hk & Hv & Hu)]; [apply (iv_uff _ HI); exact Ho|].
      destruct (ufE_ids _ _ _ HI Hu) as (i & j & -> & -> & _). exists i, j. auto.
    - intros f kinds r Hf Hr. destruct (Hview f r Hr) as [Ho|(k0 & (r0 & Hr0 & Hk0) & HF)]; [eapply (iv_view _ HI); eauto|].
      destruct (iv_view _ HI f kinds r0 Hf Hr0) as (cs0 & o0 & Hk & Hc). subst k0. rewrite Hk in HF.
      apply Forall2_app_inv_l in HF. destruct HF as (cs' & l' & H1 & H2 & Hkr).
      inversion H2 as [|x o' l1 l2 Ho' Hnil]; subst. inversion Hnil; subst.
      assert (Hid : exists o1, o' = VId o1).
      { destruct Ho' as [->|Hu]; [eauto|]. destruct (uffE_ids _ _ _ HI Hu) as (i & j & _ & ->). eauto. }
      destruct Hid as (o1 & ->). exists cs', o1. split; [exact Hkr|].
      eapply Forall2_comp; [|exact Hc|exact H1]. intros b v v' Hb Hr'. eapply Rleader_col; eauto.
    - exact Hdel.
    - intros a b Hu. destruct (Huf' a b Hu) as [Ho|(_ & _ & Hd & _)]; apply Hdom; [eapply (iv_dom_uf _ HI); eauto|exact Hd].
    - intros a b Hu. apply Hdom. destruct (Huff' a b Hu) as [Ho|Hn]; [eapply (iv_dom_uff _ HI); eauto|eapply (iv_dom_uf _ HI); eauto].
    - intros a b Hu. apply Hdom. destruct (Huff' a b Hu) as [Ho|Hn]; [eapply (iv_dom_uffk _ HI); eauto|exists b; exact Hn].
    - intros f kinds k v Hf Hk Hv Hid. apply Hdom. destruct (Hview' f k Hk) as [Ho|(k0 & Hk0 & HF)].
      + eapply (iv_dom_view _ HI); eauto.
      + destruct (Forall2_in_r _ _ _ _ HF Hv) as (v0 & Hv0 & [->|Hu]).
        * eapply (iv_dom_view _ HI); eauto.
        * eapply (iv_dom_uff _ HI); eauto.
    - intros v (p & Hu). apply (iv_bound _ HI). destruct (Huf' v p Hu) as [Ho|(_ & Hd & _)]; [exists p; exact Ho|exact Hd].
    - intros a b Hu. destruct (Huf' a b Hu) as [Ho|(_ & _ & _ & Hc)]; [apply (iv_s_uf _ HI); exact Ho|exact Hc].
    - intros a b Hu. destruct (Huff' a b Hu) as [Ho|Hn]; [apply (iv_s_uff _ HI); exact Ho|apply (iv_s_uf _ HI); exact Hn].
    - intros f kinds cs o Hf Hk. destruct (Hview' f _ Hk) as [Ho|(k0 & Hk0 & HF)]; [eapply (iv_s_view _ HI); eauto|].
      apply Forall2_app_inv_r in HF. destruct HF as (cs0 & l0 & H1 & H2 & ->).
      inversion H2 as [|o0 x l1 l2 Ho' Hnil]; subst. inversion Hnil; subst.
      eapply cc_trans; [|eapply Rleader_cc; [exact HI|exact Ho']].
      eapply cc_trans; [|eapply (iv_s_view _ HI); eauto]. apply cc_cong.
      clear - H1 HI. induction H1 as [|c0 c l1 l2 Hc Hl IH]; cbn [map]; constructor; [|exact IH].
      apply cc_sym. eapply Rleader_cc; eauto.
  Qed.

  (* ---------------------------------------------------------------- per-ruleset steps *)

  Lemma tUF_lt d : Inv d -> tUF < length d.
  Proof. intros HI. rewrite (iv_len _ HI). unfold tUF. lia. Qed.

  Lemma inv_parent d d' c : Inv d -> run_ruleset enc_merges [r_uf_update] d = Ok (d', c) -> Inv d'.
  Proof.
    intros HI H. apply run_ruleset_single in H. destruct H as (ops & Hops & Happ).
    assert (Ed : d' = fst (apply_ops enc_merges d ops)) by (rewrite Happ; reflexivity).
    pose proof (fun o Ho => uf_update_fired d ops o Hops Ho (uf_keys d HI)) as Hf.
    assert (Htab : forall o, In o ops -> op_tab o = tUF).
    { intros o Ho. destruct (Hf o Ho) as (a & b & c0 & _ & _ & _ & [-> | ->]); reflexivity. }
    assert (Hun : forall t, t <> tUF -> gett d' t = gett d t).
    { intros t Ht. rewrite Ed. apply step_untouched. intros o Ho. rewrite (Htab o Ho). auto. }
    destruct (tabs_distinct 0 0) as (D1 & _).
    apply (inv_step d d' HI).
    - rewrite Ed. apply step_length.
    - intros r Hr. rewrite Ed in Hr. apply step_in in Hr. destruct Hr as [Hr|Hr]; [left; exact Hr|right].
      destruct (Hf _ Hr) as (a & b & c0 & Hab & Hbc & Hne & [E|E]); [discriminate|]. injection E as Hk _.
      exists a, c0. split; [exact Hk|].
      destruct (ufE_ids _ _ _ HI Hab) as (i & j & -> & -> & Hle). destruct (ufE_ids _ _ _ HI Hbc) as (j' & k & Ej & -> & Hle').
      injection Ej as <-. split; [exists i, k; repeat split; lia|]. split; [exists (VId j); exact Hab|].
      split; [eapply (iv_dom_uf _ HI); eauto|].
      eapply cc_trans; eapply (iv_s_uf _ HI); eauto.
    - intros r Hr. left. rewrite <- (Hun tUFf) by auto. exact Hr.
    - intros f r Hr. left. rewrite <- (Hun (tView f)) by apply (tabs_distinct f 0). exact Hr.
    - intros f. rewrite (Hun (tDel f)) by apply (tabs_distinct f f). apply (iv_del _ HI).
    - intros v (p & r & Hr & Hk).
      destruct (in_dec op_eq_dec (ODel tUF (dkey r)) ops) as [Hin|Hnin].
      + destruct (Hf _ Hin) as (a & b & c0 & Hab & Hbc & Hne & [E|E]); [|discriminate]. injection E as E. rewrite Hk in E.
        injection E as <- <-. destruct (uf_update_fire d ops v p c0 Hops Hab Hbc Hne) as [_ Hs].
        destruct (step_added enc_merges d ops tUF _ _ Hs (tUF_lt d HI)) as (r' & Hr' & Hk').
        exists c0, r'. rewrite Ed. auto.
      + destruct (step_keep enc_merges d ops tUF r Hr) as (r' & Hr' & Hk' & _).
        { intros k Hin E. apply Hnin. rewrite E. exact Hin. }
        exists p, r'. rewrite Ed. split; [exact Hr'|congruence].
  Qed.

  Lemma inv_single_parent d d' c : Inv d -> run_ruleset enc_merges [r_single_parent] d = Ok (d', c) -> Inv d'.
  Proof.
    intros HI H. apply run_ruleset_single in H. destruct H as (ops & Hops & Happ).
    assert (Ed : d' = fst (apply_ops enc_merges d ops)) by (rewrite Happ; reflexivity).
    pose proof (fun o Ho => single_parent_fired d ops o Hops Ho (uf_keys_id d HI)) as Hf.
    assert (Htab : forall o, In o ops -> op_tab o = tUF).
    { intros o Ho. destruct (Hf o Ho) as (a & b & c0 & _ & _ & _ & [-> | ->]); reflexivity. }
    assert (Hun : forall t, t <> tUF -> gett d' t = gett d t).
    { intros t Ht. rewrite Ed. apply step_untouched. intros o Ho. rewrite (Htab o Ho). auto. }
    destruct (tabs_distinct 0 0) as (D1 & _).
    apply (inv_step d d' HI).
    - rewrite Ed. apply step_length.
    - intros r Hr. rewrite Ed in Hr. apply step_in in Hr. destruct Hr as [Hr|Hr]; [left; exact Hr|right].
      destruct (Hf _ Hr) as (a & b & c0 & Hab & Hac & Hlt & [E|E]); [discriminate|]. injection E as Hk _.
      exists (VId b), (VId c0). split; [exact Hk|]. split; [exists b, c0; repeat split; lia|].
      split; [eapply (iv_dom_uf _ HI); eauto|]. split; [eapply (iv_dom_uf _ HI); eauto|].
      eapply cc_trans; [apply cc_sym|]; eapply (iv_s_uf _ HI); eauto.
    - intros r Hr. left. rewrite <- (Hun tUFf) by auto. exact Hr.
    - intros f r Hr. left. rewrite <- (Hun (tView f)) by apply (tabs_distinct f 0). exact Hr.
    - intros f. rewrite (Hun (tDel f)) by apply (tabs_distinct f f). apply (iv_del _ HI).
    - intros v (p & Hvp). destruct (ufE_ids _ _ _ HI Hvp) as (a & p0 & -> & -> & _).
      revert Hvp. induction p0 as [p0 IH] using lt_wf_ind. intros (r & Hr & Hk).
      destruct (in_dec op_eq_dec (ODel tUF (dkey r)) ops) as [Hin|Hnin].
      + destruct (Hf _ Hin) as (a' & b & c0 & Hab & Hac & Hlt & [E|E]); [|discriminate]. injection E as E. rewrite Hk in E.
        injection E as <- <-. apply (IH c0 Hlt Hac).
      + destruct (step_keep enc_merges d ops tUF r Hr) as (r' & Hr' & Hk' & _).
        { intros k Hin E. apply Hnin. rewrite E. exact Hin. }
        exists (VId p0), r'. rewrite Ed. split; [exact Hr'|congruence].
  Qed.

  Lemma inv_index d d' c : Inv d -> run_ruleset enc_merges [r_uf_index] d = Ok (d', c) -> Inv d'.
  Proof.
    intros HI H. apply run_ruleset_single in H. destruct H as (ops & Hops & Happ).
    assert (Ed : d' = fst (apply_ops enc_merges d ops)) by (rewrite Happ; reflexivity).
    pose proof (fun o Ho => uf_index_fired d ops o Hops Ho (uf_keys d HI)) as Hf.
    assert (Htab : forall o, In o ops -> op_tab o = tUFf).
    { intros o Ho. destruct (Hf o Ho) as (a & b & _ & ->). reflexivity. }
    assert (Hun : forall t, t <> tUFf -> gett d' t = gett d t).
    { intros t Ht. rewrite Ed. apply step_untouched. intros o Ho. rewrite (Htab o Ho). auto. }
    destruct (tabs_distinct 0 0) as (D1 & _).
    apply (inv_step d d' HI).
    - rewrite Ed. apply step_length.
    - intros r Hr. left. rewrite <- (Hun tUF) by auto. exact Hr.
    - intros r Hr. rewrite Ed in Hr. apply step_in in Hr. destruct Hr as [Hr|Hr]; [left; exact Hr|right].
      destruct (Hf _ Hr) as (a & b & Hab & E). injection E as Hk Hv. exists a, b. auto.
    - intros f r Hr. left. rewrite <- (Hun (tView f)) by apply (tabs_distinct f 0). exact Hr.
    - intros f. rewrite (Hun (tDel f)) by apply (tabs_distinct f f). apply (iv_del _ HI).
    - intros v (p & r & Hr & Hk). exists p, r. rewrite (Hun tUF) by auto. auto.
  Qed.

  Lemma in_rebuilding_rules : forall sg0 f0 r, In r (rebuilding_rules sg0 f0) ->
    exists f kinds, nth_error sg0 (f - f0) = Some kinds /\ f0 <= f /\
                    (r = r_congruence f (length kinds) \/ r = r_rebuild f kinds).
  Proof.
    induction sg0 as [|kinds tl IH]; intros f0 r H; cbn [rebuilding_rules] in H; [destruct H|].
    destruct H as [<-|[<-|H]].
    - exists f0, kinds. rewrite Nat.sub_diag. auto.
    - exists f0, kinds. rewrite Nat.sub_diag. auto.
    - destruct (IH _ _ H) as (f & k & Hn & Hle & Hr). exists f, k. split; [|split; [lia|exact Hr]].
      replace (f - f0) with (S (f - S f0)) by lia. exact Hn.
  Qed.

  Lemma in_delete_rules : forall sg0 f0 r, In r (delete_rules sg0 f0) -> exists f n, r = r_delete f n.
  Proof.
    induction sg0 as [|kinds tl IH]; intros f0 r H; cbn [delete_rules] in H; [destruct H|].
    destruct H as [<-|H]; [eauto|eapply IH; eauto].
  Qed.

  Lemma view_len d f kinds : Inv d -> nth_error sg f = Some kinds ->
    forall r, In r (gett d (tView f)) -> length (dkey r) = S (length kinds).
  Proof.
    intros HI Hf r Hr. destruct (iv_view _ HI f kinds r Hf Hr) as (cs & o & -> & Hc).
    rewrite app_length. cbn [length]. apply Forall2_len in Hc. lia.
  Qed.

  Lemma view_shape_n d f kinds : Inv d -> nth_error sg f = Some kinds ->
    forall r, In r (gett d (tView f)) -> exists cs o, dkey r = cs ++ [VId o] /\ length cs = length kinds.
  Proof.
    intros HI Hf r Hr. destruct (iv_view _ HI f kinds r Hf Hr) as (cs & o & -> & Hc).
    exists cs, o. split; [reflexivity|]. apply Forall2_len in Hc. lia.
  Qed.

  Lemma uff_keys d : Inv d -> forall r, In r (gett d tUFf) -> exists a, dkey r = [a].
  Proof. intros HI r Hr. destruct (iv_uff _ HI r Hr) as (a & b & Hk & _). eauto. Qed.

  (** what an operation staged by the __rebuilding ruleset looks like *)
  Lemma rebuilding_ops d ops o : Inv d -> rules_ops d (rebuilding_rules sg 0) = Ok ops -> In o ops ->
    (exists f kinds cs o1 o2, nth_error sg f = Some kinds /\ viewE d f (cs ++ [VId o1]) /\ viewE d f (cs ++ [VId o2]) /\
        o2 < o1 /\ o = OSet tUF [VId o1; VId o2] unitv) \/
    (exists f kinds k k', nth_error sg f = Some kinds /\ viewE d f k /\ Forall2 (Rleader d) k k' /\
        (o = OSet (tView f) k' unitv \/ o = ODel (tView f) k)).
  Proof.
    intros HI Hops Ho. apply (rules_ops_spec _ _ _ Hops) in Ho. destruct Ho as (r & x & Hr & Hx & Ho).
    apply in_rebuilding_rules in Hr. destruct Hr as (f & kinds & Hn & _ & [-> | ->]); rewrite Nat.sub_0_r in Hn.
    - left. destruct (congruence_fired d f _ x o Hx Ho (view_shape_n d f kinds HI Hn)) as (cs & o1 & o2 & _ & H1 & H2 & Hlt & ->).
      exists f, kinds, cs, o1, o2. auto.
    - right. destruct (rebuild_fired d f kinds x o Hx Ho (view_len d f kinds HI Hn) (uff_keys d HI)) as (k & k' & H1 & H2 & H3).
      exists f, kinds, k, k'. auto.
  Qed.

  Lemma inv_rebuilding d d' c : Inv d -> run_ruleset enc_merges (rebuilding_rules sg 0) d = Ok (d', c) -> Inv d'.
  Proof.
    intros HI H. unfold run_ruleset in H. destruct (rules_ops d (rebuilding_rules sg 0)) as [ops| |] eqn:Hops; cbn [bind] in H; try discriminate.
    injection H as Happ.
    assert (Ed : d' = fst (apply_ops enc_merges d ops)) by (rewrite Happ; reflexivity).
    pose proof (fun o Ho => rebuilding_ops d ops o HI Hops Ho) as Hf.
    apply (inv_step d d' HI).
    - rewrite Ed. apply step_length.
    - intros r Hr. rewrite Ed in Hr. apply step_in in Hr. destruct Hr as [Hr|Hr]; [left; exact Hr|right].
      destruct (Hf _ Hr) as [(f & kinds & cs & o1 & o2 & Hn & H1 & H2 & Hlt & E)|(f & kinds & k & k' & Hn & _ & _ & [E|E])].
      + injection E as Hk _. exists (VId o1), (VId o2). split; [exact Hk|]. split; [exists o1, o2; repeat split; lia|]. split; [|split].
        * eapply (iv_dom_view _ HI f kinds); [exact Hn|exact H1| |exact I]. apply in_or_app. right. simpl. auto.
        * eapply (iv_dom_view _ HI f kinds); [exact Hn|exact H2| |exact I]. apply in_or_app. right. simpl. auto.
        * eapply cc_trans; [apply cc_sym|]; eapply (iv_s_view _ HI); eauto.
      + injection E as Et _. exfalso. symmetry in Et. revert Et. apply (tabs_distinct f 0).
      + discriminate.
    - intros r Hr. left. rewrite Ed in Hr. rewrite step_untouched in Hr; [exact Hr|].
      intros o Ho. destruct (Hf _ Ho) as [(f & kinds & cs & o1 & o2 & _ & _ & _ & _ & ->)|(f & kinds & k & k' & _ & _ & _ & [-> | ->])];
        cbn [op_tab]; apply (tabs_distinct f 0).
    - intros f r Hr. rewrite Ed in Hr. apply step_in in Hr. destruct Hr as [Hr|Hr]; [left; exact Hr|right].
      destruct (Hf _ Hr) as [(f' & kinds & cs & o1 & o2 & _ & _ & _ & _ & E)|(f' & kinds & k & k' & Hn & Hk & HF & [E|E])].
      + injection E as Et _. exfalso. revert Et. apply (tabs_distinct f 0).
      + injection E as Et Ek _. assert (Ef : f' = f) by (unfold tView in Et; lia). subst f'. exists k. rewrite Ek. auto.
      + discriminate.
    - intros f. rewrite Ed. rewrite step_untouched; [apply (iv_del _ HI)|].
      intros o Ho. destruct (Hf _ Ho) as [(f' & kinds & cs & o1 & o2 & _ & _ & _ & _ & ->)|(f' & kinds & k & k' & _ & _ & _ & [-> | ->])];
        cbn [op_tab]; unfold tUF, tView, tDel; lia.
    - intros v (p & r & Hr & Hk).
      destruct (step_keep enc_merges d ops tUF r Hr) as (r' & Hr' & Hk' & _).
      { intros k Hin. exfalso.
        destruct (Hf _ Hin) as [(f' & kinds & cs & o1 & o2 & _ & _ & _ & _ & E)|(f' & kinds & k0 & k' & _ & _ & _ & [E|E])]; try discriminate.
      }
      exists p, r'. rewrite Ed. split; [exact Hr'|congruence].
  Qed.

  Lemma ops_nil_of_none {A} (l : list A) : (forall x, In x l -> False) -> l = [].
  Proof. destruct l as [|a tl]; [reflexivity|]. intros H. destruct (H a). left. reflexivity. Qed.

  Lemma inv_delete d d' c : Inv d -> run_ruleset enc_merges (delete_rules sg 0) d = Ok (d', c) -> d' = d /\ c = false.
  Proof.
    intros HI H. unfold run_ruleset in H. destruct (rules_ops d (delete_rules sg 0)) as [ops| |] eqn:Hops; cbn [bind] in H; try discriminate.
    assert (E : ops = []).
    { apply ops_nil_of_none. intros o Ho. apply (rules_ops_spec _ _ _ Hops) in Ho. destruct Ho as (r & x & Hr & Hx & Ho).
      apply in_delete_rules in Hr. destruct Hr as (f & n & ->). eapply delete_fired; eauto. apply (iv_del _ HI). }
    subst ops. rewrite apply_ops_nil in H. injection H as <- <-. auto.
  Qed.

  Lemma run_ruleset_nil ms d d' c : run_ruleset ms [] d = Ok (d', c) -> d' = d /\ c = false.
  Proof. unfold run_ruleset, rules_ops. cbn [collect bind]. rewrite apply_ops_nil. intros H. injection H as <- <-. auto. Qed.

  (** every ruleset of the maintenance program preserves the invariant *)
  Lemma inv_ruleset rs d d' c : Inv d ->
    run_ruleset (pmerges (enc_prog sg)) (nth rs (prulesets (enc_prog sg)) []) d = Ok (d', c) -> Inv d'.
  Proof.
    intros HI H. cbn [enc_prog pmerges prulesets] in H.
    destruct rs as [|[|[|[|[|[|rs]]]]]]; cbn [nth] in H.
    - eapply inv_parent; eauto.
    - eapply inv_single_parent; eauto.
    - eapply inv_index; eauto.
    - eapply inv_rebuilding; eauto.
    - apply run_ruleset_nil in H. destruct H as [-> _]. exact HI.
    - apply inv_delete in H; [|exact HI]. destruct H as [-> _]. exact HI.
    - destruct rs; cbn [nth] in H; apply run_ruleset_nil in H; destruct H as [-> _]; exact HI.
  Qed.

  (** ... hence every schedule over it, in particular the between-commands maintenance schedule *)
  Theorem inv_sched fuel s d d' c : Inv d -> run_sched fuel (enc_prog sg) s d = Ok (d', c) -> Inv d'.
  Proof. apply (run_sched_inv (enc_prog sg) Inv). intros rs d0 d1 c0. apply inv_ruleset. Qed.

End Inv.
