(** C16: the regenerated [DisplacedTable::timestamp_bounds] / [fast_subset] (gen/TableFns.v, from
    uf/mod.rs) meet their specification for EVERY library binary search that satisfies its
    documented contract, and the specification is exact in every reachable state. *)
From Coq Require Import List Arith PeanoNat Bool Sorted Lia.
Import ListNotations.
Require Import Verif.Base.Res Verif.Table.Model Verif.Table.MapSpec Verif.Table.Displaced.
Require Verif.gen.TableFns.

Definition TsSorted (l : list (nat * nat)) : Prop := StronglySorted le (map snd l).

(** in a sorted vector a down-closed predicate holds exactly on a prefix *)
Lemma filter_prefix (f : nat * nat -> bool) : forall l, TsSorted l ->
  (forall x y, snd x <= snd y -> f y = true -> f x = true) ->
  forall j p, nth_error l j = Some p -> (j < length (filter f l) <-> f p = true).
Proof.
  induction l as [|a tl IH]; intros HS Hf j p Hn; [destruct j; discriminate|].
  inversion HS as [|? ? HS' Hall]; subst. rewrite Forall_forall in Hall. simpl.
  destruct (f a) eqn:Ea.
  - destruct j as [|j]; simpl in *.
    + inversion Hn; subst p. split; [auto|lia].
    + rewrite <- (IH HS' Hf j p Hn). lia.
  - assert (Hnone : forall x, In x tl -> f x = false).
    { intros x Hx. destruct (f x) eqn:Ex; auto.
      rewrite (Hf a x) in Ea; [discriminate| |exact Ex]. apply Hall. apply in_map. exact Hx. }
    assert (E : filter f tl = []).
    { clear - Hnone. induction tl as [|x tl IH]; simpl; auto. rewrite (Hnone x) by (simpl; auto).
      apply IH. intros y Hy. apply Hnone. simpl. auto. }
    rewrite E. simpl. destruct j as [|j]; simpl in Hn.
    + inversion Hn; subst p. rewrite Ea. split; [lia|discriminate].
    + apply nth_error_In in Hn. rewrite (Hnone p Hn). split; [lia|discriminate].
Qed.

Lemma count_part l v j p : TsSorted l -> nth_error l j = Some p ->
  (j < count_lt v l <-> snd p < v) /\ (j < count_le v l <-> snd p <= v).
Proof.
  intros HS Hn. unfold count_lt, count_le. split.
  - etransitivity; [apply (filter_prefix (fun p => snd p <? v) l HS); [|exact Hn]|apply Nat.ltb_lt].
    intros x y Hxy Hy. apply Nat.ltb_lt in Hy. apply Nat.ltb_lt. lia.
  - etransitivity; [apply (filter_prefix (fun p => snd p <=? v) l HS); [|exact Hn]|apply Nat.leb_le].
    intros x y Hxy Hy. apply Nat.leb_le in Hy. apply Nat.leb_le. lia.
Qed.

Lemma count_lt_le l v : count_lt v l <= count_le v l /\ count_le v l <= length l.
Proof.
  unfold count_lt, count_le. induction l as [|a tl IH]; simpl; [lia|].
  destruct (Nat.ltb_spec (snd a) v); destruct (Nat.leb_spec (snd a) v); simpl; lia.
Qed.

Definition tb_spec (l : list (nat * nat)) (v : nat) : rres (nat * nat) nat :=
  if count_lt v l <? count_le v l then ROk (count_lt v l, count_le v l) else RErr (count_lt v l).

Section Loops.
Variables (l : list (nat * nat)) (v : nat).
Hypothesis HS : TsSorted l.
Let lo := count_lt v l.
Let hi := count_le v l.

Lemma in_range j p : nth_error l j = Some p -> (lo <= j < hi <-> snd p = v).
Proof. intros H. destruct (count_part l v j p HS H). subst lo hi. lia. Qed.

Lemma loop1_spec : forall fuel off next, lo <= off -> off <= hi -> off - lo < fuel ->
  TableFns.timestamp_bounds_loop1 fuel l v off next = Ok lo.
Proof.
  pose proof (count_lt_le l v) as (Hlh & Hlen). fold lo hi in Hlh, Hlen.
  induction fuel as [|fuel IH]; intros off next H1 H2 H3; [lia|]. simpl.
  destruct (Nat.ltb_spec 0 off) as [Hpos|Hz]; [|f_equal; lia].
  unfold usub. destruct (Nat.leb_spec 1 off) as [_|]; [|lia]. cbn [bind].
  assert (Hlt : off - 1 < length l) by lia.
  rewrite (idx_ok l (off - 1) (0, 0) Hlt). cbn [bind].
  pose proof (in_range (off - 1) _ (nth_error_nth' l (0, 0) Hlt)) as Hr.
  destruct (Nat.eqb_spec (snd (nth (off - 1) l (0, 0))) v) as [E|N].
  - apply IH; lia.
  - f_equal. destruct (Nat.eq_dec off lo); [auto|]. exfalso. apply N. apply Hr. lia.
Qed.

Lemma loop2_spec : forall fuel off next, lo <= next -> next <= hi -> hi - next < fuel ->
  TableFns.timestamp_bounds_loop2 fuel l v off next = Ok hi.
Proof.
  pose proof (count_lt_le l v) as (Hlh & Hlen). fold lo hi in Hlh, Hlen.
  induction fuel as [|fuel IH]; intros off next H1 H2 H3; [lia|]. simpl.
  destruct (Nat.ltb_spec next (length l)) as [Hlt|Hge]; [|f_equal; lia].
  rewrite (idx_ok l next (0, 0) Hlt). cbn [bind].
  pose proof (in_range next _ (nth_error_nth' l (0, 0) Hlt)) as Hr.
  destruct (Nat.eqb_spec (snd (nth next l (0, 0))) v) as [E|N].
  - apply IH; [lia| |lia]. apply Hr in E. lia.
  - f_equal. destruct (Nat.eq_dec next hi); [auto|]. exfalso. apply N. apply Hr. lia.
Qed.

(** the regenerated [timestamp_bounds] never panics and returns Ok(#{ts<v}, #{ts<=v}) when the
    value occurs, else Err(#{ts<v}) -- whichever match the library binary search reports *)
Theorem timestamp_bounds_spec bs fuel : bs_contract bs -> length l < fuel ->
  TableFns.timestamp_bounds bs fuel l v = Ok (tb_spec l v).
Proof.
  intros Hbs Hfuel. pose proof (count_lt_le l v) as (Hlh & Hlen). fold lo hi in Hlh, Hlen.
  unfold TableFns.timestamp_bounds, tb_spec. fold lo hi.
  pose proof (Hbs (map snd l) v HS) as Hc. destruct (bs (map snd l) v) as [off|i].
  - rewrite nth_error_map in Hc. destruct (nth_error l off) as [p|] eqn:Ep; [|discriminate].
    assert (Ev : snd p = v) by (simpl in Hc; congruence). pose proof (proj2 (in_range off p Ep) Ev) as Hr.
    cbv zeta. rewrite (loop1_spec fuel off off) by lia. cbn [bind].
    rewrite (loop2_spec fuel lo off) by lia. cbn [bind].
    destruct (Nat.ltb_spec lo hi); [reflexivity|lia].
  - destruct Hc as (Hi & Hj). rewrite map_length in Hi.
    assert (Hkey : forall j p, nth_error l j = Some p -> (j < i -> snd p < v) /\ (i <= j -> v < snd p)).
    { intros j p Hn. apply Hj. rewrite nth_error_map, Hn. reflexivity. }
    assert (Elo : lo = i).
    { destruct (Nat.lt_trichotomy lo i) as [H|[H|H]]; auto; exfalso.
      - assert (Hl : lo < length l) by lia. pose proof (nth_error_nth' l (0, 0) Hl) as Hn.
        destruct (Hkey _ _ Hn) as (A & _). destruct (count_part l v _ _ HS Hn) as (B & _). fold lo in B. lia.
      - assert (Hl : i < length l) by lia. pose proof (nth_error_nth' l (0, 0) Hl) as Hn.
        destruct (Hkey _ _ Hn) as (_ & A). destruct (count_part l v _ _ HS Hn) as (B & _). fold lo in B. lia. }
    assert (Ehi : hi = i).
    { destruct (Nat.lt_trichotomy hi i) as [H|[H|H]]; auto; exfalso.
      - assert (Hl : hi < length l) by lia. pose proof (nth_error_nth' l (0, 0) Hl) as Hn.
        destruct (Hkey _ _ Hn) as (A & _). destruct (count_part l v _ _ HS Hn) as (_ & B). fold hi in B. lia.
      - assert (Hl : i < length l) by lia. pose proof (nth_error_nth' l (0, 0) Hl) as Hn.
        destruct (Hkey _ _ Hn) as (_ & A). destruct (count_part l v _ _ HS Hn) as (_ & B). fold hi in B. lia. }
    destruct (Nat.ltb_spec lo hi); [lia|]. rewrite Elo. reflexivity.
Qed.
End Loops.

(** the regenerated [fast_subset] of the DisplacedTable is the specification [dfast_spec] *)
Theorem dfast_with_spec bs d cn : bs_contract bs -> TsSorted (disp d) ->
  dfast_with bs d cn = Ok (dfast_spec d cn).
Proof.
  intros Hbs HS. unfold dfast_with, TableFns.displaced_fast_subset, dfast_spec. cbv zeta.
  pose proof (fun v => timestamp_bounds_spec (disp d) v HS bs (S (length (disp d))) Hbs (Nat.lt_succ_diag_r _)) as Htb.
  pose proof (fun v => count_lt_le (disp d) v) as Hle.
  destruct cn as [a b|cl v|cl v|cl v|cl v|cl v]; try reflexivity.
  - destruct cl as [|[|cl]]; simpl.
    + destruct (assoc (lut d) v); [rewrite Nat.add_1_r|]; reflexivity.
    + reflexivity.
    + rewrite Htb. unfold tb_spec. cbn [bind].
      destruct (count_lt v (disp d) <? count_le v (disp d)); reflexivity.
  - destruct cl as [|[|[|cl]]]; simpl; try reflexivity. rewrite Htb. unfold tb_spec. cbn [bind].
    destruct (count_lt v (disp d) <? count_le v (disp d)); reflexivity.
  - destruct cl as [|[|[|cl]]]; simpl; try reflexivity. rewrite Htb. unfold tb_spec. cbn [bind].
    destruct (Nat.ltb_spec (count_lt v (disp d)) (count_le v (disp d))); [reflexivity|].
    specialize (Hle v). do 3 f_equal. lia.
  - destruct cl as [|[|[|cl]]]; simpl; try reflexivity. rewrite Htb. unfold tb_spec. cbn [bind].
    destruct (Nat.ltb_spec (count_lt v (disp d)) (count_le v (disp d))); [reflexivity|].
    specialize (Hle v). do 3 f_equal. lia.
  - destruct cl as [|[|[|cl]]]; simpl; try reflexivity. rewrite Htb. unfold tb_spec. cbn [bind].
    destruct (count_lt v (disp d) <? count_le v (disp d)); reflexivity.
Qed.

(** constraints on existing columns (0: displaced id, 1: canonical id, 2: timestamp) *)
Definition cn_cols_ok (cn : constr) : Prop :=
  match cn with CEq l r => l < 3 /\ r < 3 | CEqC c _ | CLt c _ | CGt c _ | CLe c _ | CGe c _ => c < 3 end.

(** the specification is exact: the dense range holds exactly the rows satisfying the constraint *)
Theorem dfast_spec_exact d s cn lo hi : DRel d s -> TsSorted (disp d) -> cn_cols_ok cn ->
  dfast_spec d cn = Some (lo, hi) ->
  forall i k ts canon, nth_error (disp d) i = Some (k, ts) ->
    (lo <= i < hi <-> eval_c cn [k; canon; ts] = true).
Proof.
  intros (_ & _ & HL & HD & _) HS Hok Hf i k ts canon Hn.
  assert (Hi : i < length (disp d)) by (apply nth_error_Some; congruence).
  destruct (count_part (disp d)) with (v := 0) (j := i) (p := (k, ts)) as (_ & _); auto.
  assert (Hp : forall v, (i < count_lt v (disp d) <-> ts < v) /\ (i < count_le v (disp d) <-> ts <= v)).
  { intros v. apply (count_part (disp d) v i (k, ts) HS Hn). }
  unfold dfast_spec in Hf. destruct cn as [a b|cl v|cl v|cl v|cl v|cl v]; simpl in Hok; try discriminate.
  - destruct cl as [|[|[|cl]]]; try discriminate; try lia; unfold eval_c, col; simpl.
    + specialize (HL v). specialize (HD i k ts Hn). destruct (assoc (lut d) v) as [i0|] eqn:Ea.
      * inversion Hf; subst lo hi. destruct HL as (ts0 & Hn0 & _). rewrite Nat.eqb_eq. split.
        -- intros H. assert (i = i0) by lia. subst i0. congruence.
        -- intros E. subst v. assert (i0 = i) by congruence. lia.
      * inversion Hf; subst lo hi. rewrite Nat.eqb_eq. split; [lia|]. intros E. subst v. congruence.
    + destruct (count_lt v (disp d) <? count_le v (disp d)); [|discriminate]. inversion Hf; subst lo hi.
      rewrite Nat.eqb_eq. specialize (Hp v). lia.
  - destruct cl as [|[|[|cl]]]; try discriminate; try lia. inversion Hf; subst lo hi.
    unfold eval_c, col; simpl nth. rewrite Nat.ltb_lt. specialize (Hp v). lia.
  - destruct cl as [|[|[|cl]]]; try discriminate; try lia. inversion Hf; subst lo hi.
    unfold eval_c, col; simpl nth. rewrite Nat.ltb_lt. specialize (Hp v). lia.
  - destruct cl as [|[|[|cl]]]; try discriminate; try lia. inversion Hf; subst lo hi.
    unfold eval_c, col; simpl nth. rewrite Nat.leb_le. specialize (Hp v). lia.
  - destruct cl as [|[|[|cl]]]; try discriminate; try lia. inversion Hf; subst lo hi.
    unfold eval_c, col; simpl nth. rewrite Nat.leb_le. specialize (Hp v). lia.
Qed.

(** ** the timestamp vector is sorted in every reachable state *)
Lemma TsSorted_snoc l c ts : TsSorted l -> ~ ts < snd (last l (0, 0)) -> TsSorted (l ++ [(c, ts)]).
Proof.
  unfold TsSorted. induction l as [|a tl IH]; intros HS Hl; simpl.
  - constructor; constructor.
  - inversion HS as [|? ? HS' Hall]; subst. constructor.
    + apply IH; auto. destruct tl as [|b tl']; [simpl; lia|exact Hl].
    + rewrite map_app, Forall_app. split; auto. constructor; [|constructor]. simpl.
      destruct tl as [|b tl']; [simpl in Hl; lia|].
      rewrite Forall_forall in Hall.
      assert (Hin : In (snd (last (b :: tl') (0, 0))) (map snd (b :: tl'))).
      { apply in_map. clear. generalize b. induction tl' as [|x tl IH]; intros b0; [simpl; auto|].
        right. apply IH. }
      apply Hall in Hin. change (last (a :: b :: tl') (0, 0)) with (last (b :: tl') (0, 0)) in Hl. lia.
Qed.

Lemma dinsert_sorted d w d' : TsSorted (disp d) -> dinsert d w = Ok d' -> TsSorted (disp d').
Proof.
  intros HS H. destruct w as ((a, b), ts). unfold dinsert in H.
  repeat match goal with
  | H : bind ?x _ = Ok _ |- _ =>
      let r := fresh "r" in destruct x as [r| |]; cbn [bind] in H; try discriminate;
      repeat match goal with p : (_ * _)%type |- _ => destruct p end
  | H : (if ?c then _ else _) = Ok _ |- _ => let E := fresh "E" in destruct c eqn:E; try discriminate
  | H : Ok _ = Ok _ |- _ => inversion H; subst; clear H
  end; simpl; auto.
  apply TsSorted_snoc; auto. apply Nat.ltb_ge in E0. lia.
Qed.

Lemma dinsert_all_sorted : forall ws d d', TsSorted (disp d) -> dinsert_all d ws = Ok d' -> TsSorted (disp d').
Proof.
  induction ws as [|w tl IH]; intros d d' HS H; simpl in H.
  - inversion H; subst. auto.
  - destruct (dinsert d w) as [d1| |] eqn:E; try discriminate. cbn [bind] in H.
    eapply IH; [|exact H]. eapply dinsert_sorted; eauto.
Qed.

Theorem drun_sorted : forall ops d d', TsSorted (disp d) -> drun d ops = Ok d' -> TsSorted (disp d').
Proof.
  induction ops as [|o tl IH]; intros d d' HS H; simpl in H.
  - inversion H; subst. auto.
  - destruct (dstep d o) as [d1| |] eqn:E; try discriminate. cbn [bind] in H.
    eapply IH; [|exact H]. destruct o; simpl in E; try (inversion E; subst; simpl; auto; fail).
    + unfold dmerge in E.
      destruct (dinsert_all _ (dpend d)) as [d2| |] eqn:E2; try discriminate. cbn [bind] in E.
      inversion E; subst. simpl. eapply dinsert_all_sorted; [|exact E2]. simpl. auto.
    + inversion E; subst. simpl. constructor.
Qed.

(** statements over whole histories (pinned in Props/C16.v) *)
Theorem displaced_fast_subset_exact ops d bs cn :
  drun dempty ops = Ok d -> bs_contract bs ->
  dfast_with bs d cn = Ok (dfast_spec d cn) /\
  dfast_with bs d cn = dfast d cn /\
  (cn_cols_ok cn -> forall lo hi, dfast_spec d cn = Some (lo, hi) ->
     forall i k ts canon, nth_error (disp d) i = Some (k, ts) ->
       (lo <= i < hi <-> eval_c cn [k; canon; ts] = true)).
Proof.
  intros Hrun Hbs.
  assert (HS : TsSorted (disp d)) by (eapply drun_sorted; [|exact Hrun]; constructor).
  pose proof (drun_refines ops dempty ds_init d DRel_init Hrun) as HR.
  split; [apply dfast_with_spec; auto|]. split.
  - unfold dfast. rewrite !dfast_with_spec; auto. exact lin_bs_contract.
  - intros Hok lo hi Hf. eapply dfast_spec_exact; eauto.
Qed.
