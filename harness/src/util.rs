//! Shared helpers: PRNG (one state per run, every case replays from (seed, index)), Coq term
//! printing, small JSON helpers.
use std::fmt::Write as _;

#[derive(Clone)]
pub struct Rng(pub u64);
impl Rng {
    pub fn new(seed: u64) -> Self {
        Rng(seed.wrapping_mul(0x9E3779B97F4A7C15) ^ 0xD1B54A32D192ED03)
    }
    /// independent stream for case `index` of run `seed`
    pub fn for_case(seed: u64, index: u64) -> Self {
        let mut r = Rng::new(seed ^ index.wrapping_mul(0xA24BAED4963EE407));
        r.next();
        r
    }
    pub fn next(&mut self) -> u64 {
        self.0 = self.0.wrapping_add(0x9E3779B97F4A7C15);
        let mut z = self.0;
        z = (z ^ (z >> 30)).wrapping_mul(0xBF58476D1CE4E5B9);
        z = (z ^ (z >> 27)).wrapping_mul(0x94D049BB133111EB);
        z ^ (z >> 31)
    }
    pub fn below(&mut self, n: usize) -> usize {
        if n == 0 {
            0
        } else {
            (self.next() % n as u64) as usize
        }
    }
    pub fn range(&mut self, lo: usize, hi: usize) -> usize {
        lo + self.below(hi - lo + 1)
    }
    pub fn chance(&mut self, num: usize, den: usize) -> bool {
        self.below(den) < num
    }
    pub fn pick<'a, T>(&mut self, xs: &'a [T]) -> &'a T {
        &xs[self.below(xs.len())]
    }
}

pub fn coq_list<T>(xs: &[T], f: impl Fn(&T) -> String) -> String {
    let mut s = String::from("[");
    for (i, x) in xs.iter().enumerate() {
        if i > 0 {
            s.push_str("; ");
        }
        s.push_str(&f(x));
    }
    s.push(']');
    s
}
pub fn coq_nat_list(xs: &[usize]) -> String {
    coq_list(xs, |x| x.to_string())
}
pub fn coq_z(z: i64) -> String {
    if z < 0 {
        format!("({})%Z", z)
    } else {
        format!("{}%Z", z)
    }
}
pub fn coq_bool(b: bool) -> &'static str {
    if b {
        "true"
    } else {
        "false"
    }
}
pub fn coq_string(s: &str) -> String {
    let mut o = String::from("\"");
    for c in s.chars() {
        if c == '"' {
            o.push_str("\"\"");
        } else {
            o.push(c);
        }
    }
    o.push('"');
    o
}

/// A cases file: `Definition cases := [...]` in shards, each evaluated by one coqc.
pub struct CaseWriter {
    pub dir: std::path::PathBuf,
    pub prefix: String,
    pub header: String,
    /// name of the Coq function `case -> bool`
    pub checker: String,
    pub per_shard: usize,
    buf: Vec<String>,
    pub shards: usize,
    pub total: usize,
}
impl CaseWriter {
    pub fn new(dir: &std::path::Path, prefix: &str, header: &str, checker: &str, per_shard: usize) -> Self {
        std::fs::create_dir_all(dir).unwrap();
        // remove stale shards
        if let Ok(rd) = std::fs::read_dir(dir) {
            for e in rd.flatten() {
                let n = e.file_name().to_string_lossy().to_string();
                if n.starts_with(prefix) {
                    let _ = std::fs::remove_file(e.path());
                }
            }
        }
        CaseWriter {
            dir: dir.to_path_buf(),
            prefix: prefix.to_string(),
            header: header.to_string(),
            checker: checker.to_string(),
            per_shard,
            buf: Vec::new(),
            shards: 0,
            total: 0,
        }
    }
    pub fn push(&mut self, case_term: String) {
        self.buf.push(case_term);
        self.total += 1;
        if self.buf.len() >= self.per_shard {
            self.flush();
        }
    }
    pub fn flush(&mut self) {
        if self.buf.is_empty() {
            return;
        }
        let base = self.total - self.buf.len();
        let mut s = String::new();
        s.push_str(&self.header);
        s.push_str("\nDefinition cases := [\n");
        for (i, c) in self.buf.iter().enumerate() {
            if i > 0 {
                s.push_str(";\n");
            }
            s.push_str(c);
        }
        s.push_str("\n].\n");
        // print the indices (global numbering) of failing cases, one per line, via a list of N
        let _ = write!(
            s,
            "Definition failing := Verif.Base.Cases.failing_from {}%N {} cases.\nEval vm_compute in failing.\n",
            base, self.checker
        );
        let path = self.dir.join(format!("{}_{:03}.v", self.prefix, self.shards));
        std::fs::write(path, s).unwrap();
        self.shards += 1;
        self.buf.clear();
    }
}

pub fn json_str(s: &str) -> String {
    serde_json::to_string(s).unwrap()
}
