"""C14 configuration for bin/check."""

PAR_ENV = {"EGGLOG_PARALLEL_INTER_CONTAINER_CUTOFF": "0", "EGGLOG_PARALLEL_INTRA_CONTAINER_CUTOFF": "0"}

CFG = {
    "tier_a": ["UFSeq", "MergeArms"],
    "model_targets": ["Cont/Env.vo"],
    "proof_targets": ["Props/C14.vo"],
    "harness": [
        {"bin": "h_cont", "name": "h_cont", "sub": "cont", "prefix": "cases_cont"},
        {"bin": "h_cont", "name": "h_cont_par", "sub": "cont-par", "prefix": "cases_cont",
         "extra": ["--threads", "4"], "env": PAR_ENV},
        {"bin": "h_cont", "name": "h_cont_big", "sub": "cont-big", "extra": ["--big"]},
        {"bin": "h_cont", "name": "h_cont_big_par", "sub": "cont-big-par",
         "extra": ["--big", "--threads", "4"], "env": PAR_ENV},
    ],
    "corr_is_violation": True,
    "trusted": [],
    "theorem_backed": "",
    "link_only": "",
    "assumptions": [],
}
