"""C05 configuration for bin/check."""

CFG = {'assumptions': ['min/max/bit-or/bit-and on i64 are the modelled lattices',
                 'usize arithmetic of SchemaMath does not overflow; func_cols >= 1',
                 'the scratch row handed to the merge callback is empty (core-relations clears it after '
                 'every call)'],
 'corr_is_violation': True,
 'harness': [{'bin': 'h_egg', 'extra': ['--prop', 'C05'], 'name': 'h_egg', 'prefix': 'cases_egg'},
             {'bin': 'h_egg',
              'env': {'EGGLOG_PARALLEL_DB_LEVEL_OP_CUTOFF': '0',
                      'EGGLOG_PARALLEL_REBUILD_CUTOFF': '0',
                      'EGGLOG_PARALLEL_TABLE_OP_CUTOFF': '0'},
              'extra': ['--prop', 'C05', '--threads', '4', '--cases', '60'],
              'name': 'h_egg_par',
              'prefix': 'cases_egg'}],
 'link_only': 'the correspondence between the regenerated callback and Egg/Model.v tab_insert (same '
              'collision row: merged value + combined flag) is by inspection of the two definitions, not yet '
              'a refinement lemma; MergeFn::resolve and translate_expr_to_mergefn (frontend merge expression '
              '-> MergeFn) are not translated; set-union / set-intersect / nested function merges '
              '(containers) are exercised by the engine-side predicate only (the nested-function ARM of run '
              'is translated and its argument order proved); the parallel insertion path is covered by '
              'running the same sessions with 4 threads and cut-offs 0',
 'model_targets': ['Egg/Rules.vo'],
 'proof_targets': ['Props/C05.vo'],
 'theorem_backed': 'every collision path of core-relations/src/table/mod.rs as written now (regenerated '
                   'inventory: serial x2, parallel flush, in-batch staging) stores the MERGED row, hence '
                   'keeps the fold; staging + flush = fold over the stored value; fold algebra (permutation, '
                   'batching, idempotence), table-level: value after any write sequence = fold of the '
                   'lattice merge, order-irrelevance, batching, collisions created by rebuild go through the '
                   'merge, :no-merge conflict flag; REGENERATED bridge code (gen/SchemaFns.v): row layout '
                   'for all arities and flag values (c05_schema_layout: keys = [0,num_keys), ret < ts < '
                   'subsume pairwise distinct, inside the width, no other column); ResolvedMergeFn::run arms '
                   'Const/Old/New, AssertEq (old value kept, panic function called iff values differ), '
                   'Primitive and Function calls receive [old; new] in source order, nested calls inside-out '
                   '(c05_run_*); the merge callback for any arity / flag / merge function: merge run on (cur '
                   'value, new value, NEW timestamp), the row the table holds afterwards has the merged '
                   'value, a produced row has the incoming keys and timestamp, nothing is written when '
                   'nothing changed so the old timestamp stays (c05_callback_value, '
                   'c05_callback_changed_iff)',
 'tier_a': ['UFSeq',
            'MergeArms',
            'BridgeFns',
            'Facts.collision_sites',
            'SchemaFns.SchemaMath',
            'SchemaFns.combine_subsumed',
            'SchemaFns.to_callback',
            'SchemaFns.ResolvedMergeFn',
            'SchemaFns.run'],
 'trusted': ['translator /verif/translator: gen/UFSeq.v (union-find), gen/MergeArms.v (UnionId=min, Old, '
             'New), gen/BridgeFns.v (combine_subsumed) are regenerated from the source on every run and used '
             'by Egg/Model.v',
             'hand-written model coq/Egg/Model.v + Egg/Rules.v (naive matching, term-level commands) tied to '
             'the engine by the correspondence check h_egg (observations after every command: class vector '
             'of probe terms up to depth 3, table sizes, subsumed counts, int-valued probes)',
             'translator module x_schema.rs: gen/SchemaFns.v is regenerated from egglog-bridge/src/lib.rs on '
             'every run: SchemaMath column arithmetic (num_keys, table_columns, ret_val_col, ts_col, '
             'subsume_col) and write_table_row, SUBSUMED/NOT_SUBSUMED/combine_subsumed over N, the closure '
             'body of MergeFn::to_callback (statement by statement, mutable variables threaded), the enum '
             'ResolvedMergeFn and every arm of ResolvedMergeFn::run (structural Fixpoint; recursive calls '
             'keep the source argument order); usize +/- are unbounded N / truncated (theorems carry 1 <= '
             'func_cols); the ExecutionState is an effect log with oracle results (Egg/SchemaPrelude.v, '
             'hand-written semantics of call_external_func / stage_insert / lookup_or_insert)']}
