(** C10 — proofs about the schedule interpreter, for EVERY [step] and [holds]. *)
From Coq Require Import List Arith PeanoNat Bool Lia.
Import ListNotations.
Require Import Verif.Base.Res Verif.Sched.Syntax Verif.gen.SchedFns Verif.Sched.Algebra.

Arguments Algebra.exec : simpl never.

(** * The report algebra *)
Section ReportAlgebra.
Context {I : Type}.
Implicit Types a b c : RunReport I.

Lemma union_default_l a : RunReport_union RunReport_default a = a.
Proof. destruct a; reflexivity. Qed.

Lemma union_default_r a : RunReport_union a RunReport_default = a.
Proof.
  destruct a as [it u c]. unfold RunReport_union, RunReport_default, set_iterations, set_updated, set_can_stop; simpl.
  rewrite app_nil_r, orb_false_r, andb_true_r. reflexivity.
Qed.

Lemma union_assoc a b c :
  RunReport_union (RunReport_union a b) c = RunReport_union a (RunReport_union b c).
Proof.
  destruct a, b, c. unfold RunReport_union, set_iterations, set_updated, set_can_stop; simpl.
  rewrite app_assoc, orb_assoc, andb_assoc. reflexivity.
Qed.

Lemma updated_union a b : updated (RunReport_union a b) = updated a || updated b.
Proof. reflexivity. Qed.
Lemma can_stop_union a b : can_stop (RunReport_union a b) = can_stop a && can_stop b.
Proof. reflexivity. Qed.
Lemma iterations_union a b : iterations (RunReport_union a b) = iterations a ++ iterations b.
Proof. reflexivity. Qed.

Lemma singleton_flags (changed : I -> bool) it :
  updated (RunReport_singleton changed it) = changed it
  /\ can_stop (RunReport_singleton changed it) = negb (changed it)
  /\ iterations (RunReport_singleton changed it) = [it].
Proof. repeat split. Qed.

Theorem report_algebra :
  (forall a, RunReport_union RunReport_default a = a)
  /\ (forall a, RunReport_union a RunReport_default = a)
  /\ (forall a b c, RunReport_union (RunReport_union a b) c = RunReport_union a (RunReport_union b c))
  /\ (forall a b, updated (RunReport_union a b) = updated a || updated b)
  /\ (forall a b, can_stop (RunReport_union a b) = can_stop a && can_stop b)
  /\ (forall a b, iterations (RunReport_union a b) = iterations a ++ iterations b)
  /\ updated (@RunReport_default I) = false /\ can_stop (@RunReport_default I) = true
  /\ iterations (@RunReport_default I) = []
  /\ (forall (changed : I -> bool) it,
        updated (RunReport_singleton changed it) = changed it
        /\ can_stop (RunReport_singleton changed it) = negb (changed it)
        /\ iterations (RunReport_singleton changed it) = [it]).
Proof.
  repeat split; auto using union_default_l, union_default_r, union_assoc.
Qed.
End ReportAlgebra.

Section Laws.
Context {St R F I : Type}.
Variable step : St -> R -> St * RunReport I.
Variable holds : St -> F -> bool.

Notation exec := (exec step holds).
Notation result := (Res (St * RunReport I)).
Implicit Types s : St.
Implicit Types acc r : RunReport I.

(** * Unfolding [run_schedule] into the stand-alone loops *)
Lemma exec_run fuel s cfg : exec fuel s (Run cfg) = run_rules step holds s cfg.
Proof. reflexivity. Qed.
Lemma exec_repeat fuel s n b :
  exec fuel s (Repeat n b) = repeat_loop (fun s => exec fuel s b) n s RunReport_default.
Proof. reflexivity. Qed.
Lemma exec_saturate fuel s b :
  exec fuel s (Saturate b) = saturate_loop (fun s => exec fuel s b) fuel s RunReport_default.
Proof. reflexivity. Qed.
Lemma exec_sequence fuel s l :
  exec fuel s (Sequence l) = seq_loop (fun s x => exec fuel s x) l s RunReport_default.
Proof. reflexivity. Qed.

(** * [racc] *)
Lemma racc_default (x : result) : racc RunReport_default x = x.
Proof. destruct x as [[s r]| |]; simpl; auto. rewrite union_default_l. reflexivity. Qed.
Lemma racc_racc a b (x : result) : racc a (racc b x) = racc (RunReport_union a b) x.
Proof. destruct x as [[s r]| |]; simpl; auto. rewrite union_assoc. reflexivity. Qed.
Lemma racc_bind {A} a (x : Res A) (k : A -> result) :
  racc a (bind x k) = bind x (fun v => racc a (k v)).
Proof. destruct x; reflexivity. Qed.

Lemma bind_ext {A B} (x : Res A) (k1 k2 : A -> Res B) :
  (forall v, k1 v = k2 v) -> bind x k1 = bind x k2.
Proof. intros H. destruct x; simpl; auto. Qed.

(** * The accumulator is a prefix: each loop started with [acc] = the loop started with the
      empty report, prefixed by [acc] *)
Lemma repeat_loop_acc body n : forall s acc,
  repeat_loop body n s acc = racc acc (repeat_loop body n s RunReport_default).
Proof.
  induction n as [|n IH]; intros s acc; simpl.
  - rewrite union_default_r. reflexivity.
  - rewrite racc_bind. apply bind_ext. intros [s' rec].
    rewrite union_default_l. destruct (can_stop rec); simpl; auto.
    rewrite (IH s' (RunReport_union acc rec)), (IH s' rec), racc_racc. reflexivity.
Qed.

Lemma saturate_loop_acc body g : forall s acc,
  saturate_loop body g s acc = racc acc (saturate_loop body g s RunReport_default).
Proof.
  induction g as [|g IH]; intros s acc; simpl; auto.
  rewrite racc_bind. apply bind_ext. intros [s' rec].
  rewrite union_default_l. destruct (negb (updated rec)); simpl; auto.
  rewrite (IH s' (RunReport_union acc rec)), (IH s' rec), racc_racc. reflexivity.
Qed.

Lemma seq_loop_acc (run : St -> schedule R F -> result) l : forall s acc,
  seq_loop run l s acc = racc acc (seq_loop run l s RunReport_default).
Proof.
  induction l as [|x l IH]; intros s acc; simpl.
  - rewrite union_default_r. reflexivity.
  - rewrite racc_bind. apply bind_ext. intros [s' rec].
    rewrite union_default_l.
    rewrite (IH s' (RunReport_union acc rec)), (IH s' rec), racc_racc. reflexivity.
Qed.

(** denotational equations *)
Lemma exec_seq_nil fuel s : exec fuel s (Sequence []) = Ok (s, RunReport_default).
Proof. reflexivity. Qed.

Lemma exec_seq_cons fuel s x l :
  exec fuel s (Sequence (x :: l)) =
  bind (exec fuel s x) (fun '(s', r1) => racc r1 (exec fuel s' (Sequence l))).
Proof.
  rewrite exec_sequence. simpl. apply bind_ext. intros [s' r1].
  rewrite union_default_l, seq_loop_acc. reflexivity.
Qed.

Lemma bind_assoc {A B C} (x : Res A) (k : A -> Res B) (h : B -> Res C) :
  bind (bind x k) h = bind x (fun v => bind (k v) h).
Proof. destruct x; reflexivity. Qed.

Lemma bind_racc a (x : result) (k : St * RunReport I -> result) :
  bind (racc a x) k = bind x (fun '(s, r) => k (s, RunReport_union a r)).
Proof. destruct x as [[s r]| |]; reflexivity. Qed.

Lemma exec_seq_app fuel l1 : forall s l2,
  exec fuel s (Sequence (l1 ++ l2)) =
  bind (exec fuel s (Sequence l1)) (fun '(s', r1) => racc r1 (exec fuel s' (Sequence l2))).
Proof.
  induction l1 as [|x l1 IH]; intros s l2.
  - rewrite exec_seq_nil. simpl. rewrite racc_default. reflexivity.
  - simpl app. rewrite !exec_seq_cons, bind_assoc. apply bind_ext. intros [s' r1].
    rewrite IH, racc_bind, bind_racc. apply bind_ext. intros [s'' r2].
    rewrite racc_racc. reflexivity.
Qed.

(** * seq: unit, flattening, associativity *)
Theorem seq_unit fuel s x :
  exec fuel s (Sequence []) = Ok (s, RunReport_default)
  /\ exec fuel s (Sequence [x]) = exec fuel s x.
Proof.
  split; [reflexivity|].
  rewrite exec_seq_cons. destruct (exec fuel s x) as [[s' r]| |]; simpl; auto.
  rewrite union_default_r. reflexivity.
Qed.

Theorem seq_flatten fuel s l1 l2 l3 :
  exec fuel s (Sequence (l1 ++ Sequence l2 :: l3)) = exec fuel s (Sequence (l1 ++ l2 ++ l3)).
Proof.
  rewrite !exec_seq_app. apply bind_ext. intros [s' r1]. f_equal.
  rewrite exec_seq_cons, exec_seq_app. reflexivity.
Qed.

Theorem seq_assoc fuel s a b c :
  exec fuel s (Sequence [a; Sequence [b; c]]) = exec fuel s (Sequence [a; b; c])
  /\ exec fuel s (Sequence [Sequence [a; b]; c]) = exec fuel s (Sequence [a; b; c]).
Proof.
  split.
  - apply (seq_flatten fuel s [a] [b; c] []).
  - apply (seq_flatten fuel s [] [a; b] [c]).
Qed.

(** * run R n / :until *)
Theorem run_n_until (Hs : singleton_like step) fuel (rs : R) u n : forall s acc,
  repeat_loop (fun s => exec fuel s (Run (mkConfig rs u))) n s acc = Ok (iterate step holds rs u n s acc).
Proof.
  induction n as [|n IH]; intros s acc; simpl; auto.
  rewrite exec_run. unfold run_rules, until_holds; simpl.
  destruct (match u with Some f => holds s f | None => false end).
  - simpl. rewrite union_default_r. reflexivity.
  - specialize (Hs s rs). destruct (step s rs) as [s' rep]; simpl in *.
    rewrite union_default_l, Hs. destruct (updated rep); simpl; auto.
Qed.

Theorem run_n (Hs : singleton_like step) fuel (rs : R) n s :
  exec fuel s (Repeat n (Run (mkConfig rs None))) = Ok (iterate step holds rs None n s RunReport_default).
Proof. rewrite exec_repeat. apply run_n_until; auto. Qed.

Theorem until_spec (Hs : singleton_like step) fuel (rs : R) f n s :
  exec fuel s (Repeat n (Run (mkConfig rs (Some f)))) = Ok (iterate step holds rs (Some f) n s RunReport_default).
Proof. rewrite exec_repeat. apply run_n_until; auto. Qed.

(** holds now: no step at all, for any engine (no hypothesis on [step]) *)
Theorem until_holds_now fuel (rs : R) f n s : holds s f = true ->
  exec fuel s (Repeat n (Run (mkConfig rs (Some f)))) = Ok (s, RunReport_default).
Proof.
  intros H. rewrite exec_repeat. destruct n; simpl; auto.
  rewrite exec_run. unfold run_rules; simpl. rewrite H. simpl. reflexivity.
Qed.

(** a single leaf with :until that does not hold steps exactly once *)
Theorem until_not_yet fuel (rs : R) f s : holds s f = false ->
  exec fuel s (Run (mkConfig rs (Some f))) = Ok (step s rs).
Proof.
  intros H. rewrite exec_run. unfold run_rules; simpl. rewrite H.
  destruct (step s rs) as [s' rep]. rewrite union_default_l. reflexivity.
Qed.

(** * repeat *)
Section Repeat.
Variable body : St -> result.
Notation rep n s := (repeat_loop body n s RunReport_default).

Lemma rep_S n s :
  rep (S n) s = bind (body s) (fun '(s', r) => if can_stop r then Ok (s', r) else racc r (rep n s')).
Proof.
  simpl. apply bind_ext. intros [s' r]. rewrite union_default_l, repeat_loop_acc. reflexivity.
Qed.

(** [full n s s' r]: n executions of the body, none allowing a stop, end in s' with report r *)
Inductive full : nat -> St -> St -> RunReport I -> Prop :=
| full_O s : full 0 s s RunReport_default
| full_S n s s1 r1 s2 r2 : body s = Ok (s1, r1) -> can_stop r1 = false -> full n s1 s2 r2 ->
    full (S n) s s2 (RunReport_union r1 r2).

Lemma full_rep n s s' r : full n s s' r -> rep n s = Ok (s', r).
Proof.
  induction 1 as [s|n s s1 r1 s2 r2 Hb Hc _ IH]; [reflexivity|].
  rewrite rep_S, Hb. simpl. rewrite Hc, IH. reflexivity.
Qed.

Lemma full_can_stop n s s' r : full n s s' r -> 0 < n -> can_stop r = false.
Proof. destruct 1; intros; [lia|]. rewrite can_stop_union. rewrite H0. reflexivity. Qed.

Lemma full_split n m : forall s s2 r, full (n + m) s s2 r ->
  exists s1 r1 r2, full n s s1 r1 /\ full m s1 s2 r2 /\ r = RunReport_union r1 r2.
Proof.
  induction n as [|n IH]; intros s s2 r H; simpl in H.
  - exists s, RunReport_default, r. repeat split; auto using full_O. rewrite union_default_l. reflexivity.
  - inversion H as [|n' s' s1 r1 s2' r2 Hb Hc Hf]; subst.
    destruct (IH _ _ _ Hf) as (sm & ra & rb & H1 & H2 & ->).
    exists sm, (RunReport_union r1 ra), rb. repeat split; auto.
    + eapply full_S; eauto.
    + rewrite union_assoc. reflexivity.
Qed.
End Repeat.

Lemma no_early_stop_full fuel b n : forall s, no_early_stop step holds fuel b n s ->
  exists s' r, full (fun s => exec fuel s b) n s s' r.
Proof.
  induction n as [|n IH]; intros s H; simpl in H.
  - exists s, RunReport_default. constructor.
  - destruct H as (s1 & r1 & Hb & Hc & Hn). destruct (IH _ Hn) as (s2 & r2 & Hf).
    exists s2, (RunReport_union r1 r2). eapply full_S; eauto.
Qed.

Lemma repeat_nested_full fuel b (m : nat) : forall a s s' r,
  full (fun s => exec fuel s b) (a * m) s s' r ->
  exec fuel s (Repeat a (Repeat m b)) = Ok (s', r).
Proof.
  induction a as [|a IH]; intros s s' r H.
  - simpl in H. inversion H; subst. reflexivity.
  - rewrite exec_repeat, rep_S.
    change (S a * m) with (m + a * m) in H.
    destruct (full_split _ _ _ _ _ _ H) as (s1 & r1 & r2 & H1 & H2 & ->).
    rewrite exec_repeat, (full_rep _ _ _ _ _ H1). simpl.
    destruct m as [|m].
    + inversion H1; subst. rewrite Nat.mul_0_r in H2. inversion H2; subst. reflexivity.
    + rewrite (full_can_stop _ _ _ _ _ H1) by lia.
      rewrite <- exec_repeat, (IH _ _ _ H2). reflexivity.
Qed.

Theorem repeat_mul fuel b a m s : no_early_stop step holds fuel b (a * m) s ->
  exec fuel s (Repeat a (Repeat m b)) = exec fuel s (Repeat (a * m) b).
Proof.
  intros H. destruct (no_early_stop_full _ _ _ _ H) as (s' & r & Hf).
  rewrite (repeat_nested_full _ _ _ _ _ _ _ Hf), exec_repeat, (full_rep _ _ _ _ _ Hf). reflexivity.
Qed.

(** [Repeat 1] is the identity on schedules *)
Theorem repeat_one fuel b s : exec fuel s (Repeat 1 b) = exec fuel s b.
Proof.
  rewrite exec_repeat, rep_S. destruct (exec fuel s b) as [[s' r]| |]; simpl; auto.
  destruct (can_stop r); auto. rewrite union_default_r. reflexivity.
Qed.

(** * saturate *)
Section Saturate.
Variable body : St -> result.
Notation sat g s := (saturate_loop body g s RunReport_default).

Lemma sat_S g s :
  sat (S g) s = bind (body s) (fun '(s', r) => if negb (updated r) then Ok (s', r) else racc r (sat g s')).
Proof.
  simpl. apply bind_ext. intros [s' r]. rewrite union_default_l, saturate_loop_acc. reflexivity.
Qed.

(** if the loop returns, its last execution of the body reported no update *)
Lemma sat_last g : forall s s' r, sat g s = Ok (s', r) ->
  exists s0 r0, body s0 = Ok (s', r0) /\ updated r0 = false.
Proof.
  induction g as [|g IH]; intros s s' r H; [discriminate|].
  rewrite sat_S in H. destruct (body s) as [[s1 r1]| |] eqn:Hb; simpl in H; try discriminate.
  destruct (updated r1) eqn:Hu; simpl in H.
  - destruct (sat g s1) as [[s2 r2]| |] eqn:Hs; simpl in H; try discriminate.
    inversion H; subst. eapply IH; eauto.
  - inversion H; subst. eauto.
Qed.
End Saturate.

Theorem saturate_last fuel b s s' r : exec fuel s (Saturate b) = Ok (s', r) ->
  exists s0 r0, exec fuel s0 b = Ok (s', r0) /\ updated r0 = false.
Proof. rewrite exec_saturate. apply sat_last. Qed.

(** * Quiescence lifts from leaves to schedules *)
Definition body_q (body : St -> result) : Prop :=
  forall s s' r, body s = Ok (s', r) -> updated r = false -> s' = s.

Lemma repeat_loop_q body (Hb : body_q body) n : forall s acc s' r,
  repeat_loop body n s acc = Ok (s', r) -> updated r = false -> s' = s.
Proof.
  induction n as [|n IH]; intros s acc s' r H Hu; simpl in H.
  - inversion H; auto.
  - destruct (body s) as [[s1 r1]| |] eqn:E; simpl in H; try discriminate.
    assert (Hr1 : updated r1 = false).
    { destruct (can_stop r1).
      - inversion H; subst. rewrite updated_union in Hu. apply orb_false_elim in Hu. tauto.
      - rewrite repeat_loop_acc in H. destruct (repeat_loop body n s1 RunReport_default) as [[s2 r2]| |]; simpl in H; try discriminate.
        inversion H; subst. rewrite !updated_union in Hu. apply orb_false_elim in Hu. destruct Hu as [Hu _].
        apply orb_false_elim in Hu. tauto. }
    pose proof (Hb _ _ _ E Hr1) as ->.
    destruct (can_stop r1).
    + inversion H; auto.
    + eapply IH; eauto.
Qed.

Lemma saturate_loop_q body (Hb : body_q body) g : forall s acc s' r,
  saturate_loop body g s acc = Ok (s', r) -> updated r = false -> s' = s.
Proof.
  induction g as [|g IH]; intros s acc s' r H Hu; simpl in H; [discriminate|].
  destruct (body s) as [[s1 r1]| |] eqn:E; simpl in H; try discriminate.
  destruct (updated r1) eqn:Hr1; simpl in H.
  - exfalso. rewrite saturate_loop_acc in H.
    destruct (saturate_loop body g s1 RunReport_default) as [[s2 r2]| |]; simpl in H; try discriminate.
    inversion H; subst. rewrite !updated_union, Hr1, orb_true_r in Hu. discriminate.
  - inversion H; subst. eapply Hb; eauto.
Qed.

Lemma seq_loop_q (run : St -> schedule R F -> result) l
  (Hl : Forall (fun x => body_q (fun s => run s x)) l) : forall s acc s' r,
  seq_loop run l s acc = Ok (s', r) -> updated r = false -> s' = s.
Proof.
  induction Hl as [|x l Hx Hl IH]; intros s acc s' r H Hu; simpl in H.
  - inversion H; auto.
  - destruct (run s x) as [[s1 r1]| |] eqn:E; simpl in H; try discriminate.
    assert (Hr1 : updated r1 = false).
    { rewrite seq_loop_acc in H. destruct (seq_loop run l s1 RunReport_default) as [[s2 r2]| |]; simpl in H; try discriminate.
      inversion H; subst. rewrite !updated_union in Hu. apply orb_false_elim in Hu. destruct Hu as [Hu _].
      apply orb_false_elim in Hu. tauto. }
    pose proof (Hx _ _ _ E Hr1) as ->. eapply IH; eauto.
Qed.

(** induction principle for the nested type *)
Lemma schedule_ind' (P : schedule R F -> Prop)
  (Hsat : forall b, P b -> P (Saturate b))
  (Hrep : forall n b, P b -> P (Repeat n b))
  (Hrun : forall c, P (Run c))
  (Hseq : forall l, Forall P l -> P (Sequence l)) : forall x, P x.
Proof.
  fix IH 1. intros [b|n b|c|l].
  - apply Hsat, IH.
  - apply Hrep, IH.
  - apply Hrun.
  - apply Hseq. induction l as [|x l IHl]; constructor; [apply IH|apply IHl].
Qed.

Theorem exec_quiescent (Hq : quiescent step) fuel : forall x s s' r,
  exec fuel s x = Ok (s', r) -> updated r = false -> s' = s.
Proof.
  induction x as [b IH|n b IH|c|l IH] using schedule_ind'; intros s s' r H Hu.
  - rewrite exec_saturate in H. eapply saturate_loop_q; eauto. exact IH.
  - rewrite exec_repeat in H. eapply repeat_loop_q; eauto. exact IH.
  - rewrite exec_run in H. unfold run_rules in H.
    destruct (match until c with Some f => holds s f | None => false end).
    + inversion H; auto.
    + specialize (Hq s (ruleset c)). destruct (step s (ruleset c)) as [s1 r1]; simpl in *.
      inversion H; subst. rewrite union_default_l in Hu. auto.
  - rewrite exec_sequence in H.
    eapply (seq_loop_q (fun s x => exec fuel s x) l); [exact IH|exact H|exact Hu].
Qed.

(** * Fuel is only a bound: a run that returns keeps its result under any larger fuel *)
Definition body_le (b1 b2 : St -> result) : Prop := forall s x, b1 s = Ok x -> b2 s = Ok x.

Lemma repeat_loop_mono b1 b2 (Hb : body_le b1 b2) n : forall s acc x,
  repeat_loop b1 n s acc = Ok x -> repeat_loop b2 n s acc = Ok x.
Proof.
  induction n as [|n IH]; intros s acc x H; simpl in *; auto.
  destruct (b1 s) as [[s1 r1]| |] eqn:E; simpl in H; try discriminate.
  rewrite (Hb _ _ E). simpl. destruct (can_stop r1); auto.
Qed.

Lemma saturate_loop_mono b1 b2 (Hb : body_le b1 b2) g : forall g' s acc x, g <= g' ->
  saturate_loop b1 g s acc = Ok x -> saturate_loop b2 g' s acc = Ok x.
Proof.
  induction g as [|g IH]; intros g' s acc x Hg H; simpl in H; [discriminate|].
  destruct g' as [|g']; [lia|]. simpl.
  destruct (b1 s) as [[s1 r1]| |] eqn:E; simpl in H; try discriminate.
  rewrite (Hb _ _ E). simpl. destruct (negb (updated r1)); auto. apply IH; auto. lia.
Qed.

Lemma seq_loop_mono (run1 run2 : St -> schedule R F -> result) l
  (Hl : Forall (fun x => body_le (fun s => run1 s x) (fun s => run2 s x)) l) : forall s acc x,
  seq_loop run1 l s acc = Ok x -> seq_loop run2 l s acc = Ok x.
Proof.
  induction Hl as [|y l Hy Hl IH]; intros s acc x H; simpl in *; auto.
  destruct (run1 s y) as [[s1 r1]| |] eqn:E; simpl in H; try discriminate.
  rewrite (Hy _ _ E). simpl. auto.
Qed.

Theorem fuel_mono fuel fuel' (Hf : fuel <= fuel') : forall x s res,
  exec fuel s x = Ok res -> exec fuel' s x = Ok res.
Proof.
  induction x as [b IH|n b IH|c|l IH] using schedule_ind'; intros s res H.
  - rewrite exec_saturate in *. eapply saturate_loop_mono; eauto. exact IH.
  - rewrite exec_repeat in *. eapply repeat_loop_mono; eauto. exact IH.
  - exact H.
  - rewrite exec_sequence in *.
    eapply (seq_loop_mono (fun s x => exec fuel s x) (fun s x => exec fuel' s x)); [exact IH|exact H].
Qed.

(** * saturate: fixpoint and idempotence *)
Theorem saturate_fix (Hq : quiescent step) fuel b s s' r :
  exec fuel s (Saturate b) = Ok (s', r) ->
  exists r', exec fuel s' b = Ok (s', r') /\ updated r' = false.
Proof.
  intros H. destruct (saturate_last _ _ _ _ _ H) as (s0 & r0 & Hb & Hu).
  pose proof (exec_quiescent Hq _ _ _ _ _ Hb Hu) as <-. eauto.
Qed.

Theorem saturate_idem (Hq : quiescent step) fuel b s s' r :
  exec fuel s (Saturate b) = Ok (s', r) ->
  exists r', exec fuel s' (Saturate b) = Ok (s', r') /\ updated r' = false
             /\ exec fuel s (Sequence [Saturate b; Saturate b]) = Ok (s', RunReport_union r r').
Proof.
  intros H. destruct (saturate_fix Hq _ _ _ _ _ H) as (r' & Hb & Hu).
  assert (H2 : exec fuel s' (Saturate b) = Ok (s', r')).
  { rewrite exec_saturate. destruct fuel as [|g]; [rewrite exec_saturate in H; discriminate|].
    rewrite sat_S, Hb. simpl. rewrite Hu. reflexivity. }
  exists r'. repeat split; auto.
  rewrite exec_seq_cons, H. simpl. rewrite exec_seq_cons, H2. simpl. rewrite union_default_r. reflexivity.
Qed.
End Laws.

(** [step_rules] built by [RunReport::singleton] is singleton-like, whatever the backend does *)
Lemma step_of_singleton_like {St R I} (backend_run : St -> R -> St * I) (changed : I -> bool) :
  singleton_like (step_of backend_run changed).
Proof. intros s r. unfold step_of. destruct (backend_run s r). reflexivity. Qed.

(** * Combined rulesets are resolved against the table passed at run time *)
Lemma push_all_ok (rules : list nat) : forall ids,
  (fix for_each (items : list nat) (ids : list nat) {struct items} : Res (list nat) :=
     match items with
     | [] => Ok ids
     | id :: items => let ids := ids ++ [id] in for_each items ids
     end) rules ids = Ok (ids ++ rules).
Proof.
  induction rules as [|x l IH]; intros ids; simpl.
  - rewrite app_nil_r. reflexivity.
  - rewrite IH, <- app_assoc. reflexivity.
Qed.

Theorem collect_sound fuel : forall name m acc ids,
  collect_rule_ids fuel name m acc = Ok ids ->
  exists ms, members m name ms /\ ids = acc ++ ms.
Proof.
  induction fuel as [|fuel IH]; intros name m acc ids H; simpl in H; [discriminate|].
  destruct (assoc_get m name) as [[rules|subs]|] eqn:E; try discriminate.
  - rewrite push_all_ok in H. inversion H; subst. exists rules. split; auto. constructor; auto.
  - assert (Hl : forall l acc ids,
      (fix for_each (items : list nat) (ids : list nat) {struct items} : Res (list nat) :=
         match items with
         | [] => Ok ids
         | sub_ruleset :: items =>
             bind (collect_rule_ids fuel sub_ruleset m ids) (fun ids => for_each items ids)
         end) l acc = Ok ids -> exists ms, members_list m l ms /\ ids = acc ++ ms).
    { induction l as [|x l IHl]; intros acc0 ids0 H0.
      - inversion H0; subst. exists []. split; [constructor|]. rewrite app_nil_r. reflexivity.
      - destruct (collect_rule_ids fuel x m acc0) as [ids1| |] eqn:E1; simpl in H0; try discriminate.
        destruct (IH _ _ _ _ E1) as (ms1 & Hm1 & ->).
        destruct (IHl _ _ H0) as (ms2 & Hm2 & ->).
        exists (ms1 ++ ms2). split; [constructor; auto|]. rewrite app_assoc. reflexivity. }
    destruct (Hl _ _ _ H) as (ms & Hm & ->). exists ms. split; auto.
    eapply members_combined; eauto.
Qed.

(** the members of a combined ruleset of plain rulesets are the concatenation of the rules
    currently stored for its sub-rulesets *)
Lemma members_list_plain m subs : forall ids, members_list m subs ids ->
  (forall x, In x subs -> exists l, assoc_get m x = Some (Rules l)) ->
  ids = concat (map (fun x => match assoc_get m x with Some (Rules l) => l | _ => [] end) subs).
Proof.
  induction subs as [|x l IH]; intros ids H Hp; inversion H; subst; simpl; auto.
  destruct (Hp x (or_introl eq_refl)) as (lx & Ex). rewrite Ex.
  f_equal.
  - match goal with Hm : members m x _ |- _ => inversion Hm; subst end; congruence.
  - apply IH; auto. intros y Hy. apply Hp. right. exact Hy.
Qed.

Theorem combined_current fuel m c subs ids :
  assoc_get m c = Some (Combined subs) ->
  (forall x, In x subs -> exists l, assoc_get m x = Some (Rules l)) ->
  collect_rule_ids fuel c m [] = Ok ids ->
  ids = concat (map (fun x => match assoc_get m x with Some (Rules l) => l | _ => [] end) subs).
Proof.
  intros Hc Hp H. destruct (collect_sound _ _ _ _ _ H) as (ms & Hm & ->). simpl.
  inversion Hm; subst; try congruence.
  match goal with H1 : assoc_get m c = Some (Combined ?s) |- _ => rewrite Hc in H1; inversion H1; subst end.
  eapply members_list_plain; eauto.
Qed.
