(** Executable support for the definitions generated into gen/SchemaFns.v (translator module
    x_schema.rs): table rows of the bridge as [list N] ([Value]s by their representation),
    indexing / in-place update / [resize_with] with Rust's panics as [Panic], the struct
    [SchemaMath], and the effect log of an [ExecutionState] as far as the merge functions use it. *)
From Coq Require Import List Arith PeanoNat NArith Bool Lia.
Import ListNotations.
Require Import Verif.Base.Res.
Local Open Scope N_scope.

(** [struct SchemaMath { subsume: bool, func_cols: usize }] *)
Record SchemaMath := mkSchemaMath { sm_subsume : bool; sm_func_cols : N }.

(** [row[i]] *)
Definition rget (row : list N) (i : N) : Res N :=
  match nth_error row (N.to_nat i) with
  | Some v => Ok v
  | None => Panic
  end.

(** [row[i] = v] *)
Definition rset (row : list N) (i : N) (v : N) : Res (list N) :=
  if Nat.ltb (N.to_nat i) (length row) then Ok (set_nth row (N.to_nat i) v) else Panic.

(** [row.resize_with(n, || v.clone())] : truncate or pad with [v] *)
Definition resize_with (row : list N) (n : N) (v : N) : list N :=
  firstn (N.to_nat n) row ++ repeat v (Nat.sub (N.to_nat n) (length row)).

(** [cond.then(|| e)] is emitted as [if cond then bind e (fun x => Ok (Some x)) else Ok None] *)

(** what a merge function does to the [ExecutionState]: calls of external functions (the panic
    functions registered by [EGraph::new_panic] among them), staged inserts, table lookups *)
Inductive effect :=
| ECall (f : N) (args : list N)        (* state.call_external_func(f, args) *)
| EStage (t : N) (row : list N)        (* state.stage_insert(t, row) *)
| ELookup (t : N) (args : list N).     (* func.lookup_or_insert(state, args) *)

(** the environment a merge function runs in: results of external functions and of lookups
    (oracles; the theorems quantify over them) *)
Record menv := mkMenv {
  ext_call : N -> list N -> option N;
  tab_lookup_or_insert : N -> list N -> option N
}.

(** [state.call_external_func(f, args)] : the call is logged, the oracle gives the result *)
Definition State_call_external_func (env : menv) (state : list effect) (f : N) (args : list N)
  : Res (option N * list effect) := Ok (ext_call env f args, state ++ [ECall f args]).

(** [state.stage_insert(t, row)] *)
Definition State_stage_insert (state : list effect) (t : N) (row : list N)
  : Res (unit * list effect) := Ok (tt, state ++ [EStage t row]).

(** [func.lookup_or_insert(state, args)] *)
Definition TableAction_lookup_or_insert (env : menv) (func : N) (state : list effect) (args : list N)
  : Res (option N * list effect) := Ok (tab_lookup_or_insert env func args, state ++ [ELookup func args]).

(* ---- basic facts ---- *)

Lemma rget_ok row i d : (N.to_nat i < length row)%nat -> rget row i = Ok (nth (N.to_nat i) row d).
Proof.
  intros H. unfold rget. destruct (nth_error row (N.to_nat i)) eqn:E.
  - f_equal. symmetry. apply nth_error_nth. exact E.
  - apply nth_error_None in E. lia.
Qed.

Lemma rset_ok row i v : (N.to_nat i < length row)%nat -> rset row i v = Ok (set_nth row (N.to_nat i) v).
Proof. intros H. unfold rset. apply Nat.ltb_lt in H. rewrite H. reflexivity. Qed.

Lemma length_resize_with row n v : length (resize_with row n v) = N.to_nat n.
Proof.
  unfold resize_with. rewrite app_length, firstn_length, repeat_length. lia.
Qed.

Lemma resize_with_same row n v : length row = N.to_nat n -> resize_with row n v = row.
Proof.
  intros H. unfold resize_with. rewrite <- H, firstn_all, Nat.sub_diag. simpl. apply app_nil_r.
Qed.
