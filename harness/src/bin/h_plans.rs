//! C02: a rule run fires for exactly the set of matches of its body.
//!
//! (a) executor-vs-spec differential test on the REAL engine: generated conjunctive queries (chains,
//!     stars, cycles, cliques, repeated variables within and across atoms, constants, column
//!     constraints, functional-dependency duplicates; 1-6 atoms over 1-4 relations of arity 1-4) on
//!     several data distributions, run through `egglog_core_relations` (`Database`,
//!     `RuleSetBuilder`/`QueryBuilder`) with every `PlanStrategy` and tree decomposition on/off, with
//!     an action inserting the bound variables into an output table; the output set is compared with
//!     a naive nested-loop matcher (the predicate on the implementation). The same through egglog
//!     text (`(rule (...) ((Out ..)) [:no-decomp])` + `(run 1)`).
//! (b) hook H1: every compiled `Plan` is dumped; every single-bag plan is written, with the query
//!     the harness built, as a Coq term whose checker is `plan_ok` (coq/Query/PlanOk.v) — a
//!     per-instance obligation that, by `c02_plan_sound`, certifies the plan for all databases and
//!     all run-time stage orders. Decomposed plans are counted as uncertified (link-only).
use egglog_core_relations::{
    ColumnId, Constraint, Database, PlanStrategy, QueryEntry, RuleSetBuilder, SortedWritesTable, Value,
};
use egglog_numeric_id::NumericId;
use egglog_reports::ReportLevel;
use serde_json::{json, Value as J};
use std::collections::{BTreeMap, BTreeSet, HashSet};
use verif_harness::util::*;
use verif_harness::Opts;

#[derive(Clone, Debug, PartialEq, Eq, Hash)]
enum Arg {
    Var(usize),
    Const(u32),
}

#[derive(Clone, Debug, PartialEq, Eq, Hash)]
enum Cs {
    EqConst(usize, u32),
    LtConst(usize, u32),
    GtConst(usize, u32),
    LeConst(usize, u32),
    GeConst(usize, u32),
}

impl Cs {
    fn holds(&self, r: &[u32]) -> bool {
        match *self {
            Cs::EqConst(c, k) => r[c] == k,
            Cs::LtConst(c, k) => r[c] < k,
            Cs::GtConst(c, k) => r[c] > k,
            Cs::LeConst(c, k) => r[c] <= k,
            Cs::GeConst(c, k) => r[c] >= k,
        }
    }
    fn coq(&self) -> String {
        match *self {
            Cs::EqConst(c, k) => format!("CEqConst {c} {k}"),
            Cs::LtConst(c, k) => format!("CLtConst {c} {k}"),
            Cs::GtConst(c, k) => format!("CGtConst {c} {k}"),
            Cs::LeConst(c, k) => format!("CLeConst {c} {k}"),
            Cs::GeConst(c, k) => format!("CGeConst {c} {k}"),
        }
    }
    fn json(&self) -> J {
        match *self {
            Cs::EqConst(c, k) => json!(["EqConst", c, k]),
            Cs::LtConst(c, k) => json!(["LtConst", c, k]),
            Cs::GtConst(c, k) => json!(["GtConst", c, k]),
            Cs::LeConst(c, k) => json!(["LeConst", c, k]),
            Cs::GeConst(c, k) => json!(["GeConst", c, k]),
        }
    }
    fn from_json(j: &J) -> Cs {
        let a = j.as_array().unwrap();
        let c = a[1].as_u64().unwrap() as usize;
        let k = a[2].as_u64().unwrap() as u32;
        match a[0].as_str().unwrap() {
            "EqConst" => Cs::EqConst(c, k),
            "LtConst" => Cs::LtConst(c, k),
            "GtConst" => Cs::GtConst(c, k),
            "LeConst" => Cs::LeConst(c, k),
            _ => Cs::GeConst(c, k),
        }
    }
    fn engine(&self) -> Constraint {
        let col = |c: usize| ColumnId::from_usize(c);
        match *self {
            Cs::EqConst(c, k) => Constraint::EqConst { col: col(c), val: Value::new(k) },
            Cs::LtConst(c, k) => Constraint::LtConst { col: col(c), val: Value::new(k) },
            Cs::GtConst(c, k) => Constraint::GtConst { col: col(c), val: Value::new(k) },
            Cs::LeConst(c, k) => Constraint::LeConst { col: col(c), val: Value::new(k) },
            Cs::GeConst(c, k) => Constraint::GeConst { col: col(c), val: Value::new(k) },
        }
    }
}

#[derive(Clone, Debug, PartialEq, Eq, Hash)]
struct AtomD {
    table: usize,
    args: Vec<Arg>,
    cs: Vec<Cs>,
}

#[derive(Clone, Debug, PartialEq, Eq, Hash)]
struct TableD {
    arity: usize,
    n_keys: usize,
    sorted: bool, // sort_by = last column; rows arrive in batches of increasing value
    rows: Vec<Vec<u32>>,
}

#[derive(Clone, Debug, PartialEq, Eq, Hash)]
struct Case {
    tables: Vec<TableD>,
    atoms: Vec<AtomD>,
    nvars: usize,
    out: Vec<usize>,
    shape: String,
    dist: String,
}

#[derive(Clone, Copy, Debug, PartialEq, Eq, Hash)]
enum Strat {
    Gj,
    PureSize,
    MinCover,
}
impl Strat {
    fn name(&self) -> &'static str {
        match self {
            Strat::Gj => "Gj",
            Strat::PureSize => "PureSize",
            Strat::MinCover => "MinCover",
        }
    }
    fn from(s: &str) -> Strat {
        match s {
            "PureSize" => Strat::PureSize,
            "MinCover" => Strat::MinCover,
            _ => Strat::Gj,
        }
    }
    fn engine(&self) -> PlanStrategy {
        match self {
            Strat::Gj => PlanStrategy::Gj,
            Strat::PureSize => PlanStrategy::PureSize,
            Strat::MinCover => PlanStrategy::MinCover,
        }
    }
}

impl Case {
    fn json(&self) -> J {
        json!({
            "tables": self.tables.iter().map(|t| json!({"arity": t.arity, "n_keys": t.n_keys, "sorted": t.sorted, "rows": t.rows})).collect::<Vec<_>>(),
            "atoms": self.atoms.iter().map(|a| json!({
                "table": a.table,
                "args": a.args.iter().map(|g| match g { Arg::Var(x) => json!(["v", x]), Arg::Const(k) => json!(["c", k]) }).collect::<Vec<_>>(),
                "cs": a.cs.iter().map(|c| c.json()).collect::<Vec<_>>()})).collect::<Vec<_>>(),
            "nvars": self.nvars, "out": self.out, "shape": self.shape, "dist": self.dist,
        })
    }
    fn from_json(j: &J) -> Case {
        Case {
            tables: j["tables"]
                .as_array()
                .unwrap()
                .iter()
                .map(|t| TableD {
                    arity: t["arity"].as_u64().unwrap() as usize,
                    n_keys: t["n_keys"].as_u64().unwrap() as usize,
                    sorted: t["sorted"].as_bool().unwrap_or(false),
                    rows: t["rows"]
                        .as_array()
                        .unwrap()
                        .iter()
                        .map(|r| r.as_array().unwrap().iter().map(|v| v.as_u64().unwrap() as u32).collect())
                        .collect(),
                })
                .collect(),
            atoms: j["atoms"]
                .as_array()
                .unwrap()
                .iter()
                .map(|a| AtomD {
                    table: a["table"].as_u64().unwrap() as usize,
                    args: a["args"]
                        .as_array()
                        .unwrap()
                        .iter()
                        .map(|g| {
                            let g = g.as_array().unwrap();
                            if g[0].as_str().unwrap() == "v" {
                                Arg::Var(g[1].as_u64().unwrap() as usize)
                            } else {
                                Arg::Const(g[1].as_u64().unwrap() as u32)
                            }
                        })
                        .collect(),
                    cs: a["cs"].as_array().unwrap().iter().map(Cs::from_json).collect(),
                })
                .collect(),
            nvars: j["nvars"].as_u64().unwrap() as usize,
            out: j["out"].as_array().unwrap().iter().map(|v| v.as_u64().unwrap() as usize).collect(),
            shape: j["shape"].as_str().unwrap_or("replay").to_string(),
            dist: j["dist"].as_str().unwrap_or("replay").to_string(),
        }
    }
    fn query_coq(&self) -> String {
        format!(
            "(mkQuery {} {})",
            coq_list(&self.atoms, |a| format!(
                "mkAtom {} {} {}",
                a.table,
                coq_list(&a.args, |g| match g {
                    Arg::Var(x) => format!("AVar {x}"),
                    Arg::Const(k) => format!("AConst {k}"),
                }),
                coq_list(&a.cs, |c| c.coq())
            )),
            coq_nat_list(&self.out)
        )
    }
    fn db_coq(&self) -> String {
        coq_list(&self.tables, |t| coq_list(&t.rows, |r| coq_list(r, |v| v.to_string())))
    }
    fn total_rows(&self) -> usize {
        self.tables.iter().map(|t| t.rows.len()).sum()
    }
}

// ------------------------------------------------------------------------------------------
// the reference: naive nested-loop matcher (bind-or-compare, atoms in the order written)

fn reference(case: &Case, budget: &mut u64) -> Option<BTreeSet<Vec<u32>>> {
    fn go(case: &Case, i: usize, env: &mut Vec<Option<u32>>, out: &mut BTreeSet<Vec<u32>>, budget: &mut u64) -> bool {
        if i == case.atoms.len() {
            out.insert(case.out.iter().map(|x| env[*x].expect("out var bound")).collect());
            return true;
        }
        let a = &case.atoms[i];
        'rows: for r in &case.tables[a.table].rows {
            if *budget == 0 {
                return false;
            }
            *budget -= 1;
            if !a.cs.iter().all(|c| c.holds(r)) {
                continue;
            }
            let mut bound_here: Vec<usize> = Vec::new();
            for (c, g) in a.args.iter().enumerate() {
                let ok = match g {
                    Arg::Const(k) => r[c] == *k,
                    Arg::Var(x) => match env[*x] {
                        Some(v) => v == r[c],
                        None => {
                            env[*x] = Some(r[c]);
                            bound_here.push(*x);
                            true
                        }
                    },
                };
                if !ok {
                    for x in bound_here {
                        env[x] = None;
                    }
                    continue 'rows;
                }
            }
            let fin = go(case, i + 1, env, out, budget);
            for x in bound_here {
                env[x] = None;
            }
            if !fin {
                return false;
            }
        }
        true
    }
    let mut out = BTreeSet::new();
    let mut env = vec![None; case.nvars];
    if go(case, 0, &mut env, &mut out, budget) {
        Some(out)
    } else {
        None
    }
}

// ------------------------------------------------------------------------------------------
// the real engine, through the core-relations API

struct EngineOut {
    rows: BTreeSet<Vec<u32>>,
    plans: Vec<String>,
}

fn run_engine(case: &Case, strat: Strat, no_decomp: bool, threads: usize) -> Result<EngineOut, String> {
    let f = || -> EngineOut {
        let mut db = Database::default();
        let keep_old = || -> Box<egglog_core_relations::MergeFn> { Box::new(|_, _, _, _| false) };
        let mut tids = Vec::new();
        for t in &case.tables {
            let sort_by = if t.sorted { Some(ColumnId::from_usize(t.arity - 1)) } else { None };
            let tbl = SortedWritesTable::new(t.n_keys, t.arity, sort_by, vec![], keep_old());
            tids.push(db.add_table(tbl, std::iter::empty(), std::iter::empty()));
        }
        let out_arity = case.out.len() + 1;
        let out_tbl = SortedWritesTable::new(out_arity, out_arity, None, vec![], keep_old());
        let out_id = db.add_table(out_tbl, std::iter::empty(), std::iter::empty());
        for (t, id) in case.tables.iter().zip(tids.iter()) {
            if t.sorted {
                // rows arrive in batches of increasing sort value (the timestamp discipline)
                let mut vals: Vec<u32> = t.rows.iter().map(|r| r[t.arity - 1]).collect();
                vals.sort();
                vals.dedup();
                for v in vals {
                    {
                        let mut buf = db.new_buffer(*id);
                        for r in t.rows.iter().filter(|r| r[t.arity - 1] == v) {
                            let row: Vec<Value> = r.iter().map(|x| Value::new(*x)).collect();
                            buf.stage_insert(&row);
                        }
                    }
                    db.merge_all();
                }
            } else {
                let mut buf = db.new_buffer(*id);
                for r in &t.rows {
                    let row: Vec<Value> = r.iter().map(|x| Value::new(*x)).collect();
                    buf.stage_insert(&row);
                }
            }
        }
        db.merge_all();
        #[cfg(egglog_verif)]
        egglog_core_relations::verif_plan_sink_start();
        let rule_set = {
            let mut rsb = RuleSetBuilder::new(&mut db);
            let mut qb = rsb.new_rule();
            qb.set_plan_strategy(strat.engine());
            qb.set_no_decomp(no_decomp);
            let vars: Vec<_> = (0..case.nvars).map(|_| qb.new_var()).collect();
            for (i, v) in vars.iter().enumerate() {
                assert_eq!(v.index(), i);
            }
            for a in &case.atoms {
                let entries: Vec<QueryEntry> = a
                    .args
                    .iter()
                    .map(|g| match g {
                        Arg::Var(x) => vars[*x].into(),
                        Arg::Const(k) => Value::new(*k).into(),
                    })
                    .collect();
                let cs: Vec<Constraint> = a.cs.iter().map(|c| c.engine()).collect();
                qb.add_atom(tids[a.table], &entries, cs.iter()).expect("add_atom");
            }
            let mut rb = qb.build();
            let mut row: Vec<QueryEntry> = vec![Value::new(1).into()];
            for x in &case.out {
                row.push(vars[*x].into());
            }
            rb.insert(out_id, &row).expect("insert");
            rb.build();
            rsb.build()
        };
        #[cfg(egglog_verif)]
        let plans = egglog_core_relations::verif_plan_sink_take();
        #[cfg(not(egglog_verif))]
        let plans = Vec::new();
        db.run_rule_set(&rule_set, ReportLevel::TimeOnly, None);
        let tbl = db.get_table(out_id);
        let all = tbl.all();
        let scanned = tbl.scan(all.as_ref());
        let rows = scanned.iter().map(|(_, row)| row[1..].iter().map(|v| v.rep()).collect::<Vec<u32>>()).collect();
        EngineOut { rows, plans }
    };
    let res = std::panic::catch_unwind(std::panic::AssertUnwindSafe(|| {
        if threads <= 1 {
            f()
        } else {
            let pool = egglog_concurrency::ThreadPool::new(threads);
            pool.install(&f)
        }
    }));
    res.map_err(|p| {
        if let Some(s) = p.downcast_ref::<String>() {
            s.clone()
        } else if let Some(s) = p.downcast_ref::<&str>() {
            s.to_string()
        } else {
            "panic".to_string()
        }
    })
}

// ------------------------------------------------------------------------------------------
// plan dump (hook H1) -> Coq term

fn cs_coq_j(c: &J) -> String {
    let k = c["k"].as_str().unwrap();
    if k == "Eq" {
        format!("CEq {} {}", c["l"], c["r"])
    } else {
        format!("C{} {} {}", k, c["col"], c["val"])
    }
}
fn cs_list_coq_j(cs: &J) -> String {
    coq_list(cs.as_array().unwrap(), cs_coq_j)
}
fn nums_coq_j(xs: &J) -> String {
    coq_list(xs.as_array().unwrap(), |x| x.to_string())
}

/// Some(term) for a single-bag plan made of Intersect / FusedIntersect stages only
fn plan_coq(p: &J) -> Option<String> {
    if p["kind"].as_str()? != "single" {
        return None;
    }
    let atoms = p["atoms"].as_array()?;
    // atom ids are dense 0..n in the order added
    for (i, a) in atoms.iter().enumerate() {
        if a["id"].as_u64()? as usize != i {
            return None;
        }
    }
    let tabs = coq_list(atoms, |a| a["table"].to_string());
    let headers = coq_list(p["headers"].as_array()?, |h| format!("mkHeader {} {}", h["atom"], cs_list_coq_j(&h["cs"])));
    let mut stages = Vec::new();
    for st in p["stages"].as_array()? {
        match st["kind"].as_str()? {
            "Intersect" => stages.push(format!(
                "Intersect {} {}",
                st["var"],
                coq_list(st["scans"].as_array()?, |s| format!("mkScan {} {} {}", s["atom"], s["col"], cs_list_coq_j(&s["cs"])))
            )),
            "FusedIntersect" => stages.push(format!(
                "Fused {} {} {} {}",
                st["cover"]["atom"],
                cs_list_coq_j(&st["cover"]["cs"]),
                coq_list(st["bind"].as_array()?, |b| format!("({}, {})", b[0], b[1])),
                coq_list(st["to_intersect"].as_array()?, |t| format!(
                    "mkMScan {} {} {} {}",
                    t["scan"]["atom"],
                    nums_coq_j(&t["scan"]["cols"]),
                    nums_coq_j(&t["key"]),
                    cs_list_coq_j(&t["scan"]["cs"])
                ))
            )),
            _ => return None,
        }
    }
    Some(format!("(mkPlan {} {} {})", tabs, headers, coq_list(&stages, |s| s.clone())))
}

fn plan_stage_kinds(p: &J, hist: &mut BTreeMap<String, usize>) {
    let mut visit = |stages: &J, pre: &str| {
        if let Some(a) = stages.as_array() {
            for st in a {
                let mut k = format!("{pre}{}", st["kind"].as_str().unwrap_or("?"));
                if st["kind"] == "FusedIntersect" {
                    k.push_str(if st["to_intersect"].as_array().map(|x| x.is_empty()).unwrap_or(true) { "(scan)" } else { "(probe)" });
                }
                if st["kind"] == "FusedIntersectMat" {
                    k.push_str(&format!("({})", st["mode"]["m"].as_str().unwrap_or("?")));
                }
                *hist.entry(k).or_insert(0) += 1;
            }
        }
    };
    visit(&p["stages"], "");
    if let Some(bs) = p["blocks"].as_array() {
        for b in bs {
            visit(&b["stages"], "bag:");
        }
    }
    visit(&p["result"], "result:");
}

// ------------------------------------------------------------------------------------------
// generator

const SHAPES: &[&str] = &["chain", "star", "cycle", "clique", "random", "selfloop", "fd-dup", "single"];
const DISTS: &[&str] = &["empty", "singleton", "small", "skewed", "dense", "large"];

fn gen_tables(r: &mut Rng, dist: &str) -> Vec<TableD> {
    let nrel = r.range(1, 4);
    let mut tables = Vec::new();
    let dom = match dist {
        "dense" => 3,
        "large" => r.range(5, 9),
        "skewed" => r.range(3, 5),
        _ => r.range(2, 4),
    } as u32;
    let empty_ix = if dist == "empty" { r.below(nrel) } else { usize::MAX };
    for ti in 0..nrel {
        let arity = r.range(1, 4);
        let k = r.below(10);
        let (n_keys, sorted) = if k < 6 || arity == 1 {
            (arity, false)
        } else if k < 8 {
            (arity - 1, false)
        } else {
            (arity, true)
        };
        let mut rows: Vec<Vec<u32>> = Vec::new();
        let n = match dist {
            "empty" => {
                if ti == empty_ix {
                    0
                } else {
                    r.range(1, 5)
                }
            }
            "singleton" => 1,
            "small" => r.range(2, 6),
            "skewed" => r.range(10, 30),
            "dense" => usize::MAX,
            _ => r.range(40, 110),
        };
        if n == usize::MAX {
            let d = if arity == 4 { 2u32 } else { 3u32 };
            let total = (d as usize).pow(arity as u32);
            for i in 0..total {
                let mut x = i;
                let mut row = Vec::new();
                for _ in 0..arity {
                    row.push((x % d as usize) as u32);
                    x /= d as usize;
                }
                if !r.chance(1, 10) {
                    rows.push(row);
                }
            }
        } else {
            for _ in 0..n {
                let row: Vec<u32> = (0..arity)
                    .map(|_| if dist == "skewed" && r.chance(7, 10) { 0 } else { r.below(dom as usize) as u32 })
                    .collect();
                rows.push(row);
            }
        }
        // set semantics; functional tables: one row per key
        let mut seen = HashSet::new();
        rows.retain(|row| seen.insert(row[..n_keys].to_vec()));
        if sorted {
            rows.sort_by_key(|row| row[arity - 1]);
        }
        tables.push(TableD { arity, n_keys, sorted, rows });
    }
    tables
}

fn gen_case(r: &mut Rng, force_shape: Option<&str>, force_dist: Option<&str>) -> Case {
    let dist = force_dist.map(|s| s.to_string()).unwrap_or_else(|| r.pick(DISTS).to_string());
    let shape = force_shape.map(|s| s.to_string()).unwrap_or_else(|| r.pick(SHAPES).to_string());
    let tables = gen_tables(r, &dist);
    let max_atoms = if dist == "large" || dist == "dense" { 4 } else { 6 };
    let natoms = match shape.as_str() {
        "single" => 1,
        "clique" => {
            if max_atoms >= 6 && r.chance(1, 3) {
                6
            } else {
                3
            }
        }
        _ => r.range(2, max_atoms),
    };
    let mut nvars = 0usize;
    let mut cores: Vec<Vec<usize>> = Vec::new();
    match shape.as_str() {
        "chain" => {
            for i in 0..natoms {
                cores.push(vec![i, i + 1]);
            }
            nvars = natoms + 1;
        }
        "star" => {
            for i in 0..natoms {
                cores.push(vec![0, i + 1]);
            }
            nvars = natoms + 1;
        }
        "cycle" => {
            for i in 0..natoms {
                cores.push(vec![i, (i + 1) % natoms]);
            }
            nvars = natoms;
        }
        "clique" => {
            let k = if natoms == 6 { 4 } else { 3 };
            for a in 0..k {
                for b in (a + 1)..k {
                    cores.push(vec![a, b]);
                }
            }
            nvars = k;
        }
        "selfloop" => {
            for i in 0..natoms {
                cores.push(if r.chance(1, 2) { vec![i, i] } else { vec![i, i + 1] });
            }
            nvars = natoms + 1;
        }
        "random" | "single" | "fd-dup" => {
            nvars = r.range(1, 5);
            for _ in 0..natoms {
                cores.push(vec![]);
            }
        }
        _ => unreachable!(),
    }
    let dom = tables.iter().flat_map(|t| t.rows.iter().flat_map(|r| r.iter().copied())).max().unwrap_or(2) as usize + 1;
    let mut atoms: Vec<AtomD> = Vec::new();
    for core in cores.iter() {
        let table = r.below(tables.len());
        let arity = tables[table].arity;
        let mut args: Vec<Option<Arg>> = vec![None; arity];
        // place the core variables in random distinct slots
        let mut slots: Vec<usize> = (0..arity).collect();
        for v in core {
            if slots.is_empty() {
                break;
            }
            let s = slots.remove(r.below(slots.len()));
            args[s] = Some(Arg::Var(*v));
        }
        let random_shape = core.is_empty();
        // literals mostly taken from the data of that column, so that they select something
        let pick_const = |r: &mut Rng, c: usize| -> u32 {
            let rows = &tables[table].rows;
            if !rows.is_empty() && r.chance(4, 5) {
                rows[r.below(rows.len())][c]
            } else {
                r.below(dom) as u32
            }
        };
        for s in slots {
            let k = r.below(100);
            args[s] = Some(if random_shape {
                if k < 80 {
                    Arg::Var(r.below(nvars))
                } else {
                    Arg::Const(pick_const(r, s))
                }
            } else if k < 55 {
                nvars += 1;
                Arg::Var(nvars - 1)
            } else if k < 80 {
                Arg::Var(r.below(nvars))
            } else {
                Arg::Const(pick_const(r, s))
            });
        }
        let mut cs = Vec::new();
        // (an atom without variables is touched by no stage; the API-only probe below covers it)
        let has_var = args.iter().any(|a| matches!(a, Some(Arg::Var(_))));
        if has_var && r.chance(1, 4) {
            let c = if tables[table].sorted && r.chance(2, 3) { arity - 1 } else { r.below(arity) };
            let k = if r.chance(1, 2) { pick_const(r, c) } else { r.below(dom + 1) as u32 };
            cs.push(match r.below(5) {
                0 => Cs::EqConst(c, k),
                1 => Cs::LtConst(c, k),
                2 => Cs::GtConst(c, k),
                3 => Cs::LeConst(c, k),
                _ => Cs::GeConst(c, k),
            });
        }
        atoms.push(AtomD { table, args: args.into_iter().map(|a| a.unwrap()).collect(), cs });
    }
    if shape == "fd-dup" {
        // duplicate an atom: identically, or (functional table) same keys with a fresh value variable
        let i = r.below(atoms.len());
        let mut dup = atoms[i].clone();
        let t = &tables[dup.table];
        if t.n_keys < t.arity && r.chance(2, 3) {
            dup.args[t.arity - 1] = Arg::Var(nvars);
            nvars += 1;
        }
        dup.cs.clear();
        let at = r.below(atoms.len() + 1);
        atoms.insert(at, dup);
    }
    // only variables that occur in some atom may be read by the action
    let mut occ = vec![false; nvars];
    for a in &atoms {
        for g in &a.args {
            if let Arg::Var(x) = g {
                occ[*x] = true;
            }
        }
    }
    let mut out: Vec<usize> = (0..nvars).filter(|x| occ[*x] && r.chance(3, 5)).collect();
    out.truncate(6);
    Case { tables, atoms, nvars, out, shape, dist }
}

// ------------------------------------------------------------------------------------------
// egglog text path

struct TextCase {
    text_decl: String,
    text_facts: String,
    rule: String,
    case: Case,                      // atoms over tables; functions are tables with n_keys = arity-1
    filters: Vec<(char, Arg, Arg)>,  // '<' or '!' over bound variables / constants
}

fn gen_text_case(r: &mut Rng, no_decomp: bool) -> TextCase {
    let dist = *r.pick(&["small", "skewed", "dense", "large", "singleton", "empty"]);
    let shape = *r.pick(&["chain", "star", "cycle", "clique", "random", "selfloop", "fd-dup"]);
    let mut case = gen_case(r, Some(shape), Some(dist));
    for t in case.tables.iter_mut() {
        t.sorted = false;
    }
    for a in case.atoms.iter_mut() {
        a.cs.clear();
    }
    if case.out.is_empty() {
        // Out needs at least one column
        for a in &case.atoms {
            for g in &a.args {
                if let Arg::Var(x) = g {
                    if case.out.is_empty() {
                        case.out.push(*x);
                    }
                }
            }
        }
    }
    let mut decl = String::new();
    for (i, t) in case.tables.iter().enumerate() {
        if t.n_keys == t.arity {
            decl.push_str(&format!("(relation R{i} ({}))\n", vec!["i64"; t.arity].join(" ")));
        } else {
            decl.push_str(&format!("(function R{i} ({}) i64 :no-merge)\n", vec!["i64"; t.arity - 1].join(" ")));
        }
    }
    decl.push_str(&format!("(relation Out ({}))\n", vec!["i64"; case.out.len().max(1)].join(" ")));
    let mut facts = String::new();
    for (i, t) in case.tables.iter().enumerate() {
        for row in &t.rows {
            let s: Vec<String> = row.iter().map(|v| v.to_string()).collect();
            if t.n_keys == t.arity {
                facts.push_str(&format!("(R{i} {})\n", s.join(" ")));
            } else {
                facts.push_str(&format!("(set (R{i} {}) {})\n", s[..t.arity - 1].join(" "), s[t.arity - 1]));
            }
        }
    }
    let gtxt = |g: &Arg| match g {
        Arg::Var(x) => format!("v{x}"),
        Arg::Const(k) => k.to_string(),
    };
    let mut body: Vec<String> = Vec::new();
    for a in &case.atoms {
        let t = &case.tables[a.table];
        let s: Vec<String> = a.args.iter().map(gtxt).collect();
        if t.n_keys == t.arity {
            body.push(format!("(R{} {})", a.table, s.join(" ")));
        } else {
            body.push(format!("(= {} (R{} {}))", s[t.arity - 1], a.table, s[..t.arity - 1].join(" ")));
        }
    }
    // primitive guards over variables bound by atoms
    let mut bound: Vec<usize> = Vec::new();
    for a in &case.atoms {
        for g in &a.args {
            if let Arg::Var(x) = g {
                if !bound.contains(x) {
                    bound.push(*x);
                }
            }
        }
    }
    let mut filters = Vec::new();
    if !bound.is_empty() {
        let nf = if r.chance(1, 2) { 0 } else { r.range(1, 2) };
        for _ in 0..nf {
            let a = Arg::Var(*r.pick(&bound));
            let b = if r.chance(2, 3) { Arg::Var(*r.pick(&bound)) } else { Arg::Const(r.below(5) as u32) };
            let op = if r.chance(1, 2) { '<' } else { '!' };
            body.push(format!("({} {} {})", if op == '<' { "<" } else { "!=" }, gtxt(&a), gtxt(&b)));
            filters.push((op, a, b));
        }
    }
    let outs: Vec<String> = case.out.iter().map(|x| format!("v{x}")).collect();
    let rule = format!("(rule ({}) ((Out {})){})", body.join(" "), outs.join(" "), if no_decomp { " :no-decomp" } else { "" });
    TextCase { text_decl: decl, text_facts: facts, rule, case, filters }
}

fn text_reference(tc: &TextCase, budget: &mut u64) -> Option<BTreeSet<Vec<i64>>> {
    // matches of the atoms on all variables, then the guards
    let mut c = tc.case.clone();
    let mut all: Vec<usize> = Vec::new();
    for a in &c.atoms {
        for g in &a.args {
            if let Arg::Var(x) = g {
                if !all.contains(x) {
                    all.push(*x);
                }
            }
        }
    }
    let pos: BTreeMap<usize, usize> = all.iter().enumerate().map(|(i, x)| (*x, i)).collect();
    c.out = all.clone();
    let ms = reference(&c, budget)?;
    let val = |m: &Vec<u32>, g: &Arg| -> i64 {
        match g {
            Arg::Var(x) => m[pos[x]] as i64,
            Arg::Const(k) => *k as i64,
        }
    };
    let mut out = BTreeSet::new();
    for m in ms {
        if tc.filters.iter().all(|(op, a, b)| if *op == '<' { val(&m, a) < val(&m, b) } else { val(&m, a) != val(&m, b) }) {
            out.insert(tc.case.out.iter().map(|x| m[pos[x]] as i64).collect());
        }
    }
    Some(out)
}

fn run_text(tc: &TextCase) -> Result<(BTreeSet<Vec<i64>>, Vec<String>), String> {
    use verif_harness::egg;
    let mut eg = egglog::EGraph::default();
    let (res, _) = egg::step(&mut eg, &format!("{}{}", tc.text_decl, tc.text_facts));
    res.map_err(|e| format!("setup: {e}"))?;
    #[cfg(egglog_verif)]
    egglog_core_relations::verif_plan_sink_start();
    let (res, _) = egg::step(&mut eg, &format!("{}\n(run 1)\n", tc.rule));
    #[cfg(egglog_verif)]
    let plans = egglog_core_relations::verif_plan_sink_take();
    #[cfg(not(egglog_verif))]
    let plans = Vec::new();
    res.map_err(|e| format!("run: {e}"))?;
    let mut rows = BTreeSet::new();
    let r = std::panic::catch_unwind(std::panic::AssertUnwindSafe(|| {
        let mut rows = BTreeSet::new();
        eg.constructor_enodes("Out", |e| {
            rows.insert(e.children.iter().map(|v| eg.value_to_base::<i64>(*v)).collect::<Vec<i64>>());
        })
        .map_err(|e| format!("{e}"))?;
        Ok::<_, String>(rows)
    }));
    match r {
        Ok(Ok(x)) => rows.extend(x),
        Ok(Err(e)) => return Err(format!("read Out: {e}")),
        Err(_) => return Err("panic reading Out".into()),
    }
    Ok((rows, plans))
}

// ------------------------------------------------------------------------------------------

struct Viol {
    what: String,
    key: String,
    input: J,
}

struct Stats {
    shape_hist: BTreeMap<String, usize>,
    dist_hist: BTreeMap<String, usize>,
    natoms_hist: BTreeMap<String, usize>,
    config_hist: BTreeMap<String, usize>,
    plan_kind_hist: BTreeMap<String, usize>,
    bags_hist: BTreeMap<String, usize>,
    stage_kind_hist: BTreeMap<String, usize>,
    result_size_hist: BTreeMap<String, usize>,
    feature_hist: BTreeMap<String, usize>,
    plans_certified: usize,
    plans_uncertified: usize,
    uncertified_why: BTreeMap<String, usize>,
    exec_cases: usize,
    engine_runs: usize,
    skipped_budget: usize,
    text_runs: usize,
    text_plan_kind_hist: BTreeMap<String, usize>,
    text_stage_kind_hist: BTreeMap<String, usize>,
    resort_candidates: usize,
}

fn bump(h: &mut BTreeMap<String, usize>, k: &str) {
    *h.entry(k.to_string()).or_insert(0) += 1;
}

fn size_bucket(n: usize) -> &'static str {
    match n {
        0 => "0",
        1 => "1",
        2..=9 => "2-9",
        10..=99 => "10-99",
        _ => "100+",
    }
}

fn features(case: &Case, st: &mut Stats) {
    let mut rep_in = false;
    let mut consts = false;
    let mut cs = false;
    for a in &case.atoms {
        let vs: Vec<&Arg> = a.args.iter().filter(|g| matches!(g, Arg::Var(_))).collect();
        let set: HashSet<&&Arg> = vs.iter().collect();
        if set.len() < vs.len() {
            rep_in = true;
        }
        if a.args.iter().any(|g| matches!(g, Arg::Const(_))) {
            consts = true;
        }
        if !a.cs.is_empty() {
            cs = true;
        }
    }
    let dup_atom = (0..case.atoms.len()).any(|i| (0..i).any(|j| case.atoms[i].table == case.atoms[j].table && case.atoms[i].args == case.atoms[j].args));
    if rep_in {
        bump(&mut st.feature_hist, "repeated-var-in-atom");
    }
    if consts {
        bump(&mut st.feature_hist, "constant-arg");
    }
    if cs {
        bump(&mut st.feature_hist, "column-constraint");
    }
    if dup_atom {
        bump(&mut st.feature_hist, "duplicate-atom");
    }
    if case.atoms.iter().any(|a| case.tables[a.table].n_keys < case.tables[a.table].arity) {
        bump(&mut st.feature_hist, "functional-table");
    }
    if case.atoms.iter().any(|a| case.tables[a.table].sorted) {
        bump(&mut st.feature_hist, "sorted-table(fast range constraints)");
    }
    if case.out.len() < case.nvars {
        bump(&mut st.feature_hist, "unused-variables");
    }
}

/// run one API case under one configuration; returns the violation if the engine's output differs
#[allow(clippy::too_many_arguments)]
fn api_case(
    case: &Case,
    strat: Strat,
    no_decomp: bool,
    threads: usize,
    want: &BTreeSet<Vec<u32>>,
    st: &mut Stats,
    w: &mut CaseWriter,
    seen_plans: &mut HashSet<String>,
    emit_exec: bool,
) -> Option<Viol> {
    st.engine_runs += 1;
    bump(&mut st.config_hist, &format!("{}{}{}", strat.name(), if no_decomp { "/no-decomp" } else { "/decomp" }, if threads > 1 { "/threads" } else { "" }));
    let input = json!({"path": "api", "case": case.json(), "strategy": strat.name(), "no_decomp": no_decomp, "threads": threads});
    let key = format!("c02-api-{}-{}", strat.name(), if no_decomp { "nodecomp" } else { "decomp" });
    match run_engine(case, strat, no_decomp, threads) {
        Err(msg) => Some(Viol { what: format!("engine panicked running the rule: {}", msg.chars().take(200).collect::<String>()), key: format!("{key}-panic"), input }),
        Ok(out) => {
            for pj in &out.plans {
                let p: J = serde_json::from_str(pj).expect("plan json");
                let kind = p["kind"].as_str().unwrap_or("?").to_string();
                bump(&mut st.plan_kind_hist, &format!("{}:{}", strat.name(), kind));
                bump(&mut st.bags_hist, &p["bags"].to_string());
                plan_stage_kinds(&p, &mut st.stage_kind_hist);
                let nst = p["stages"].as_array().map(|a| a.len()).unwrap_or(0);
                if nst >= 3 && case.tables.iter().any(|t| t.rows.len() > 32) {
                    st.resort_candidates += 1;
                }
                let q = case.query_coq();
                match plan_coq(&p) {
                    Some(pc) => {
                        let small = case.total_rows() <= 40 && want.len() <= 60;
                        if emit_exec && small && out.rows == *want {
                            let rows: Vec<Vec<u32>> = want.iter().cloned().collect();
                            w.push(format!("CExec {} {} {} {}", q, pc, case.db_coq(), coq_list(&rows, |r| coq_list(r, |v| v.to_string()))));
                            st.exec_cases += 1;
                            st.plans_certified += 1;
                        } else if seen_plans.insert(format!("{q}|{pc}")) {
                            w.push(format!("CPlan {} {}", q, pc));
                            st.plans_certified += 1;
                        }
                    }
                    None => {
                        st.plans_uncertified += 1;
                        bump(&mut st.uncertified_why, &format!("{}:{} bags", kind, p["bags"]));
                    }
                }
            }
            if out.rows != *want {
                let extra: Vec<&Vec<u32>> = out.rows.difference(want).take(3).collect();
                let missing: Vec<&Vec<u32>> = want.difference(&out.rows).take(3).collect();
                Some(Viol {
                    what: format!(
                        "rule fired for a set of substitutions different from the matches of its body ({} {}): engine {} rows, nested-loop matcher {} rows; fired-but-no-match e.g. {:?}; match-but-not-fired e.g. {:?}",
                        strat.name(),
                        if no_decomp { "no-decomp" } else { "decomp" },
                        out.rows.len(),
                        want.len(),
                        extra,
                        missing
                    ),
                    key,
                    input,
                })
            } else {
                None
            }
        }
    }
}

fn main() {
    let o = verif_harness::parse_opts();
    std::process::exit(run(&o));
}

pub fn run(o: &Opts) -> i32 {
    let header = "From Coq Require Import List Arith NArith.\nImport ListNotations.\nRequire Import Verif.Base.Cases Verif.Query.Spec Verif.Query.Stages Verif.Query.PlanOk.\n";
    let mut w = CaseWriter::new(&o.out, "cases_plans", header, "check_case", 60);
    let mut st = Stats {
        shape_hist: BTreeMap::new(),
        dist_hist: BTreeMap::new(),
        natoms_hist: BTreeMap::new(),
        config_hist: BTreeMap::new(),
        plan_kind_hist: BTreeMap::new(),
        bags_hist: BTreeMap::new(),
        stage_kind_hist: BTreeMap::new(),
        result_size_hist: BTreeMap::new(),
        feature_hist: BTreeMap::new(),
        plans_certified: 0,
        plans_uncertified: 0,
        uncertified_why: BTreeMap::new(),
        exec_cases: 0,
        engine_runs: 0,
        skipped_budget: 0,
        text_runs: 0,
        text_plan_kind_hist: BTreeMap::new(),
        text_stage_kind_hist: BTreeMap::new(),
        resort_candidates: 0,
    };
    let mut viols: Vec<Viol> = Vec::new();
    let mut samples: Vec<J> = Vec::new();
    let mut distinct: HashSet<Case> = HashSet::new();
    let mut nontrivial = 0usize;
    let mut seen_plans: HashSet<String> = HashSet::new();
    // Gj is what the language uses for every multi-atom rule; MinCover for one-atom rules and the
    // two-atom rebuild rules; PureSize (and MinCover on >= 3 atoms) is reachable only through the
    // core-relations API. The free-join strategies do not support tree decomposition on >= 3 atoms
    // (the planner panics), so they run with no_decomp only; disagreements in API-only
    // configurations are recorded as observations, not as violations of the property.
    let configs: Vec<(Strat, bool)> = vec![(Strat::Gj, false), (Strat::Gj, true), (Strat::MinCover, true), (Strat::PureSize, true)];
    let mut api_only: Vec<J> = Vec::new();
    let mut api_only_count = 0usize;
    let mut api_only_probe = J::Null;
    let mut api_only_probe2 = J::Null;
    let mut api_full = |case: &Case, idx: usize, st: &mut Stats, w: &mut CaseWriter, viols: &mut Vec<Viol>, only: Option<(Strat, bool, usize)>| {
        let mut budget = 4_000_000u64;
        let Some(want) = reference(case, &mut budget) else {
            st.skipped_budget += 1;
            return;
        };
        bump(&mut st.shape_hist, &case.shape);
        bump(&mut st.dist_hist, &case.dist);
        bump(&mut st.natoms_hist, &case.atoms.len().to_string());
        bump(&mut st.result_size_hist, size_bucket(want.len()));
        features(case, st);
        if distinct.insert(case.clone()) && !want.is_empty() && case.atoms.len() >= 2 {
            nontrivial += 1;
        }
        if samples.len() < 3 && !want.is_empty() && case.atoms.len() >= 3 && case.total_rows() < 30 {
            samples.push(json!({"query": case.query_coq(), "tables": case.tables.iter().map(|t| t.rows.clone()).collect::<Vec<_>>(), "matches_on_out_vars": want.iter().take(5).collect::<Vec<_>>()}));
        }
        match only {
            Some((s, nd, th)) => {
                if let Some(v) = api_case(case, s, nd, th, &want, st, w, &mut seen_plans, true) {
                    viols.push(v);
                }
            }
            None => {
                let varfree = case.atoms.iter().any(|a| a.args.iter().all(|g| matches!(g, Arg::Const(_))));
                for (ci, (s, nd)) in configs.iter().enumerate() {
                    let threads = if (idx + ci) % 5 == 0 { 4 } else { 1 };
                    // every atom the language produces carries a variable (at least its timestamp
                    // column), so variable-free atoms are reachable through the API only
                    let in_scope = !varfree
                        && match s {
                            Strat::Gj => true,
                            Strat::MinCover => case.atoms.len() <= 2,
                            Strat::PureSize => false,
                        };
                    if let Some(v) = api_case(case, *s, *nd, threads, &want, st, w, &mut seen_plans, ci == idx % configs.len()) {
                        if in_scope {
                            viols.push(v);
                        } else {
                            api_only_count += 1;
                            if api_only.len() < 5 {
                                api_only.push(json!({"what": v.what, "input": v.input}));
                            }
                        }
                    }
                }
            }
        }
    };

    let run_text_case = |tc: &TextCase, no_decomp: bool, st: &mut Stats, viols: &mut Vec<Viol>| {
        let mut budget = 2_000_000u64;
        let Some(want) = text_reference(tc, &mut budget) else {
            st.skipped_budget += 1;
            return;
        };
        st.text_runs += 1;
        let program = format!("{}{}{}\n(run 1)\n", tc.text_decl, tc.text_facts, tc.rule);
        let input = json!({"path": "text", "program": program, "expected_out": want.iter().collect::<Vec<_>>()});
        let key = format!("c02-text-{}", if no_decomp { "nodecomp" } else { "decomp" });
        match run_text(tc) {
            Err(e) => {
                // a rejected program is not an observation about matching; a panic is
                if e.contains("PANIC") || e.contains("panic") {
                    viols.push(Viol { what: format!("engine panicked on an egglog rule run: {}", e.chars().take(200).collect::<String>()), key: format!("{key}-panic"), input });
                } else {
                    bump(&mut st.text_plan_kind_hist, "rejected-program");
                }
            }
            Ok((rows, plans)) => {
                for pj in &plans {
                    if let Ok(p) = serde_json::from_str::<J>(pj) {
                        bump(&mut st.text_plan_kind_hist, &format!("{}:{} bags", p["kind"].as_str().unwrap_or("?"), p["bags"]));
                        plan_stage_kinds(&p, &mut st.text_stage_kind_hist);
                    }
                }
                if rows != want {
                    let extra: Vec<&Vec<i64>> = rows.difference(&want).take(3).collect();
                    let missing: Vec<&Vec<i64>> = want.difference(&rows).take(3).collect();
                    viols.push(Viol {
                        what: format!(
                            "egglog rule fired for a set of substitutions different from the matches of its body: Out has {} rows, nested-loop matcher {} rows; fired-but-no-match e.g. {:?}; match-but-not-fired e.g. {:?}",
                            rows.len(),
                            want.len(),
                            extra,
                            missing
                        ),
                        key,
                        input,
                    });
                }
            }
        }
    };

    let replay_one = |j: &J, st: &mut Stats, w: &mut CaseWriter, viols: &mut Vec<Viol>, api_full: &mut dyn FnMut(&Case, usize, &mut Stats, &mut CaseWriter, &mut Vec<Viol>, Option<(Strat, bool, usize)>)| {
        let inp = if j.get("violation").is_some() { &j["violation"]["input"] } else if j.get("input").is_some() { &j["input"] } else { j };
        if inp["path"] == "text" {
            // replay of a text case: run the program and compare with the recorded expectation
            let program = inp["program"].as_str().unwrap_or("").to_string();
            let want: BTreeSet<Vec<i64>> = inp["expected_out"]
                .as_array()
                .map(|a| a.iter().map(|r| r.as_array().unwrap().iter().map(|v| v.as_i64().unwrap()).collect()).collect())
                .unwrap_or_default();
            let mut eg = egglog::EGraph::default();
            let (res, _) = verif_harness::egg::step(&mut eg, &program);
            st.text_runs += 1;
            let mut rows = BTreeSet::new();
            if res.is_ok() {
                let _ = eg.constructor_enodes("Out", |e| {
                    rows.insert(e.children.iter().map(|v| eg.value_to_base::<i64>(*v)).collect::<Vec<i64>>());
                });
            }
            if res.is_err() || rows != want {
                viols.push(Viol { what: format!("replayed egglog program: Out has {} rows, expected {}", rows.len(), want.len()), key: "c02-text-replay".into(), input: inp.clone() });
            }
        } else {
            let case = Case::from_json(&inp["case"]);
            let only = inp["strategy"].as_str().map(|s| (Strat::from(s), inp["no_decomp"].as_bool().unwrap_or(false), inp["threads"].as_u64().unwrap_or(1) as usize));
            api_full(&case, 0, st, w, viols, only);
        }
    };

    if let Some(path) = &o.replay {
        let txt = std::fs::read_to_string(path).expect("replay file");
        let j: J = serde_json::from_str(&txt).expect("json");
        replay_one(&j, &mut st, &mut w, &mut viols, &mut api_full);
    } else {
        // corpus first
        if let Ok(rd) = std::fs::read_dir("/verif/corpus/C02") {
            let mut files: Vec<_> = rd.flatten().map(|e| e.path()).filter(|p| p.extension().map(|e| e == "json").unwrap_or(false)).collect();
            files.sort();
            for f in files {
                if let Ok(txt) = std::fs::read_to_string(&f) {
                    if let Ok(j) = serde_json::from_str::<J>(&txt) {
                        replay_one(&j, &mut st, &mut w, &mut viols, &mut api_full);
                    }
                }
            }
        }
        // API-only probe (not reachable from the language, where every atom carries a variable):
        // an atom whose arguments are all constants, with a constraint that is not index-backed
        // ("slow"), is visited by no stage, so the constraint is never evaluated.
        {
            let probe = Case {
                tables: vec![TableD { arity: 1, n_keys: 1, sorted: false, rows: vec![vec![0], vec![5]] }],
                atoms: vec![
                    AtomD { table: 0, args: vec![Arg::Const(0)], cs: vec![Cs::GtConst(0, 1)] },
                    AtomD { table: 0, args: vec![Arg::Var(0)], cs: vec![] },
                ],
                nvars: 1,
                out: vec![0],
                shape: "probe".into(),
                dist: "probe".into(),
            };
            let mut b = 1000u64;
            let want = reference(&probe, &mut b).unwrap();
            if let Ok(got) = run_engine(&probe, Strat::Gj, true, 1) {
                if got.rows != want {
                    api_only_probe = json!({"what": "variable-free atom with a slow constraint: the constraint is never evaluated (API-only; plan_ok rejects such plans)", "input": probe.json(), "engine_rows": got.rows.iter().collect::<Vec<_>>(), "matches": want.iter().collect::<Vec<_>>()});
                }
            }
        }
        // second API-only probe: tree decomposition puts an atom without variables in no bag, so
        // its header (here: the literal 0, absent from the table) is never applied
        {
            let at = |g: Arg| AtomD { table: 0, args: vec![g], cs: vec![] };
            let probe = Case {
                tables: vec![TableD { arity: 1, n_keys: 1, sorted: false, rows: vec![vec![1], vec![2]] }],
                atoms: vec![at(Arg::Var(0)), at(Arg::Const(0)), at(Arg::Var(0)), at(Arg::Const(0)), at(Arg::Var(1))],
                nvars: 2,
                out: vec![1],
                shape: "probe".into(),
                dist: "probe".into(),
            };
            let mut b = 1000u64;
            let want = reference(&probe, &mut b).unwrap();
            if let Ok(got) = run_engine(&probe, Strat::Gj, false, 1) {
                if got.rows != want {
                    api_only_probe2 = json!({"what": "variable-free atom dropped by tree decomposition (it belongs to no bag, its header is never applied); with no_decomp the same rule does not fire (API-only)", "input": probe.json(), "engine_rows": got.rows.iter().collect::<Vec<_>>(), "matches": want.iter().collect::<Vec<_>>()});
                }
            }
        }
        let n_api = if o.thorough { 2400 } else { 384 };
        for i in 0..n_api {
            let mut r = Rng::for_case(o.seed, i as u64);
            // cycle through shapes x distributions so every combination is hit
            let shape = SHAPES[i % SHAPES.len()];
            let dist = DISTS[(i / SHAPES.len()) % DISTS.len()];
            let case = gen_case(&mut r, Some(shape), Some(dist));
            api_full(&case, i, &mut st, &mut w, &mut viols, None);
        }
        let n_text = if o.thorough { 900 } else { 90 };
        for i in 0..n_text {
            let mut r = Rng::for_case(o.seed ^ 0x7e47, i as u64);
            let no_decomp = i % 2 == 1;
            let tc = gen_text_case(&mut r, no_decomp);
            run_text_case(&tc, no_decomp, &mut st, &mut viols);
        }
    }
    drop(api_full);
    w.flush();

    let hist = |h: &BTreeMap<String, usize>| serde_json::to_value(h).unwrap();
    let report = json!({
        "sub": "plans",
        "cases": w.total,
        "shards": w.shards,
        "distinct_nontrivial": nontrivial,
        "rule": "conjunctive queries generated per (shape x data distribution) over 1-4 relations of arity 1-4 (all-key, functional and sorted tables), run on the real engine under 6 configurations (Gj/MinCover/PureSize x decomposition on/off, some under a 4-thread pool) and through egglog text; output table compared with a naive nested-loop matcher; a case is non-trivial iff it has >= 2 atoms and a non-empty match set; distinct by (query, database); kernel cases = dumped single-bag plans (plan_ok), a sample with the database and the engine's rows (spec matcher and stage machine must reproduce them)",
        "samples": samples,
        "violations": viols.iter().take(20).map(|v| json!({"what": v.what, "key": v.key, "input": v.input})).collect::<Vec<_>>(),
        "shape_hist": hist(&st.shape_hist),
        "dist_hist": hist(&st.dist_hist),
        "natoms_hist": hist(&st.natoms_hist),
        "config_hist": hist(&st.config_hist),
        "feature_hist": hist(&st.feature_hist),
        "result_size_hist": hist(&st.result_size_hist),
        "plan_kind_hist": hist(&st.plan_kind_hist),
        "bags_hist": hist(&st.bags_hist),
        "stage_kind_hist": hist(&st.stage_kind_hist),
        "text_plan_kind_hist": hist(&st.text_plan_kind_hist),
        "text_stage_kind_hist": hist(&st.text_stage_kind_hist),
        "extra_coverage": {
            "engine_runs_api": st.engine_runs,
            "engine_runs_text": st.text_runs,
            "plans_certified_by_plan_ok": st.plans_certified,
            "plans_with_exec_check": st.exec_cases,
            "plans_uncertified_link_only": st.plans_uncertified,
            "uncertified_breakdown": hist(&st.uncertified_why),
            "cases_skipped_reference_budget": st.skipped_budget,
            "plans_with_3plus_stages_on_tables_over_32_rows": st.resort_candidates,
            "api_only_config_disagreements": api_only_count,
            "api_only_config_samples": api_only,
            "api_only_probe_varfree_atom_slow_constraint": api_only_probe,
            "api_only_probe_varfree_atom_dropped_by_decomposition": api_only_probe2,
        },
    });
    std::fs::write(o.out.join("impl_report.json"), serde_json::to_string(&report).unwrap()).unwrap();
    0
}
