"""C09 configuration for bin/check."""

CFG = {
        "tier_a": ["SessionFacts.typecheck_function_steps", "SessionFacts.typecheck_program_steps", "SessionFacts.resolve_before_proofs_steps", "SessionFacts.process_program_steps", "SessionFacts.push_steps", "SessionFacts.pop_steps", "SessionFacts.tc_arm_function_steps", "SessionFacts.tc_arm_sort_steps", "SessionFacts.tc_arm_let_steps", "SessionFacts.tc_arm_action_steps", "SessionFacts.tc_arm_rule_steps", "SessionFacts.tc_arm_check_steps", "SessionFacts.tc_arm_schedule_steps", "SessionFacts.tc_arm_ruleset_steps", "SessionFacts.tc_arm_combined_steps", "SessionFacts.tc_arm_push_steps", "SessionFacts.tc_arm_pop_steps", "SessionFacts.tc_arm_printsize_steps", "SessionFacts.tc_arm_fail_steps", "SessionFacts.shadow_arm_sort_steps", "SessionFacts.shadow_arm_function_steps", "SessionFacts.shadow_arm_ruleset_steps", "SessionFacts.shadow_arm_combined_steps", "SessionFacts.shadow_arm_rule_steps", "SessionFacts.shadow_arm_action_steps", "SessionFacts.shadow_arm_fail_steps", "SessionFacts.run_arm_sort_steps", "SessionFacts.run_arm_function_steps", "SessionFacts.run_arm_ruleset_steps", "SessionFacts.run_arm_combined_steps", "SessionFacts.run_arm_rule_steps", "SessionFacts.run_arm_action_steps", "SessionFacts.run_arm_check_steps", "SessionFacts.run_arm_push_steps", "SessionFacts.run_arm_pop_steps", "SessionFacts.run_arm_fail_steps"],
        "model_targets": ["Session/Pipeline.vo", "gen/SessionFacts.vo"],
        "proof_targets": ["Props/C09.vo"],
        "harness": [{"bin": "h_session", "prefix": "cases_session", "timeout": 3000}],
        "trusted": [
            "Session/Pipeline.v is a hand-written (Tier B) model of lib.rs:2023-2177 + typechecking.rs:381-831 + "
            "desugar.rs + remove_globals.rs + check_shadowing.rs over the declaration state; it is tied to the code "
            "by h_session's per-command cases (accept/reject/panic + TypeInfo.sorts/func_types/global_sorts + "
            "EGraph.functions membership for every name of the session) evaluated by the kernel",
            "expression typing is modelled for the generated fragment only (i64/String literals, declared functions, "
            "+/min/max on i64); the constraint solver, primitives, containers' operations, schedules, extraction, "
            "term/proof encoding are not modelled (link-only: differential S1;bad;S2 vs S1;S2 in three modes)",
        ],
        "tier_a_note": "gen/SessionFacts.v (translator/src/x_session.rs): for typecheck_function, typecheck_program, "
                       "resolve_command_before_proofs, process_program_internal, push, pop and every arm of typecheck_command / "
                       "check_shadowing / run_command: the ordered list of Validate (`?`, Err(..)), Mutate (insert/push/assign on a "
                       "self-rooted field path), Backend (self.backend.m), Opaque (mutable state handed to unwalked code), Panics, "
                       "Call (dispatchers), Loop markers; &mut-self callees inlined; sibling branches that only reject listed first. "
                       "Session/Order.v: model order = regenerated order (36 paths), tc_function / tc_sort / let arm = interpretation "
                       "of the regenerated lists, vf <-> atomic (abstract executions), classification atomic-by-order vs refuted",
        "theorem_backed": "[session 4] the ordered Validate/Mutate step lists of the typechecker, shadowing pass and runner (36 paths) are REGENERATED (gen/SessionFacts.v); c09_model_order_is_source_order, c09_validates_first_iff_atomic, c09_tc_function/sort/let_is_source_order, c09_paths_atomic_by_order, c09_paths_order_refuted, c09_combined_ruleset_guarded, c09_db_effects_by_order; over the faithful declaration-state model (typecheck_function in the order repaired by "
                          "repository commit 473a35e): (a) rejected => state unchanged for every command whose "
                          "typechecking is pure (ruleset, rule, run, check, push, pop, print-size, set, union, "
                          "expression actions) and for every single-part declaration (sort, presort instance, function, "
                          "constructor, let) rejected by the typechecker; (b) REFUTED in general, with the remaining F2 "
                          "witnesses: datatype with a bad later variant, declaration rejected by check_shadowing after "
                          "typechecking recorded it, second let of a global; (c) an accepted sort / function / ruleset "
                          "declaration adds exactly the declared names, which were undeclared before; (d) if every "
                          "typechecker-visible function and global has a table, no command that only uses declarations "
                          "panics; the initial state has that property, the rejected datatype of F2 breaks it and the "
                          "leftover state panics (F2 replayed inside the model); (e) a function with a bad / "
                          "self-referential merge (F9), a constructor with non-eq output and a duplicate declaration "
                          "with another signature are rejected without effect",
        "link_only": "'never panics / never aborts' on the real engine (catch_unwind + child processes: testing, not a "
                     "theorem); no partial effect in term-encoding and proof mode; execution-time failures leave a "
                     "usable e-graph (sessions continue after check failures and merge conflicts and are compared)",
        "assumptions": [
            "names are the harness' universe (n<k>, $n<k>); primitives/reserved names never collide with them",
            "a rule is seminaive (default); :naive / :unsafe-seminaive rules are not modelled",
            "strict mode off; no user macros, no include/input/output",
            "Order.v: Opaque steps (mksort, register_type, register_primitives, desugar_command, remove_globals, ...) and "
            "method calls on self-rooted receivers that are neither known &mut-self methods nor named like a mutator are "
            "assumed not to touch the declaration state; bookkeeping fields (warned_about_global_prefix, overall_run_report) "
            "are not session state; pop's `take()` before Err(Pop) makes pop not atomic BY ORDER (it is by the model + harness)",
        ],
    }
