(** C16: the table's sort-order assertion is the only way a run of the SortedWritesTable model can
    panic: if rows are staged with non-decreasing sort values (the caller contract: timestamps
    never go back), every op sequence runs to completion -- the [expect]s of rehash and the
    assertion of serial_insert never fire. *)
From Coq Require Import List Arith PeanoNat Bool Lia Sorted.
Import ListNotations.
Require Import Verif.Base.Res Verif.Base.Cases Verif.Table.Model Verif.Table.MapSpec Verif.Table.Refine.

(** sort values of staged rows never decrease, starting from [hi] *)
Fixpoint wf_ops (sc hi : nat) (ops : list op) : Prop :=
  match ops with
  | [] => True
  | OIns r :: tl => hi <= col r sc /\ wf_ops sc (col r sc) tl
  | _ :: tl => wf_ops sc hi tl
  end.

Fixpoint mono (sc lo : nat) (qs : list row) : Prop :=
  match qs with
  | [] => True
  | q :: tl => lo <= col q sc /\ mono sc (col q sc) tl
  end.

Definition last_sv (sc lo : nat) (qs : list row) : nat := fold_left (fun _ q => col q sc) qs lo.

Definition vals_le (o : list (nat * nat)) (b : nat) : Prop := forall v, In v (map fst o) -> v <= b.

(** ghost invariant: offsets values <= lo <= pending sort values (non-decreasing) <= hi *)
Definition NP (sc : nat) (t : T) (hi : nat) : Prop :=
  exists lo, vals_le (offs t) lo /\ mono sc lo (pins t) /\ last_sv sc lo (pins t) <= hi.

Lemma mono_snoc sc : forall qs lo r, mono sc lo qs -> last_sv sc lo qs <= col r sc -> mono sc lo (qs ++ [r]).
Proof.
  induction qs as [|q tl IH]; intros lo r Hm Hl; simpl in *.
  - auto.
  - destruct Hm as (H1 & H2). split; auto.
Qed.

Lemma last_sv_snoc sc qs lo r : last_sv sc lo (qs ++ [r]) = col r sc.
Proof. unfold last_sv. rewrite fold_left_app. reflexivity. Qed.

Lemma push_off_ok o v n b : vals_le o b -> b <= v ->
  exists o', push_off o v n = Ok o' /\ vals_le o' v.
Proof.
  intros Hle Hbv. unfold push_off. destruct o as [|a tl] eqn:Eo.
  - eexists. split; [reflexivity|]. intros w [E|[]]. simpl in E. lia.
  - rewrite <- Eo in *. assert (Hne : o <> []) by (subst; discriminate).
    assert (HL : fst (last o (0, 0)) <= b) by (apply Hle, in_map, last_In; auto).
    clear Eo. destruct (Nat.ltb_spec v (fst (last o (0, 0)))); [lia|].
    destruct (fst (last o (0, 0)) <? v); eexists; (split; [reflexivity|]).
    + intros w Hw. rewrite map_app, in_app_iff in Hw. destruct Hw as [Hw|[E|[]]]; [apply Hle in Hw; lia|simpl in E; lia].
    + intros w Hw. apply Hle in Hw. lia.
Qed.

Lemma insert_one_nopanic c mf t q :
  (forall sc, sortc c = Some sc -> exists b, vals_le (offs t) b /\ b <= col q sc) ->
  exists t', insert_one c mf t q = Ok t' /\
    (forall sc, sortc c = Some sc -> vals_le (offs t') (col q sc)).
Proof.
  intros Hb.
  assert (Happ : forall r, exists t1, append c t q r = Ok t1 /\
             (forall sc, sortc c = Some sc -> vals_le (offs t1) (col q sc))).
  { intros r. unfold append. destruct (sortc c) as [sc|] eqn:Es.
    - destruct (Hb sc eq_refl) as (b & Hle & Hbq).
      destruct (push_off_ok (offs t) (col q sc) (length (rows t)) b Hle Hbq) as (o' & Ep & Hle').
      rewrite Ep. cbn [bind]. eexists. split; [reflexivity|]. intros sc' E. inversion E; subst. exact Hle'.
    - eexists. split; [reflexivity|]. intros sc' E. discriminate. }
  unfold insert_one. destruct (hfind c (rows t) (hash t) (key_of c q)) as [(i, cur)|].
  - destruct (mf cur q) as [m|].
    + destruct (Happ m) as (t1 & E1 & H1). rewrite E1. cbn [bind]. eexists. split; [reflexivity|exact H1].
    + exists t. split; auto. intros sc Es. destruct (Hb sc Es) as (b & Hle & Hbq).
      intros v Hv. apply Hle in Hv. lia.
  - destruct (Happ q) as (t1 & E1 & H1). rewrite E1. cbn [bind]. eexists. split; [reflexivity|exact H1].
Qed.

Lemma insert_all_nopanic c mf : forall qs t lo,
  (forall sc, sortc c = Some sc -> vals_le (offs t) lo /\ mono sc lo qs) ->
  exists t', insert_all c mf t qs = Ok t' /\
    (forall sc, sortc c = Some sc -> vals_le (offs t') (last_sv sc lo qs)).
Proof.
  induction qs as [|q tl IH]; intros t lo H; simpl.
  - exists t. split; auto. intros sc Es. apply (H sc Es).
  - destruct (insert_one_nopanic c mf t q) as (t1 & E1 & H1).
    { intros sc Es. destruct (H sc Es) as (Hle & Hq & _). exists lo. auto. }
    rewrite E1. cbn [bind].
    destruct (IH t1 (match sortc c with Some sc => col q sc | None => 0 end)) as (t2 & E2 & H2).
    { intros sc Es. rewrite Es. destruct (H sc Es) as (_ & _ & Hm). split; auto. }
    exists t2. split; auto. intros sc Es. specialize (H2 sc Es). rewrite Es in H2. exact H2.
Qed.

Lemma delete_one_offs c t k : offs (delete_one c t k) = offs t /\ pins (delete_one c t k) = pins t.
Proof. unfold delete_one. destruct (hfind c (rows t) (hash t) k) as [(i, r)|]; auto. Qed.

Lemma delete_all_offs c : forall ks t,
  offs (fold_left (delete_one c) ks t) = offs t /\ pins (fold_left (delete_one c) ks t) = pins t.
Proof.
  induction ks as [|k tl IH]; intros t; simpl; auto.
  destruct (IH (delete_one c t k)) as (A & B). destruct (delete_one_offs c t k) as (C & D).
  split; congruence.
Qed.

Lemma build_offs_vals sc : forall lr n o v,
  In v (map fst (build_offs sc lr n o)) -> In v (map fst o) \/ exists r, In r lr /\ col r sc = v.
Proof.
  induction lr as [|r tl IH]; intros n o v H; simpl in H; auto.
  apply IH in H. destruct H as [H|(r' & Hr' & E)].
  - apply push_nochk_vals in H. destruct H as [H|E]; auto. right. exists r. simpl. auto.
  - right. exists r'. simpl. auto.
Qed.

Lemma mono_last_le sc : forall qs lo, mono sc lo qs -> lo <= last_sv sc lo qs.
Proof.
  induction qs as [|q tl IH]; intros lo H; simpl; auto.
  destruct H as (H1 & H2). apply IH in H2. unfold last_sv in *. simpl. lia.
Qed.

Lemma Abs_exists c rs h : HInv c rs h -> Abs c rs (fun k => option_map snd (hfind c rs h k)).
Proof.
  intros HI k r. split.
  - destruct (hfind c rs h k) as [(i, r')|] eqn:E; simpl; [|discriminate].
    intros E'. inversion E'; subst r'. apply hfind_sound in E. exists i. tauto.
  - intros (i & Hl & Hk). rewrite (hfind_complete c rs h k i r HI Hl Hk). reflexivity.
Qed.

Lemma merge_nopanic c mf t hi :
  mf_ok c mf -> TInv c t -> (forall sc, sortc c = Some sc -> NP sc t hi) ->
  exists t', merge c mf t = Ok t' /\ TInv c t' /\ pins t' = [] /\
    (forall sc, sortc c = Some sc -> vals_le (offs t') hi).
Proof.
  intros Hmf HT HNP. unfold merge, do_insert, do_delete.
  set (t0 := mkT (rows t) (stale t) (hash t) (offs t) (gen t) (pins t) []).
  assert (HT0 : TInv c t0) by (destruct HT as (A & B & C); split; auto).
  assert (HA0 : Abs c (rows t0) (fun k => option_map snd (hfind c (rows t0) (hash t0) k))).
  { apply Abs_exists. destruct HT0; auto. }
  destruct (delete_all_ok c (prem t) t0 _ HT0 HA0) as (HT1 & HA1 & _).
  destruct (delete_all_offs c (prem t) t0) as (Eo & Ep).
  set (t1 := fold_left (delete_one c) (prem t) t0) in *.
  set (t1' := mkT (rows t1) (stale t1) (hash t1) (offs t1) (gen t1) [] (prem t1)).
  assert (HT1' : TInv c t1') by (destruct HT1 as (A & B & C); split; auto).
  assert (Hlo : exists lo, forall sc, sortc c = Some sc ->
            vals_le (offs t1') lo /\ mono sc lo (pins t1) /\ last_sv sc lo (pins t1) <= hi).
  { destruct (sortc c) as [sc|] eqn:Es.
    - destruct (HNP sc eq_refl) as (lo & H1 & H2 & H3). exists lo. intros sc' E. inversion E; subst sc'.
      simpl. rewrite Eo, Ep. simpl. auto.
    - exists 0. intros sc' E. discriminate. }
  destruct Hlo as (lo & Hlo).
  destruct (insert_all_nopanic c mf (pins t1) t1' lo) as (t2 & E2 & H2).
  { intros sc Es. destruct (Hlo sc Es) as (A & B & _). auto. }
  rewrite E2. cbn [bind].
  destruct (insert_all_ok c mf Hmf (pins t1) t1' _ t2 HT1' HA1 E2) as (HT2 & HA2 & Ep2 & _).
  assert (Hv2 : forall sc, sortc c = Some sc -> vals_le (offs t2) hi).
  { intros sc Es v Hv. apply (H2 sc Es) in Hv. destruct (Hlo sc Es) as (_ & _ & Hl). lia. }
  destruct (maybe_rehash_ok c t2 _ HT2 HA2) as (t3 & E3 & HT3 & _ & Ep3 & _ & _ & _).
  exists t3. split; auto. split; auto. split; [rewrite Ep3, Ep2; reflexivity|].
  intros sc Es. unfold maybe_rehash, TableFns.maybe_rehash_skip in E3. destruct (stale t2 <=? Nat.max 16 (length (rows t2) / 2)).
  - inversion E3; subst t3. exact (Hv2 sc Es).
  - unfold rehash in E3. destruct (forallb _ _); [|discriminate]. inversion E3; subst t3. simpl. rewrite Es.
    intros v Hv. apply build_offs_vals in Hv. destruct Hv as [[]|(r & Hr & E)].
    apply In_live_rows in Hr. destruct Hr as (j & Hj).
    destruct HT2 as (_ & HS & _). destruct (HS sc Es) as (_ & _ & Hval).
    apply Hval in Hj. rewrite E in Hj. apply (Hv2 sc Es). exact Hj.
Qed.

(** every op sequence that stages rows with non-decreasing sort values runs to completion *)
Theorem run_nopanic c mf : mf_ok c mf -> forall ops t hi,
  TInv c t -> (forall sc, sortc c = Some sc -> NP sc t hi /\ wf_ops sc hi ops) ->
  exists t', run c mf t ops = Ok t'.
Proof.
  intros Hmf. induction ops as [|o tl IH]; intros t hi HT H; simpl.
  - eauto.
  - destruct o as [r|k| | |k| |cs|cn|]; simpl.
    + (* stage_insert *)
      apply (IH _ (match sortc c with Some sc => col r sc | None => 0 end)).
      * destruct HT as (A & B & C). split; auto.
      * intros sc Es. rewrite Es. destruct (H sc Es) as ((lo & H1 & H2 & H3) & (Hw1 & Hw2)). split; auto.
        exists lo. simpl. split; auto. split.
        -- apply mono_snoc; auto. lia.
        -- rewrite last_sv_snoc. lia.
    + apply (IH _ hi).
      * destruct HT as (A & B & C). split; auto.
      * intros sc Es. destruct (H sc Es) as ((lo & H1 & H2 & H3) & Hw). split; auto. exists lo. auto.
    + destruct (merge_nopanic c mf t hi Hmf HT) as (t' & E & HT' & Ep & Hv).
      { intros sc Es. apply H. auto. }
      rewrite E. cbn [bind]. apply (IH _ hi); auto.
      intros sc Es. destruct (H sc Es) as (_ & Hw). split; auto.
      exists hi. rewrite Ep. simpl. split; [exact (Hv sc Es)|]. split; auto.
    + apply (IH _ hi).
      * apply clear_ok. auto.
      * intros sc Es. destruct (H sc Es) as (_ & Hw). split; auto.
        exists 0. unfold clear. destruct (rows t) eqn:Erows; simpl.
        -- (* offsets of a table without rows are empty *)
           split; [|split; [auto|lia]].
           intros v Hv. exfalso. apply in_map_iff in Hv. destruct Hv as ((w, s0) & _ & Hin).
           destruct HT as (_ & HS & _). destruct (HS sc Es) as (_ & Hent & _).
           destruct (Hent _ _ Hin) as (Hlt & _). rewrite Erows in Hlt. simpl in Hlt. lia.
        -- split; [intros v []|]. split; [auto|lia].
    + apply (IH _ hi); auto.
    + apply (IH _ hi); auto.
    + apply (IH _ hi); auto.
    + apply (IH _ hi); auto.
    + apply (IH _ hi); auto.
Qed.

Theorem run_nopanic_empty c mf ops :
  mf_ok c mf -> (forall sc, sortc c = Some sc -> wf_ops sc 0 ops) ->
  exists t, run c mf empty ops = Ok t.
Proof.
  intros Hmf Hw. apply (run_nopanic c mf Hmf ops empty 0 (TInv_empty c)).
  intros sc Es. split; [|apply Hw; auto].
  exists 0. simpl. split; [intros v []|]. split; [exact I|unfold last_sv; simpl; lia].
Qed.
