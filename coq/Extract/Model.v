(** C07 — executable model of egglog's default extractor (src/extract.rs, `Extractor<u64>` with
    `TreeAdditiveCostModel`).  Definitions only (no proofs), so the correspondence cases still
    evaluate when a proof breaks.

    What is modelled (line numbers of /repo/src/extract.rs):
    - cost domain u64 with `Cost::combine = saturating_add` (65-77): [sat_add], bound written
      explicitly as 2^64-1;
    - a constructor row = hyperedge children -> e-class (279-305); children are e-classes or base
      values (base values cost `unit() = 1` (44-49) and have rank 0 (320-322));
    - `bellman_ford` (352-404): rounds over all rows, in the scan order given by the list [g_rows]
      (function order, then table order), skipping subsumed rows; rows of `:unextractable`
      constructors are never scanned (157-182); in-place update when the target has no cost yet or
      the new cost is strictly smaller; every update stamps the target with a fresh, increasing
      rank ([topo_rnk_cnt]); repeat until a round without update;
    - `save_best_parent_edge` (406-444): first row in scan order whose cost (under the final costs)
      equals the class's cost and whose children all have a strictly smaller rank;
    - `reconstruct_termdag_node_helper` (458-512): follow parent edges; a class with a cost but
      without a parent edge is the `unwrap()` on `None` of line 491 = [Panic];
    - `extract_best_with_sort` (518-541): no cost = `None` (the ExtractError of lib.rs:1745);
    - `extract_variants_with_sort` (596-683): rows of the root class with a cost, stably sorted by
      cost, truncated to k; children reconstructed through parent edges.
    `costs` and `topo_rnk` always have the same key set in the code (both written at 376-397), so
    the model keeps them in one map.  The term DAG + cache of the code is a pure memoisation; the
    model builds the tree.  Containers of e-classes are NOT modelled. *)
From Coq Require Import List Arith NArith ZArith Bool PeanoNat.
Import ListNotations.
Require Import Verif.Base.Res Verif.Base.Cases.
Require Export Verif.gen.ExtractFns.

(** ---- costs ----
    The arithmetic of the MODEL is regenerated from src/extract.rs on every run (gen/ExtractFns.v):
    [cost_combine] (`Cost::combine` for u64), [tac_fold] (`TreeAdditiveCostModel::fold`),
    [container_cost_default], [base_value_cost_default], [relax_improves] / [relax_vacant_updates]
    (the update test of `bellman_ford`), [parent_cost_matches] / [rank_guard] (the tests of
    `save_best_parent_edge`), [rank_init] / [rank_combine] / [rank_prim] (`compute_topo_rnk_*`).
    The SPECIFICATION side ([tree_cost] below) is written by hand with an explicit saturating u64
    sum; Extract/Proofs.v proves that the regenerated arithmetic is that sum ([cost_combine_sat],
    [tac_fold_sum]), so a change of the Rust arithmetic breaks those lemmas. *)
Definition MAXC : N := 18446744073709551615%N.   (* 2^64 - 1 = u64::MAX *)
Definition sat_add (a b : N) : N := N.min (a + b) MAXC.   (* specification: saturating u64 sum *)

(** ---- e-graph as seen by the extractor ---- *)
Inductive child := CClass (c : nat) | CPrim (z : Z).

Record row := mkRow {
  r_fn : nat;            (* constructor id *)
  r_args : list child;   (* children *)
  r_cls : nat;           (* e-class of the row (output column) *)
  r_sub : bool;          (* subsumed flag *)
}.

Record fdecl := mkF {
  f_cost : N;            (* :cost annotation (default 1) *)
  f_unext : bool;        (* :unextractable *)
}.

Record graph := mkG {
  g_fns : list fdecl;    (* indexed by constructor id *)
  g_rows : list row;     (* every row of every constructor, in the extractor's scan order *)
}.

Definition fn_decl (g : graph) (f : nat) : fdecl := nth f (g_fns g) (mkF 1 true).
Definition fn_cost (g : graph) (f : nat) : N := f_cost (fn_decl g f).
(** a row the extractor may use: constructor extractable, row not subsumed (deleted rows are
    simply absent from [g_rows]) *)
Definition allowed (g : graph) (r : row) : bool :=
  negb (r_sub r) && negb (f_unext (fn_decl g (r_fn r))) && (r_fn r <? length (g_fns g)).

(** ---- extractor state: class -> (best cost, rank of its last update) ---- *)
Definition cstate := nat -> option (N * nat).
Definition empty_cs : cstate := fun _ => None.
Definition cs_set (s : cstate) (c : nat) (v : N * nat) : cstate :=
  fun x => if Nat.eqb x c then Some v else s x.

Definition child_cost (s : cstate) (ch : child) : option N :=
  match ch with
  | CPrim _ => Some base_value_cost_default
  | CClass c => match s c with Some (v, _) => Some v | None => None end
  end.

(** `compute_cost_hyperedge`: `ch_costs.push(self.compute_cost_node(..)?)` for every child, then
    `cost_model.fold(head, &ch_costs, enode_cost)` = regenerated [tac_fold] *)
Fixpoint children_costs (s : cstate) (args : list child) : option (list N) :=
  match args with
  | [] => Some []
  | a :: tl => match child_cost s a with
               | None => None
               | Some c => match children_costs s tl with
                           | None => None
                           | Some cs => Some (c :: cs)
                           end
               end
  end.

Definition row_cost (g : graph) (s : cstate) (r : row) : option N :=
  match children_costs s (r_args r) with
  | None => None
  | Some cs => Some (tac_fold cs (fn_cost g (r_fn r)))
  end.

(** rank of a child: base values 0; classes their stamp (usize::MAX when absent: never consulted
    for rows that have a cost, modelled as "no rank") *)
Definition child_rank (s : cstate) (ch : child) : option nat :=
  match ch with
  | CPrim _ => Some rank_prim
  | CClass c => match s c with Some (_, k) => Some k | None => None end
  end.

Fixpoint max_rank (s : cstate) (acc : nat) (args : list child) : option nat :=
  match args with
  | [] => Some acc
  | a :: tl => match child_rank s a with
               | None => None
               | Some k => max_rank s (rank_combine acc k) tl
               end
  end.

(** ---- relaxation ---- *)
Record bf := mkBF { b_cs : cstate; b_cnt : nat; b_upd : bool }.

Definition relax_row (g : graph) (b : bf) (r : row) : bf :=
  if allowed g r then
    match row_cost g (b_cs b) r with
    | None => b
    | Some nc =>
        let doit := mkBF (cs_set (b_cs b) (r_cls r) (nc, S (b_cnt b))) (S (b_cnt b)) true in
        match b_cs b (r_cls r) with
        | None => if relax_vacant_updates then doit else b
        | Some (oc, _) => if relax_improves nc oc then doit else b
        end
    end
  else b.

Definition round (g : graph) (s : cstate) (cnt : nat) : bf :=
  fold_left (relax_row g) (g_rows g) (mkBF s cnt false).

(** the `while !ensure_fixpoint` loop; fuel counts rounds *)
Fixpoint bellman_ford (fuel : nat) (g : graph) (s : cstate) (cnt : nat) : Res (cstate * nat) :=
  match fuel with
  | O => OutOfFuel
  | S fuel' =>
      let b := round g s cnt in
      if b_upd b then bellman_ford fuel' g (b_cs b) (b_cnt b) else Ok (b_cs b, b_cnt b)
  end.

(** ---- parent edges ---- *)
Definition is_parent (g : graph) (s : cstate) (c : nat) (r : row) : bool :=
  allowed g r && Nat.eqb (r_cls r) c &&
  match s c, max_rank s rank_init (r_args r) with
  | Some (best, rk), Some mr => parent_cost_matches best (row_cost g s r) && rank_guard rk mr
  | _, _ => false
  end.

Definition parent_edge (g : graph) (s : cstate) (c : nat) : option row :=
  find (is_parent g s c) (g_rows g).

(** ---- terms and reconstruction ---- *)
Inductive term := TApp (f : nat) (args : list term) | TLit (z : Z).

Fixpoint tree_cost (g : graph) (t : term) : N :=
  match t with
  | TLit _ => 1%N
  | TApp f ts => fold_left (fun acc t' => sat_add acc (tree_cost g t')) ts (fn_cost g f)
  end.

Section Recon.
  Context (g : graph) (s : cstate).
  Context (rec : nat -> Res term).
  Fixpoint recon_args (args : list child) : Res (list term) :=
    match args with
    | [] => Ok []
    | CPrim z :: tl => bind (recon_args tl) (fun ts => Ok (TLit z :: ts))
    | CClass c :: tl => bind (rec c) (fun t => bind (recon_args tl) (fun ts => Ok (t :: ts)))
    end.
End Recon.

Fixpoint reconstruct (fuel : nat) (g : graph) (s : cstate) (c : nat) : Res term :=
  match fuel with
  | O => OutOfFuel
  | S fuel' =>
      match parent_edge g s c with
      | None => Panic                        (* extract.rs:491 `.get(&value).unwrap()` *)
      | Some r => bind (recon_args (reconstruct fuel' g s) (r_args r)) (fun ts => Ok (TApp (r_fn r) ts))
      end
  end.

(** `(extract e)`: [Ok None] is the ExtractError; [Panic] is the unwrap at line 491 *)
Definition extract_with (g : graph) (sc : cstate * nat) (root : nat) : Res (option (N * term)) :=
  let '(s, cnt) := sc in
  match s root with
  | None => Ok None
  | Some (cost, _) => bind (reconstruct (S cnt) g s root) (fun t => Ok (Some (cost, t)))
  end.

Definition extract (fuel : nat) (g : graph) (root : nat) : Res (option (N * term)) :=
  bind (bellman_ford fuel g empty_cs 0) (fun sc => extract_with g sc root).

(** ---- variants ---- *)
Fixpoint insert_by_cost (x : N * row) (l : list (N * row)) : list (N * row) :=
  match l with
  | [] => [x]
  | y :: tl => if (fst x <? fst y)%N then x :: l else y :: insert_by_cost x tl
  end.
Definition sort_by_cost (l : list (N * row)) : list (N * row) :=
  fold_right insert_by_cost [] l.

Definition root_variants (g : graph) (s : cstate) (root : nat) : list (N * row) :=
  flat_map (fun r => if allowed g r && Nat.eqb (r_cls r) root then
                       match row_cost g s r with Some c => [(c, r)] | None => [] end
                     else []) (g_rows g).

Fixpoint variants_terms (g : graph) (s : cstate) (cnt : nat) (l : list (N * row)) : Res (list (N * term)) :=
  match l with
  | [] => Ok []
  | (c, r) :: tl =>
      bind (recon_args (reconstruct (S cnt) g s) (r_args r)) (fun ts =>
      bind (variants_terms g s cnt tl) (fun rest => Ok ((c, TApp (r_fn r) ts) :: rest)))
  end.

Definition extract_variants_with (g : graph) (sc : cstate * nat) (root k : nat) : Res (list (N * term)) :=
  let '(s, cnt) := sc in
  variants_terms g s cnt (firstn k (sort_by_cost (root_variants g s root))).

Definition extract_variants (fuel : nat) (g : graph) (root k : nat) : Res (list (N * term)) :=
  bind (bellman_ford fuel g empty_cs 0) (fun sc => extract_variants_with g sc root k).

(** ---- correspondence cases ---- *)
Inductive obs :=
| ObsTerm (cost : N) (t : term)   (* ExtractBest(termdag, cost, term) *)
| ObsNone                         (* Err(ExtractError) *)
| ObsPanic.                       (* the engine panicked inside extraction *)

Fixpoint term_eqb (a b : term) {struct a} : bool :=
  match a, b with
  | TLit x, TLit y => Z.eqb x y
  | TApp f xs, TApp h ys =>
      Nat.eqb f h &&
      (fix go (xs : list term) (ys : list term) {struct xs} : bool :=
         match xs, ys with
         | [], [] => true
         | x :: xs', y :: ys' => term_eqb x y && go xs' ys'
         | _, _ => false
         end) xs ys
  | _, _ => false
  end.

Definition obs_matches (r : Res (option (N * term))) (o : obs) : bool :=
  match r, o with
  | Ok (Some (c, t)), ObsTerm c' t' => N.eqb c c' && term_eqb t t'
  | Ok None, ObsNone => true
  | Panic, ObsPanic => true
  | _, _ => false
  end.

(** variants: the implementation's tie order among equal-cost rows depends on raw ids, so the
    observation is the list of the variants' costs (ascending), [None] when the engine panicked *)
Definition vobs_matches (r : Res (list (N * term))) (o : option (list N)) : bool :=
  match r, o with
  | Ok l, Some costs => list_eqb N.eqb (map fst l) costs
  | Panic, None => true
  | _, _ => false
  end.

(** rounds of relaxation allowed to the model when evaluating cases (the proofs quantify over
    the fuel; see Extract/Proofs.v [bellman_ford_terminates]) *)
Definition case_fuel (g : graph) : nat := S (S (length (g_rows g))).

(** a case: graph, observed `(extract root)` for several roots, observed `(extract root k)` *)
Definition case := (graph * list (nat * obs) * list (nat * nat * option (list N)))%type.

Definition check_case (c : case) : bool :=
  let '(g, roots, vars) := c in
  match bellman_ford (case_fuel g) g empty_cs 0 with
  | Ok sc =>
      forallb (fun ro => obs_matches (extract_with g sc (fst ro)) (snd ro)) roots &&
      forallb (fun rv => let '(root, k, o) := rv in vobs_matches (extract_variants_with g sc root k) o) vars
  | _ => false
  end.
