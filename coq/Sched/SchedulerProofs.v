(** C18 — proofs about [Sched/Scheduler.v]. *)
From Coq Require Import List Arith Lia PeanoNat Bool Permutation ZArith.
Import ListNotations.
Require Import Verif.Base.Res Verif.Base.Cases Verif.gen.UFSeq Verif.UF.Seq Verif.Egg.Model
  Verif.Egg.Rules Verif.Egg.RepFacts Verif.Egg.CCDefs Verif.Egg.Rebuild Verif.Egg.CC
  Verif.Sched.Scheduler.

(* ====================================================================================== *)
(** * Part A: instantiate *)

Section InstProofs.
  Context {A : Type}.
  Variable d : A.

  Lemma idx_app (l1 : list A) a l2 : idx (l1 ++ a :: l2) (length l1) = Ok a.
  Proof.
    unfold idx. rewrite nth_error_app2 by lia. rewrite Nat.sub_diag. reflexivity.
  Qed.

  Lemma set_nth_app (l1 : list A) a l2 v : set_nth (l1 ++ a :: l2) (length l1) v = l1 ++ v :: l2.
  Proof. induction l1; simpl; congruence. Qed.

  Lemma upd_app (l1 : list A) a l2 v : upd (l1 ++ a :: l2) (length l1) v = Ok (l1 ++ v :: l2).
  Proof.
    unfold upd. replace (length l1 <? length (l1 ++ a :: l2)) with true.
    - rewrite set_nth_app. reflexivity.
    - symmetry. apply Nat.ltb_lt. rewrite app_length. simpl. lia.
  Qed.

  Lemma swap_split (l1 : list A) a l2 b l3 :
    swap (l1 ++ a :: l2 ++ b :: l3) (length l1) (length l1 + S (length l2))
    = Ok (l1 ++ b :: l2 ++ a :: l3).
  Proof.
    unfold swap. rewrite idx_app. cbn [bind].
    assert (E : forall x y, l1 ++ x :: l2 ++ y :: l3 = (l1 ++ x :: l2) ++ y :: l3).
    { intros. rewrite <- app_assoc. reflexivity. }
    assert (L : forall x, length (l1 ++ x :: l2) = length l1 + S (length l2)).
    { intros. rewrite app_length. reflexivity. }
    rewrite (E a b). rewrite <- (L a). rewrite idx_app. cbn [bind].
    rewrite <- (E a b). rewrite upd_app. cbn [bind].
    rewrite (E b b). rewrite (L a), <- (L b). rewrite upd_app. rewrite <- E. reflexivity.
  Qed.

  Lemma split2 (m : list A) c p : c < p -> p < length m ->
    exists l1 l2 l3, m = l1 ++ nth c m d :: l2 ++ nth p m d :: l3
                     /\ length l1 = c /\ c + S (length l2) = p.
  Proof.
    intros Hc Hp.
    destruct (nth_split m d (n := c)) as (l1 & r & Em & Hl1); [lia|].
    remember (nth c m d) as a eqn:Ea.
    assert (Hlen : length m = c + S (length r)).
    { rewrite Em. rewrite app_length. simpl. lia. }
    destruct (nth_split r d (n := p - c - 1)) as (l2 & l3 & Er & Hl2); [lia|].
    assert (Hb : nth (p - c - 1) r d = nth p m d).
    { rewrite Em. rewrite app_nth2 by lia. rewrite Hl1.
      set (k := p - c - 1). replace (p - c) with (S k) by (unfold k; lia). reflexivity. }
    exists l1, l2, l3. rewrite <- Hb. rewrite <- Er. split; [exact Em|]. split; lia.
  Qed.

  Fixpoint desc_below (l : list nat) (p : nat) : Prop :=
    match l with
    | [] => True
    | c :: tl => c < p /\ desc_below tl c
    end.

  Lemma desc_below_weaken l p q : desc_below l p -> p <= q -> desc_below l q.
  Proof. destruct l; simpl; intros; [exact I|]. destruct H. split; [lia|assumption]. Qed.

  Lemma desc_below_all l : forall p, desc_below l p -> Forall (fun x => x < p) l.
  Proof.
    induction l as [|c tl IH]; intros p H; constructor; destruct H as [H1 H2]; [exact H1|].
    eapply Forall_impl; [|apply IH; exact H2]. simpl. intros; lia.
  Qed.

  Lemma firstn_len_app (x y : list A) : firstn (length x) (x ++ y) = x.
  Proof. induction x; simpl; congruence. Qed.

  Lemma firstn_S_nth (m : list A) p : p < length m -> firstn (S p) m = firstn p m ++ [nth p m d].
  Proof.
    revert p. induction m as [|a m IH]; intros p Hp; simpl in Hp; [lia|].
    destruct p; simpl; [reflexivity|]. f_equal. apply IH. lia.
  Qed.

  Notation pick m := (fun c => nth c m d).

  Lemma swap_remove_spec : forall l p (m : list A), desc_below l p -> p <= length m ->
    exists m', swap_remove l p m = Ok (p - length l, m') /\ length m' = length m /\
      Permutation (firstn (p - length l) m' ++ map (pick m) l) (firstn p m).
  Proof.
    induction l as [|c tl IH]; intros p m Hd Hp.
    - exists m. simpl. rewrite Nat.sub_0_r, app_nil_r. auto.
    - destruct Hd as [Hc Hd]. destruct p as [|p']; [lia|].
      cbn [swap_remove length]. replace (S p' - S (length tl)) with (p' - length tl) by lia.
      destruct (Nat.eqb c p') eqn:E.
      + apply Nat.eqb_eq in E. subst c. cbn [bind].
        assert (Hp0 : p' <= length m) by lia.
        destruct (IH p' m Hd Hp0) as (m' & H1 & H2 & H3).
        exists m'. split; [exact H1|]. split; [exact H2|].
        rewrite firstn_S_nth by lia. cbn [map].
        eapply perm_trans; [apply Permutation_sym, Permutation_middle|].
        eapply perm_trans; [apply perm_skip; exact H3|]. apply Permutation_cons_append.
      + apply Nat.eqb_neq in E.
        destruct (split2 m c p') as (l1 & l2 & l3 & Em & Hl1 & Hl2); [lia|lia|].
        set (a := nth c m d) in *. set (b := nth p' m d) in *.
        assert (Hsw : swap m c p' = Ok (l1 ++ b :: l2 ++ a :: l3)).
        { rewrite Em at 1. rewrite <- Hl2, <- Hl1. apply swap_split. }
        rewrite Hsw. cbn [bind].
        set (m1 := l1 ++ b :: l2 ++ a :: l3).
        assert (Hlen1 : length m1 = length m).
        { unfold m1. rewrite Em. rewrite !app_length. simpl. rewrite !app_length. simpl. lia. }
        assert (Hd' : desc_below tl p') by (eapply desc_below_weaken; [exact Hd|lia]).
        assert (Hp1 : p' <= length m1) by lia.
        destruct (IH p' m1 Hd' Hp1) as (m' & H1 & H2 & H3).
        exists m'. split; [exact H1|]. split; [lia|].
        assert (Hmap : map (pick m1) tl = map (pick m) tl).
        { apply map_ext_in. intros x Hx.
          pose proof (desc_below_all _ _ Hd) as Hall. rewrite Forall_forall in Hall.
          specialize (Hall x Hx). unfold m1. rewrite Em.
          rewrite !app_nth1 by lia. reflexivity. }
        rewrite Hmap in H3.
        assert (Hf1 : firstn p' m1 = l1 ++ b :: l2).
        { unfold m1. replace (l1 ++ b :: l2 ++ a :: l3) with ((l1 ++ b :: l2) ++ a :: l3)
            by (rewrite <- app_assoc; reflexivity).
          replace p' with (length (l1 ++ b :: l2)) by (rewrite app_length; simpl; lia).
          apply firstn_len_app. }
        assert (Hf2 : firstn (S p') m = l1 ++ a :: l2 ++ [b]).
        { rewrite Em. replace (l1 ++ a :: l2 ++ b :: l3) with ((l1 ++ a :: l2 ++ [b]) ++ l3)
            by (rewrite <- app_assoc; simpl; rewrite <- app_assoc; reflexivity).
          replace (S p') with (length (l1 ++ a :: l2 ++ [b]))
            by (rewrite app_length; simpl; rewrite app_length; simpl; lia).
          apply firstn_len_app. }
        rewrite Hf1 in H3. rewrite Hf2. cbn [map]. fold a.
        eapply perm_trans; [apply Permutation_sym, Permutation_middle|].
        eapply perm_trans; [apply perm_skip; exact H3|].
        eapply perm_trans; [apply Permutation_middle|].
        apply Permutation_app_head. apply perm_skip. apply Permutation_cons_append.
  Qed.

  Lemma desc_below_rev_filter f : forall k a,
    desc_below (rev (filter f (seq a k))) (a + k).
  Proof.
    induction k as [|k IH]; intros a; [exact I|].
    rewrite seq_S, filter_app, rev_app_distr. cbn [filter].
    destruct (f (a + k)); cbn [rev app].
    - split; [lia|]. apply IH.
    - eapply desc_below_weaken; [apply IH|lia].
  Qed.

  Lemma mapM_idx_ok (m : list A) : forall chosen, Forall (fun c => c < length m) chosen ->
    mapM (idx m) chosen = Ok (map (pick m) chosen).
  Proof.
    induction chosen as [|c tl IH]; intros H; [reflexivity|].
    inversion H; subst. cbn [mapM map]. rewrite (idx_ok m c d) by assumption. cbn [bind].
    rewrite IH by assumption. reflexivity.
  Qed.

  Lemma mapM_idx_inv (m : list A) : forall chosen ins, mapM (idx m) chosen = Ok ins ->
    Forall (fun c => c < length m) chosen.
  Proof.
    induction chosen as [|c tl IH]; intros ins H; constructor.
    - cbn [mapM] in H. destruct (Nat.lt_ge_cases c (length m)) as [Hl|Hl]; [exact Hl|].
      rewrite idx_panic in H by exact Hl. discriminate.
    - cbn [mapM] in H. destruct (idx m c); cbn [bind] in H; try discriminate.
      destruct (mapM (idx m) tl) eqn:E; cbn [bind] in H; try discriminate. eapply IH; reflexivity.
  Qed.

  Lemma map_pick_seq (m : list A) : map (pick m) (seq 0 (length m)) = m.
  Proof.
    induction m as [|a m IH]; [reflexivity|].
    cbn [length seq map nth]. f_equal. rewrite <- seq_shift, map_map. exact IH.
  Qed.

  Lemma filter_partition_perm {B} (f : B -> bool) (l : list B) :
    Permutation (filter (fun x => negb (f x)) l ++ filter f l) l.
  Proof.
    induction l as [|x l IH]; [constructor|]. cbn [filter]. destruct (f x); cbn [negb app].
    - eapply perm_trans; [apply Permutation_sym, Permutation_middle|]. apply perm_skip, IH.
    - apply perm_skip, IH.
  Qed.

  Definition is_chosen (chosen : list nat) (i : nat) : bool := existsb (Nat.eqb i) chosen.

  (** the rows inserted into `decided` are exactly the chosen ones (in call order, a duplicate
      choice inserts the same row twice into a table, i.e. once); the residual vector is a
      permutation of the matches at the indices that were NOT chosen; nothing else is kept or
      dropped *)
  Theorem instantiate_perm (m : list A) (chosen : list nat) :
    Forall (fun c => c < length m) chosen ->
    exists res,
      instantiate m chosen false = Ok (map (pick m) chosen, res)
      /\ Permutation (res ++ map (pick m) (sort_dedup chosen (length m))) m
      /\ Permutation res
           (map (pick m) (filter (fun i => negb (is_chosen chosen i)) (seq 0 (length m)))).
  Proof.
    intros Hc. unfold instantiate. rewrite (mapM_idx_ok m chosen Hc). cbn [bind].
    set (cs := sort_dedup chosen (length m)).
    destruct (swap_remove_spec (rev cs) (length m) m) as (m' & H1 & H2 & H3).
    { unfold cs, sort_dedup. apply (desc_below_rev_filter _ (length m) 0). }
    { lia. }
    rewrite H1. cbn [bind]. eexists. split; [reflexivity|].
    rewrite firstn_all in H3.
    assert (P1 : Permutation (firstn (length m - length (rev cs)) m' ++ map (pick m) cs) m).
    { eapply perm_trans; [|exact H3]. apply Permutation_app_head.
      apply Permutation_map. apply Permutation_rev. }
    split; [exact P1|].
    eapply Permutation_app_inv_r. eapply perm_trans; [exact P1|].
    apply Permutation_sym. rewrite <- map_app.
    eapply perm_trans; [apply Permutation_map; apply (filter_partition_perm (is_chosen chosen))|].
    rewrite map_pick_seq. apply Permutation_refl.
  Qed.

  Theorem instantiate_all (m : list A) chosen : instantiate m chosen true = Ok (m, []).
  Proof. reflexivity. Qed.

  (** out-of-range indices are the only way to fail (a panic in the code) *)
  Lemma instantiate_ok_inv (m : list A) chosen ins res :
    instantiate m chosen false = Ok (ins, res) -> Forall (fun c => c < length m) chosen.
  Proof.
    unfold instantiate. destruct (mapM (idx m) chosen) eqn:E; cbn [bind]; try discriminate.
    intros _. eapply mapM_idx_inv; eauto.
  Qed.

  (** the residual depends only on WHICH indices were chosen: duplicates and order are harmless *)
  Theorem instantiate_dups (m : list A) c1 c2 :
    (forall i, In i c1 <-> In i c2) ->
    Forall (fun c => c < length m) c1 ->
    exists res, instantiate m c1 false = Ok (map (pick m) c1, res)
             /\ instantiate m c2 false = Ok (map (pick m) c2, res).
  Proof.
    intros Hiff H1.
    assert (H2 : Forall (fun c => c < length m) c2).
    { rewrite Forall_forall in *. intros x Hx. apply H1, Hiff, Hx. }
    assert (E : sort_dedup c1 (length m) = sort_dedup c2 (length m)).
    { unfold sort_dedup. apply filter_ext. intros i.
      destruct (existsb (Nat.eqb i) c1) eqn:E1, (existsb (Nat.eqb i) c2) eqn:E2; auto.
      - apply existsb_exists in E1. destruct E1 as (x & Hx & Ex). apply Nat.eqb_eq in Ex. subst x.
        apply Hiff in Hx. assert (existsb (Nat.eqb i) c2 = true)
          by (apply existsb_exists; exists i; split; [auto|apply Nat.eqb_refl]). congruence.
      - apply existsb_exists in E2. destruct E2 as (x & Hx & Ex). apply Nat.eqb_eq in Ex. subst x.
        apply Hiff in Hx. assert (existsb (Nat.eqb i) c1 = true)
          by (apply existsb_exists; exists i; split; [auto|apply Nat.eqb_refl]). congruence. }
    unfold instantiate. rewrite (mapM_idx_ok m c1 H1), (mapM_idx_ok m c2 H2). cbn [bind].
    rewrite E. destruct (swap_remove _ _ m) as [[p m']| |] eqn:Es; cbn [bind].
    - eexists; split; reflexivity.
    - destruct (swap_remove_spec (rev (sort_dedup c2 (length m))) (length m) m) as (m' & Hx & _).
      { apply (desc_below_rev_filter _ (length m) 0). } { lia. } congruence.
    - destruct (swap_remove_spec (rev (sort_dedup c2 (length m))) (length m) m) as (m' & Hx & _).
      { apply (desc_below_rev_filter _ (length m) 0). } { lia. } congruence.
  Qed.
End InstProofs.

(* ====================================================================================== *)
(** * Part B.1: value-level execution agrees with [Rules.xexec] on embedded terms *)

Lemma vadds_eq : forall l s, vadds s l =
  (fix adds (s : state) (l : list vterm) : state * list val :=
     match l with
     | [] => (s, [])
     | x :: tl => let '(s1, v) := vadd s x in
                  let '(s2, vs) := adds s1 tl in (s2, v :: vs)
     end) s l.
Proof.
  induction l as [|x tl IH]; intros s; [reflexivity|]. cbn [vadds].
  destruct (vadd s x) as [s1 v]. rewrite IH. reflexivity.
Qed.

Lemma vadd_VT s f ts : vadd s (VT f ts) = let '(s', vs) := vadds s ts in add_node s' f vs.
Proof. rewrite vadds_eq. reflexivity. Qed.

Lemma add_terms_same s l : CCDefs.add_terms s l = Rules.add_terms s l.
Proof. reflexivity. Qed.

Lemma vadds_embed ts :
  Forall (fun t => forall s, vadd s (embed t) = add_term s t) ts ->
  forall s, vadds s (map embed ts) = Rules.add_terms s ts.
Proof.
  induction 1 as [|t tl Ht Htl IH]; intros s; [reflexivity|].
  cbn [map vadds Rules.add_terms]. rewrite Ht. destruct (add_term s t) as [s1 v].
  rewrite IH. reflexivity.
Qed.

Lemma vadd_embed : forall t s, vadd s (embed t) = add_term s t.
Proof.
  induction t as [z|f l IH] using term_ind'; intros s; [reflexivity|].
  cbn [embed]. rewrite vadd_VT, add_term_T, add_terms_same. rewrite (vadds_embed l IH). reflexivity.
Qed.

Lemma vadds_embed_all ts s : vadds s (map embed ts) = Rules.add_terms s ts.
Proof. apply vadds_embed. apply Forall_forall. intros t _. apply vadd_embed. Qed.

Lemma vexec_embed sg c s : vexec sg s (embed_cmd c) = xexec sg s c.
Proof.
  destruct c as [[t|a b]|f ts v|f ts|f ts|]; cbn [embed_cmd vexec xexec exec].
  - rewrite vadd_embed. reflexivity.
  - rewrite vadd_embed. destruct (add_term s a) as [s1 v1]. rewrite vadd_embed.
    destruct (add_term s1 b) as [s2 v2]. destruct v1, v2; reflexivity.
  - rewrite vadds_embed_all. destruct (Rules.add_terms s ts) as [s1 vs]. rewrite vadd_embed. reflexivity.
  - rewrite vadds_embed_all. reflexivity.
  - rewrite vadds_embed_all. reflexivity.
  - reflexivity.
Qed.

Lemma vrun_embed sg : forall cs s, vrun sg s (map embed_cmd cs) = xrun sg s cs.
Proof.
  induction cs as [|c cs IH]; intros s; [reflexivity|].
  cbn [map vrun xrun]. rewrite vexec_embed. destruct (xexec sg s c) as [s' [e|]]; [reflexivity|apply IH].
Qed.

(* ====================================================================================== *)
(** * Part B.2: matching only binds values stored in the tables *)

Lemma pat_ind' (P : pat -> Prop) :
  (forall x, P (PVar x)) -> (forall f ps, Forall P ps -> P (PApp f ps)) ->
  (forall z, P (PInt z)) -> (forall a b, P a -> P b -> P (PAdd a b)) -> forall p, P p.
Proof.
  intros HV HA HI HD. fix IH 1. intros [x|f ps|z|a b].
  - apply HV.
  - apply HA. induction ps as [|q tl IHl]; constructor; [apply IH|exact IHl].
  - apply HI.
  - apply HD; apply IH.
Qed.

Lemma match_pat_app s f ps v e : match_pat s (PApp f ps) v e =
  flat_map (fun r => if rsub r then []
                     else if val_eqb (rret r) v then match_args s ps (rargs r) e else [])
           (get_tab (tabs s) f).
Proof. reflexivity. Qed.

Definition env_canon (s : state) (e : env) : Prop :=
  forall x v, env_get e x = Some v -> canon_val s v = true.

Definition tabs_canonical (s : state) : Prop :=
  forall f r, In r (get_tab (tabs s) f) ->
    canon_val s (rret r) = true /\ Forall (fun v => canon_val s v = true) (rargs r).

Lemma env_bind_canon s e x v e' :
  env_canon s e -> canon_val s v = true -> In e' (env_bind e x v) -> env_canon s e'.
Proof.
  intros He Hv Hin. unfold env_bind in Hin. destruct (env_get e x) as [w|] eqn:E.
  - destruct (val_eqb v w); [|destruct Hin]. destruct Hin as [<-|[]]. exact He.
  - destruct Hin as [<-|[]]. intros y u. cbn [env_get].
    destruct (Nat.eqb y x); [intros [= <-]; exact Hv|apply He].
Qed.

Section MatchCanon.
  Variable s : state.
  Hypothesis Ht : tabs_canonical s.

  Definition Pcanon (p : pat) : Prop := forall v e e',
    canon_val s v = true -> env_canon s e -> In e' (match_pat s p v e) -> env_canon s e'.

  Lemma match_args_canon_aux ps : Forall Pcanon ps -> forall vs e e',
    Forall (fun v => canon_val s v = true) vs -> env_canon s e ->
    In e' (match_args s ps vs e) -> env_canon s e'.
  Proof.
    induction 1 as [|p ps' Hp Hps IH]; intros vs e e' Hvs He Hin.
    - destruct vs; cbn in Hin; [destruct Hin as [<-|[]]; exact He|destruct Hin].
    - destruct vs as [|v vs']; [destruct Hin|]. cbn [match_args] in Hin.
      apply in_flat_map in Hin. destruct Hin as (e1 & H1 & H2).
      inversion Hvs; subst. eapply IH; [eassumption| |exact H2].
      eapply Hp; eauto.
  Qed.

  Lemma match_pat_canon : forall p, Pcanon p.
  Proof.
    induction p as [x|f ps IH|z|a b _ _] using pat_ind'; intros v e e' Hv He Hin.
    - eapply env_bind_canon; eauto.
    - rewrite match_pat_app in Hin. apply in_flat_map in Hin. destruct Hin as (r & Hr & Hin).
      destruct (rsub r); [destruct Hin|]. destruct (val_eqb (rret r) v); [|destruct Hin].
      apply (match_args_canon_aux ps IH (rargs r) e e'); [apply (Ht f r Hr)|exact He|exact Hin].
    - cbn [match_pat] in Hin. destruct (val_eqb v (VInt z)); [|destruct Hin].
      destruct Hin as [<-|[]]. exact He.
    - cbn [match_pat] in Hin. destruct (int_of e (PAdd a b)); [|destruct Hin].
      destruct (val_eqb v (VInt z)); [|destruct Hin]. destruct Hin as [<-|[]]. exact He.
  Qed.

  Lemma match_args_canon ps vs e e' :
    Forall (fun v => canon_val s v = true) vs -> env_canon s e ->
    In e' (match_args s ps vs e) -> env_canon s e'.
  Proof.
    apply match_args_canon_aux. apply Forall_forall. intros p _. apply match_pat_canon.
  Qed.

  Lemma match_atom_canon x p e e' : env_canon s e -> In e' (match_atom s x p e) -> env_canon s e'.
  Proof.
    intros He Hin. destruct p as [y|f ps|z|a b]; try destruct Hin.
    cbn [match_atom] in Hin. apply in_flat_map in Hin. destruct Hin as (r & Hr & Hin).
    destruct (rsub r); [destruct Hin|]. apply in_flat_map in Hin. destruct Hin as (e1 & H1 & H2).
    destruct (Ht f r Hr) as [Hret Hargs].
    assert (He1 : env_canon s e1) by (eapply match_args_canon; eauto).
    destruct x as [x|]; [eapply env_bind_canon; eauto|]. destruct H2 as [<-|[]]. exact He1.
  Qed.

  Lemma match_fact_canon f e e' : env_canon s e -> In e' (match_fact s f e) -> env_canon s e'.
  Proof.
    intros He Hin. destruct f as [x p|p|a b|a b]; cbn [match_fact] in Hin.
    - eapply match_atom_canon; eauto.
    - eapply match_atom_canon; eauto.
    - destruct (int_of e a), (int_of e b); try destruct Hin.
      destruct (z <? z0)%Z; [|destruct Hin]. destruct Hin as [<-|[]]. exact He.
    - destruct (int_of e a), (int_of e b); try destruct Hin.
      destruct (z =? z0)%Z; [destruct Hin|]. destruct Hin as [<-|[]]. exact He.
  Qed.

  Lemma match_body_canon : forall fs es e', (forall e, In e es -> env_canon s e) ->
    In e' (match_body s fs es) -> env_canon s e'.
  Proof.
    induction fs as [|f fs IH]; intros es e' Hes Hin; [apply Hes, Hin|].
    cbn [match_body] in Hin. eapply IH; [|exact Hin].
    intros e1 H1. apply in_flat_map in H1. destruct H1 as (e0 & H0 & H1).
    eapply match_fact_canon; eauto.
  Qed.

  Lemma match_body_canon0 fs e' : In e' (match_body s fs [[]]) -> env_canon s e'.
  Proof.
    apply match_body_canon. intros e [<-|[]]. intros x v. discriminate.
  Qed.
End MatchCanon.

(* ====================================================================================== *)
(** * Part B.3: grounding an action only reads the variables of the action *)

Lemma int_of_agree e1 e2 : forall p,
  (forall x, In x (pat_vars p) -> env_get e1 x = env_get e2 x) -> int_of e1 p = int_of e2 p.
Proof.
  induction p as [x|f ps|z|a IHa b IHb]; intros H; cbn [int_of]; try reflexivity.
  - rewrite (H x) by (left; reflexivity). reflexivity.
  - rewrite IHa, IHb; [reflexivity| |]; intros x Hx; apply H; cbn [pat_vars]; apply in_or_app; auto.
Qed.

Lemma ground_app s e f ps : ground s e (PApp f ps) =
  match grounds s e ps with Some ts => Some (T f ts) | None => None end.
Proof.
  cbn [ground]. assert (E : forall l, (fix grounds (ps0 : list pat) : option (list term) :=
     match ps0 with
     | [] => Some []
     | p :: tl => match ground s e p with
                  | Some t => match grounds tl with Some ts => Some (t :: ts) | None => None end
                  | None => None
                  end
     end) l = grounds s e l).
  { induction l as [|p tl IH]; [reflexivity|]. cbn [grounds]. rewrite IH. reflexivity. }
  rewrite E. reflexivity.
Qed.

Lemma ground_agree s e1 e2 : forall p,
  (forall x, In x (pat_vars p) -> env_get e1 x = env_get e2 x) -> ground s e1 p = ground s e2 p.
Proof.
  induction p as [x|f ps IH|z|a b _ _] using pat_ind'; intros H.
  - cbn [ground]. rewrite (H x) by (left; reflexivity). reflexivity.
  - rewrite !ground_app.
    assert (E : grounds s e1 ps = grounds s e2 ps).
    { cbn [pat_vars] in H. induction IH as [|p tl Hp Htl IHl]; [reflexivity|].
      cbn [grounds]. rewrite Hp, IHl; [reflexivity| |]; intros x Hx; apply H; cbn [flat_map];
        apply in_or_app; auto. }
    rewrite E. reflexivity.
  - reflexivity.
  - cbn [ground]. rewrite (int_of_agree e1 e2 (PAdd a b) H). reflexivity.
Qed.

Lemma grounds_agree s e1 e2 : forall ps,
  (forall x, In x (flat_map pat_vars ps) -> env_get e1 x = env_get e2 x) ->
  grounds s e1 ps = grounds s e2 ps.
Proof.
  induction ps as [|p tl IH]; intros H; [reflexivity|]. cbn [grounds].
  rewrite (ground_agree s e1 e2 p), IH; [reflexivity| |]; intros x Hx; apply H; cbn [flat_map];
    apply in_or_app; auto.
Qed.

Lemma ground_action_agree s e1 e2 a :
  (forall x, In x (action_vars a) -> env_get e1 x = env_get e2 x) ->
  ground_action s e1 a = ground_action s e2 a.
Proof.
  intros H. destruct a as [p|p q|f ps v|f ps|f ps|]; cbn [ground_action action_vars] in *.
  - rewrite (ground_agree s e1 e2 p H). reflexivity.
  - rewrite (ground_agree s e1 e2 p), (ground_agree s e1 e2 q); [reflexivity| |];
      intros x Hx; apply H; apply in_or_app; auto.
  - rewrite (grounds_agree s e1 e2 ps), (ground_agree s e1 e2 v); [reflexivity| |];
      intros x Hx; apply H; apply in_or_app; auto.
  - rewrite (grounds_agree s e1 e2 ps H). reflexivity.
  - rewrite (grounds_agree s e1 e2 ps H). reflexivity.
  - reflexivity.
Qed.

(** projecting a match onto the head variables and reading it back loses nothing the head reads *)
Lemma env_of_proj_sound e : forall fv x v,
  env_get (env_of fv (map (env_get e) fv)) x = Some v -> env_get e x = Some v.
Proof.
  induction fv as [|a fv IH]; intros x v H; [discriminate|].
  cbn [map env_of] in H. destruct (env_get e a) as [w|] eqn:Ea.
  - cbn [env_get] in H. destruct (Nat.eqb x a) eqn:Ex.
    + apply Nat.eqb_eq in Ex. subst. congruence.
    + apply IH, H.
  - apply IH, H.
Qed.

Lemma env_of_proj e : forall fv x, In x fv ->
  env_get (env_of fv (proj fv e)) x = env_get e x.
Proof.
  unfold proj. induction fv as [|a fv IH]; intros x Hin; [destruct Hin|].
  cbn [map env_of]. destruct (env_get e a) as [w|] eqn:Ea.
  - cbn [env_get]. destruct (Nat.eqb x a) eqn:Ex.
    + apply Nat.eqb_eq in Ex. subst. auto.
    + destruct Hin as [->|Hin]; [rewrite Nat.eqb_refl in Ex; discriminate|]. apply IH, Hin.
  - destruct (Nat.eq_dec x a) as [->|Hne].
    + rewrite Ea. destruct (env_get (env_of fv (map (env_get e) fv)) a) eqn:E2; [|reflexivity].
      apply env_of_proj_sound in E2. congruence.
    + destruct Hin as [->|Hin]; [congruence|]. apply IH, Hin.
Qed.

Lemma canon_tuple_proj s e fv : env_canon s e -> canon_tuple s (proj fv e) = true.
Proof.
  intros He. unfold canon_tuple, proj. apply forallb_forall. intros o Ho.
  apply in_map_iff in Ho. destruct Ho as (x & <- & _).
  destruct (env_get e x) eqn:E; [eapply He; eauto|reflexivity].
Qed.

Lemma canon_env_of s : forall fv t, canon_tuple s t = true -> canon_env s (env_of fv t) = true.
Proof.
  induction fv as [|a fv IH]; intros t Ht; [reflexivity|].
  destruct t as [|[v|] t]; cbn [env_of]; [reflexivity| |].
  - cbn [canon_tuple forallb] in Ht. apply andb_true_iff in Ht. destruct Ht as [H1 H2].
    cbn [canon_env forallb snd]. rewrite H1. apply IH, H2.
  - cbn [canon_tuple forallb] in Ht. apply IH, Ht.
Qed.

Lemma head_vars_in r a x : In a (rhead r) -> In x (action_vars a) -> In x (head_vars r).
Proof.
  intros Ha Hx. unfold head_vars. apply nodup_In. apply in_flat_map. eauto.
Qed.

Lemma flat_map_map' {X Y Z} (g : X -> Y) (f : Y -> list Z) l :
  flat_map f (map g l) = flat_map (fun x => f (g x)) l.
Proof. induction l; cbn; congruence. Qed.

Lemma map_flat_map' {X Y Z} (g : Y -> Z) (f : X -> list Y) l :
  map g (flat_map f l) = flat_map (fun x => map g (f x)) l.
Proof. induction l; cbn; [reflexivity|]. rewrite map_app. congruence. Qed.

Lemma flat_map_ext_in {X Y} (f g : X -> list Y) l :
  (forall x, In x l -> f x = g x) -> flat_map f l = flat_map g l.
Proof.
  induction l as [|a l IH]; intros H; [reflexivity|]. cbn [flat_map].
  rewrite (H a) by (left; reflexivity). rewrite IH; [reflexivity|]. intros; apply H; right; auto.
Qed.

(** a freshly collected match of a canonical database, applied at once, issues exactly the
    commands [Rules.rule_cmds] issues for it *)
Lemma match_cmds_fresh s r e : tabs_canonical s -> In e (match_body s (rbody r) [[]]) ->
  match_cmds s r (env_of (head_vars r) (proj (head_vars r) e)) =
  map embed_cmd (flat_map (fun a => match ground_action s e a with
                                    | Some c => [c]
                                    | None => [XPanic]
                                    end) (rhead r)).
Proof.
  intros Ht He. unfold match_cmds.
  rewrite canon_env_of by (apply canon_tuple_proj; eapply match_body_canon0; eauto).
  f_equal. apply flat_map_ext_in. intros a Ha.
  rewrite (ground_action_agree s _ e a); [reflexivity|].
  intros x Hx. apply env_of_proj. eapply head_vars_in; eauto.
Qed.

(* ====================================================================================== *)
(** * Part B.4: the step *)

Lemma nth_tl {B} (l : list B) j d : nth j (tl l) d = nth (S j) l d.
Proof. destruct l; [destruct j; reflexivity|reflexivity]. Qed.

Section StepProofs.
  Variable Sst : Type.
  Variable filter : Sst -> nat -> list tuple -> Sst * (bool * list nat * bool).
  Variable sg : list mergefn.

  (** what [decide] did for one rule: what it offered, and that the inserted / kept tuples are
      [instantiate] of the scheduler's answer *)
  Definition decided_ok (s : state) (k : nat) (r : rule) (ri : rinfo)
    (dd : list tuple * list tuple * rinfo) : Prop :=
    fst (fst dd) = offered s r ri /\
    exists st st' all chosen,
      filter st k (fst (fst dd)) = (st', (all, chosen, ri_seek (snd dd))) /\
      instantiate (fst (fst dd)) chosen all = Ok (snd (fst dd), ri_res (snd dd)).

  Lemma decide_spec s : forall rules k infos st st' ds,
    decide Sst filter s k rules infos st = Ok (st', ds) ->
    length ds = length rules /\
    forall j r, nth_error rules j = Some r ->
      exists dd, nth_error ds j = Some dd /\ decided_ok s (k + j) r (nth j infos info0) dd.
  Proof.
    induction rules as [|r rtl IH]; intros k infos st st' ds H.
    - cbn in H. injection H as <- <-. split; [reflexivity|]. intros [|j] r'; discriminate.
    - cbn [decide] in H.
      destruct (filter st k (offered s r (hd info0 infos))) as [st1 [[all chosen] seek]] eqn:Ef.
      destruct (instantiate (offered s r (hd info0 infos)) chosen all) as [[ins res]| |] eqn:Ei;
        cbn [bind] in H; try discriminate.
      destruct (decide Sst filter s (S k) rtl (tl infos) st1) as [[st2 rest]| |] eqn:Ed;
        cbn [bind] in H; try discriminate.
      injection H as <- <-.
      destruct (IH _ _ _ _ _ Ed) as [Hl Hn].
      split; [cbn [length]; congruence|].
      intros [|j] r' Hr; cbn [nth_error] in Hr.
      + injection Hr as <-. eexists. split; [reflexivity|]. unfold decided_ok. cbn [fst snd].
        replace (nth 0 infos info0) with (hd info0 infos) by (destruct infos; reflexivity).
        split; [reflexivity|]. exists st, st1, all, chosen. cbn [ri_seek ri_res].
        rewrite Nat.add_0_r. auto.
      + destruct (Hn j r' Hr) as (dd & H1 & H2). exists dd. split; [exact H1|].
        rewrite nth_tl in H2. replace (k + S j) with (S k + j) by lia. exact H2.
  Qed.

  Lemma step_inv rules (x x' : sstate Sst) e offs : step Sst filter sg rules x = Ok (x', e, offs) ->
    exists ds, decide Sst filter (ss_db x) 0 rules (ss_infos x) (ss_sched x) = Ok (ss_sched x', ds) /\
      ss_infos x' = map (fun d => snd d) ds /\ offs = map (fun d => fst (fst d)) ds /\
      vrun sg (ss_db x) (decided_cmds (ss_db x) rules ds) = (ss_db x', e).
  Proof.
    unfold step. destruct (decide Sst filter _ 0 rules _ _) as [[st' ds]| |]; cbn [bind]; try discriminate.
    destruct (vrun sg (ss_db x) _) as [s' e'] eqn:Ev. intros [= <- <- <-]. exists ds. cbn. auto.
  Qed.

  (** every rule's [filter_matches] is offered the residual vector followed, if the scheduler
      asked for a new search, by one tuple per match of the rule body *)
  Theorem offered_all rules (x x' : sstate Sst) e offs :
    step Sst filter sg rules x = Ok (x', e, offs) ->
    length offs = length rules /\
    forall k r, nth_error rules k = Some r ->
      nth_error offs k = Some (offered (ss_db x) r (nth k (ss_infos x) info0)).
  Proof.
    intros H. destruct (step_inv _ _ _ _ _ H) as (ds & Hd & _ & -> & _).
    destruct (decide_spec _ _ _ _ _ _ _ Hd) as [Hl Hn]. split; [rewrite map_length; exact Hl|].
    intros k r Hr. destruct (Hn k r Hr) as (dd & H1 & H2 & _).
    rewrite nth_error_map, H1. cbn. rewrite H2. reflexivity.
  Qed.

  Lemma nth_map_snd ds k (dd : list tuple * list tuple * rinfo) :
    nth_error ds k = Some dd -> nth k (map (fun d => snd d) ds) info0 = snd dd.
  Proof.
    intros H. apply nth_error_nth. rewrite nth_error_map, H. reflexivity.
  Qed.

  (** a match that was offered and not chosen is kept, whatever happens to the database and to
      the scheduler in between, and is offered again at the next step, read through the
      union-find of that moment *)
  Theorem no_loss rules (x x1 : sstate Sst) e1 offs1 :
    step Sst filter sg rules x = Ok (x1, e1, offs1) ->
    forall k r, nth_error rules k = Some r ->
    exists off all chosen,
      nth_error offs1 k = Some off /\
      (exists st st', filter st k off = (st', (all, chosen, ri_seek (nth k (ss_infos x1) info0)))) /\
      (all = true -> ri_res (nth k (ss_infos x1) info0) = []) /\
      (all = false ->
         Forall (fun c => c < length off) chosen /\
         Permutation (ri_res (nth k (ss_infos x1) info0))
           (map (fun i => nth i off [])
                (List.filter (fun i => negb (existsb (Nat.eqb i) chosen)) (seq 0 (length off))))) /\
      forall s2 st2 x2 e2 offs2,
        step Sst filter sg rules (mkSS s2 (ss_infos x1) st2) = Ok (x2, e2, offs2) ->
        exists fr, nth_error offs2 k
                     = Some (map (canon_t s2) (ri_res (nth k (ss_infos x1) info0)) ++ fr) /\
                   (ri_seek (nth k (ss_infos x1) info0) = false -> fr = []).
  Proof.
    intros H k r Hr. destruct (step_inv _ _ _ _ _ H) as (ds & Hd & Hi & -> & _).
    destruct (decide_spec _ _ _ _ _ _ _ Hd) as [Hl Hn].
    destruct (Hn k r Hr) as (dd & H1 & H2 & st & st' & all & chosen & Hf & Hinst).
    rewrite Hi, (nth_map_snd _ _ _ H1). cbn [Nat.add] in Hf.
    exists (fst (fst dd)), all, chosen.
    split; [rewrite nth_error_map, H1; reflexivity|].
    split; [eauto|].
    split; [intros ->; cbn in Hinst; congruence|].
    split.
    - intros ->. pose proof (instantiate_ok_inv _ _ _ _ Hinst) as Hc. split; [exact Hc|].
      destruct (instantiate_perm (@nil (option val)) _ _ Hc) as (res & E1 & _ & E3).
      pose proof (eq_trans (eq_sym E1) Hinst) as E. injection E as _ <-. exact E3.
    - intros s2 st2 x2 e2 offs2 H2'. destruct (offered_all _ _ _ _ _ H2') as [_ Ho].
      specialize (Ho k r Hr). cbn [ss_db ss_infos] in Ho. rewrite (nth_map_snd _ _ _ H1) in Ho.
      unfold offered in Ho. eexists. split; [exact Ho|]. intros ->. reflexivity.
  Qed.
End StepProofs.

(* ====================================================================================== *)
(** * Part B.5: a scheduler that chooses everything is the built-in iteration *)

Definition all_filter {Sst} (st : Sst) (k : nat) (off : list tuple) : Sst * (bool * list nat * bool) :=
  (st, (true, [], true)).

Lemma decide_all Sst s : forall rules k infos (st : Sst),
  Forall (fun ri => ri = info0) infos ->
  decide Sst all_filter s k rules infos st
  = Ok (st, map (fun r => (fresh s r, fresh s r, info0)) rules).
Proof.
  induction rules as [|r rtl IH]; intros k infos st Hi; [reflexivity|].
  cbn [decide map].
  assert (E : hd info0 infos = info0) by (destruct infos; [reflexivity|inversion Hi; subst; reflexivity]).
  rewrite E. unfold all_filter at 1. cbn [offered ri_res ri_seek info0 map app instantiate bind].
  rewrite IH by (destruct infos; [constructor|inversion Hi; assumption]).
  reflexivity.
Qed.

Lemma combine_map_self {X Y} (g : X -> Y) l : combine l (map g l) = map (fun r => (r, g r)) l.
Proof. induction l; cbn; congruence. Qed.

Lemma decided_cmds_all s rules : tabs_canonical s ->
  decided_cmds s rules (map (fun r => (fresh s r, fresh s r, info0)) rules)
  = map embed_cmd (flat_map (rule_cmds s) rules).
Proof.
  intros Ht. unfold decided_cmds. rewrite combine_map_self, flat_map_map', map_flat_map'.
  apply flat_map_ext_in. intros r _. cbn beta iota. unfold fresh. rewrite flat_map_map'.
  unfold rule_cmds. rewrite map_flat_map'. apply flat_map_ext_in. intros e He.
  apply match_cmds_fresh; assumption.
Qed.

Theorem choose_all_eq_builtin Sst sg rules s (st : Sst) infos :
  tabs_canonical s -> Forall (fun ri => ri = info0) infos ->
  step Sst all_filter sg rules (mkSS s infos st)
  = Ok (mkSS (fst (iteration sg rules s)) (map (fun _ => info0) rules) st,
        snd (iteration sg rules s), map (fresh s) rules).
Proof.
  intros Ht Hi. unfold step. cbn [ss_db ss_infos ss_sched]. rewrite (decide_all Sst s rules 0 infos st Hi).
  cbn [bind]. rewrite decided_cmds_all by exact Ht. rewrite vrun_embed.
  unfold iteration. destruct (xrun sg s (flat_map (rule_cmds s) rules)) as [s' e]. cbn [fst snd].
  rewrite !map_map. reflexivity.
Qed.

(* ====================================================================================== *)
(** * Part B.6: canonicity *)

(** every e-class id stored in a table is the representative of its class *)
Definition canonical (s : state) : Prop :=
  forall f r i, In r (get_tab (tabs s) f) -> (In (VId i) (rargs r) \/ rret r = VId i) ->
    rep (uf s) i = i.

Definition canonicalb (s : state) : bool :=
  forallb (fun t => forallb (fun r => canon_val s (rret r) && forallb (canon_val s) (rargs r)) t) (tabs s).

Lemma canonicalb_true s : canonicalb s = true -> canonical s.
Proof.
  intros H f r i Hin Hor. unfold get_tab in Hin.
  destruct (nth_in_or_default f (tabs s) []) as [Ht|Ht]; [|rewrite Ht in Hin; destruct Hin].
  unfold canonicalb in H. rewrite forallb_forall in H. specialize (H _ Ht).
  rewrite forallb_forall in H. specialize (H _ Hin). apply andb_true_iff in H. destruct H as [H1 H2].
  destruct Hor as [Ha|Hr].
  - rewrite forallb_forall in H2. specialize (H2 _ Ha). apply Nat.eqb_eq, H2.
  - rewrite Hr in H1. apply Nat.eqb_eq, H1.
Qed.

Lemma canonical_canonicalb s : canonical s -> canonicalb s = true.
Proof.
  intros H. unfold canonicalb. apply forallb_forall. intros t Ht.
  destruct (In_nth _ _ [] Ht) as (f & Hf & Et).
  assert (Hg : forall r, In r t -> In r (get_tab (tabs s) f)).
  { intros r Hr. subst t. exact Hr. }
  apply forallb_forall. intros r Hr. apply andb_true_iff. split.
  - destruct (rret r) as [i|z] eqn:Er; [|reflexivity]. apply Nat.eqb_eq.
    apply (H f r i (Hg r Hr)). right. exact Er.
  - apply forallb_forall. intros [i|z] Hv; [|reflexivity]. apply Nat.eqb_eq.
    apply (H f r i (Hg r Hr)). left. exact Hv.
Qed.

Lemma canonicalb_false s : canonicalb s = false -> ~ canonical s.
Proof. intros Hb Hc. rewrite (canonical_canonicalb s Hc) in Hb. discriminate. Qed.

Lemma canonical_tabs s : canonical s -> tabs_canonical s.
Proof.
  intros H f r Hr. split.
  - destruct (rret r) as [i|z] eqn:Er; [|reflexivity]. apply Nat.eqb_eq. apply (H f r i Hr). right. exact Er.
  - apply Forall_forall. intros [i|z] Hv; [|reflexivity]. apply Nat.eqb_eq. apply (H f r i Hr). left. exact Hv.
Qed.

Lemma WFs_canonical n U s : WFs n U s -> canonical s.
Proof.
  intros HW f r i Hin Hor.
  pose proof (wm_inv _ _ (wf_mid _ _ _ HW)) as HI.
  destruct (wf_canon _ _ _ HW f r Hin) as [Ha Hr]. apply rep_fix; [exact HI|].
  destruct Hor as [Hx|Hx].
  - rewrite Forall_forall in Ha. apply (Ha _ Hx).
  - rewrite Hx in Hr. exact Hr.
Qed.

(** ** F7 (fixed in the code by re-canonicalising the side vector; the model follows) *)

Definition f7_sg : list mergefn := [MUnionId; MUnionId; MUnionId; MOld].
(** (rule ((= x (G y))) ((Seen y))) with A = 0, B = 1, G = 2, Seen = 3 *)
Definition f7_rules : list rule := [mkRule [FEq 0 (PApp 2 [PVar 1])] [ASet 3 [PVar 1] (PInt 0)]].
(** chooses nothing (and asks for no new search) on its first call, everything afterwards *)
Definition f7_filter (st k : nat) (off : list tuple) : nat * (bool * list nat * bool) :=
  (S st, if Nat.eqb st 0 then (false, [], false) else (true, [], true)).
(** (A) (G (B)) *)
Definition f7_s0 : state := fst (add_term (fst (add_term (init 4) (T 0 []))) (T 2 [T 1 []])).
Definition f7_x0 : sstate nat := mkSS f7_s0 [] 0.

(** the former counterexample: the match held back across (union (A) (B)) is kept with B's old id
    ([VId 1]), offered again as [VId 0], and applied canonically: (Seen (A)) holds *)
Lemma f7_scenario_now_canonical :
  exists x1 o1 s1 x2,
    step nat f7_filter f7_sg f7_rules f7_x0 = Ok (x1, None, o1) /\
    ri_res (nth 0 (ss_infos x1) info0) = [[Some (VId 1)]] /\
    exec f7_sg (ss_db x1) (CUnion (T 0 []) (T 1 [])) = Ok s1 /\
    step nat f7_filter f7_sg f7_rules (mkSS s1 (ss_infos x1) (ss_sched x1))
      = Ok (x2, None, [[[Some (VId 0)]]]) /\
    canonical (ss_db x2) /\
    eval (ss_db x2) (T 3 [T 0 []]) = Some (VInt 0) /\
    eval (ss_db x2) (T 3 [T 1 []]) = Some (VInt 0).
Proof.
  do 4 eexists.
  split; [vm_compute; reflexivity|].
  split; [reflexivity|].
  split; [vm_compute; reflexivity|].
  split; [vm_compute; reflexivity|].
  split; [apply canonicalb_true; vm_compute; reflexivity|].
  split; vm_compute; reflexivity.
Qed.

(** ** the database is canonical after every step, for every scheduler (constructor fragment of
    the Egg core, the one [c04_inv_reachable] covers) *)

Definition ctor_action (a : action) : bool :=
  match a with AExpr _ | AUnion _ _ => true | _ => false end.
Definition emb_ctor (vc : vcmd) : Prop := vc = VPanic \/ exists c, vc = embed_cmd (XC c).

Lemma vrun_ctor_WFs sg : all_unionid sg -> forall vcs n U s, WFs n U s -> Forall emb_ctor vcs ->
  exists U' s' e, vrun sg s vcs = (s', e) /\ WFs n U' s'.
Proof.
  intros Hsg. induction vcs as [|vc vcs IH]; intros n U s HW Hall.
  - exists U, s, None. auto.
  - inversion Hall as [|? ? Hvc Hrest]; subst. cbn [vrun]. destruct Hvc as [->|[c ->]].
    + cbn [vexec]. exists U, s, (Some 1). auto.
    + rewrite vexec_embed. cbn [xexec].
      destruct (exec_spec sg n U s c Hsg HW) as (s1 & He & HW1 & _). rewrite He.
      apply (IH _ _ _ HW1 Hrest).
Qed.

Lemma match_cmds_ctor s r e : canon_env s e = true -> forallb ctor_action (rhead r) = true ->
  Forall emb_ctor (match_cmds s r e).
Proof.
  intros Hc Hr. unfold match_cmds. rewrite Hc. apply Forall_forall. intros vc Hvc.
  apply in_map_iff in Hvc. destruct Hvc as (c & <- & Hc').
  apply in_flat_map in Hc'. destruct Hc' as (a & Ha & Hin).
  rewrite forallb_forall in Hr. specialize (Hr a Ha).
  destruct a as [p|p q|f ps v|f ps|f ps|]; try discriminate; cbn [ground_action] in Hin.
  - destruct (ground s e p); cbn [option_map] in Hin; destruct Hin as [<-|[]];
      [right; eexists; reflexivity|left; reflexivity].
  - destruct (ground s e p), (ground s e q); destruct Hin as [<-|[]];
      try (left; reflexivity); right; eexists; reflexivity.
Qed.

Lemma in_combine_nth {X Y} : forall (l1 : list X) (l2 : list Y) a b, In (a, b) (combine l1 l2) ->
  exists j, nth_error l1 j = Some a /\ nth_error l2 j = Some b.
Proof.
  induction l1 as [|x l1 IH]; intros l2 a b H; [destruct H|].
  destruct l2 as [|y l2]; [destruct H|]. cbn [combine] in H. destruct H as [H|H].
  - injection H as <- <-. exists 0. auto.
  - destruct (IH _ _ _ H) as (j & H1 & H2). exists (S j). auto.
Qed.

Lemma instantiate_ins_incl (m : list tuple) chosen all ins res :
  instantiate m chosen all = Ok (ins, res) -> incl ins m.
Proof.
  destruct all; [cbn; intros [= <- <-]; apply incl_refl|]. intros H.
  pose proof (instantiate_ok_inv _ _ _ _ H) as Hc.
  destruct (instantiate_perm (@nil (option val)) m chosen Hc) as (res' & E1 & _).
  pose proof (eq_trans (eq_sym E1) H) as E. injection E as <- _.
  intros t Ht. apply in_map_iff in Ht. destruct Ht as (c & <- & Hc').
  rewrite Forall_forall in Hc. apply nth_In. apply Hc, Hc'.
Qed.

(** whatever the side vector holds, what the step offers (and applies) is canonical *)
Lemma canon_t_canonical s t : Inv (uf s) -> canon_tuple s (canon_t s t) = true.
Proof.
  intros HI. unfold canon_tuple, canon_t. apply forallb_forall. intros o Ho.
  apply in_map_iff in Ho. destruct Ho as (o0 & <- & _).
  destruct o0 as [[i|z]|]; cbn [option_map canon canon_val]; try reflexivity.
  apply Nat.eqb_eq. apply rep_idem. exact HI.
Qed.

Lemma offered_canonical s r ri t : Inv (uf s) -> tabs_canonical s ->
  In t (offered s r ri) -> canon_tuple s t = true.
Proof.
  intros HI Ht Hin. unfold offered in Hin. apply in_app_or in Hin. destruct Hin as [Hin|Hin].
  - apply in_map_iff in Hin. destruct Hin as (t0 & <- & _). apply canon_t_canonical, HI.
  - destruct (ri_seek ri); [|destruct Hin].
    unfold fresh in Hin. apply in_map_iff in Hin. destruct Hin as (env & <- & He).
    apply canon_tuple_proj. eapply match_body_canon0; eauto.
Qed.

Theorem canonical_after_step Sst filter sg n U rules (x x' : sstate Sst) e offs :
  all_unionid sg -> WFs n U (ss_db x) ->
  Forall (fun r => forallb ctor_action (rhead r) = true) rules ->
  step Sst filter sg rules x = Ok (x', e, offs) ->
  (exists U', WFs n U' (ss_db x')) /\ canonical (ss_db x').
Proof.
  intros Hsg HW Hrules Hstep.
  destruct (step_inv _ _ _ _ _ _ _ _ Hstep) as (ds & Hd & _ & _ & Hv).
  destruct (decide_spec _ _ _ _ _ _ _ _ _ Hd) as [_ Hn].
  set (s := ss_db x) in *.
  pose proof (canonical_tabs s (WFs_canonical _ _ _ HW)) as Ht.
  pose proof (wm_inv _ _ (wf_mid _ _ _ HW)) as HI.
  assert (Hall : Forall emb_ctor (decided_cmds s rules ds)).
  { unfold decided_cmds. apply Forall_flat_map. apply Forall_forall.
    intros [r [[off ins] ri']] Hin. apply in_combine_nth in Hin. destruct Hin as (j & Hr & Hdd).
    destruct (Hn j r Hr) as (dd & H1 & Hoff & st & st' & all & chosen & _ & Hinst).
    rewrite Hdd in H1. injection H1 as <-. cbn [fst snd] in *.
    apply Forall_flat_map. apply Forall_forall. intros t Hti.
    apply match_cmds_ctor.
    - apply canon_env_of. apply (instantiate_ins_incl _ _ _ _ _ Hinst) in Hti.
      rewrite Hoff in Hti. eapply offered_canonical; eauto.
    - rewrite Forall_forall in Hrules. apply Hrules. eapply nth_error_In; eauto. }
  destruct (vrun_ctor_WFs sg Hsg _ n U s HW Hall) as (U' & s' & e' & Hv' & HW').
  rewrite Hv in Hv'. injection Hv' as <- _.
  split; [eauto|]. eapply WFs_canonical; eauto.
Qed.

(** every tuple a scheduler is ever offered is canonical (so the raw-id branch of [match_cmds]
    is never taken from a well-formed state) *)
Theorem offered_is_canonical Sst filter sg n U rules (x x' : sstate Sst) e offs :
  WFs n U (ss_db x) -> step Sst filter sg rules x = Ok (x', e, offs) ->
  Forall (Forall (fun t => canon_tuple (ss_db x) t = true)) offs.
Proof.
  intros HW Hstep. destruct (offered_all _ _ _ _ _ _ _ _ Hstep) as [Hl Ho].
  pose proof (canonical_tabs _ (WFs_canonical _ _ _ HW)) as Ht.
  pose proof (wm_inv _ _ (wf_mid _ _ _ HW)) as HI.
  apply Forall_forall. intros off Hoff. destruct (In_nth_error _ _ Hoff) as (k & Hk).
  assert (Hlt : k < length rules) by (rewrite <- Hl; apply nth_error_Some; congruence).
  destruct (nth_error rules k) as [r|] eqn:Er; [|apply nth_error_None in Er; lia].
  rewrite (Ho k r Er) in Hk. injection Hk as <-.
  apply Forall_forall. intros t. apply offered_canonical; assumption.
Qed.

(* ====================================================================================== *)
(** * Part B.7: matching never looks at subsumed rows *)

Definition strip_sub (s : state) : state :=
  mkSt (uf s) (map (List.filter (fun r => negb (rsub r))) (tabs s)) (wit s).

Lemma get_tab_strip s f :
  get_tab (tabs (strip_sub s)) f = List.filter (fun r => negb (rsub r)) (get_tab (tabs s) f).
Proof.
  unfold get_tab, strip_sub. cbn [tabs].
  change (@nil row) with (List.filter (fun r => negb (rsub r)) (@nil row)) at 1.
  apply map_nth.
Qed.

Lemma flat_map_filter_sub {Y} (F : row -> list Y) l :
  (forall r, rsub r = true -> F r = []) ->
  flat_map F (List.filter (fun r => negb (rsub r)) l) = flat_map F l.
Proof.
  intros HF. induction l as [|r l IH]; [reflexivity|]. cbn [List.filter flat_map].
  destruct (rsub r) eqn:E; cbn [negb].
  - rewrite (HF r E). exact IH.
  - cbn [flat_map]. rewrite IH. reflexivity.
Qed.

Lemma match_args_strip_aux s ps :
  Forall (fun p => forall v e, match_pat (strip_sub s) p v e = match_pat s p v e) ps ->
  forall vs e, match_args (strip_sub s) ps vs e = match_args s ps vs e.
Proof.
  induction 1 as [|p ps' Hp _ IH]; intros vs e; destruct vs as [|v vs']; try reflexivity.
  cbn [match_args]. rewrite Hp. apply flat_map_ext. intros e1. apply IH.
Qed.

Lemma match_pat_strip s : forall p v e, match_pat (strip_sub s) p v e = match_pat s p v e.
Proof.
  induction p as [x|f ps IH|z|a b _ _] using pat_ind'; intros v e; try reflexivity.
  rewrite !match_pat_app, get_tab_strip. rewrite flat_map_filter_sub.
  - apply flat_map_ext. intros r. rewrite (match_args_strip_aux s ps IH). reflexivity.
  - intros r ->. reflexivity.
Qed.

Lemma match_args_strip s ps vs e : match_args (strip_sub s) ps vs e = match_args s ps vs e.
Proof. apply match_args_strip_aux. apply Forall_forall. intros p _. apply match_pat_strip. Qed.

Lemma match_fact_strip s f e : match_fact (strip_sub s) f e = match_fact s f e.
Proof.
  assert (Ha : forall x p, match_atom (strip_sub s) x p e = match_atom s x p e).
  { intros x [y|g ps|z|a b]; try reflexivity. cbn [match_atom]. rewrite get_tab_strip.
    rewrite flat_map_filter_sub.
    - apply flat_map_ext. intros r. rewrite match_args_strip. reflexivity.
    - intros r ->. reflexivity. }
  destruct f; cbn [match_fact]; auto.
Qed.

(** the set of matches a query offers is the set of matches over the database with every
    subsumed row removed: no offered match rests on a subsumed row *)
Theorem match_body_ignores_subsumed s : forall fs es,
  match_body (strip_sub s) fs es = match_body s fs es.
Proof.
  induction fs as [|f fs IH]; intros es; [reflexivity|]. cbn [match_body]. rewrite IH.
  f_equal. apply flat_map_ext. intros e. apply match_fact_strip.
Qed.
