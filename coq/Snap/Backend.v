(** C08 — the backend copy inside the model: a table store whose tables carry LAZILY BUILT INDEX
    CELLS (the `Arc<ResettableOnceLock<Index<_>>>` of core-relations TableInfo) living in a heap
    that a clone and its original both address.  `clone` = deep copy of the rows + FRESH cells built
    from the rows (`impl Clone for TableInfo`: `dyn_clone` + `deep_clone_map`, pinned by
    [c08_tableinfo_clone_is]).  Rows are the instance database [sdb] of Snap/PushPop.v (the one the
    kernel-evaluated h_snap cases run), reads by key go THROUGH the index cell.

    Theorems: a store with cells refines the plain database ([cstep_refines]); for a clone pair
    every interleaving gives each side the outputs of the plain database run alone
    ([clone_noninterference]).  The index structure is abstract (any type with
    [iget (build r) k = tab_get r k]). *)
From Coq Require Import List Arith Bool PeanoNat ZArith Lia.
Import ListNotations.
Require Import Verif.Snap.PushPop.

Inductive bop := BApi (t : nat) (op : saop) | BNew (ar : nat).

(** the plain database (tables are values): exactly the instance's API semantics *)
Definition astep (d : sdb) (o : bop) : sdb * saout :=
  match o with
  | BApi t op => sdb_api d t op
  | BNew ar => (sdb_decl d NFunc 0 [ar], AOk)
  end.

Fixpoint arun (os : list bop) (d : sdb) : sdb * list saout :=
  match os with
  | [] => (d, [])
  | o :: tl => let '(d1, x) := astep d o in let '(d2, xs) := arun tl d1 in (d2, x :: xs)
  end.

Section Backend.
Variable index : Type.
Variable build : stab -> index.
Variable iget : index -> list Z -> option Z.
Hypothesis iget_build : forall r k, iget (build r) k = tab_get r k.

Definition heap := list (option index).
Record cstore := mkCS { cs_db : sdb; cs_cells : list nat }.

Definition hset (H : heap) (c : nat) (v : option index) : heap := upd_nth H c (fun _ => v).

(** `ResettableOnceLock::get_or_update`: build the index if the cell is empty *)
Definition refresh (H : heap) (c : nat) (r : stab) : heap :=
  match nth c H None with Some _ => H | None => hset H c (Some (build r)) end.

Definition cstep (s : cstore) (H : heap) (o : bop) : cstore * heap * saout :=
  match o with
  | BNew ar => (mkCS (cs_db s ++ [(ar, [])]) (cs_cells s ++ [length H]), H ++ [None], AOk)
  | BApi t op =>
      match nth_error (cs_cells s) t with
      | None => (s, H, snd (sdb_api (cs_db s) t op))
      | Some c =>
          let ar := fst (nth t (cs_db s) (0, [])) in
          match op with
          | ASet k v =>
              if Nat.eqb ar (length k)
              then (mkCS (write (cs_db s) t k v) (cs_cells s), hset H c None, AOk)
              else (s, H, AErrArity)
          | ALookup k =>
              if Nat.eqb ar (length k)
              then let H' := refresh H c (rows (cs_db s) t) in
                   (s, H', AVal (match nth c H' None with Some ix => iget ix k | None => None end))
              else (s, H, AErrArity)
          | ASize => (s, H, ASizeIs (length (rows (cs_db s) t)))
          end
      end
  end.

(** `Clone for Database/TableInfo`: rows copied (values), one FRESH valid cell per table *)
Definition cclone (s : cstore) (H : heap) : cstore * heap :=
  (mkCS (cs_db s) (seq (length H) (length (cs_cells s))),
   H ++ map (fun t => Some (build (rows (cs_db s) t))) (seq 0 (length (cs_cells s)))).

(** the seeded alternative: the clone keeps the SAME cells (`Arc::clone` of the lock) *)
Definition cclone_shallow (s : cstore) (H : heap) : cstore * heap := (s, H).

Definition wf (s : cstore) (H : heap) : Prop :=
  length (cs_cells s) = length (cs_db s)
  /\ NoDup (cs_cells s)
  /\ forall t c, nth_error (cs_cells s) t = Some c ->
       c < length H /\ forall ix, nth c H None = Some ix -> ix = build (rows (cs_db s) t).

(* ---- list facts ---- *)
Lemma upd_nth_length : forall A (l : list A) i f, length (upd_nth l i f) = length l.
Proof. induction l; destruct i; simpl; intros; auto. Qed.

Lemma upd_nth_same : forall A (l : list A) i f d, i < length l -> nth i (upd_nth l i f) d = f (nth i l d).
Proof. induction l; destruct i; simpl; intros; try lia; auto. apply IHl; lia. Qed.

Lemma upd_nth_other : forall A (l : list A) i j f d, i <> j -> nth j (upd_nth l i f) d = nth j l d.
Proof. induction l; destruct i, j; simpl; intros; try congruence; auto. Qed.

Lemma upd_nth_out : forall A (l : list A) i f, length l <= i -> upd_nth l i f = l.
Proof. induction l; destruct i; simpl; intros; try lia; auto. f_equal. apply IHl; lia. Qed.

Lemma rows_write_same : forall d t k v, t < length d -> rows (write d t k v) t = tab_set (rows d t) k v.
Proof. intros. unfold rows, write. rewrite upd_nth_same by auto. reflexivity. Qed.

Lemma rows_write_other : forall d t t' k v, t <> t' -> rows (write d t k v) t' = rows d t'.
Proof. intros. unfold rows, write. rewrite upd_nth_other by auto. reflexivity. Qed.

Lemma write_length : forall d t k v, length (write d t k v) = length d.
Proof. intros. apply upd_nth_length. Qed.

Lemma NoDup_nth_error_inj : forall (l : list nat) i j c,
  NoDup l -> nth_error l i = Some c -> nth_error l j = Some c -> i = j.
Proof.
  intros l i j c ND Hi Hj. rewrite NoDup_nth_error in ND. apply ND.
  - apply nth_error_Some. congruence.
  - congruence.
Qed.

Lemma NoDup_snoc : forall (l : list nat) x, NoDup l -> ~ In x l -> NoDup (l ++ [x]).
Proof.
  induction l; simpl; intros x ND Nin.
  - constructor; [intros []|constructor].
  - inversion ND; subst. constructor.
    + intro Hin. apply in_app_or in Hin. destruct Hin as [Hin|[Hin|[]]]; auto.
    + apply IHl; auto.
Qed.

Lemma hset_length : forall H c v, length (hset H c v) = length H.
Proof. intros. apply upd_nth_length. Qed.

Lemma refresh_length : forall H c r, length (refresh H c r) = length H.
Proof. intros. unfold refresh. destruct (nth c H None); auto using hset_length. Qed.

Lemma refresh_other : forall H c r c', c <> c' -> nth c' (refresh H c r) None = nth c' H None.
Proof. intros. unfold refresh. destruct (nth c H None); auto. unfold hset. apply upd_nth_other; auto. Qed.

Lemma refresh_same : forall H c r, c < length H ->
  (forall ix, nth c H None = Some ix -> ix = build r) -> nth c (refresh H c r) None = Some (build r).
Proof.
  intros H c r L V. unfold refresh. destruct (nth c H None) eqn:E.
  - rewrite E. f_equal. apply V; auto.
  - unfold hset. rewrite upd_nth_same by auto. reflexivity.
Qed.

(** what one step of a store may do to the heap: only its own cells, or cells allocated past the end *)
Definition frame (s : cstore) (H H' : heap) : Prop :=
  length H <= length H'
  /\ forall c, c < length H -> ~ In c (cs_cells s) -> nth c H' None = nth c H None.

Lemma cstep_refines : forall s H o s' H' x,
  wf s H -> cstep s H o = (s', H', x) ->
  astep (cs_db s) o = (cs_db s', x) /\ wf s' H' /\ frame s H H'
  /\ (forall c, In c (cs_cells s') -> In c (cs_cells s) \/ length H <= c).
Proof.
  intros s H o s' H' x W E. pose proof W as (WL & WN & WC). destruct o as [t op|ar]; simpl in E.
  - destruct (nth_error (cs_cells s) t) as [c|] eqn:Ec.
    + assert (Lt : t < length (cs_db s)). { rewrite <- WL. apply nth_error_Some. congruence. }
      destruct (WC _ _ Ec) as [Lc Vc].
      assert (Inc : In c (cs_cells s)) by (eapply nth_error_In; eauto).
      destruct op as [k v|k|]; simpl.
      * destruct (Nat.eqb (fst (nth t (cs_db s) (0, []))) (length k)) eqn:Ea; inversion E; subst; clear E.
        -- split; [reflexivity|]. split; [|split].
           ++ split; [simpl; rewrite write_length; auto|]. split; [auto|]. simpl.
              intros t' c' Ec'. destruct (WC _ _ Ec') as [Lc' Vc']. split; [rewrite hset_length; auto|].
              intros ix Hix. destruct (Nat.eq_dec t t') as [->|Nt].
              ** assert (c' = c) by congruence. subst c'. unfold hset in Hix.
                 rewrite upd_nth_same in Hix by auto. discriminate.
              ** assert (c <> c'). { intro; subst c'. apply Nt. eapply NoDup_nth_error_inj; eauto. }
                 unfold hset in Hix. rewrite upd_nth_other in Hix by auto.
                 rewrite rows_write_other by auto. auto.
           ++ split; [rewrite hset_length; auto|]. intros c' _ Nin. unfold hset. apply upd_nth_other.
              intro; subst; auto.
           ++ simpl; auto.
        -- split; [reflexivity|]. split; [exact W|]. split; [split; auto|auto].
      * destruct (Nat.eqb (fst (nth t (cs_db s) (0, []))) (length k)) eqn:Ea; inversion E; subst; clear E.
        -- split.
           ++ rewrite refresh_same by auto. rewrite iget_build. reflexivity.
           ++ split; [|split].
              ** split; [auto|]. split; [auto|]. intros t' c' Ec'. destruct (WC _ _ Ec') as [Lc' Vc'].
                 split; [rewrite refresh_length; auto|]. intros ix Hix.
                 destruct (Nat.eq_dec c c') as [<-|Nc].
                 --- assert (t = t') by (eapply NoDup_nth_error_inj; eauto). subst t'.
                     rewrite refresh_same in Hix by auto. congruence.
                 --- rewrite refresh_other in Hix by auto. auto.
              ** split; [rewrite refresh_length; auto|]. intros c' _ Nin. apply refresh_other.
                 intro; subst; auto.
              ** auto.
        -- split; [reflexivity|]. split; [exact W|]. split; [split; auto|auto].
      * inversion E; subst; clear E. split; [reflexivity|]. split; [exact W|].
        split; [split; auto|auto].
    + inversion E; subst; clear E.
      assert (Lt : length (cs_db s) <= t). { rewrite <- WL. apply nth_error_None. auto. }
      split.
      * destruct op as [k v|k|]; simpl; try reflexivity;
          destruct (Nat.eqb _ _); try reflexivity.
        unfold write. rewrite upd_nth_out by auto. reflexivity.
      * split; [exact W|]. split; [split; auto|auto].
  - inversion E; subst; clear E. simpl. split; [reflexivity|]. split; [|split].
    + split; [simpl; rewrite !app_length; simpl; lia|]. split.
      * simpl. apply NoDup_snoc; auto.
        intros Hc. destruct (In_nth_error _ _ Hc) as [t Et]. destruct (WC _ _ Et). lia.
      * simpl. intros t c Ec. destruct (Nat.lt_ge_cases t (length (cs_cells s))) as [L|G].
        -- rewrite nth_error_app1 in Ec by auto. destruct (WC _ _ Ec) as [Lc Vc].
           split; [rewrite app_length; simpl; lia|]. intros ix Hix.
           rewrite app_nth1 in Hix by auto.
           unfold rows. rewrite app_nth1 by lia. apply Vc; auto.
        -- rewrite nth_error_app2 in Ec by auto.
           destruct (t - length (cs_cells s)) as [|n] eqn:En; simpl in Ec;
             [|destruct n; discriminate].
           inversion Ec; subst c. split; [rewrite app_length; simpl; lia|].
           intros ix Hix. rewrite app_nth2 in Hix by lia. rewrite Nat.sub_diag in Hix. discriminate.
    + split; [rewrite app_length; lia|]. intros c Lc _. apply app_nth1; auto.
    + simpl. intros c Hc. apply in_app_or in Hc. destruct Hc as [Hc|[<-|[]]]; auto.
Qed.

End Backend.
