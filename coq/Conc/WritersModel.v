(** C19 / ParallelVecWriter and ConcurrentVec (concurrency/src/parallel_writer.rs,
    concurrent_vec.rs): executable definitions only.

    [ParallelVecWriter::write_contents]: [reserve_space] does ONE fetch_add on [end_len] and
    thereby owns the index range [start, start+len); the items are then written one by one with
    raw pointer writes while other writers do the same (all interleavings of the element writes).
    A call is identified by a call id c; [items c] is what call c writes.
    [ConcurrentVec::push] is the len-1 instance whose load/store of [head] is serialised by
    [write_lock]; its visibility rule (a cell is written BEFORE head is bumped past it) is the
    second system below ([cv_*]).
    Not modelled: the capacity/reallocation protocol (that is ReadOptimizedLock, RoLock.v) and the
    raw-pointer writes themselves (unsafe code: exercised by the stress harness only). *)
From Coq Require Import List Arith Bool Lia.
Import ListNotations.
Require Import Verif.Base.Res Verif.Base.Cases.

Section Writers.
Variable items : nat -> list nat.         (* what each call writes *)

Inductive cpc := CIdle | CRes (start i : nat) | CDone (start : nat).

Record st := mk {
  end_len : nat;                (* the atomic counter *)
  mem : nat -> nat;             (* the buffer *)
  pcs : nat -> cpc;
  resv : list (nat * nat)       (* ghost: (call, start) in reverse order of the fetch_adds *)
}.

Definition updf {A} (f : nat -> A) (i : nat) (v : A) : nat -> A :=
  fun x => if Nat.eqb x i then v else f x.

Inductive step : st -> st -> Prop :=
| SReserve s c : pcs s c = CIdle ->
    step s (mk (end_len s + length (items c)) (mem s) (updf (pcs s) c (CRes (end_len s) 0))
               ((c, end_len s) :: resv s))
| SWrite s c start i v : pcs s c = CRes start i -> nth_error (items c) i = Some v ->
    step s (mk (end_len s) (updf (mem s) (start + i) v) (updf (pcs s) c (CRes start (S i))) (resv s))
| SFinish s c start : pcs s c = CRes start (length (items c)) ->
    step s (mk (end_len s) (mem s) (updf (pcs s) c (CDone start)) (resv s)).

Definition init_st (init : list nat) : st :=
  mk (length init) (fun i => nth i init 0) (fun _ => CIdle) [].

Inductive reachable (init : list nat) : st -> Prop :=
| reach_init : reachable init (init_st init)
| reach_step s s' : reachable init s -> step s s' -> reachable init s'.

(** the vector [finish()] returns: the first [end_len] cells *)
Definition snapshot (s : st) : list nat := map (mem s) (seq 0 (end_len s)).

(** what it must be: the initial contents followed by every call's items, in fetch_add order *)
Definition expected_vec (init : list nat) (s : st) : list nat :=
  init ++ concat (map (fun cs => items (fst cs)) (rev (resv s))).
End Writers.

(* ------------------------------------------------------------------------------------------ *)
(** ConcurrentVec: push under [write_lock]; readers take [head] then read the prefix *)
Section CV.
Variable val : nat -> nat.                (* the value pushed by call c *)

Inductive vpc := VIdle | VLocked | VWritten (idx : nat) | VDone (idx : nat).
Record cvst := cvmk {
  head : nat; holder : option nat; cell : nat -> option nat; vpcs : nat -> vpc;
  pushed : list nat    (* ghost: calls in the order they published *)
}.

Inductive cvstep : cvst -> cvst -> Prop :=
| VAcquire s c : vpcs s c = VIdle -> holder s = None ->
    cvstep s (cvmk (head s) (Some c) (cell s) (updf (vpcs s) c VLocked) (pushed s))
| VWrite s c : vpcs s c = VLocked ->
    cvstep s (cvmk (head s) (holder s) (updf (cell s) (head s) (Some (val c)))
                   (updf (vpcs s) c (VWritten (head s))) (pushed s))
| VPublish s c idx : vpcs s c = VWritten idx ->
    cvstep s (cvmk (S idx) None (cell s) (updf (vpcs s) c (VDone idx)) (pushed s ++ [c])).

Definition cvinit : cvst := cvmk 0 None (fun _ => None) (fun _ => VIdle) [].
Inductive cvreach : cvst -> Prop :=
| cvr_init : cvreach cvinit
| cvr_step s s' : cvreach s -> cvstep s s' -> cvreach s'.
End CV.

(* ------------------------------------------------------------------------------------------ *)
(** NotificationList::notify (notification_list.rs:40-56), between two resets: per-id flag,
    [already_notified] (load), [attempt_notify] (swap true), and only the thread whose swap returned
    false pushes the id onto the mutex-protected list. The [resize_with] on the ConcurrentVec of
    flags is the ConcurrentVec/ReadOptimizedLock protocol and is not repeated here. *)
Inductive npc := NIdle | NChk (k : nat) | NSwap (k : nat) | NPush (k : nat).
Record nst := nmk {
  flag : nat -> bool; nlist : list nat; npcs : list npc;
  called : list nat     (* ghost: ids for which notify was called *)
}.
Definition nset (l : list npc) (t : nat) (p : npc) : list npc := Verif.Base.Res.set_nth l t p.

Inductive nstep : nst -> nst -> Prop :=
| NCall s c k : c < length (npcs s) -> nth c (npcs s) NIdle = NIdle ->
    nstep s (nmk (flag s) (nlist s) (nset (npcs s) c (NChk k)) (k :: called s))
| NLoad s c k : nth c (npcs s) NIdle = NChk k ->
    nstep s (nmk (flag s) (nlist s) (nset (npcs s) c (if flag s k then NIdle else NSwap k)) (called s))
| NSwp s c k : nth c (npcs s) NIdle = NSwap k ->
    nstep s (nmk (updf (flag s) k true) (nlist s)
                 (nset (npcs s) c (if flag s k then NIdle else NPush k)) (called s))
| NPsh s c k : nth c (npcs s) NIdle = NPush k ->
    nstep s (nmk (flag s) (k :: nlist s) (nset (npcs s) c NIdle) (called s)).

Definition ninit (n : nat) : nst := nmk (fun _ => false) [] (repeat NIdle n) [].
Inductive nreach (n : nat) : nst -> Prop :=
| nr_init : nreach n (ninit n)
| nr_step s s' : nreach n s -> nstep s s' -> nreach n s'.

(* ------------------------------------------------------------------------------------------ *)
(** * correspondence case: what the real writer did

    (init, writes, final): [writes] are the (returned start, items) of every write_contents/push
    call sorted by start; [final] is the vector after all writers finished. The case checks iff
    the starts are exactly the ones successive fetch_adds hand out (they tile [len init, ..))
    and [final] is what the model's snapshot is proved to be. *)
Fixpoint tiles_from (cur : nat) (ws : list (nat * list nat)) : bool :=
  match ws with
  | [] => true
  | (start, its) :: tl => (Nat.eqb start cur && tiles_from (cur + length its) tl)%bool
  end.

Definition check_case (c : list nat * list (nat * list nat) * list nat) : bool :=
  let '(init, ws, final) := c in
  (tiles_from (length init) ws && list_eqb Nat.eqb final (init ++ concat (map snd ws)))%bool.
