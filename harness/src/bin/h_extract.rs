//! C07: random e-graphs built through egglog program text; for every root `(extract x)` and
//! `(extract x k)` on the real engine; property predicates evaluated on the implementation against
//! the `constructor_enodes` dump and an independent least fixpoint; cases written for the Coq model
//! (coq/Extract/Model.v `check_case`).
use egglog::ast::Literal;
use egglog::{CommandOutput, EGraph, Error, Term, TermDag, TermId};
use std::collections::{BTreeMap, HashMap, HashSet};
use std::panic::{catch_unwind, AssertUnwindSafe};
use verif_harness::util::*;
use verif_harness::Opts;

// ------------------------------------------------------------------------------------ spec

#[derive(Clone, Debug, PartialEq, Eq, Hash)]
enum Arg {
    Var(usize),
    Lit(i64),
    /// container value of kind 'V' (Vec E), 'S' (Set E), 'M' (MultiSet E), 'P' (Pair E E) over variables
    Cont(char, Vec<usize>),
}

const CONT_KINDS: [char; 4] = ['V', 'S', 'M', 'P'];
fn is_cont(c: char) -> bool {
    CONT_KINDS.contains(&c)
}
fn cont_sort(c: char) -> &'static str {
    match c {
        'V' => "VE",
        'S' => "SE",
        'M' => "ME",
        _ => "PE",
    }
}
fn arg_text(a: &Arg) -> String {
    match a {
        Arg::Var(v) => vname(*v),
        Arg::Lit(i) => format!("{i}"),
        Arg::Cont(k, els) => {
            let xs: Vec<String> = els.iter().map(|v| vname(*v)).collect();
            match k {
                'V' if els.is_empty() => "(vec-empty)".to_string(),
                'V' => format!("(vec-of {})", xs.join(" ")),
                'S' => format!("(set-of {})", xs.join(" ")),
                'M' => format!("(multiset-of {})", xs.join(" ")),
                _ => format!("(pair {})", xs.join(" ")),
            }
        }
    }
}

#[derive(Clone, Debug, PartialEq, Eq, Hash)]
enum Cmd {
    /// `(let x<i> (F<f> args))`, i = number of earlier lets
    Let(usize, Vec<Arg>),
    Union(usize, usize),
    /// subsume / delete the defining expression of x<i>
    Subsume(usize),
    Delete(usize),
}

#[derive(Clone, Debug, PartialEq, Eq, Hash)]
struct FnDecl {
    /// 'E' = e-class child, 'I' = i64 child, 'V'/'S'/'M'/'P' = Vec/Set/MultiSet/Pair of e-classes
    sig: Vec<char>,
    cost: Option<u64>,
    unext: bool,
}

#[derive(Clone, Debug, PartialEq, Eq, Hash)]
struct Spec {
    fns: Vec<FnDecl>,
    cmds: Vec<Cmd>,
    /// k for the `(extract x k)` probes
    k: usize,
}

fn fname(i: usize) -> String {
    format!("F{i:02}")
}
fn vname(i: usize) -> String {
    format!("x{i}")
}

impl Spec {
    fn defs(&self) -> Vec<(usize, Vec<Arg>)> {
        self.cmds
            .iter()
            .filter_map(|c| if let Cmd::Let(f, a) = c { Some((*f, a.clone())) } else { None })
            .collect()
    }
    fn expr_of(&self, f: usize, args: &[Arg]) -> String {
        let mut s = format!("({}", fname(f));
        for a in args {
            s.push(' ');
            s.push_str(&arg_text(a));
        }
        s.push(')');
        s
    }
    fn has_containers(&self) -> bool {
        self.fns.iter().any(|f| f.sig.iter().any(|c| is_cont(*c)))
    }
    fn program(&self) -> String {
        let mut p = String::from("(sort E)\n");
        if self.has_containers() {
            p.push_str("(sort VE (Vec E))\n(sort SE (Set E))\n(sort ME (MultiSet E))\n(sort PE (Pair E E))\n");
        }
        for (i, f) in self.fns.iter().enumerate() {
            let ins: Vec<&str> = f
                .sig
                .iter()
                .map(|c| match *c {
                    'E' => "E",
                    'I' => "i64",
                    k => cont_sort(k),
                })
                .collect();
            p.push_str(&format!("(constructor {} ({}) E", fname(i), ins.join(" ")));
            if let Some(c) = f.cost {
                p.push_str(&format!(" :cost {c}"));
            }
            if f.unext {
                p.push_str(" :unextractable");
            }
            p.push_str(")\n");
        }
        let defs = self.defs();
        let mut nlet = 0;
        for c in &self.cmds {
            match c {
                Cmd::Let(f, args) => {
                    p.push_str(&format!("(let {} {})\n", vname(nlet), self.expr_of(*f, args)));
                    nlet += 1;
                }
                Cmd::Union(a, b) => p.push_str(&format!("(union {} {})\n", vname(*a), vname(*b))),
                Cmd::Subsume(i) => p.push_str(&format!("(subsume {})\n", self.expr_of(defs[*i].0, &defs[*i].1))),
                Cmd::Delete(i) => p.push_str(&format!("(delete {})\n", self.expr_of(defs[*i].0, &defs[*i].1))),
            }
        }
        if self.has_containers() {
            // containers are re-canonicalised by the rebuild of a run
            p.push_str("(run-schedule (saturate (run)))\n");
        }
        p
    }
    fn json(&self) -> String {
        let fns: Vec<String> = self
            .fns
            .iter()
            .map(|f| {
                format!(
                    "{{\"sig\":\"{}\",\"cost\":{},\"unext\":{}}}",
                    f.sig.iter().collect::<String>(),
                    f.cost.map(|c| format!("\"{c}\"")).unwrap_or("null".into()),
                    f.unext
                )
            })
            .collect();
        let cmds: Vec<String> = self
            .cmds
            .iter()
            .map(|c| match c {
                Cmd::Let(f, args) => format!(
                    "[\"let\",{f},[{}]]",
                    args.iter()
                        .map(|a| match a {
                            Arg::Var(v) => format!("\"x{v}\""),
                            Arg::Lit(i) => format!("{i}"),
                            Arg::Cont(k, els) => format!("{{\"c\":\"{k}\",\"e\":{els:?}}}"),
                        })
                        .collect::<Vec<_>>()
                        .join(",")
                ),
                Cmd::Union(a, b) => format!("[\"union\",{a},{b}]"),
                Cmd::Subsume(i) => format!("[\"subsume\",{i}]"),
                Cmd::Delete(i) => format!("[\"delete\",{i}]"),
            })
            .collect();
        format!(
            "{{\"fns\":[{}],\"cmds\":[{}],\"k\":{},\"program\":{}}}",
            fns.join(","),
            cmds.join(","),
            self.k,
            json_str(&self.program())
        )
    }
    fn from_json(v: &serde_json::Value) -> Spec {
        let fns = v["fns"]
            .as_array()
            .expect("fns")
            .iter()
            .map(|f| FnDecl {
                sig: f["sig"].as_str().unwrap().chars().collect(),
                cost: f["cost"].as_str().map(|s| s.parse().unwrap()),
                unext: f["unext"].as_bool().unwrap_or(false),
            })
            .collect();
        let cmds = v["cmds"]
            .as_array()
            .expect("cmds")
            .iter()
            .map(|c| {
                let a = c.as_array().unwrap();
                let n = |i: usize| a[i].as_u64().unwrap() as usize;
                match a[0].as_str().unwrap() {
                    "let" => Cmd::Let(
                        n(1),
                        a[2].as_array()
                            .unwrap()
                            .iter()
                            .map(|x| match x.as_str() {
                                Some(s) => Arg::Var(s[1..].parse().unwrap()),
                                None if x.is_object() => Arg::Cont(
                                    x["c"].as_str().unwrap().chars().next().unwrap(),
                                    x["e"].as_array().unwrap().iter().map(|e| e.as_u64().unwrap() as usize).collect(),
                                ),
                                None => Arg::Lit(x.as_i64().unwrap()),
                            })
                            .collect(),
                    ),
                    "union" => Cmd::Union(n(1), n(2)),
                    "subsume" => Cmd::Subsume(n(1)),
                    _ => Cmd::Delete(n(1)),
                }
            })
            .collect();
        Spec { fns, cmds, k: v["k"].as_u64().unwrap_or(3) as usize }
    }
}

// ------------------------------------------------------------------------------------ generator

const BIG: [u64; 6] = [
    9223372036854775807,
    9223372036854775806,
    4611686018427387904,
    6148914691236517205,
    9223372036854775000,
    3074457345618258603,
];

/// a random argument of kind `c` over the variables 0..nlet; `must` (if any) is placed in the first
/// e-class position (directly or inside the container)
fn gen_arg(r: &mut Rng, c: char, nlet: usize, must: &mut Option<usize>) -> Arg {
    let forced = must.is_some();
    let mut var = |r: &mut Rng| match must.take() {
        Some(x) => x,
        None => r.below(nlet),
    };
    match c {
        'E' => Arg::Var(var(r)),
        'I' => Arg::Lit(r.below(3) as i64),
        'P' => {
            let a = var(r);
            let b = var(r);
            Arg::Cont('P', vec![a, b])
        }
        'V' => {
            let n = if forced { r.range(1, 3) } else { *r.pick(&[0, 1, 1, 2, 3]) };
            Arg::Cont('V', (0..n).map(|_| var(r)).collect())
        }
        k => {
            let n = r.range(1, 3);
            Arg::Cont(k, (0..n).map(|_| var(r)).collect())
        }
    }
}
fn takes_class(sig: &[char]) -> bool {
    sig.iter().any(|c| *c == 'E' || is_cont(*c))
}

fn gen_spec(r: &mut Rng) -> Spec {
    let saturating = r.chance(1, 6);
    // link-only shapes: some constructors take containers of e-classes
    let containers = r.chance(1, 3);
    let nfn = r.range(2, 7);
    // one constructor is guaranteed to have no e-class child (so that terms exist), at a random position
    let base = r.below(nfn);
    let mut fns = Vec::new();
    for i in 0..nfn {
        let ar = if i == base { *r.pick(&[0, 0, 0, 1]) } else { *r.pick(&[0, 1, 1, 1, 2, 2, 3]) };
        let mut sig = Vec::new();
        for _ in 0..ar {
            sig.push(if i == base || r.chance(1, 5) {
                'I'
            } else if containers && r.chance(1, 2) {
                *r.pick(&CONT_KINDS)
            } else {
                'E'
            });
        }
        let cost = if saturating && r.chance(2, 3) {
            Some(*r.pick(&BIG))
        } else {
            match r.below(12) {
                0 | 1 | 2 => None,
                3 | 4 | 5 => Some(0),
                6 => Some(1),
                7 => Some(2),
                8 => Some(3),
                9 => Some(r.range(0, 20) as u64),
                _ => Some(r.range(0, 2) as u64),
            }
        };
        let unext = i != base && r.chance(1, 12);
        fns.push(FnDecl { sig, cost, unext });
    }
    let nsteps = if r.chance(1, 4) { r.range(3, 8) } else { r.range(8, 30) };
    let mut cmds = Vec::new();
    let mut nlet = 0usize;
    for _ in 0..nsteps {
        let k = r.below(100);
        if nlet > 0 && k < 8 {
            // self-loop: x = (F .. x ..) for a constructor with an e-class child
            let cands: Vec<usize> = (0..nfn).filter(|f| takes_class(&fns[*f].sig)).collect();
            if !cands.is_empty() {
                let f = *r.pick(&cands);
                let x = r.below(nlet);
                let mut must = Some(x);
                let args = fns[f].sig.iter().map(|c| gen_arg(r, *c, nlet, &mut must)).collect();
                cmds.push(Cmd::Let(f, args));
                cmds.push(Cmd::Union(x, nlet));
                nlet += 1;
            }
        } else if nlet == 0 || k < 72 {
            // a let whose E-children are earlier variables
            let cands: Vec<usize> = (0..nfn).filter(|f| nlet > 0 || !takes_class(&fns[*f].sig)).collect();
            let f = *r.pick(&cands);
            let mut must = None;
            let args = fns[f].sig.iter().map(|c| gen_arg(r, *c, nlet, &mut must)).collect();
            cmds.push(Cmd::Let(f, args));
            nlet += 1;
        } else if k < 92 {
            cmds.push(Cmd::Union(r.below(nlet), r.below(nlet)));
        } else if k < 97 {
            cmds.push(Cmd::Subsume(r.below(nlet)));
        } else {
            cmds.push(Cmd::Delete(r.below(nlet)));
        }
    }
    Spec { fns, cmds, k: r.range(1, 4) }
}

// ------------------------------------------------------------------------------------ dump

#[derive(Clone, Debug, PartialEq, Eq, Hash)]
enum Ch {
    Class(usize),
    Prim(i64),
    /// container of e-classes: kind, element classes (sorted for Set / MultiSet; Set without repeats)
    Cont(char, Vec<usize>),
}
fn mk_cont(k: char, mut els: Vec<usize>) -> Ch {
    if k == 'S' || k == 'M' {
        els.sort();
    }
    if k == 'S' {
        els.dedup();
    }
    Ch::Cont(k, els)
}
/// e-classes a child mentions, with multiplicity
fn ch_classes(a: &Ch) -> Vec<usize> {
    match a {
        Ch::Class(c) => vec![*c],
        Ch::Prim(_) => vec![],
        Ch::Cont(_, els) => els.clone(),
    }
}
#[derive(Clone, Debug)]
struct Row {
    f: usize,
    args: Vec<Ch>,
    cls: usize,
    sub: bool,
}
#[derive(Clone, Debug, PartialEq, Eq)]
enum T {
    App(usize, Vec<T>),
    Lit(i64),
}
fn t_coq(t: &T) -> String {
    match t {
        T::Lit(i) => format!("(TLit {})", coq_z(*i)),
        T::App(f, ts) => format!("(TApp {f} {})", coq_list(ts, t_coq)),
    }
}

struct Dump {
    rows: Vec<Row>,
    /// raw Value -> dense class index
    ids: HashMap<u32, usize>,
}

fn val_rep(v: egglog::Value) -> u32 {
    use egglog_numeric_id::NumericId;
    v.rep()
}

fn dump(eg: &EGraph, spec: &Spec) -> Dump {
    let mut ids: HashMap<u32, usize> = HashMap::new();
    let mut rows = Vec::new();
    for (fi, f) in spec.fns.iter().enumerate() {
        let mut raw: Vec<(Vec<egglog::Value>, egglog::Value, bool)> = Vec::new();
        eg.constructor_enodes(&fname(fi), |en| raw.push((en.children.to_vec(), en.eclass, en.subsumed)))
            .expect("constructor_enodes");
        for (ch, cls, sub) in raw {
            let mut args = Vec::new();
            for (v, k) in ch.iter().zip(f.sig.iter()) {
                if *k == 'E' {
                    let n = ids.len();
                    args.push(Ch::Class(*ids.entry(val_rep(*v)).or_insert(n)));
                } else if *k == 'I' {
                    args.push(Ch::Prim(eg.value_to_base::<i64>(*v)));
                } else {
                    use egglog::sort::{MultiSetContainer, PairContainer, SetContainer, VecContainer};
                    let raw_els: Vec<egglog::Value> = match *k {
                        'V' => eg.value_to_container::<VecContainer>(*v).expect("vec").data.clone(),
                        'S' => eg.value_to_container::<SetContainer>(*v).expect("set").data.iter().copied().collect(),
                        'M' => eg.value_to_container::<MultiSetContainer>(*v).expect("multiset").data.iter().copied().collect(),
                        _ => {
                            let p = eg.value_to_container::<PairContainer>(*v).expect("pair");
                            vec![p.first, p.second]
                        }
                    };
                    let mut els = Vec::new();
                    for e in raw_els {
                        let n = ids.len();
                        els.push(*ids.entry(val_rep(e)).or_insert(n));
                    }
                    args.push(mk_cont(*k, els));
                }
            }
            let n = ids.len();
            let c = *ids.entry(val_rep(cls)).or_insert(n);
            rows.push(Row { f: fi, args, cls: c, sub });
        }
    }
    Dump { rows, ids }
}

const INF: u128 = 1u128 << 120;

/// true (unsaturated) cost of a row under a cost table: head + children; a base value costs 1, a
/// container costs the sum of its elements (container_cost default), None if a class has no cost
fn row_true_cost(spec: &Spec, r: &Row, cur: &[Option<u128>]) -> Option<u128> {
    let mut tot: u128 = spec.fns[r.f].cost.unwrap_or(1) as u128;
    for a in &r.args {
        if let Ch::Prim(_) = a {
            tot += 1;
        }
        for c in ch_classes(a) {
            tot = (tot + cur[c]?).min(INF);
        }
    }
    Some(tot)
}

/// independent least fixpoint: synchronous (Jacobi) iteration in u128 with true sums
fn least_fixpoint(spec: &Spec, d: &Dump, ncls: usize) -> Vec<Option<u128>> {
    let mut cur: Vec<Option<u128>> = vec![None; ncls];
    loop {
        let mut next = cur.clone();
        for r in &d.rows {
            if r.sub || spec.fns[r.f].unext {
                continue;
            }
            if let Some(tot) = row_true_cost(spec, r, &cur) {
                if next[r.cls].map_or(true, |o| tot < o) {
                    next[r.cls] = Some(tot);
                }
            }
        }
        if next == cur {
            return cur;
        }
        cur = next;
    }
}

fn sat64(v: u128) -> u64 {
    if v >= u64::MAX as u128 {
        u64::MAX
    } else {
        v as u64
    }
}

// ------------------------------------------------------------------------------------ terms

fn term_to_tree(td: &TermDag, id: TermId, budget: &mut usize) -> Option<T> {
    if *budget == 0 {
        return None;
    }
    *budget -= 1;
    match td.get(id) {
        Term::Lit(Literal::Int(i)) => Some(T::Lit(*i)),
        Term::App(name, ch) => {
            let f: usize = name.strip_prefix('F')?.parse().ok()?;
            let mut ts = Vec::new();
            for c in ch {
                ts.push(term_to_tree(td, *c, budget)?);
            }
            Some(T::App(f, ts))
        }
        _ => None,
    }
}

fn cont_head(name: &str) -> Option<char> {
    match name {
        "vec-of" | "vec-empty" => Some('V'),
        "set-of" | "set-empty" => Some('S'),
        "multiset-of" => Some('M'),
        "pair" => Some('P'),
        _ => None,
    }
}

/// tree cost under the :cost annotations with u64 saturating add, memoised over the DAG
fn dag_cost(spec: &Spec, td: &TermDag, id: TermId, memo: &mut HashMap<TermId, u64>) -> Option<u64> {
    if let Some(c) = memo.get(&id) {
        return Some(*c);
    }
    let c = match td.get(id) {
        Term::Lit(_) => 1u64,
        Term::App(name, ch) => {
            // a container term costs the sum of its elements (identity 0 for the container itself)
            let mut tot = if cont_head(name).is_some() {
                0
            } else {
                let f: usize = name.strip_prefix('F')?.parse().ok()?;
                spec.fns.get(f)?.cost.unwrap_or(1)
            };
            for c in ch {
                tot = tot.saturating_add(dag_cost(spec, td, *c, memo)?);
            }
            tot
        }
        _ => return None,
    };
    memo.insert(id, c);
    Some(c)
}

/// evaluate a term on the dump using only allowed rows; Err says why not
fn dag_eval(
    spec: &Spec,
    d: &Dump,
    td: &TermDag,
    id: TermId,
    memo: &mut HashMap<TermId, Result<Ch, String>>,
) -> Result<Ch, String> {
    if let Some(c) = memo.get(&id) {
        return c.clone();
    }
    let res = match td.get(id) {
        Term::Lit(Literal::Int(i)) => Ok(Ch::Prim(*i)),
        Term::App(name, ch) if cont_head(name).is_some() => (|| {
            let mut els = Vec::new();
            for c in ch {
                match dag_eval(spec, d, td, *c, memo)? {
                    Ch::Class(x) => els.push(x),
                    other => return Err(format!("container element evaluates to {other:?}")),
                }
            }
            Ok(mk_cont(cont_head(name).unwrap(), els))
        })(),
        Term::App(name, ch) => (|| {
            let f: usize = name
                .strip_prefix('F')
                .and_then(|s| s.parse().ok())
                .ok_or_else(|| format!("unknown head {name}"))?;
            let mut args = Vec::new();
            for c in ch {
                args.push(dag_eval(spec, d, td, *c, memo)?);
            }
            let hits: Vec<&Row> = d.rows.iter().filter(|r| r.f == f && r.args == args).collect();
            match hits.first() {
                None => Err(format!("no row ({} {:?}) in the e-graph (deleted or never present)", fname(f), args)),
                Some(r) if r.sub => Err(format!("row ({} {:?}) is subsumed", fname(f), args)),
                Some(_) if spec.fns[f].unext => Err(format!("constructor {} is :unextractable", fname(f))),
                Some(r) => Ok(Ch::Class(r.cls)),
            }
        })(),
        other => Err(format!("unexpected term node {other:?}")),
    };
    memo.insert(id, res.clone());
    res
}

// ------------------------------------------------------------------------------------ one case

#[derive(Clone, Debug)]
enum Obs {
    Term(u64, Option<T>),
    NoneErr,
    Panic,
}

struct Outcome {
    violations: Vec<(String, String)>, // (key, what)
    coq_case: Option<String>,
    nontrivial: bool,
    hist: Vec<&'static str>,
    nrows: usize,
    ncls: usize,
    sample: String,
}

fn build(spec: &Spec) -> Result<EGraph, String> {
    let mut eg = EGraph::default();
    match catch_unwind(AssertUnwindSafe(|| eg.parse_and_run_program(None, &spec.program()))) {
        Ok(Ok(_)) => Ok(eg),
        Ok(Err(e)) => Err(format!("setup error: {e}")),
        Err(_) => Err("setup panic".into()),
    }
}

fn class_of(eg: &mut EGraph, d: &mut Dump, var: usize) -> Option<(usize, egglog::ArcSort, egglog::Value)> {
    let e = eg.parser.get_expr_from_string(None, &vname(var)).ok()?;
    let (sort, v) = eg.eval_expr(&e).ok()?;
    let n = d.ids.len();
    Some((*d.ids.entry(val_rep(v)).or_insert(n), sort, v))
}

/// the property's predicates on one returned (term, cost) for root class `cls`
fn check_term(
    spec: &Spec,
    d: &Dump,
    fix: &[Option<u128>],
    cls: usize,
    td: &TermDag,
    term: TermId,
    cost: u64,
    label: &str,
) -> Vec<(String, String)> {
    let mut v = Vec::new();
    let mut memo = HashMap::new();
    match dag_eval(spec, d, td, term, &mut memo) {
        Ok(Ch::Class(c)) if c == cls => {}
        Ok(other) => v.push((
            "extract-not-member".to_string(),
            format!("{label} = {} evaluates to {:?}, the root class is {}", td.to_string(term), other, cls),
        )),
        Err(why) => v.push(("extract-disallowed-row".to_string(), format!("{label} = {}: {}", td.to_string(term), why))),
    }
    let mut cm = HashMap::new();
    match dag_cost(spec, td, term, &mut cm) {
        Some(tc) if tc == cost => {}
        tc => v.push((
            "extract-cost-mismatch".to_string(),
            format!("{label} reports cost {cost}, tree cost of {} is {:?}", td.to_string(term), tc),
        )),
    }
    match fix[cls] {
        Some(best) if sat64(best) == cost => {}
        Some(best) if sat64(best) < cost => v.push((
            "extract-not-optimal".to_string(),
            format!("{label} reports cost {cost}, a term of cost {} exists in the class", sat64(best)),
        )),
        other => v.push((
            "extract-cost-below-fixpoint".to_string(),
            format!("{label} reports cost {cost}, independent least fixpoint says {:?}", other),
        )),
    }
    v
}

fn run_case(spec: &Spec) -> Outcome {
    let mut out = Outcome {
        violations: vec![],
        coq_case: None,
        nontrivial: false,
        hist: vec![],
        nrows: 0,
        ncls: 0,
        sample: String::new(),
    };
    let mut eg = match build(spec) {
        Ok(e) => e,
        Err(_) => {
            out.hist.push("setup_failed");
            return out;
        }
    };
    let mut d = dump(&eg, spec);
    let nvars = spec.defs().len();
    // root classes (first variable of each class)
    let mut roots: Vec<(usize, usize)> = Vec::new(); // (var, class)
    let mut root_vals: HashMap<usize, (egglog::ArcSort, egglog::Value)> = HashMap::new();
    let mut seen = HashSet::new();
    for v in 0..nvars {
        if let Some((c, sort, val)) = class_of(&mut eg, &mut d, v) {
            if seen.insert(c) {
                roots.push((v, c));
                root_vals.insert(v, (sort, val));
            }
        }
    }
    let ncls = d.ids.len();
    out.nrows = d.rows.len();
    out.ncls = ncls;
    let fix = least_fixpoint(spec, &d, ncls);
    let saturated = fix.iter().any(|c| c.map_or(false, |v| v >= u64::MAX as u128));
    if saturated {
        out.hist.push("graph_saturated_class");
    }
    // shape statistics
    let allowed_rows: Vec<&Row> = d.rows.iter().filter(|r| !r.sub && !spec.fns[r.f].unext).collect();
    // class c -> class d when an allowed row of c has child d; cyclic iff some class reaches itself
    let mut reach = vec![vec![false; ncls]; ncls];
    for r in &allowed_rows {
        for a in &r.args {
            for d2 in ch_classes(a) {
                reach[r.cls][d2] = true;
            }
            if let Ch::Cont(_, els) = a {
                if els.iter().any(|e| *e == r.cls) {
                    out.hist.push("row_contains_own_class_in_container");
                }
            }
        }
    }
    for k in 0..ncls {
        for i in 0..ncls {
            for j in 0..ncls {
                if reach[i][k] && reach[k][j] {
                    reach[i][j] = true;
                }
            }
        }
    }
    if (0..ncls).any(|c| reach[c][c]) {
        out.hist.push("graph_cyclic");
    }
    let link_only = spec.has_containers();
    if link_only {
        out.hist.push("graph_with_container_constructors_link_only");
        // a cycle that needs a hop through a container: cyclic with, acyclic without container edges
        let mut plain = vec![vec![false; ncls]; ncls];
        for r in &allowed_rows {
            for a in &r.args {
                if let Ch::Class(d2) = a {
                    plain[r.cls][*d2] = true;
                }
            }
        }
        for k in 0..ncls {
            for i in 0..ncls {
                for j in 0..ncls {
                    if plain[i][k] && plain[k][j] {
                        plain[i][j] = true;
                    }
                }
            }
        }
        if (0..ncls).any(|c| reach[c][c] && !plain[c][c] && fix[c].is_some()) {
            out.hist.push("graph_cycle_through_container_class_with_term");
        }
    }
    if (0..ncls).any(|c| reach[c][c] && fix[c].is_some()) {
        out.hist.push("graph_cyclic_class_with_term");
    }
    if fix.iter().enumerate().any(|(c, v)| v.is_none() && d.rows.iter().any(|r| r.cls == c)) {
        out.hist.push("graph_class_without_allowed_term");
    }
    let mut ties = false;
    for c in 0..ncls {
        if let Some(best) = fix[c] {
            let n = allowed_rows
                .iter()
                .filter(|r| r.cls == c)
                .filter(|r| row_true_cost(spec, r, &fix) == Some(best))
                .count();
            if n >= 2 {
                ties = true;
            }
        }
    }
    if ties {
        out.hist.push("graph_ties");
    }
    if d.rows.iter().any(|r| r.sub) {
        out.hist.push("graph_has_subsumed");
    }
    if d.rows.iter().any(|r| spec.fns[r.f].unext) {
        out.hist.push("graph_has_unextractable_rows");
    }
    if allowed_rows.iter().any(|r| spec.fns[r.f].cost == Some(0)) {
        out.hist.push("graph_zero_cost_rows");
    }
    let multi = (0..ncls).filter(|c| allowed_rows.iter().filter(|r| r.cls == *c).count() >= 2).count();
    out.nontrivial = multi >= 1 && d.rows.len() >= 3;

    let mut coq_roots: Vec<String> = Vec::new();
    let mut coq_vars: Vec<String> = Vec::new();
    let mut sample_obs: Vec<String> = Vec::new();
    let mut need_rebuild = false;
    let vio = |out: &mut Outcome, key: &str, what: String| out.violations.push((key.to_string(), what));

    for (var, cls) in roots.iter().copied() {
        if need_rebuild {
            match build(spec) {
                Ok(e) => eg = e,
                Err(_) => break,
            }
            need_rebuild = false;
        }
        // ---- (extract x)
        let res = catch_unwind(AssertUnwindSafe(|| eg.parse_and_run_program(None, &format!("(extract {})", vname(var)))));
        let obs = match res {
            Err(_) => {
                need_rebuild = true;
                Obs::Panic
            }
            Ok(Err(Error::ExtractError(_))) => Obs::NoneErr,
            Ok(Err(e)) => {
                vio(&mut out, "extract-unexpected-error", format!("(extract {}) returned an unexpected error: {e}", vname(var)));
                continue;
            }
            Ok(Ok(outs)) => match outs.into_iter().next() {
                Some(CommandOutput::ExtractBest(td, cost, term)) => {
                    // P1-P4: member through allowed rows, exact tree cost, optimal
                    for (k, w) in check_term(spec, &d, &fix, cls, &td, term, cost, &format!("(extract {})", vname(var))) {
                        vio(&mut out, &k, w);
                    }
                    // engine's own membership check on a clone (re-insert the printed term)
                    let text = td.to_string(term);
                    let mut e2 = eg.clone();
                    let chk = catch_unwind(AssertUnwindSafe(|| {
                        e2.parse_and_run_program(None, &format!("(let reins__ {text})\n(check (= reins__ {}))", vname(var)))
                    }));
                    if !matches!(chk, Ok(Ok(_))) {
                        vio(
                            &mut out,
                            "extract-check-fails",
                            format!("re-inserted (extract {}) = {text} is not equal to the root according to (check (= ..))", vname(var)),
                        );
                    }
                    let mut budget = 3000usize;
                    Obs::Term(cost, term_to_tree(&td, term, &mut budget))
                }
                _ => {
                    vio(&mut out, "extract-unexpected-output", format!("(extract {}) produced no ExtractBest output", vname(var)));
                    continue;
                }
            },
        };
        match &obs {
            Obs::NoneErr => {
                out.hist.push("obs_none");
                if let Some(best) = fix[cls] {
                    vio(
                        &mut out,
                        "extract-fails-nonempty",
                        format!("(extract {}) failed although the class has an allowed term of cost {}", vname(var), sat64(best)),
                    );
                }
                coq_roots.push(format!("({cls}, ObsNone)"));
            }
            Obs::Panic => {
                out.hist.push("obs_panic");
                let loc = last_panic();
                let key = if saturated && loc.contains("extract.rs") { "F4-extract-saturation" } else { "extract-panic" };
                vio(
                    &mut out,
                    key,
                    format!(
                        "(extract {}) panicked at {loc} (class {} of the dump; some class cost saturates at u64::MAX: {})",
                        vname(var),
                        cls,
                        saturated
                    ),
                );
                coq_roots.push(format!("({cls}, ObsPanic)"));
            }
            Obs::Term(cost, Some(t)) => {
                out.hist.push("obs_term");
                if *cost == u64::MAX {
                    out.hist.push("obs_cost_saturated");
                }
                coq_roots.push(format!("({cls}, ObsTerm {cost}%N {})", t_coq(t)));
            }
            Obs::Term(_, None) => out.hist.push("obs_term_too_big_for_model"),
        }
        if sample_obs.len() < 3 {
            sample_obs.push(match &obs {
                Obs::Term(c, _) => format!("[\"{}\",\"cost {c}\"]", vname(var)),
                Obs::NoneErr => format!("[\"{}\",\"ExtractError\"]", vname(var)),
                Obs::Panic => format!("[\"{}\",\"panic\"]", vname(var)),
            });
        }
        if need_rebuild {
            continue;
        }
        // ---- EGraph::extract_value on the same root: same predicates, same failure behaviour
        if let Some((sort, val)) = root_vals.get(&var).cloned() {
            let ev = catch_unwind(AssertUnwindSafe(|| eg.extract_value(&sort, val)));
            match (ev, &obs) {
                (Ok(Ok((td2, t2, c2))), _) => {
                    out.hist.push("extract_value_ok");
                    for (k, w) in check_term(spec, &d, &fix, cls, &td2, t2, c2, &format!("extract_value({})", vname(var))) {
                        vio(&mut out, &k, w);
                    }
                }
                (Ok(Err(_)), _) => {
                    out.hist.push("extract_value_err");
                    if let Some(best) = fix[cls] {
                        vio(
                            &mut out,
                            "extract-fails-nonempty",
                            format!("extract_value({}) failed although the class has an allowed term of cost {}", vname(var), sat64(best)),
                        );
                    }
                }
                (Err(_), _) => {
                    need_rebuild = true;
                    let loc = last_panic();
                    let key = if saturated && loc.contains("extract.rs") { "F4-extract-saturation" } else { "extract-panic" };
                    vio(&mut out, key, format!("extract_value({}) panicked at {loc}", vname(var)));
                    continue;
                }
            }
        }
        // ---- (extract x k)
        let k = spec.k;
        let res = catch_unwind(AssertUnwindSafe(|| eg.parse_and_run_program(None, &format!("(extract {} {k})", vname(var)))));
        match res {
            Err(_) => {
                need_rebuild = true;
                out.hist.push("vobs_panic");
                let loc = last_panic();
                let key = if saturated && loc.contains("extract.rs") { "F4-extract-saturation" } else { "extract-panic" };
                vio(&mut out, key, format!("(extract {} {k}) panicked at {loc}", vname(var)));
                coq_vars.push(format!("({cls}, {k}, None)"));
            }
            Ok(Err(e)) => vio(&mut out, "variants-unexpected-error", format!("(extract {} {k}) returned an error: {e}", vname(var))),
            Ok(Ok(outs)) => match outs.into_iter().next() {
                Some(CommandOutput::ExtractVariants(td, terms)) => {
                    out.hist.push("vobs_ok");
                    if terms.len() > k {
                        vio(&mut out, "variants-too-many", format!("(extract {} {k}) returned {} variants", vname(var), terms.len()));
                    }
                    let mut memo = HashMap::new();
                    let mut cm = HashMap::new();
                    let mut rootkeys = HashSet::new();
                    let mut costs = Vec::new();
                    for t in &terms {
                        match dag_eval(spec, &d, &td, *t, &mut memo) {
                            Ok(Ch::Class(c)) if c == cls => {}
                            other => vio(
                                &mut out,
                                "variant-not-member",
                                format!("variant {} of (extract {} {k}): {:?}, root class {}", td.to_string(*t), vname(var), other, cls),
                            ),
                        }
                        if let Term::App(name, ch) = td.get(*t) {
                            let key: (String, Vec<Result<Ch, String>>) =
                                (name.clone(), ch.iter().map(|c| dag_eval(spec, &d, &td, *c, &mut memo)).collect());
                            // an e-node is (constructor, child classes); only comparable when every child evaluates
                            if key.1.iter().all(|c| c.is_ok()) && !rootkeys.insert(format!("{key:?}")) {
                                vio(
                                    &mut out,
                                    "variants-same-enode",
                                    format!("two variants of (extract {} {k}) are rooted at the same e-node {}", vname(var), td.to_string(*t)),
                                );
                            }
                        }
                        costs.push(dag_cost(spec, &td, *t, &mut cm).unwrap_or(0));
                    }
                    if terms.len() >= 2 {
                        out.hist.push("vobs_multi");
                    }
                    coq_vars.push(format!("({cls}, {k}, Some {})", coq_list(&costs, |c| format!("{c}%N"))));
                }
                _ => vio(&mut out, "variants-unexpected-output", format!("(extract {} {k}) produced no ExtractVariants", vname(var))),
            },
        }
    }

    let g = format!(
        "(mkG {} {})",
        coq_list(&spec.fns, |f| format!("mkF {}%N {}", f.cost.unwrap_or(1), coq_bool(f.unext))),
        coq_list(&d.rows, |r| format!(
            "mkRow {} {} {} {}",
            r.f,
            coq_list(&r.args, |a| match a {
                Ch::Class(c) => format!("CClass {c}"),
                Ch::Prim(i) => format!("CPrim {}", coq_z(*i)),
                Ch::Cont(..) => "CPrim 0%Z".to_string(), // never emitted: container cases are link-only
            }),
            r.cls,
            coq_bool(r.sub)
        ))
    );
    // containers of e-classes are not covered by the Coq model: those cases are checked on the
    // implementation only (predicates above) and kept out of the kernel-evaluated case files
    if !link_only {
        out.coq_case = Some(format!("({g},\n  {},\n  {})", coq_list(&coq_roots, |s| s.clone()), coq_list(&coq_vars, |s| s.clone())));
    }
    out.sample = format!(
        "{{\"program\":{},\"rows\":{},\"classes\":{},\"observed\":[{}]}}",
        json_str(&spec.program()),
        d.rows.len(),
        ncls,
        sample_obs.join(",")
    );
    out
}

// ------------------------------------------------------------------------------------ main

fn f4_spec() -> Spec {
    let m = Some(9223372036854775807u64);
    let f = |sig: &str, cost| FnDecl { sig: sig.chars().collect(), cost, unext: false };
    Spec {
        fns: vec![f("", m), f("E", m), f("E", m), f("", Some(1)), f("E", m)],
        cmds: vec![
            Cmd::Let(0, vec![]),
            Cmd::Let(1, vec![Arg::Var(0)]),
            Cmd::Let(2, vec![Arg::Var(1)]),
            Cmd::Let(3, vec![]),
            Cmd::Let(4, vec![Arg::Var(3)]),
            Cmd::Union(1, 4),
        ],
        k: 2,
    }
}

static LAST_PANIC: std::sync::Mutex<String> = std::sync::Mutex::new(String::new());
fn last_panic() -> String {
    LAST_PANIC.lock().map(|s| s.clone()).unwrap_or_default()
}

fn main() {
    // panics inside the engine are observations; keep stderr quiet, remember where it happened
    std::panic::set_hook(Box::new(|info| {
        let loc = info.location().map(|l| format!("{}:{}", l.file(), l.line())).unwrap_or_default();
        if let Ok(mut g) = LAST_PANIC.lock() {
            *g = loc;
        }
    }));
    let mut o = verif_harness::parse_opts();
    if o.extra.iter().any(|x| x == "--child") {
        o.extra.retain(|x| x != "--child");
        std::process::exit(run(&o));
    }
    // The engine can kill the process (unbounded recursion in reconstruction = stack overflow, which
    // catch_unwind cannot intercept): run the real work in a child and turn such a death into a
    // reported violation whose input is the case that was running.
    let exe = std::env::current_exe().expect("current_exe");
    let status = std::process::Command::new(exe)
        .args(std::env::args().skip(1))
        .arg("--child")
        .status()
        .expect("spawn child");
    if status.success() {
        std::process::exit(0);
    }
    let last = o.out.join("last_case.json");
    match std::fs::read_to_string(&last) {
        Ok(input) => {
            let report = format!(
                "{{\"sub\":\"extract\",\"cases\":0,\"shards\":0,\"distinct_nontrivial\":0,\"rule\":{},\"samples\":[],\"violations\":[{{\"key\":\"extract-process-abort\",\"what\":{},\"count\":1,\"input\":{}}}]}}\n",
                json_str("the harness child process was killed while the engine handled the input below"),
                json_str(&format!(
                    "the engine aborted the process ({status}) while extracting from this e-graph (stack overflow in reconstruction = cyclic parent edges, or another fatal error); extraction neither returned a term nor failed cleanly"
                )),
                input.trim()
            );
            // stale shards of an earlier run must not be evaluated
            if let Ok(rd) = std::fs::read_dir(&o.out) {
                for e in rd.flatten() {
                    if e.file_name().to_string_lossy().starts_with("cases_extract") {
                        let _ = std::fs::remove_file(e.path());
                    }
                }
            }
            std::fs::write(o.out.join("impl_report.json"), report).unwrap();
            std::process::exit(0);
        }
        Err(_) => std::process::exit(status.code().unwrap_or(101)),
    }
}

pub fn run(o: &Opts) -> i32 {
    let header = "From Coq Require Import List NArith ZArith.\nImport ListNotations.\nRequire Import Verif.Base.Cases Verif.Extract.Model.\n";
    let mut w = CaseWriter::new(&o.out, "cases_extract", header, "check_case", 150);
    let mut violations: Vec<(String, String, String)> = Vec::new(); // key, what, input json
    let mut distinct: HashSet<Spec> = HashSet::new();
    let mut nontrivial = 0usize;
    let mut hist: BTreeMap<String, usize> = BTreeMap::new();
    let mut rows_hist: BTreeMap<String, usize> = BTreeMap::new();
    let mut cls_hist: BTreeMap<String, usize> = BTreeMap::new();
    let mut samples: Vec<String> = Vec::new();
    let last_case = o.out.join("last_case.json");
    let mut link_only_cases = 0usize;
    let mut emit = |spec: &Spec, w: &mut CaseWriter, tag: &str| {
        // if the engine kills the process (stack overflow in reconstruction), this file is the replay
        let _ = std::fs::write(&last_case, spec.json());
        let out = run_case(spec);
        for (k, what) in &out.violations {
            violations.push((k.clone(), what.clone(), spec.json()));
        }
        if distinct.insert(spec.clone()) && out.nontrivial {
            nontrivial += 1;
        }
        *hist.entry(format!("source_{tag}")).or_insert(0) += 1;
        if out.coq_case.is_none() {
            link_only_cases += 1;
        }
        for h in &out.hist {
            *hist.entry(h.to_string()).or_insert(0) += 1;
        }
        *rows_hist.entry(format!("{:02}", out.nrows.min(30))).or_insert(0) += 1;
        *cls_hist.entry(format!("{:02}", out.ncls.min(30))).or_insert(0) += 1;
        if samples.len() < 4 && out.nontrivial {
            samples.push(out.sample.clone());
        }
        if let Some(c) = out.coq_case {
            w.push(c);
        }
    };

    if let Some(path) = &o.replay {
        let txt = std::fs::read_to_string(path).expect("replay file");
        let v: serde_json::Value = serde_json::from_str(&txt).expect("json");
        // accept either a bare spec or bin/check's replay wrapper {"violation": {"input": spec}}
        let specv = if v.get("fns").is_some() { v.clone() } else { v["violation"]["input"].clone() };
        emit(&Spec::from_json(&specv), &mut w, "replay");
    } else {
        // corpus first
        let corpus = std::path::Path::new(env!("CARGO_MANIFEST_DIR")).join("../corpus/C07");
        let mut files: Vec<_> = std::fs::read_dir(&corpus).map(|rd| rd.flatten().map(|e| e.path()).collect()).unwrap_or_default();
        files.sort();
        for f in files {
            if o.extra.iter().any(|x| x == "--no-corpus") {
                break; // self-test of the generator alone
            }
            if f.extension().map_or(false, |e| e == "json") {
                let v: serde_json::Value = serde_json::from_str(&std::fs::read_to_string(&f).unwrap()).expect("corpus json");
                emit(&Spec::from_json(&v), &mut w, "corpus");
            }
        }
        if o.extra.iter().any(|x| x == "--builtin-f4") {
            emit(&f4_spec(), &mut w, "builtin_f4");
        }
        let n = if o.thorough { 8000 } else { 500 };
        for i in 0..n {
            let mut r = Rng::for_case(o.seed, i as u64);
            let spec = gen_spec(&mut r);
            emit(&spec, &mut w, "random");
        }
    }
    w.flush();
    let _ = std::fs::remove_file(&last_case);
    // one violation entry per key class (first input), plus counts
    let mut by_key: BTreeMap<String, (usize, String, String)> = BTreeMap::new();
    for (k, what, input) in &violations {
        by_key.entry(k.clone()).or_insert((0, what.clone(), input.clone())).0 += 1;
    }
    let report = format!(
        "{{\"sub\":\"extract\",\"cases\":{},\"shards\":{},\"distinct_nontrivial\":{},\"rule\":{},\"obs_hist\":{},\"rows_hist\":{},\"classes_hist\":{},\"samples\":[{}],\"violations\":[{}],\"extra_coverage\":{{\"c07_link_only_container_cases\":{},\"c07_model_cases\":{}}}}}\n",
        w.total,
        w.shards,
        nontrivial,
        json_str("seeded random egglog programs over one eq-sort E, i64 and (one case in three, implementation-only = link-only, not written to the Coq case files) Vec/Set/MultiSet/Pair-of-E container arguments incl. cycles through containers: 2-7 constructors (arity 0-3, :cost default/0/small/near 2^63, :unextractable), 3-30 steps of let/union/subsume/delete/self-loop (x = F(..x..)) (unions create cyclic classes); every distinct root class is extracted with (extract x), EGraph::extract_value and (extract x k); a case is non-trivial iff it has >= 3 rows and some class has >= 2 allowed e-nodes; distinct by the generated program"),
        serde_json::to_string(&hist).unwrap(),
        serde_json::to_string(&rows_hist).unwrap(),
        serde_json::to_string(&cls_hist).unwrap(),
        samples.join(","),
        by_key
            .iter()
            .map(|(k, (n, what, input))| format!(
                "{{\"key\":{},\"what\":{},\"count\":{},\"input\":{}}}",
                json_str(k),
                json_str(what),
                n,
                input
            ))
            .collect::<Vec<_>>()
            .join(","),
        link_only_cases,
        w.total
    );
    std::fs::write(o.out.join("impl_report.json"), report).unwrap();
    0
}
