//! Extension module (Tier A) for C03: the RE-STAMPING SITES of semi-naive evaluation.
//! Output: coq/gen/SemiFacts.v -- boolean facts consumed by coq/Semi/Stamped.v (the stamped model
//! takes its stamping discipline from them) and pinned in coq/Props/C03.v.
//!
//! Sites read (all located with `syn`, then matched on whitespace-free token text):
//!  * core-relations/src/table/rebuild.rs: `macro_rules! insert_row` writes `next_ts` into the sort
//!    column before `stage_insert`; every rebuild path inserts through it with `next_ts`; the
//!    container refresh path does the same by hand;
//!  * egglog-bridge/src/lib.rs `EGraph::rebuild`: the timestamp handed to `apply_rebuild` /
//!    `refresh_rows_for_values` is the current clock, and the clock is advanced in the loop;
//!  * egglog-bridge/src/lib.rs `MergeFn::to_callback`: the merged row carries the NEW row's
//!    timestamp, and is written only when value or subsume flag changed;
//!  * egglog-bridge/src/lib.rs `run_rules_inner` / `flush_updates_inner` / `run_rules_impl`: the
//!    clock read before the run is the rules' next `last_run_at`, `inc_ts` on every path.
//! Fail closed: an unrecognised site omits its definitions and reports ok:false.

use quote::ToTokens;
use std::path::Path;
use syn::visit::Visit;

fn squash(s: &str) -> String {
    s.chars().filter(|c| !c.is_whitespace()).collect()
}

fn find_fns(file: &syn::File, name: &str) -> Vec<syn::Block> {
    struct F<'n> {
        name: &'n str,
        found: Vec<syn::Block>,
    }
    impl<'ast, 'n> Visit<'ast> for F<'n> {
        fn visit_impl_item_fn(&mut self, f: &'ast syn::ImplItemFn) {
            if f.sig.ident == self.name {
                self.found.push(f.block.clone());
            }
            syn::visit::visit_impl_item_fn(self, f);
        }
        fn visit_item_fn(&mut self, f: &'ast syn::ItemFn) {
            if f.sig.ident == self.name {
                self.found.push((*f.block).clone());
            }
            syn::visit::visit_item_fn(self, f);
        }
    }
    let mut v = F { name, found: vec![] };
    v.visit_file(file);
    v.found
}

fn block_text(b: &syn::Block) -> String {
    squash(&b.to_token_stream().to_string())
}

/// position of `needle` in `hay` at or after `from`
fn pos_from(hay: &str, needle: &str, from: usize) -> Option<usize> {
    hay.get(from..).and_then(|h| h.find(needle)).map(|p| p + from)
}

/// the text of the brace-delimited block that starts at the first `{` at or after `from`
fn braced_from(hay: &str, from: usize) -> Option<&str> {
    let bytes = hay.as_bytes();
    let start = pos_from(hay, "{", from)?;
    let mut depth = 0usize;
    for (i, b) in bytes.iter().enumerate().skip(start) {
        match b {
            b'{' => depth += 1,
            b'}' => {
                depth -= 1;
                if depth == 0 {
                    return Some(&hay[start..=i]);
                }
            }
            _ => {}
        }
    }
    None
}

fn b(x: bool) -> &'static str {
    if x {
        "true"
    } else {
        "false"
    }
}

// ------------------------------------------------------------------------------------------------

fn rebuild_restamp(repo: &Path) -> Result<String, String> {
    let rel = "core-relations/src/table/rebuild.rs";
    let src = std::fs::read_to_string(repo.join(rel)).map_err(|e| e.to_string())?;
    let file = syn::parse_file(&src).map_err(|e| e.to_string())?;
    // the macro definition and its invocations
    struct M {
        def: Option<String>,
        uses: Vec<String>,
    }
    impl<'ast> Visit<'ast> for M {
        fn visit_item_macro(&mut self, m: &'ast syn::ItemMacro) {
            if m.mac.path.is_ident("macro_rules") && m.ident.as_ref().map(|i| i == "insert_row").unwrap_or(false) {
                self.def = Some(squash(&m.mac.tokens.to_string()));
            }
            syn::visit::visit_item_macro(self, m);
        }
        fn visit_macro(&mut self, m: &'ast syn::Macro) {
            if m.path.is_ident("insert_row") {
                self.uses.push(squash(&m.tokens.to_string()));
            }
            syn::visit::visit_macro(self, m);
        }
    }
    let mut m = M { def: None, uses: vec![] };
    m.visit_file(&file);
    let def = m.def.ok_or("macro_rules! insert_row not found")?;
    if m.uses.is_empty() {
        return Err("no insert_row! invocation found".into());
    }
    let def_ok = def.contains("letnext_ts=$next_ts;")
        && def.contains("ifletSome(sort_by)=this.sort_by{row[sort_by.index()]=next_ts;}")
        && def.contains(".stage_insert(row)")
        && def.contains("letrow=$row;");
    // the assignment must come before the insert
    let order_ok = match (def.find("row[sort_by.index()]=next_ts;"), def.find(".stage_insert(row)")) {
        (Some(a), Some(c)) => a < c,
        _ => false,
    };
    let uses_ok = m.uses.iter().all(|u| {
        let parts: Vec<&str> = u.split(',').collect();
        parts.len() == 4 && parts[3] == "next_ts"
    });
    // no rebuild path inserts behind the macro's back
    struct S {
        direct: usize,
    }
    impl<'ast> Visit<'ast> for S {
        fn visit_expr_method_call(&mut self, c: &'ast syn::ExprMethodCall) {
            if c.method == "stage_insert" {
                self.direct += 1;
            }
            syn::visit::visit_expr_method_call(self, c);
        }
    }
    let mut direct = 0usize;
    for name in ["rebuild_incremental", "rebuild_nonincremental"] {
        let fns = find_fns(&file, name);
        if fns.len() != 1 {
            return Err(format!("expected exactly one fn {name}, found {}", fns.len()));
        }
        let mut s = S { direct: 0 };
        s.visit_block(&fns[0]);
        direct += s.direct;
        // each rebuild path must take `next_ts` as a parameter name used by the macro calls
    }
    let restamp = def_ok && order_ok && uses_ok && direct == 0;
    // container refresh
    let fns = find_fns(&file, "refresh_rows_for_values");
    if fns.len() != 1 {
        return Err(format!("expected exactly one fn refresh_rows_for_values, found {}", fns.len()));
    }
    let t = block_text(&fns[0]);
    let refresh = match (
        t.find("ifletSome(sort_by)=self.sort_by{refreshed_row[sort_by.index()]=next_ts;}"),
        t.find("mutation_buf.stage_insert(&refreshed_row)"),
    ) {
        (Some(a), Some(c)) => a < c,
        _ => false,
    };
    Ok(format!(
        "(* {rel}: macro insert_row! (sort column := next_ts before stage_insert), its {n} invocations, rebuild_incremental / rebuild_nonincremental have no direct stage_insert *)\nDefinition restamp_on_rebuild : bool := {}.\nDefinition rebuild_insert_sites : nat := {n}.\n(* {rel}: refresh_rows_for_values re-inserts the dirty parents with next_ts *)\nDefinition refresh_restamps : bool := {}.\n",
        b(restamp),
        b(refresh),
        n = m.uses.len()
    ))
}

fn rebuild_clock(repo: &Path) -> Result<String, String> {
    let rel = "egglog-bridge/src/lib.rs";
    let src = std::fs::read_to_string(repo.join(rel)).map_err(|e| e.to_string())?;
    let file = syn::parse_file(&src).map_err(|e| e.to_string())?;
    let fns: Vec<String> = find_fns(&file, "rebuild").iter().map(block_text).filter(|t| t.contains("apply_rebuild(")).collect();
    if fns.len() != 1 {
        return Err(format!("expected exactly one fn rebuild calling apply_rebuild, found {}", fns.len()));
    }
    let t = &fns[0];
    let lp = t.find("loop{").ok_or("native rebuild loop not found")?;
    let body = braced_from(t, lp).ok_or("loop body not delimited")?;
    let decl = body.find("letnext_ts=self.next_ts().to_value();");
    let apply = body.find("self.db.apply_rebuild(self.uf_table,&tables,next_ts)");
    let refresh = body.find(".refresh_rows_for_values(&tables,&dirty_ids,next_ts)");
    let clock = match (decl, apply, refresh) {
        (Some(d), Some(a), Some(r)) => d < a && d < r && body[d + 1..].find("letnext_ts=").is_none(),
        _ => false,
    };
    let inc = match (apply, refresh) {
        (Some(a), Some(r)) => pos_from(body, "self.inc_ts();", a.max(r)).is_some() && body[..a.max(r)].find("self.inc_ts();").is_none(),
        _ => false,
    };
    Ok(format!(
        "(* {rel} EGraph::rebuild (native loop): apply_rebuild / refresh_rows_for_values are handed the current clock; the clock is advanced after them in every pass *)\nDefinition rebuild_ts_is_clock : bool := {}.\nDefinition inc_ts_rebuild_path : bool := {}.\n",
        b(clock),
        b(inc)
    ))
}

fn merge_restamp(repo: &Path) -> Result<String, String> {
    let rel = "egglog-bridge/src/lib.rs";
    let src = std::fs::read_to_string(repo.join(rel)).map_err(|e| e.to_string())?;
    let file = syn::parse_file(&src).map_err(|e| e.to_string())?;
    let fns = find_fns(&file, "to_callback");
    if fns.len() != 1 {
        return Err(format!("expected exactly one fn to_callback, found {}", fns.len()));
    }
    let t = block_text(&fns[0]);
    let cl = t.find("move|state,cur,new,out|{").ok_or("merge closure `move |state, cur, new, out|` not found")?;
    let body = braced_from(&t, cl).ok_or("closure body not delimited")?;
    let ts_from_new = body.contains("lettimestamp=new[schema_math.ts_col()];") && body.matches("lettimestamp=").count() == 1;
    let ifc = body.find("ifchanged{");
    let (writes_ts, only_in_if) = match ifc {
        Some(p) => {
            let blk = braced_from(body, p).unwrap_or("");
            let w = blk.contains("schema_math.write_table_row(out,RowVals{")
                && (blk.contains("RowVals{timestamp,") || blk.contains("RowVals{timestamp:timestamp,"));
            let outside = format!("{}{}", &body[..p], &body[p + "ifchanged".len() + blk.len()..]);
            let only = !outside.contains("write_table_row") && !outside.contains("out.extend") && !outside.contains("out.push");
            (w, only)
        }
        None => (false, false),
    };
    // `changed` accounts for the value and for the subsume flag, and nothing resets it
    let run = body.find("letout=resolved.run(state,cur,new,timestamp);");
    let covers = match run {
        Some(r) => pos_from(body, "changed|=cur!=out;", r).is_some() && body.matches("changed|=cur!=out;").count() == 2,
        None => false,
    };
    let no_reset = body.matches("changed=").count() == 1 && body.contains("letmutchanged=false;");
    let tail = body.ends_with("changed}");
    Ok(format!(
        "(* {rel} MergeFn::to_callback: the merged row carries the incoming row's timestamp; `changed` covers value and subsume flag; the row is written iff changed *)\nDefinition merge_ts_from_new : bool := {}.\nDefinition restamp_on_merge_change : bool := {}.\nDefinition merge_keeps_stamp_when_unchanged : bool := {}.\n",
        b(ts_from_new),
        b(ts_from_new && writes_ts && covers && no_reset && tail),
        b(only_in_if && tail && no_reset)
    ))
}

fn inc_ts(repo: &Path) -> Result<String, String> {
    let rel = "egglog-bridge/src/lib.rs";
    let src = std::fs::read_to_string(repo.join(rel)).map_err(|e| e.to_string())?;
    let file = syn::parse_file(&src).map_err(|e| e.to_string())?;
    let one = |name: &str| -> Result<String, String> {
        let fns = find_fns(&file, name);
        if fns.len() != 1 {
            return Err(format!("expected exactly one fn {name}, found {}", fns.len()));
        }
        Ok(block_text(&fns[0]))
    };
    let rr = one("run_rules_inner")?;
    let call = rr.find("run_rules_impl(").ok_or("run_rules_impl call not found")?;
    let run_ts = rr.starts_with("{letts=self.next_ts();")
        && rr[call..].starts_with("run_rules_impl(&mutself.db,&mutself.rules,rules,ts,")
        && rr.matches("letts=").count() == 1;
    let br = rr.find("ifuf_size_before==uf_size_after{").ok_or("no-rebuild branch of run_rules_inner not found")?;
    let blk = braced_from(&rr, br).ok_or("branch not delimited")?;
    let no_rebuild = match (blk.find("self.inc_ts();"), blk.find("returnOk(")) {
        (Some(a), Some(c)) => a < c,
        _ => false,
    };
    let fl = one("flush_updates_inner")?;
    let flush = match (fl.find("self.db.merge_all()"), fl.find("self.inc_ts();")) {
        (Some(a), Some(c)) => a < c,
        _ => false,
    };
    // run_rules_impl: fourth parameter is next_ts, and the rule's stamp is set to it
    struct Sig {
        p4: Option<String>,
    }
    impl<'ast> Visit<'ast> for Sig {
        fn visit_item_fn(&mut self, f: &'ast syn::ItemFn) {
            if f.sig.ident == "run_rules_impl" {
                if let Some(syn::FnArg::Typed(pt)) = f.sig.inputs.iter().nth(3) {
                    self.p4 = Some(squash(&pt.pat.to_token_stream().to_string()));
                }
            }
            syn::visit::visit_item_fn(self, f);
        }
    }
    let mut sg = Sig { p4: None };
    sg.visit_file(&file);
    let ri = one("run_rules_impl")?;
    let set = sg.p4.as_deref() == Some("next_ts")
        && ri.matches("info.last_run_at=").count() == 1
        && ri.contains("info.last_run_at=next_ts;")
        && !ri.contains("letnext_ts=");
    Ok(format!(
        "(* {rel} run_rules_inner: the clock read before the run is what run_rules_impl stamps the rules with; inc_ts on the no-rebuild path; flush_updates_inner: inc_ts after merge_all; run_rules_impl: info.last_run_at = next_ts (4th parameter) *)\nDefinition run_ts_is_clock : bool := {}.\nDefinition inc_ts_no_rebuild_path : bool := {}.\nDefinition inc_ts_flush : bool := {}.\nDefinition last_run_set_to_run_ts : bool := {}.\n",
        b(run_ts),
        b(no_rebuild),
        b(flush),
        b(set)
    ))
}

pub fn generate(repo: &Path) -> (String, Vec<String>) {
    let mut text = String::from("(* GENERATED by /verif/translator (x_semi.rs): re-stamping sites of semi-naive evaluation -- do not edit *)\n");
    let mut report = Vec::new();
    let groups: Vec<(&str, &str, fn(&Path) -> Result<String, String>)> = vec![
        ("SemiFacts.rebuild_restamp", "core-relations/src/table/rebuild.rs", rebuild_restamp),
        ("SemiFacts.rebuild_clock", "egglog-bridge/src/lib.rs", rebuild_clock),
        ("SemiFacts.merge_restamp", "egglog-bridge/src/lib.rs", merge_restamp),
        ("SemiFacts.inc_ts", "egglog-bridge/src/lib.rs", inc_ts),
    ];
    for (item, file, f) in groups {
        match f(repo) {
            Ok(t) => {
                text.push_str(&t);
                report.push(format!("{{\"item\":\"{item}\",\"file\":\"{file}\",\"ok\":true}}"));
            }
            Err(e) => {
                text.push_str(&format!("(* {item}: NOT RECOGNISED: {} *)\n", e.replace("*)", "* )")));
                report.push(format!(
                    "{{\"item\":\"{item}\",\"file\":\"{file}\",\"ok\":false,\"error\":\"{}\"}}",
                    e.replace('\\', "\\\\").replace('"', "'")
                ));
            }
        }
    }
    (text, report)
}
