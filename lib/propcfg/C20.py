"""C20 configuration for bin/check."""

CFG = {'assumptions': ['PARTIAL: a Gallina model is a function and cannot exhibit address/seed/clock dependence of '
                 'the BINARY; what is modelled is the mechanism (iteration order of hash containers as a '
                 'function of history / hasher values / capacity policy / shard count, with the process '
                 'environment as an explicit parameter) and what is proved about the source is the '
                 'classification of its iteration sites and nondeterminism sources',
                 'OUTSIDE every executable model, and why: (1) allocator addresses -- a Gallina term has no '
                 'address; address dependence can only enter through pointer-to-integer conversion, pointer '
                 'formatting, pointer comparison or address-seeded hashing, and the model can only carry the '
                 'INVENTORY of those conversions (nd_sources: NdAddr/NdPtrFmt sites, reviewed), not the '
                 'values an allocator returns, which are an input of the OS/allocator and not a function of '
                 'the program; (2) OS scheduling -- with one thread there is one interleaving, so the model '
                 'is faithful there; the claim that the single-threaded configuration really runs on one '
                 'thread (pool size 1, no rayon/OS threads spawned behind the API) is a property of the '
                 'binary and of the thread-pool crate, checked only by the run comparison under different '
                 'CPU affinities; (3) the hash values of the real FxHasher / foldhash and hashbrown\'s open '
                 'addressing are abstracted (order = function of hash values and capacity history is kept; '
                 'the concrete permutation is not) -- so the model predicts THAT two runs agree, never WHICH '
                 'order they show; (4) the scan types receivers by declared field / local / parameter types '
                 'and file-level `use` resolution (no rustc type inference): an iteration whose receiver is a '
                 'call result, a tuple-struct field, or is built inside a macro body is not seen, except for '
                 'the map-only methods (keys/values/drain()/shards) which are inventoried untyped'],
 'harness': [{'bin': 'h_repro', 'name': 'h_repro'}],
 'link_only': 'bit-for-bit reproducibility of the real binary (addresses, hash seeds, environment, clock, '
              'CPU count): transcripts (command outputs incl. row order, extraction results and variants, '
              'run reports and print-stats without timings, serialized e-graph JSON, raw dumps) of '
              "generated sessions, fixed families and the repository's test files compared byte for byte "
              'across two in-process runs and five child processes (ASLR off via setarch -R, padded/different '
              'environments, cwd, TZ, LANG, 1 and 2 CPUs via taskset). Also link-only: that the reviewed '
              'reasons in Det/Sites.v (e.g. "rows are sorted before the refresh", "multi-threaded branch '
              'only") are true of the code -- the kernel checks that the SET of sites needing a reason is '
              'exactly the reviewed set, not the reasons themselves',
 'manifest': {'level_note': 'Trusted: Coq kernel, translator inventories (syn-based scans of non-test sources; '
                            'receiver typing by declared types and file-level use resolution, no type '
                            'inference), harness. The run comparison is differential testing, not proof; see '
                            'DESIGN.md section 8.',
              'technique': 'executable Gallina model of iteration-order determinism with theorems for all '
                           'histories/hashers (Coq) + kernel-checked classification of the regenerated '
                           'iteration-site and nondeterminism-source inventories + cross-process byte '
                           'comparison of transcripts',
              'text': 'PARTIAL. Proved for all histories: an insertion-ordered container iterates in an order '
                      'independent of the hasher; a bucket-ordered table in an order that is a function of '
                      '(history, hasher values, capacity policy) and a sharded map additionally of the shard '
                      'count; with a per-process seed, or with the CPU-derived default shard count, the order '
                      'is refuted to be reproducible (kernel-evaluated witnesses; the latter is the shape of '
                      'finding F13). Tied to the source by inventories regenerated on every run: every '
                      'iteration site over a hash-based container is of a theorem-backed class or is in the '
                      'reviewed table with its count; clock/rng/CPU-count/pointer-format/env/pid/address '
                      'reads equal the reviewed table. A theorem about a Gallina model cannot exhibit '
                      'address/hash-seed/clock dependence of the binary, so the end-to-end claim rests on the '
                      'byte-for-byte run comparison across processes, ASLR settings, environments and CPU '
                      'affinities (testing), and is labelled as such.'},
 'model_targets': ['Det/IterModel.vo'],
 'proof_targets': ['Props/C20.vo'],
 'theorem_backed': 'for all operation histories: IndexMap-like iteration = hasher-free replay of the history '
                   '(every hasher, every initial capacity); hashbrown-like bucket iteration and DashMap-like '
                   'shard iteration are functions of (history, hasher values, capacity policy[, shard count]); '
                   'process-level reproducibility for every environment-fixed class; refutations for a '
                   'per-process seed and for the CPU-derived shard count. Kernel-checked facts over the '
                   'regenerated inventories: all hash-container aliases use FxHasher; std hash users and '
                   'default-hasher import sites allow-listed; EVERY iteration site (for/iter/iter_mut/drain/'
                   'into_iter/keys/values/.../retain/shards) over a hash-based container in src, '
                   'egglog-bridge/src, core-relations/src is of class insertion-ordered or fixed-hasher '
                   'bucket-ordered, or is one of the reviewed sites (file, fn, receiver, class, count), and no '
                   'reviewed entry is stale; clock / rng / CPU-count / pointer-formatting / environment / pid / '
                   'address reads of the 8 workspace crates equal the reviewed table (no rng, {:p} or pid '
                   'read exists)',
 'tier_a': ['Facts.hash_inventory', 'DetFacts.iter_sites', 'DetFacts.nd_sources'],
 'trusted': ['translator facts: inventory of hash-container aliases and of files naming '
             'std::collections::Hash{Map,Set}/RandomState (non-test code), regenerated on every run',
             'translator x_det: iteration-site inventory (receiver typed from struct-field / local / parameter '
             'declarations and constructor paths, container names resolved through the file\'s use items and '
             'the crate\'s aliases; field names are crate-wide so collisions over-approximate) and token-level '
             'inventory of nondeterminism sources (covers macro arguments), regenerated on every run',
             'the abstraction of hashbrown/indexmap/dashmap by the models of Det/IterModel.v (chained buckets '
             'for open addressing, index modelled by its abstraction function)']}
