(** C14 — basic facts about the finite maps of coq/Cont/Env.v and the invariant [EnvInv] of the
    container environment, preserved by the primitive steps (take an entry out, file an entry,
    [insert_owned], [get_or_insert]). *)
From Coq Require Import List Arith Bool PeanoNat Lia.
Import ListNotations.
Require Import Verif.Base.Res Verif.gen.MergeArms Verif.Cont.Env.

(* ------------------------------------------------------------------ equality tests *)

Lemma nats_eqb_eq a : forall b, nats_eqb a b = true <-> a = b.
Proof.
  induction a as [|x a IH]; intros [|y b]; simpl; split; intros H; try discriminate; auto.
  - apply andb_true_iff in H as [H1 H2]. apply Nat.eqb_eq in H1. apply IH in H2. subst. reflexivity.
  - injection H as -> ->. rewrite Nat.eqb_refl. apply IH. reflexivity.
Qed.

Lemma pairs_eqb_eq a : forall b, pairs_eqb a b = true <-> a = b.
Proof.
  induction a as [|[x1 x2] a IH]; intros [|[y1 y2] b]; simpl; split; intros H; try discriminate; auto.
  - apply andb_true_iff in H as [H1 H3]. apply andb_true_iff in H1 as [H1 H2].
    apply Nat.eqb_eq in H1, H2. apply IH in H3. subst. reflexivity.
  - injection H as -> -> ->. rewrite !Nat.eqb_refl. apply IH. reflexivity.
Qed.

Lemma cont_eqb_eq c d : cont_eqb c d = true <-> c = d.
Proof.
  destruct c, d; simpl; split; intros H; try discriminate; auto.
  all: try (apply nats_eqb_eq in H; subst; reflexivity).
  all: try (injection H as ->; apply nats_eqb_eq; reflexivity).
  - apply andb_true_iff in H as [H1 H2]. apply Nat.eqb_eq in H1, H2. subst. reflexivity.
  - injection H as -> ->. rewrite !Nat.eqb_refl. reflexivity.
  - apply andb_true_iff in H as [H1 H3]. apply andb_true_iff in H1 as [H1 H2].
    apply eqb_prop in H1, H2. apply pairs_eqb_eq in H3. subst. reflexivity.
  - injection H as -> -> ->. rewrite !eqb_reflx. apply pairs_eqb_eq. reflexivity.
Qed.

Lemma cont_eqb_refl c : cont_eqb c c = true.
Proof. apply cont_eqb_eq. reflexivity. Qed.

Lemma cont_eqb_neq c d : cont_eqb c d = false <-> c <> d.
Proof.
  split; intros H.
  - intros E. apply cont_eqb_eq in E. congruence.
  - destruct (cont_eqb c d) eqn:E; auto. apply cont_eqb_eq in E. contradiction.
Qed.

(* ------------------------------------------------------------------ association lists *)

Lemma find_id_Some m c v : find_id m c = Some v -> In (c, v) m.
Proof.
  induction m as [|[d w] m IH]; simpl; [discriminate|].
  destruct (cont_eqb d c) eqn:E.
  - intros H. injection H as ->. apply cont_eqb_eq in E. subst. auto.
  - auto.
Qed.

Lemma find_id_None m c : find_id m c = None -> forall v, ~ In (c, v) m.
Proof.
  induction m as [|[d w] m IH]; simpl; intros H v; [tauto|].
  destruct (cont_eqb d c) eqn:E; [discriminate|].
  intros [X|X]; [|eapply IH; eauto].
  injection X as -> ->. rewrite cont_eqb_refl in E. discriminate.
Qed.

Lemma find_id_In m c v : NoDup (map fst m) -> In (c, v) m -> find_id m c = Some v.
Proof.
  induction m as [|[d w] m IH]; simpl; intros ND H; [tauto|].
  inversion ND as [|x l Hn ND']; subst.
  destruct H as [H|H].
  - injection H as -> ->. rewrite cont_eqb_refl. reflexivity.
  - destruct (cont_eqb d c) eqn:E; [|auto].
    apply cont_eqb_eq in E. subst. exfalso. apply Hn. apply (in_map fst) in H. exact H.
Qed.

Lemma find_cont_Some m v c : find_cont m v = Some c -> In (v, c) m.
Proof.
  induction m as [|[w d] m IH]; simpl; [discriminate|].
  destruct (Nat.eqb_spec w v).
  - intros H. injection H as ->. subst. auto.
  - auto.
Qed.

Lemma find_cont_del_other m v w : v <> w -> find_cont (del_cont m v) w = find_cont m w.
Proof.
  intros N. induction m as [|[x d] m IH]; simpl; [reflexivity|].
  destruct (Nat.eqb_spec x v); simpl.
  - subst. destruct (Nat.eqb_spec v w); [contradiction|]. exact IH.
  - destruct (Nat.eqb_spec x w); [reflexivity|]. exact IH.
Qed.

Lemma find_cont_del_same m v : find_cont (del_cont m v) v = None.
Proof.
  induction m as [|[x d] m IH]; simpl; [reflexivity|].
  destruct (Nat.eqb_spec x v); simpl; [exact IH|].
  destruct (Nat.eqb_spec x v); [contradiction|]. exact IH.
Qed.

Lemma find_cont_insert_same m v c : find_cont (tc_insert m v c) v = Some c.
Proof. unfold tc_insert. simpl. rewrite Nat.eqb_refl. reflexivity. Qed.

Lemma find_cont_insert_other m v c w : v <> w -> find_cont (tc_insert m v c) w = find_cont m w.
Proof.
  intros N. unfold tc_insert. simpl. destruct (Nat.eqb_spec v w); [contradiction|].
  apply find_cont_del_other. exact N.
Qed.

Lemma NoDup_map_filter {A B} (g : A -> B) (h : A -> bool) l :
  NoDup (map g l) -> NoDup (map g (filter h l)).
Proof.
  induction l as [|a l IH]; simpl; intros ND; [constructor|].
  inversion ND as [|x l' Hn ND']; subst.
  destruct (h a); simpl; [|auto].
  constructor; [|auto].
  intros H. apply Hn. apply in_map_iff in H as (y & E & Hy). apply filter_In in Hy as [Hy _].
  rewrite <- E. apply in_map. exact Hy.
Qed.

Lemma NoDup_fst_fun {A B} (m : list (A * B)) a b1 b2 :
  NoDup (map fst m) -> In (a, b1) m -> In (a, b2) m -> b1 = b2.
Proof.
  induction m as [|[x y] m IH]; simpl; intros ND H1 H2; [tauto|].
  inversion ND as [|x' l Hn ND']; subst.
  destruct H1 as [H1|H1], H2 as [H2|H2].
  - congruence.
  - injection H1 as -> ->. exfalso. apply Hn. apply (in_map fst) in H2. exact H2.
  - injection H2 as -> ->. exfalso. apply Hn. apply (in_map fst) in H1. exact H1.
  - eauto.
Qed.

Lemma NoDup_snd_fun {A B} (m : list (A * B)) a1 a2 b :
  NoDup (map snd m) -> In (a1, b) m -> In (a2, b) m -> a1 = a2.
Proof.
  induction m as [|[x y] m IH]; simpl; intros ND H1 H2; [tauto|].
  inversion ND as [|x' l Hn ND']; subst.
  destruct H1 as [H1|H1], H2 as [H2|H2].
  - congruence.
  - injection H1 as -> ->. exfalso. apply Hn. apply (in_map snd) in H2. exact H2.
  - injection H2 as -> ->. exfalso. apply Hn. apply (in_map snd) in H1. exact H1.
  - eauto.
Qed.

Lemma in_del_id m v c w : In (c, w) (del_id m v) <-> In (c, w) m /\ w <> v.
Proof.
  unfold del_id. rewrite filter_In. simpl. split; intros [H1 H2]; split; auto.
  - apply negb_true_iff in H2. apply Nat.eqb_neq in H2. exact H2.
  - apply negb_true_iff. apply Nat.eqb_neq. exact H2.
Qed.

Lemma in_del_key m d c w : In (c, w) (del_key m d) <-> In (c, w) m /\ c <> d.
Proof.
  unfold del_key. rewrite filter_In. simpl. split; intros [H1 H2]; split; auto.
  - apply negb_true_iff in H2. apply cont_eqb_neq in H2. exact H2.
  - apply negb_true_iff. apply cont_eqb_neq. exact H2.
Qed.

(* ------------------------------------------------------------------ val_index *)

Lemma idx_get_upd vi x g y :
  idx_get (idx_upd vi x g) y = if x =? y then g (idx_get vi x) else idx_get vi y.
Proof.
  induction vi as [|[z s] vi IH]; simpl.
  - destruct (Nat.eqb_spec x y); reflexivity.
  - destruct (Nat.eqb_spec z x) as [->|N]; simpl.
    + destruct (Nat.eqb_spec x y); reflexivity.
    + destruct (Nat.eqb_spec z y) as [->|N2].
      * destruct (Nat.eqb_spec x y); [congruence|reflexivity].
      * exact IH.
Qed.

Lemma smem_In v s : smem v s = true <-> In v s.
Proof.
  unfold smem. rewrite existsb_exists. split.
  - intros (x & H & E). apply Nat.eqb_eq in E. subst. exact H.
  - intros H. exists v. split; [exact H|apply Nat.eqb_refl].
Qed.

Lemma in_sadd v s w : In w (sadd v s) <-> w = v \/ In w s.
Proof.
  unfold sadd. destruct (smem v s) eqn:E.
  - apply smem_In in E. split; [auto|]. intros [->|H]; auto.
  - rewrite in_app_iff. simpl. split; [intros [H|[H|[]]]; auto|intros [H|H]; auto].
Qed.

Lemma in_srem v s w : In w (srem v s) <-> In w s /\ w <> v.
Proof.
  unfold srem. rewrite filter_In. split; intros [H1 H2]; split; auto.
  - apply negb_true_iff in H2. apply Nat.eqb_neq in H2. exact H2.
  - apply negb_true_iff. apply Nat.eqb_neq. exact H2.
Qed.

Lemma idx_add_all_in xs : forall vi v y w,
  In w (idx_get (idx_add_all vi xs v) y) <-> (In y xs /\ w = v) \/ In w (idx_get vi y).
Proof.
  unfold idx_add_all. induction xs as [|x xs IH]; intros vi v y w; simpl.
  - tauto.
  - rewrite IH. rewrite idx_get_upd. destruct (Nat.eqb_spec x y) as [->|N].
    + rewrite in_sadd. tauto.
    + split; [intros [[H1 H2]|H]; auto|intros [[[H1|H1] H2]|H]; auto]. contradiction.
Qed.

Lemma idx_swap_all_in xs : forall vi old new y w,
  In w (idx_get (idx_swap_all vi xs old new) y) ->
  In w (idx_get vi y) \/ w = new.
Proof.
  unfold idx_swap_all. induction xs as [|x xs IH]; intros vi old new y w; simpl.
  - auto.
  - intros H. apply IH in H as [H|H]; [|auto]. rewrite idx_get_upd in H.
    destruct (Nat.eqb_spec x y) as [->|N]; [|auto].
    apply in_sadd in H as [H|H]; [auto|]. apply in_srem in H as [H _]. auto.
Qed.

Lemma idx_swap_all_new xs : forall vi old new y,
  In y xs -> In new (idx_get (idx_swap_all vi xs old new) y).
Proof.
  unfold idx_swap_all. induction xs as [|x xs IH]; intros vi old new y H; simpl; [destruct H|].
  destruct (in_dec Nat.eq_dec y xs) as [Hy|Hy].
  - apply IH. exact Hy.
  - destruct H as [->|H]; [|contradiction].
    assert (G : forall xs vi, ~ In y xs ->
      In new (idx_get vi y) ->
      In new (idx_get (fold_left (fun vi0 x0 => idx_upd vi0 x0 (fun s => sadd new (srem old s))) xs vi) y)).
    { clear. induction xs as [|x xs IH]; intros vi Hn Hin; simpl; [exact Hin|].
      apply IH; [intros X; apply Hn; simpl; auto|].
      rewrite idx_get_upd. destruct (Nat.eqb_spec x y) as [->|N]; [|exact Hin].
      exfalso. apply Hn. simpl. auto. }
    apply G; [exact Hy|]. rewrite idx_get_upd, Nat.eqb_refl. apply in_sadd. auto.
Qed.

Lemma idx_swap_all_keep xs : forall vi old new y w,
  w <> old -> In w (idx_get vi y) -> In w (idx_get (idx_swap_all vi xs old new) y).
Proof.
  unfold idx_swap_all. induction xs as [|x xs IH]; intros vi old new y w N H; simpl; [exact H|].
  apply IH; [exact N|]. rewrite idx_get_upd. destruct (Nat.eqb_spec x y) as [->|N2]; [|exact H].
  apply in_sadd. right. apply in_srem. auto.
Qed.

(* ------------------------------------------------------------------ the invariant *)

Definition live (e : env) : list nat := map snd (to_id e).

Record EnvInv (e : env) : Prop := mkInv {
  inv_keys : NoDup (map fst (to_id e));       (* hash-consing: one id per contents *)
  inv_ids : NoDup (live e);                   (* one contents per id *)
  inv_loc : forall c v, In (c, v) (to_id e) -> find_cont (to_cont e) v = Some c;
  inv_idx : forall c v x, In (c, v) (to_id e) -> In x (iter c) -> In v (idx_get (vidx e) x)
}.

Lemma EnvInv_empty : EnvInv empty_env.
Proof. constructor; simpl; try constructor; intros; tauto. Qed.

Lemma in_live e v : In v (live e) <-> exists c, In (c, v) (to_id e).
Proof.
  unfold live. rewrite in_map_iff. split.
  - intros ([c w] & E & H). simpl in E. subst. eauto.
  - intros (c & H). exists (c, v). auto.
Qed.

(** [get_container] is the inverse of [to_id] *)
Lemma get_container_spec e v c : EnvInv e ->
  (get_container e v = Some c <-> In (c, v) (to_id e)).
Proof.
  intros I. unfold get_container. split.
  - destruct (find_cont (to_cont e) v) as [c0|] eqn:E1; [|discriminate].
    destruct (find_id (to_id e) c0) as [w|] eqn:E2; [|discriminate].
    destruct (Nat.eqb_spec w v); [|discriminate]. intros H. injection H as <-. subst.
    apply find_id_Some. exact E2.
  - intros H. rewrite (inv_loc e I c v H). rewrite (find_id_In _ c v (inv_keys e I) H).
    rewrite Nat.eqb_refl. reflexivity.
Qed.

(** take the entry with id [v] out of both maps (val_index keeps its now stale mentions) *)
Definition take (e : env) (v : nat) : env :=
  mkEnv (del_id (to_id e) v) (del_cont (to_cont e) v) (vidx e).
(** incremental variant: the locator stays behind *)
Definition take_keep (e : env) (v : nat) : env :=
  mkEnv (del_id (to_id e) v) (to_cont e) (vidx e).

Lemma live_take e v w : In w (live (take e v)) <-> In w (live e) /\ w <> v.
Proof.
  rewrite !in_live. simpl. split.
  - intros (c & H). apply in_del_id in H as [H N]. eauto.
  - intros ((c & H) & N). exists c. apply in_del_id. auto.
Qed.

Lemma EnvInv_take e v : EnvInv e -> EnvInv (take e v).
Proof.
  intros I. constructor; simpl.
  - apply NoDup_map_filter. apply (inv_keys e I).
  - unfold live. simpl. apply NoDup_map_filter. apply (inv_ids e I).
  - intros c w H. apply in_del_id in H as [H N]. rewrite find_cont_del_other by auto.
    apply (inv_loc e I). exact H.
  - intros c w x H Hx. apply in_del_id in H as [H N]. eapply (inv_idx e I); eauto.
Qed.

Lemma EnvInv_take_keep e v : EnvInv e -> EnvInv (take_keep e v).
Proof.
  intros I. constructor; simpl.
  - apply NoDup_map_filter. apply (inv_keys e I).
  - unfold live. simpl. apply NoDup_map_filter. apply (inv_ids e I).
  - intros c w H. apply in_del_id in H as [H N]. apply (inv_loc e I). exact H.
  - intros c w x H Hx. apply in_del_id in H as [H N]. eapply (inv_idx e I); eauto.
Qed.

Lemma EnvInv_add_entry e c v : EnvInv e ->
  find_id (to_id e) c = None -> ~ In v (live e) -> EnvInv (add_entry e c v).
Proof.
  intros I Hc Hv. constructor; unfold add_entry, live; cbn [to_id to_cont vidx map fst snd].
  - constructor; [|apply (inv_keys e I)].
    intros H. apply in_map_iff in H as ([d w] & E & H). simpl in E. subst.
    eapply find_id_None; eauto.
  - constructor; [exact Hv|apply (inv_ids e I)].
  - intros d w [H|H].
    + injection H as <- <-. apply find_cont_insert_same.
    + rewrite find_cont_insert_other.
      * apply (inv_loc e I). exact H.
      * intros E. subst. apply Hv. apply in_live. eauto.
  - intros d w x [H|H] Hx.
    + injection H as <- <-. apply idx_add_all_in. auto.
    + apply idx_add_all_in. right. eapply (inv_idx e I); eauto.
Qed.

(** hash-consing on insertion: an id is returned, the invariant is kept, equal contents get the
    same id *)
Lemma get_or_insert_inv e c fresh : EnvInv e -> ~ In fresh (live e) ->
  EnvInv (fst (get_or_insert e c fresh)) /\
  In (c, snd (get_or_insert e c fresh)) (to_id (fst (get_or_insert e c fresh))).
Proof.
  intros I Hf. unfold get_or_insert. destruct (find_id (to_id e) c) as [v|] eqn:E; simpl.
  - split; [exact I|]. apply find_id_Some. exact E.
  - split; [apply EnvInv_add_entry; auto|]. auto.
Qed.

Lemma merge_unionid_min a b : merge_unionid a b = Nat.min a b.
Proof.
  unfold merge_unionid. destruct (Nat.eqb_spec a b); simpl; [subst; lia|reflexivity].
Qed.

(** the to_id map after [insert_owned], as a function of the to_id map before *)
Definition io_ids (m : list (cont * nat)) (c : cont) (v : nat) : list (cont * nat) :=
  match find_id m c with
  | Some old => if Nat.min old v =? old then m else (c, Nat.min old v) :: del_key m c
  | None => (c, v) :: m
  end.
Definition io_us (m : list (cont * nat)) (c : cont) (v : nat) : list (nat * nat) :=
  match find_id m c with
  | Some old => if old =? v then [] else [(old, v)]
  | None => []
  end.
Definition io_actual (m : list (cont * nat)) (c : cont) (v : nat) : nat :=
  match find_id m c with
  | Some old => Nat.min old v
  | None => v
  end.

Lemma insert_owned_proj e c v :
  to_id (fst (fst (insert_owned e c v))) = io_ids (to_id e) c v
  /\ snd (fst (insert_owned e c v)) = io_actual (to_id e) c v
  /\ snd (insert_owned e c v) = io_us (to_id e) c v.
Proof.
  unfold insert_owned, io_ids, io_us, io_actual.
  destruct (find_id (to_id e) c) as [old|]; simpl; [|auto].
  rewrite merge_unionid_min. destruct (Nat.min old v =? old); simpl; auto.
Qed.

Lemma EnvInv_insert_owned e c v : EnvInv e -> ~ In v (live e) ->
  EnvInv (fst (fst (insert_owned e c v))).
Proof.
  intros I Hv. unfold insert_owned.
  destruct (find_id (to_id e) c) as [old|] eqn:E; simpl; [|apply EnvInv_add_entry; auto].
  rewrite merge_unionid_min.
  destruct (Nat.eqb_spec (Nat.min old v) old) as [Em|Nm]; simpl; [exact I|].
  assert (Hmin : Nat.min old v = v) by lia.
  rewrite Hmin.
  apply find_id_Some in E.
  assert (Hold : forall d w, In (d, w) (del_key (to_id e) c) -> w <> old /\ w <> v /\ In (d, w) (to_id e)).
  { intros d w H. apply in_del_key in H as [H N]. split; [|split; [|exact H]].
    - intros ->. apply N. eapply NoDup_snd_fun; [apply (inv_ids e I)|exact H|exact E].
    - intros ->. apply Hv. apply in_live. eauto. }
  constructor; unfold live; cbn [to_id to_cont vidx map fst snd].
  - constructor; [|apply NoDup_map_filter; apply (inv_keys e I)].
    intros H. apply in_map_iff in H as ([d w] & Ed & H). simpl in Ed. subst.
    apply in_del_key in H as [_ N]. apply N. reflexivity.
  - constructor; [|apply NoDup_map_filter; apply (inv_ids e I)].
    intros H. apply in_map_iff in H as ([d w] & Ed & H). simpl in Ed. subst.
    apply Hold in H as (_ & N & _). apply N. reflexivity.
  - intros d w [H|H].
    + injection H as <- <-. apply find_cont_insert_same.
    + apply Hold in H as (N1 & N2 & H). rewrite find_cont_insert_other by auto.
      rewrite find_cont_del_other by auto. apply (inv_loc e I). exact H.
  - intros d w x [H|H] Hx.
    + injection H as <- <-. apply idx_swap_all_new. exact Hx.
    + apply Hold in H as (N1 & N2 & H). apply idx_swap_all_keep; [exact N1|].
      eapply (inv_idx e I); eauto.
Qed.
