(** C19 — The thread pool and shared-memory helpers are safe under any interleaving.
    This file only pins statements and prints their assumptions.

    What these theorems are about: sequentially consistent transition systems written from
    concurrency/src/threadpool/mod.rs, lib.rs (ReadOptimizedLock), parallel_writer.rs and
    concurrent_vec.rs, quantified over ALL interleavings of the modelled atomic steps. Memory
    ordering weaker than SC, OS blocking, crossbeam/arc-swap internals and the unsafe raw-pointer
    code are NOT in the models: they are exercised by the stress harness (h_conc) only. *)
From Coq Require Import List Arith NArith Bool.
Import ListNotations.
Require Import Verif.Conc.ScopeModel Verif.Conc.Scope.

(* ------------------------------------------------------------------------------------------ *)
(** ** thread-pool scope (Conc/ScopeModel.v) *)

(** [scope] gets past its wait only when the queue is empty, no job wrapper is running, every
    spawned task (and the root callback, id 0) was started exactly once and completed exactly once,
    and nothing that was not spawned ever ran. *)
Theorem c19_scope_done_iff : forall s, ScopeModel.reachable s ->
  caller s = Take \/ caller s = Ret ->
  queue s = [] /\ run s = [] /\
  (forall k, In k (spawned s) ->
     count_occ Nat.eq_dec (runs s) k = 1 /\ count_occ Nat.eq_dec (fins s) k = 1) /\
  (forall k, ~ In k (spawned s) -> count_occ Nat.eq_dec (runs s) k = 0).
Proof. exact scope_done_iff. Qed.
Print Assumptions c19_scope_done_iff.

(** completion is signalled at most once (the bounded(1) channel never overflows, the
    "signaled once" expect cannot fire) and exactly when all expected items have completed *)
Theorem c19_done_once : forall s, ScopeModel.reachable s ->
  sent s <= 1 /\ done_msgs s <= 1 /\ (sent s = 1 <-> length (fins s) = length (spawned s)).
Proof. exact done_once. Qed.
Print Assumptions c19_done_once.

(** the packed AtomicCounts word: wrapping u64 adds never wrap, both halves always decode to the
    true counts, completed <= expected <= u32::MAX; with fewer than u32::MAX - 1 spawned tasks the
    assertion in expect_one does not fire *)
Theorem c19_no_overflow_le_u32 : forall s, ScopeModel.reachable s ->
  (cnt s < U64MOD)%N /\
  expected (cnt s) = N.of_nat (length (spawned s)) /\
  completed (cnt s) = N.of_nat (length (fins s)) /\
  (N.of_nat (length (fins s)) <= N.of_nat (length (spawned s)) <= U32MAX)%N /\
  (length (spawned s) = S (length (spawned s) - 1)) /\
  ((N.of_nat (length (spawned s) - 1) < U32MAX - 1)%N -> (expected (cnt s) < U32MAX)%N).
Proof. exact no_overflow. Qed.
Print Assumptions c19_no_overflow_le_u32.

(** [scope] leaves by unwinding iff the root callback or some spawned task panicked *)
Theorem c19_panic_reported : forall s, ScopeModel.reachable s -> caller s = Ret ->
  reported s = (proot s || ptask s)%bool.
Proof. exact panic_reported. Qed.
Print Assumptions c19_panic_reported.

(** deadlock-freedom of the protocol of one scope (no lost wake-up): every configuration in which
    [scope] has not returned has an enabled step *)
Theorem c19_scope_progress : forall s, ScopeModel.reachable s -> caller s <> Ret ->
  exists l s', ScopeModel.step s l s'.
Proof. exact scope_progress. Qed.
Print Assumptions c19_scope_progress.

(** trace inclusion: an event log of the real pool accepted by the replay (cases_scope_*.v) is a
    run of this transition system ending in the returned configuration *)
Theorem c19_scope_replay_sound : forall es, ScopeModel.check_case es = true ->
  exists s, ScopeModel.reachable s /\ caller s = Ret /\ queue s = [] /\ run s = []
            /\ reported s = (proot s || ptask s)%bool.
Proof. exact replay_sound. Qed.
Print Assumptions c19_scope_replay_sound.

(** non-vacuity: a concrete log with a task spawning a task and a panicking task *)
Example c19_scope_example :
  ScopeModel.check_case
    [ESpawn 0 1; EStart 1; ESpawn 1 2; ESpawn 0 3; EEnd 0 false; EStart 3; EStart 2;
     EEnd 1 false; EEnd 3 true; EEnd 2 false; EReturn true] = true.
Proof. vm_compute. reflexivity. Qed.

(** ... and logs that must be rejected: returning while a task is still running; running a task
    twice *)
Example c19_scope_example_early_return :
  ScopeModel.check_case [ESpawn 0 1; EStart 1; EEnd 0 false; EReturn false; EEnd 1 false] = false.
Proof. vm_compute. reflexivity. Qed.
Example c19_scope_example_double_run :
  ScopeModel.check_case [ESpawn 0 1; EStart 1; EStart 1; EEnd 1 false; EEnd 0 false; EReturn false] = false.
Proof. vm_compute. reflexivity. Qed.
