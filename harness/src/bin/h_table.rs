//! C16: op sequences on the real `egglog_core_relations` table store (SortedWritesTable and
//! DisplacedTable inside a `Database`), driven through the public API only.
//!
//! * the property predicate ("answers like a plain map key -> latest merged row") is evaluated on
//!   the implementation against an in-harness plain-map oracle after every read: this is what
//!   produces `violations`;
//! * the same op sequences and the implementation's observed answers (including physical row
//!   ids, physical length, major generation) are written as cases for the Gallina model
//!   (`Verif.Table.Model.check_case`).
//!
//! No thread pool is installed, so `ShardedHashTable::default()` has one shard and the physical
//! row order is the staging order (deterministic).
use egglog_core_relations::{
    ColumnId, Constraint, Database, DisplacedTable, Offset, QueryEntry, RuleSetBuilder, SortedWritesTable,
    Table, TableId, TaggedRowBuffer, Value, WrappedTable,
};
use egglog_reports::ReportLevel;
use egglog_numeric_id::NumericId;
use std::collections::{BTreeMap, HashSet};
use std::panic::{catch_unwind, AssertUnwindSafe};
use verif_harness::util::*;
use verif_harness::Opts;

// ------------------------------------------------------------------------------------------------
// inputs

#[derive(Clone, Debug, PartialEq, Eq, Hash)]
pub enum Cn {
    Eq(u32, u32),
    EqC(u32, u32),
    Lt(u32, u32),
    Gt(u32, u32),
    Le(u32, u32),
    Ge(u32, u32),
}
impl Cn {
    fn coq(&self) -> String {
        match self {
            Cn::Eq(a, b) => format!("CEq {a} {b}"),
            Cn::EqC(a, b) => format!("CEqC {a} {b}"),
            Cn::Lt(a, b) => format!("CLt {a} {b}"),
            Cn::Gt(a, b) => format!("CGt {a} {b}"),
            Cn::Le(a, b) => format!("CLe {a} {b}"),
            Cn::Ge(a, b) => format!("CGe {a} {b}"),
        }
    }
    fn name(&self) -> &'static str {
        match self {
            Cn::Eq(..) => "eq",
            Cn::EqC(..) => "eqc",
            Cn::Lt(..) => "lt",
            Cn::Gt(..) => "gt",
            Cn::Le(..) => "le",
            Cn::Ge(..) => "ge",
        }
    }
    fn json(&self) -> String {
        let (a, b) = self.args();
        format!("[\"{}\",{a},{b}]", self.name())
    }
    fn args(&self) -> (u32, u32) {
        match *self {
            Cn::Eq(a, b) | Cn::EqC(a, b) | Cn::Lt(a, b) | Cn::Gt(a, b) | Cn::Le(a, b) | Cn::Ge(a, b) => (a, b),
        }
    }
    fn from_json(v: &serde_json::Value) -> Cn {
        let a = v.as_array().expect("constraint");
        let (x, y) = (a[1].as_u64().unwrap() as u32, a[2].as_u64().unwrap() as u32);
        match a[0].as_str().unwrap() {
            "eq" => Cn::Eq(x, y),
            "eqc" => Cn::EqC(x, y),
            "lt" => Cn::Lt(x, y),
            "gt" => Cn::Gt(x, y),
            "le" => Cn::Le(x, y),
            _ => Cn::Ge(x, y),
        }
    }
    fn real(&self) -> Constraint {
        let c = |x: u32| ColumnId::new(x);
        let v = |x: u32| Value::new(x);
        match *self {
            Cn::Eq(a, b) => Constraint::Eq { l_col: c(a), r_col: c(b) },
            Cn::EqC(a, b) => Constraint::EqConst { col: c(a), val: v(b) },
            Cn::Lt(a, b) => Constraint::LtConst { col: c(a), val: v(b) },
            Cn::Gt(a, b) => Constraint::GtConst { col: c(a), val: v(b) },
            Cn::Le(a, b) => Constraint::LeConst { col: c(a), val: v(b) },
            Cn::Ge(a, b) => Constraint::GeConst { col: c(a), val: v(b) },
        }
    }
    fn eval(&self, r: &[u32]) -> bool {
        match *self {
            Cn::Eq(a, b) => r[a as usize] == r[b as usize],
            Cn::EqC(a, b) => r[a as usize] == b,
            Cn::Lt(a, b) => r[a as usize] < b,
            Cn::Gt(a, b) => r[a as usize] > b,
            Cn::Le(a, b) => r[a as usize] <= b,
            Cn::Ge(a, b) => r[a as usize] >= b,
        }
    }
}

#[derive(Clone, Debug, PartialEq, Eq, Hash)]
pub enum Op {
    Ins(Vec<u32>),
    Rem(Vec<u32>),
    Merge,
    Clear,
    Get(Vec<u32>),
    Scan,
    ScanC(Vec<Cn>),
    Fast(Cn),
    Stat,
    /// one-atom RuleSet query `T(x..) under cs => Out(x..)` (an index-backed read), followed by the
    /// `merge_all` that `run_rule_set` performs; for the Gallina model this is just `OMerge`
    Query(Vec<Cn>),
}
fn nat_list(v: &[u32]) -> String {
    coq_list(v, |x| x.to_string())
}
fn json_list(v: &[u32]) -> String {
    format!("[{}]", v.iter().map(|x| x.to_string()).collect::<Vec<_>>().join(","))
}
impl Op {
    fn coq(&self) -> String {
        match self {
            Op::Ins(r) => format!("OIns {}", nat_list(r)),
            Op::Rem(k) => format!("ORem {}", nat_list(k)),
            Op::Merge => "OMerge".into(),
            Op::Clear => "OClear".into(),
            Op::Get(k) => format!("OGet {}", nat_list(k)),
            Op::Scan => "OScan".into(),
            Op::ScanC(cs) => format!("OScanC {}", coq_list(cs, |c| c.coq())),
            Op::Fast(c) => format!("OFast ({})", c.coq()),
            Op::Stat => "OStat".into(),
            Op::Query(_) => "OMerge".into(),
        }
    }
    fn name(&self) -> &'static str {
        match self {
            Op::Query(_) => "query",
            Op::Ins(_) => "ins",
            Op::Rem(_) => "rem",
            Op::Merge => "merge",
            Op::Clear => "clear",
            Op::Get(_) => "get",
            Op::Scan => "scan",
            Op::ScanC(_) => "scanc",
            Op::Fast(_) => "fast",
            Op::Stat => "stat",
        }
    }
    fn json(&self) -> String {
        match self {
            Op::Ins(r) => format!("[\"ins\",{}]", json_list(r)),
            Op::Rem(r) => format!("[\"rem\",{}]", json_list(r)),
            Op::Get(r) => format!("[\"get\",{}]", json_list(r)),
            Op::ScanC(cs) => format!("[\"scanc\",[{}]]", cs.iter().map(|c| c.json()).collect::<Vec<_>>().join(",")),
            Op::Fast(c) => format!("[\"fast\",{}]", c.json()),
            Op::Query(cs) => format!("[\"query\",[{}]]", cs.iter().map(|c| c.json()).collect::<Vec<_>>().join(",")),
            o => format!("[\"{}\"]", o.name()),
        }
    }
    fn from_json(v: &serde_json::Value) -> Op {
        let a = v.as_array().expect("op");
        let list = |x: &serde_json::Value| x.as_array().unwrap().iter().map(|y| y.as_u64().unwrap() as u32).collect::<Vec<_>>();
        match a[0].as_str().unwrap() {
            "ins" => Op::Ins(list(&a[1])),
            "rem" => Op::Rem(list(&a[1])),
            "get" => Op::Get(list(&a[1])),
            "merge" => Op::Merge,
            "clear" => Op::Clear,
            "scan" => Op::Scan,
            "scanc" => Op::ScanC(a[1].as_array().unwrap().iter().map(Cn::from_json).collect()),
            "fast" => Op::Fast(Cn::from_json(&a[1])),
            "query" => Op::Query(a[1].as_array().unwrap().iter().map(Cn::from_json).collect()),
            _ => Op::Stat,
        }
    }
}

#[derive(Clone, Copy, Debug, PartialEq, Eq, Hash)]
pub enum MKind {
    New,
    Always,
    Old,
    Max,
    Min,
}
impl MKind {
    fn coq(&self) -> &'static str {
        match self {
            MKind::New => "MNew",
            MKind::Always => "MAlways",
            MKind::Old => "MOld",
            MKind::Max => "MMax",
            MKind::Min => "MMin",
        }
    }
    fn from_str(s: &str) -> MKind {
        match s {
            "MNew" => MKind::New,
            "MAlways" => MKind::Always,
            "MOld" => MKind::Old,
            "MMax" => MKind::Max,
            _ => MKind::Min,
        }
    }
}

/// the merge function installed in the table (and used by the oracle: it is an *input* of the
/// table); twin of `Verif.Table.Model.mf_of`
fn merge_rows(nk: usize, sort: Option<usize>, mk: MKind, cur: &[u32], new: &[u32]) -> Option<Vec<u32>> {
    match mk {
        MKind::Old => None,
        MKind::Always => Some(new.to_vec()),
        _ => {
            let mut r = new.to_vec();
            for i in 0..r.len() {
                if i < nk || Some(i) == sort {
                    continue;
                }
                r[i] = match mk {
                    MKind::New => new[i],
                    MKind::Max => cur[i].max(new[i]),
                    MKind::Min => cur[i].min(new[i]),
                    _ => unreachable!(),
                };
            }
            let same = (0..r.len()).all(|i| Some(i) == sort || r[i] == cur[i]);
            if same {
                None
            } else {
                Some(r)
            }
        }
    }
}

#[derive(Clone, Debug, PartialEq, Eq, Hash)]
pub struct SCase {
    nk: usize,
    ncols: usize,
    sort: Option<usize>,
    mk: MKind,
    ops: Vec<Op>,
}

#[derive(Clone, Debug, PartialEq, Eq, Hash)]
pub enum DOp {
    Ins(u32, u32, u32),
    Merge,
    Clear,
    Get(u32),
    Scan,
    ScanC(Vec<Cn>),
    Fast(Cn),
    Stat,
}
impl DOp {
    fn coq(&self) -> String {
        match self {
            DOp::Ins(a, b, t) => format!("DIns {a} {b} {t}"),
            DOp::Merge => "DMerge".into(),
            DOp::Clear => "DClear".into(),
            DOp::Get(k) => format!("DGet {k}"),
            DOp::Scan => "DScan".into(),
            DOp::ScanC(cs) => format!("DScanC {}", coq_list(cs, |c| c.coq())),
            DOp::Fast(c) => format!("DFast ({})", c.coq()),
            DOp::Stat => "DStat".into(),
        }
    }
    fn name(&self) -> &'static str {
        match self {
            DOp::Ins(..) => "d_ins",
            DOp::Merge => "d_merge",
            DOp::Clear => "d_clear",
            DOp::Get(_) => "d_get",
            DOp::Scan => "d_scan",
            DOp::ScanC(_) => "d_scanc",
            DOp::Fast(_) => "d_fast",
            DOp::Stat => "d_stat",
        }
    }
    fn json(&self) -> String {
        match self {
            DOp::Ins(a, b, t) => format!("[\"ins\",{a},{b},{t}]"),
            DOp::Get(k) => format!("[\"get\",{k}]"),
            DOp::ScanC(cs) => format!("[\"scanc\",[{}]]", cs.iter().map(|c| c.json()).collect::<Vec<_>>().join(",")),
            DOp::Fast(c) => format!("[\"fast\",{}]", c.json()),
            DOp::Merge => "[\"merge\"]".into(),
            DOp::Clear => "[\"clear\"]".into(),
            DOp::Scan => "[\"scan\"]".into(),
            DOp::Stat => "[\"stat\"]".into(),
        }
    }
    fn from_json(v: &serde_json::Value) -> DOp {
        let a = v.as_array().expect("dop");
        let n = |i: usize| a[i].as_u64().unwrap() as u32;
        match a[0].as_str().unwrap() {
            "ins" => DOp::Ins(n(1), n(2), n(3)),
            "get" => DOp::Get(n(1)),
            "merge" => DOp::Merge,
            "clear" => DOp::Clear,
            "scan" => DOp::Scan,
            "scanc" => DOp::ScanC(a[1].as_array().unwrap().iter().map(Cn::from_json).collect()),
            "fast" => DOp::Fast(Cn::from_json(&a[1])),
            _ => DOp::Stat,
        }
    }
}

#[derive(Clone, Debug, PartialEq, Eq, Hash)]
pub enum Case {
    S(SCase),
    D(Vec<DOp>),
}
impl Case {
    fn json(&self) -> String {
        match self {
            Case::S(c) => format!(
                "{{\"kind\":\"S\",\"nk\":{},\"ncols\":{},\"sort\":{},\"mk\":\"{}\",\"ops\":[{}]}}",
                c.nk,
                c.ncols,
                c.sort.map(|s| s.to_string()).unwrap_or("null".into()),
                c.mk.coq(),
                c.ops.iter().map(|o| o.json()).collect::<Vec<_>>().join(",")
            ),
            Case::D(ops) => format!("{{\"kind\":\"D\",\"ops\":[{}]}}", ops.iter().map(|o| o.json()).collect::<Vec<_>>().join(",")),
        }
    }
    fn from_json(v: &serde_json::Value) -> Case {
        // a replay file written by bin/check wraps the input: {"violation": {"input": ...}}
        let v = if v.get("kind").map(|k| k.is_string()).unwrap_or(false) && v.get("ops").is_some() {
            v
        } else if let Some(i) = v.get("violation").and_then(|x| x.get("input")) {
            i
        } else if let Some(i) = v.get("input") {
            i
        } else {
            v
        };
        let ops = v["ops"].as_array().expect("ops");
        if v["kind"].as_str() == Some("D") {
            Case::D(ops.iter().map(DOp::from_json).collect())
        } else {
            Case::S(SCase {
                nk: v["nk"].as_u64().unwrap() as usize,
                ncols: v["ncols"].as_u64().unwrap() as usize,
                sort: v["sort"].as_u64().map(|x| x as usize),
                mk: MKind::from_str(v["mk"].as_str().unwrap()),
                ops: ops.iter().map(Op::from_json).collect(),
            })
        }
    }
}

// ------------------------------------------------------------------------------------------------
// running on the implementation

type Obs = Vec<Vec<usize>>;

#[derive(Default)]
pub struct Outcome {
    obs: Vec<Obs>,
    /// (stable key, description)
    violations: Vec<(String, String)>,
    nontrivial: bool,
    rehashes: usize,
    clears_bumped: usize,
    fast_some: usize,
    fast_none: usize,
    panicked_merge: bool,
    read_panics: usize,
    queries: usize,
    merge_table_calls: usize,
}

fn vals(v: &[u32]) -> Vec<Value> {
    v.iter().map(|x| Value::new(*x)).collect()
}
fn unvals(v: &[Value]) -> Vec<u32> {
    v.iter().map(|x| x.rep()).collect()
}
fn dump(buf: &TaggedRowBuffer) -> Vec<(usize, Vec<u32>)> {
    buf.iter().map(|(id, r)| (id.index(), unvals(r))).collect()
}
fn enc(rows: &[(usize, Vec<u32>)]) -> Obs {
    rows.iter()
        .map(|(id, r)| {
            let mut v = vec![*id];
            v.extend(r.iter().map(|x| *x as usize));
            v
        })
        .collect()
}
fn sorted_rows(rows: &[(usize, Vec<u32>)]) -> Vec<Vec<u32>> {
    let mut v: Vec<Vec<u32>> = rows.iter().map(|(_, r)| r.clone()).collect();
    v.sort();
    v
}

/// all three public ways of reading rows under constraints
fn constrained_reads(t: &WrappedTable, ncols: usize, cs: &[Constraint]) -> [Vec<(usize, Vec<u32>)>; 3] {
    let a = {
        let sub = t.refine(t.all(), cs);
        dump(&t.scan(sub.as_ref()))
    };
    let b = {
        let all = t.all();
        let sub = t.refine_ref(all.as_ref(), cs, true);
        dump(&t.scan(sub.as_ref()))
    };
    let c = {
        let all = t.all();
        let cols: Vec<ColumnId> = (0..ncols).map(|i| ColumnId::new(i as u32)).collect();
        let mut buf = TaggedRowBuffer::new(ncols);
        let mut cur = Offset::new(0);
        // bounded scan in chunks of 7 rows of the subset, to exercise the continuation token
        while let Some(next) = t.scan_project(all.as_ref(), &cols, cur, 7, cs, &mut buf) {
            cur = next;
        }
        dump(&buf)
    };
    [a, b, c]
}

pub fn run_sorted(c: &SCase) -> Outcome {
    let mut out = Outcome::default();
    let (nk, ncols, sort, mk) = (c.nk, c.ncols, c.sort, c.mk);
    let mut db = Database::new();
    let table = SortedWritesTable::new(
        nk,
        ncols,
        sort.map(|s| ColumnId::new(s as u32)),
        vec![],
        Box::new(move |_, cur, new, outv| match merge_rows(nk, sort, mk, &unvals(cur), &unvals(new)) {
            Some(r) => {
                outv.extend(r.iter().map(|x| Value::new(*x)));
                true
            }
            None => false,
        }),
    );
    let id: TableId = db.add_table(table, std::iter::empty(), std::iter::empty());
    // result table of the one-atom queries (every column is a key)
    let out_id: TableId = db.add_table(
        SortedWritesTable::new(ncols, ncols, None, vec![], Box::new(|_, _, _, _| false)),
        std::iter::empty(),
        std::iter::empty(),
    );
    // oracle: a plain map
    let mut map: BTreeMap<Vec<u32>, Vec<u32>> = BTreeMap::new();
    let mut pins: Vec<Vec<u32>> = vec![];
    let mut prem: Vec<Vec<u32>> = vec![];
    let (mut saw_overwrite, mut saw_remove, mut read_after) = (false, false, false);
    let mut viol = |out: &mut Outcome, k: usize, what: String| {
        if out.violations.len() < 3 {
            out.violations.push(("sorted-table".to_string(), format!("after op {k}: {what}")));
        }
    };
    for (k, op) in c.ops.iter().enumerate() {
        match op {
            Op::Ins(r) => {
                let mut b = db.new_buffer(id);
                b.stage_insert(&vals(r));
                drop(b);
                pins.push(r.clone());
            }
            Op::Rem(key) => {
                let mut b = db.new_buffer(id);
                b.stage_remove(&vals(key));
                drop(b);
                prem.push(key.clone());
            }
            Op::Merge | Op::Query(_) => {
                let before = db.get_table(id).version().major.index();
                let res = if let Op::Query(cs) = op {
                    // expected answer: the map as it is before the merge that run_rule_set ends with
                    let mut want: Vec<Vec<u32>> = map.values().filter(|r| cs.iter().all(|c| c.eval(r))).cloned().collect();
                    want.sort();
                    let real: Vec<Constraint> = cs.iter().map(|c| c.real()).collect();
                    let res = catch_unwind(AssertUnwindSafe(|| {
                        let mut rsb = RuleSetBuilder::new(&mut db);
                        let mut q = rsb.new_rule();
                        let entries: Vec<QueryEntry> = (0..ncols).map(|_| q.new_var().into()).collect();
                        if q.add_atom(id, &entries, &real).is_err() {
                            return None;
                        }
                        let mut rb = q.build();
                        if rb.insert(out_id, &entries).is_err() {
                            return None;
                        }
                        rb.build();
                        let rs = rsb.build();
                        db.run_rule_set(&rs, ReportLevel::TimeOnly, None);
                        let o = db.get_table(out_id);
                        let all = o.all();
                        Some(dump(&o.scan(all.as_ref())))
                    }));
                    match res {
                        Ok(Some(rows)) => {
                            out.queries += 1;
                            if sorted_rows(&rows) != want {
                                viol(&mut out, k, format!("one-atom query under {cs:?} derives {:?}, the map gives {:?}", sorted_rows(&rows), want));
                            }
                            db.clear_table(out_id);
                            Ok(true)
                        }
                        Ok(None) => catch_unwind(AssertUnwindSafe(|| db.merge_all())),
                        Err(e) => Err(e),
                    }
                } else if k % 2 == 1 {
                    // every other plain merge goes through the single-table entry point
                    // `Database::merge_table` (same map-level effect for a table without
                    // dependencies; an index-backed read that follows must see the merge)
                    out.merge_table_calls += 1;
                    catch_unwind(AssertUnwindSafe(|| db.merge_table(id)))
                } else {
                    catch_unwind(AssertUnwindSafe(|| db.merge_all()))
                };
                if res.is_err() {
                    // the table's own assertion on the sort order (caller contract); the sequence ends
                    out.panicked_merge = true;
                    out.obs.push(vec![vec![4999]]);
                    std::mem::forget(db);
                    return out;
                }
                for key in prem.drain(..) {
                    if map.remove(&key).is_some() {
                        saw_remove = true;
                    }
                }
                for r in pins.drain(..) {
                    let key = r[..nk].to_vec();
                    match map.get(&key) {
                        Some(cur) => {
                            if let Some(m) = merge_rows(nk, sort, mk, cur, &r) {
                                map.insert(key, m);
                                saw_overwrite = true;
                            }
                        }
                        None => {
                            map.insert(key, r);
                        }
                    }
                }
                if db.get_table(id).version().major.index() != before {
                    out.rehashes += 1;
                }
            }
            Op::Clear => {
                let before = db.get_table(id).version().major.index();
                db.clear_table(id);
                map.clear();
                pins.clear();
                prem.clear();
                if db.get_table(id).version().major.index() != before {
                    out.clears_bumped += 1;
                }
            }
            Op::Get(key) => {
                let t = db.get_table(id);
                let got = t.get_row(&vals(key)).map(|r| (r.id.index(), unvals(&r.vals)));
                let want = map.get(key);
                if got.as_ref().map(|x| &x.1) != want {
                    viol(&mut out, k, format!("get_row({key:?}) = {got:?}, the map has {want:?}"));
                }
                // the column accessor must agree with the row
                if let Some((_, r)) = &got {
                    for (ci, v) in r.iter().enumerate() {
                        let cv = t.get_row_column(&vals(key), ColumnId::new(ci as u32)).map(|x| x.rep());
                        if cv != Some(*v) {
                            viol(&mut out, k, format!("get_row_column({key:?},{ci}) = {cv:?}, row has {v}"));
                        }
                    }
                }
                out.obs.push(enc(&got.into_iter().collect::<Vec<_>>()));
                read_after = true;
            }
            Op::Scan => {
                let t = db.get_table(id);
                let all = t.all();
                let rows = dump(&t.scan(all.as_ref()));
                let want: Vec<Vec<u32>> = map.values().cloned().collect::<Vec<_>>();
                let mut want = want;
                want.sort();
                if sorted_rows(&rows) != want {
                    viol(&mut out, k, format!("scan(all) returns {:?}, the map holds {:?}", sorted_rows(&rows), want));
                }
                out.obs.push(enc(&rows));
                read_after = true;
            }
            Op::ScanC(cs) => {
                let t = db.get_table(id);
                let real: Vec<Constraint> = cs.iter().map(|c| c.real()).collect();
                let reads = constrained_reads(t, ncols, &real);
                let mut want: Vec<Vec<u32>> = map.values().filter(|r| cs.iter().all(|c| c.eval(r))).cloned().collect();
                want.sort();
                for (name, rows) in ["refine+scan", "refine_ref+scan", "scan_project"].iter().zip(reads.iter()) {
                    if sorted_rows(rows) != want {
                        viol(&mut out, k, format!("{name} under {cs:?} returns {:?}, the map gives {:?}", sorted_rows(rows), want));
                    }
                }
                out.obs.push(enc(&reads[0]));
                read_after = true;
            }
            Op::Fast(cn) => {
                let t = db.get_table(id);
                match t.fast_subset(&cn.real()) {
                    None => {
                        out.fast_none += 1;
                        out.obs.push(vec![]);
                    }
                    Some(sub) => {
                        out.fast_some += 1;
                        let rows = dump(&t.scan(sub.as_ref()));
                        let mut want: Vec<Vec<u32>> = map.values().filter(|r| cn.eval(r)).cloned().collect();
                        want.sort();
                        if sorted_rows(&rows) != want {
                            viol(&mut out, k, format!("fast_subset({cn:?}) holds {:?}, the map gives {:?}", sorted_rows(&rows), want));
                        }
                        let est = db.estimate_size(id, Some(cn.real()));
                        if est < want.len() {
                            viol(&mut out, k, format!("estimate_size under {cn:?} = {est} < {} matching rows", want.len()));
                        }
                        let mut o = vec![vec![sub.size()]];
                        o.extend(enc(&rows));
                        out.obs.push(o);
                    }
                }
                read_after = true;
            }
            Op::Stat => {
                let t = db.get_table(id);
                let len = t.len();
                if len != map.len() || db.estimate_size(id, None) != map.len() {
                    viol(&mut out, k, format!("len = {len}, estimate_size = {}, the map has {} keys", db.estimate_size(id, None), map.len()));
                }
                let v = t.version();
                out.obs.push(vec![vec![len, t.all().size(), v.major.index()]]);
            }
        }
    }
    out.nontrivial = saw_overwrite && saw_remove && read_after;
    out
}

/// oracle of the displaced table: partition with least-id representatives, child -> ts
struct DOracle {
    cls: Vec<usize>,
    rows: BTreeMap<u32, u32>,
}
impl DOracle {
    fn ensure(&mut self, n: usize) {
        while self.cls.len() <= n {
            self.cls.push(self.cls.len());
        }
    }
    fn rep(&self, x: u32) -> u32 {
        let x = x as usize;
        if x >= self.cls.len() {
            return x as u32;
        }
        let c = self.cls[x];
        self.cls.iter().position(|d| *d == c).unwrap() as u32
    }
    fn insert(&mut self, a: u32, b: u32, ts: u32) -> bool {
        self.ensure(a.max(b) as usize);
        let (ra, rb) = (self.rep(a), self.rep(b));
        if ra == rb {
            return false;
        }
        let child = ra.max(rb);
        let (ca, cb) = (self.cls[a as usize], self.cls[b as usize]);
        for c in self.cls.iter_mut() {
            if *c == cb {
                *c = ca;
            }
        }
        self.rows.insert(child, ts);
        true
    }
    fn all(&self) -> Vec<Vec<u32>> {
        self.rows.iter().map(|(c, ts)| vec![*c, self.rep(*c), *ts]).collect()
    }
}

pub fn run_displaced(ops: &[DOp]) -> Outcome {
    let mut out = Outcome::default();
    let mut db = Database::new();
    let id = db.add_table(DisplacedTable::default(), std::iter::empty(), std::iter::empty());
    let mut or = DOracle { cls: vec![], rows: BTreeMap::new() };
    let mut pend: Vec<(u32, u32, u32)> = vec![];
    let mut cleared = false;
    let mut unions = 0usize;
    let mut read_after = false;
    let viol = |out: &mut Outcome, cleared: bool, k: usize, what: String| {
        if out.violations.len() < 3 {
            let key = if cleared { "F8-displaced-clear" } else { "displaced-table" };
            out.violations.push((key.to_string(), format!("after op {k}: {what}")));
        }
    };
    for (k, op) in ops.iter().enumerate() {
        match op {
            DOp::Ins(a, b, ts) => {
                let mut bf = db.new_buffer(id);
                bf.stage_insert(&vals(&[*a, *b, *ts]));
                drop(bf);
                pend.push((*a, *b, *ts));
            }
            DOp::Merge => {
                let res = catch_unwind(AssertUnwindSafe(|| db.merge_all()));
                if res.is_err() {
                    out.panicked_merge = true;
                    out.obs.push(vec![vec![4999]]);
                    std::mem::forget(db);
                    return out;
                }
                for (a, b, ts) in pend.drain(..) {
                    if or.insert(a, b, ts) {
                        unions += 1;
                    }
                }
            }
            DOp::Clear => {
                db.clear_table(id);
                // Table::clear: "Clear all table contents ... This method also clears any pending data."
                or = DOracle { cls: vec![], rows: BTreeMap::new() };
                pend.clear();
                cleared = true;
            }
            DOp::Get(key) => {
                let t = db.get_table(id);
                let got = catch_unwind(AssertUnwindSafe(|| t.get_row(&vals(&[*key])).map(|r| (r.id.index(), unvals(&r.vals)))));
                let want = or.rows.get(key).map(|ts| vec![*key, or.rep(*key), *ts]);
                match got {
                    Err(_) => {
                        out.read_panics += 1;
                        viol(&mut out, cleared, k, format!("get_row([{key}]) panics, the map has {want:?}"));
                        out.obs.push(vec![vec![4998]]);
                    }
                    Ok(got) => {
                        if got.as_ref().map(|x| &x.1) != want.as_ref() {
                            viol(&mut out, cleared, k, format!("get_row([{key}]) = {got:?}, the map has {want:?}"));
                        }
                        out.obs.push(enc(&got.into_iter().collect::<Vec<_>>()));
                    }
                }
                read_after = true;
            }
            DOp::Scan | DOp::ScanC(_) => {
                let cs: Vec<Cn> = if let DOp::ScanC(cs) = op { cs.clone() } else { vec![] };
                let t = db.get_table(id);
                let real: Vec<Constraint> = cs.iter().map(|c| c.real()).collect();
                let got = catch_unwind(AssertUnwindSafe(|| {
                    let sub = t.refine(t.all(), &real);
                    dump(&t.scan(sub.as_ref()))
                }));
                let mut want: Vec<Vec<u32>> = or.all().into_iter().filter(|r| cs.iter().all(|c| c.eval(r))).collect();
                want.sort();
                match got {
                    Err(_) => {
                        out.read_panics += 1;
                        viol(&mut out, cleared, k, format!("scan under {cs:?} panics"));
                        out.obs.push(vec![vec![4998]]);
                    }
                    Ok(rows) => {
                        if sorted_rows(&rows) != want {
                            viol(&mut out, cleared, k, format!("scan under {cs:?} returns {:?}, the map gives {:?}", sorted_rows(&rows), want));
                        }
                        out.obs.push(enc(&rows));
                    }
                }
                read_after = true;
            }
            DOp::Fast(cn) => {
                let t = db.get_table(id);
                let got = catch_unwind(AssertUnwindSafe(|| t.fast_subset(&cn.real()).map(|sub| (sub.size(), dump(&t.scan(sub.as_ref()))))));
                let mut want: Vec<Vec<u32>> = or.all().into_iter().filter(|r| cn.eval(r)).collect();
                want.sort();
                match got {
                    Err(_) => {
                        out.read_panics += 1;
                        viol(&mut out, cleared, k, format!("scanning fast_subset({cn:?}) panics"));
                        out.obs.push(vec![vec![4998]]);
                    }
                    Ok(None) => {
                        out.fast_none += 1;
                        out.obs.push(vec![]);
                    }
                    Ok(Some((size, rows))) => {
                        out.fast_some += 1;
                        if sorted_rows(&rows) != want {
                            viol(&mut out, cleared, k, format!("fast_subset({cn:?}) holds {:?}, the map gives {:?}", sorted_rows(&rows), want));
                        }
                        let mut o = vec![vec![size]];
                        o.extend(enc(&rows));
                        out.obs.push(o);
                    }
                }
                read_after = true;
            }
            DOp::Stat => {
                let t = db.get_table(id);
                let len = t.len();
                if len != or.rows.len() {
                    viol(&mut out, cleared, k, format!("len = {len}, the map has {} keys", or.rows.len()));
                }
                out.obs.push(vec![vec![len]]);
            }
        }
    }
    out.nontrivial = unions >= 2 && read_after;
    out
}

// ------------------------------------------------------------------------------------------------
// generators

fn gen_cn(r: &mut Rng, ncols: usize, sort: Option<usize>, vmax: u32, ts: u32) -> Cn {
    let col = match sort {
        Some(s) if r.chance(3, 5) => s,
        _ => r.below(ncols),
    } as u32;
    let val = if Some(col as usize) == sort { (ts + 2).saturating_sub(r.below(4) as u32) } else { r.below(vmax as usize + 1) as u32 };
    match r.below(6) {
        0 => Cn::Eq(col, r.below(ncols) as u32),
        1 => Cn::EqC(col, val),
        2 => Cn::Lt(col, val),
        3 => Cn::Gt(col, val),
        4 => Cn::Le(col, val),
        _ => Cn::Ge(col, val),
    }
}

fn gen_sorted(r: &mut Rng, thorough: bool) -> SCase {
    let nk = r.below(5);
    let nvals = r.range(1, 2);
    let sorted = r.chance(3, 5);
    let ncols = nk + nvals + if sorted { 1 } else { 0 };
    let sort = if sorted { Some(ncols - 1) } else { None };
    let mk = *r.pick(&[MKind::New, MKind::New, MKind::Always, MKind::Always, MKind::Old, MKind::Max, MKind::Min]);
    // key domain per column, small enough for collisions
    let kdom: usize = match nk {
        0 => 1,
        1 => r.range(3, 14),
        2 => r.range(2, 4),
        _ => 2,
    };
    let vmax = 6u32;
    let heavy = r.chance(1, 3);
    let len = if heavy { r.range(60, if thorough { 260 } else { 170 }) } else { r.range(5, if thorough { 120 } else { 60 }) };
    let mut ts: u32 = r.below(3) as u32;
    let mut ops = vec![];
    let key = |r: &mut Rng| (0..nk).map(|_| r.below(kdom) as u32).collect::<Vec<u32>>();
    let mut violate = false;
    for _ in 0..len {
        let p = r.below(100);
        let (pi, pr, pm) = if heavy { (70, 80, 86) } else { (35, 47, 62) };
        if p < pi {
            let mut row = key(r);
            for i in nk..ncols {
                row.push(if Some(i) == sort { ts } else { r.below(vmax as usize + 1) as u32 });
            }
            ops.push(Op::Ins(row));
        } else if p < pr {
            ops.push(Op::Rem(key(r)));
        } else if p < pm {
            ops.push(Op::Merge);
            if r.chance(3, 5) {
                ts += r.range(1, 2) as u32;
            }
        } else if p < pm + 1 {
            ops.push(Op::Clear);
        } else if p < pm + 5 {
            ops.push(Op::Query((0..r.below(3)).map(|_| gen_cn(r, ncols, sort, vmax, ts)).collect()));
            if r.chance(3, 5) {
                ts += r.range(1, 2) as u32;
            }
        } else {
            ops.push(match r.below(10) {
                0..=2 => Op::Get(key(r)),
                3 => Op::Scan,
                4..=5 => Op::ScanC((0..r.range(1, 2)).map(|_| gen_cn(r, ncols, sort, vmax, ts)).collect()),
                6..=8 => Op::Fast(gen_cn(r, ncols, sort, vmax, ts)),
                _ => Op::Stat,
            });
        }
    }
    // always end with a merge and a full read
    ops.push(Op::Merge);
    ops.push(Op::Scan);
    ops.push(Op::Stat);
    if sorted && ts > 0 && r.chance(1, 25) {
        // contract violation: a row older than the newest timestamp; the table asserts
        violate = true;
    }
    if violate {
        let mut row = key(r);
        for i in nk..ncols {
            row.push(if Some(i) == sort { ts - 1 } else { r.below(vmax as usize + 1) as u32 });
        }
        let mut fresh = row.clone();
        fresh[ncols - 1] = ts;
        ops.push(Op::Ins(fresh));
        ops.push(Op::Merge);
        ops.push(Op::Ins(row));
        ops.push(Op::Merge);
    }
    SCase { nk, ncols, sort, mk, ops }
}

fn gen_displaced(r: &mut Rng, thorough: bool) -> Vec<DOp> {
    let ids = r.range(3, 16);
    let len = r.range(4, if thorough { 90 } else { 50 });
    let with_clear = r.chance(1, 4);
    let mut ts: u32 = r.below(2) as u32;
    let mut ops = vec![];
    for _ in 0..len {
        let p = r.below(100);
        if p < 40 {
            ops.push(DOp::Ins(r.below(ids) as u32, r.below(ids) as u32, ts));
        } else if p < 58 {
            ops.push(DOp::Merge);
            if r.chance(1, 2) {
                ts += 1;
            }
        } else if p < 61 && with_clear {
            ops.push(DOp::Clear);
        } else {
            let cn = |r: &mut Rng| {
                let col = *r.pick(&[0u32, 1, 2, 2, 2]);
                let val = if col == 2 { (ts + 1).saturating_sub(r.below(3) as u32) } else { r.below(ids) as u32 };
                match r.below(6) {
                    0 => Cn::Eq(col, r.below(3) as u32),
                    1 => Cn::EqC(col, val),
                    2 => Cn::Lt(col, val),
                    3 => Cn::Gt(col, val),
                    4 => Cn::Le(col, val),
                    _ => Cn::Ge(col, val),
                }
            };
            ops.push(match r.below(10) {
                0..=3 => DOp::Get(r.below(ids) as u32),
                4 => DOp::Scan,
                5 => DOp::ScanC(vec![cn(r)]),
                6..=8 => DOp::Fast(cn(r)),
                _ => DOp::Stat,
            });
        }
    }
    ops.push(DOp::Merge);
    ops.push(DOp::Scan);
    ops
}

// ------------------------------------------------------------------------------------------------

fn obs_coq(obs: &[Obs]) -> String {
    coq_list(obs, |o| coq_list(o, |r| coq_nat_list(r)))
}

fn main() {
    let o = verif_harness::parse_opts();
    std::process::exit(run(&o));
}

pub fn run(o: &Opts) -> i32 {
    std::panic::set_hook(Box::new(|_| {}));
    // `--pool N`: run every SortedWritesTable case inside an N-thread pool (with the parallel
    // cut-offs taken from the environment, normally 0) so that parallel_insert / parallel_delete /
    // parallel_rehash execute; only the logical predicates against the plain-map oracle are
    // evaluated then (the Gallina model describes the serial single-shard layout).
    let mut pool_threads = 0usize;
    {
        let mut i = 0;
        while i < o.extra.len() {
            if o.extra[i] == "--pool" {
                pool_threads = o.extra[i + 1].parse().expect("pool");
                i += 1;
            }
            i += 1;
        }
    }
    let pool = if pool_threads > 1 { Some(egglog_concurrency::ThreadPool::new(pool_threads)) } else { None };
    let header = "From Coq Require Import List NArith.\nImport ListNotations.\nRequire Import Verif.Base.Cases Verif.Table.Model.\n";
    let mut w = CaseWriter::new(&o.out, "cases_table", header, "check_case", 150);
    let mut violations: Vec<(Case, String, String)> = Vec::new();
    let mut distinct: HashSet<Case> = HashSet::new();
    let mut nontrivial = 0usize;
    let mut op_hist: BTreeMap<String, usize> = BTreeMap::new();
    let mut cfg_hist: BTreeMap<String, usize> = BTreeMap::new();
    let mut cn_hist: BTreeMap<String, usize> = BTreeMap::new();
    let mut branch_hist: BTreeMap<String, usize> = BTreeMap::new();
    let mut len_hist: BTreeMap<String, usize> = BTreeMap::new();
    let mut samples: Vec<String> = Vec::new();

    let mut emit = |case: &Case, w: &mut CaseWriter| {
        let out = match (case, &pool) {
            (Case::S(c), Some(pl)) => pl.install(|| run_sorted(c)),
            (Case::S(c), None) => run_sorted(c),
            (Case::D(ops), _) => run_displaced(ops),
        };
        for (key, what) in &out.violations {
            violations.push((case.clone(), key.clone(), what.clone()));
        }
        if distinct.insert(case.clone()) && out.nontrivial {
            nontrivial += 1;
        }
        let mut bump = |h: &mut BTreeMap<String, usize>, k: String, n: usize| {
            *h.entry(k).or_insert(0) += n;
        };
        let nops;
        match case {
            Case::S(c) => {
                nops = c.ops.len();
                bump(&mut cfg_hist, format!("nk={}", c.nk), 1);
                bump(&mut cfg_hist, format!("sorted={}", c.sort.is_some()), 1);
                bump(&mut cfg_hist, format!("merge={}", c.mk.coq()), 1);
                for op in &c.ops {
                    bump(&mut op_hist, op.name().to_string(), 1);
                    match op {
                        Op::ScanC(cs) => {
                            for cn in cs {
                                let on = if Some(cn.args().0 as usize) == c.sort { "sortcol" } else { "other" };
                                bump(&mut cn_hist, format!("scan:{}:{}", cn.name(), on), 1);
                            }
                        }
                        Op::Fast(cn) => {
                            let on = if Some(cn.args().0 as usize) == c.sort { "sortcol" } else { "other" };
                            bump(&mut cn_hist, format!("fast:{}:{}", cn.name(), on), 1);
                        }
                        Op::Query(cs) => {
                            for cn in cs {
                                let on = if Some(cn.args().0 as usize) == c.sort { "sortcol" } else { "other" };
                                bump(&mut cn_hist, format!("query:{}:{}", cn.name(), on), 1);
                            }
                        }
                        _ => {}
                    }
                }
            }
            Case::D(ops) => {
                nops = ops.len();
                bump(&mut cfg_hist, "displaced".to_string(), 1);
                for op in ops {
                    bump(&mut op_hist, op.name().to_string(), 1);
                    if let DOp::Fast(cn) = op {
                        bump(&mut cn_hist, format!("d_fast:{}:col{}", cn.name(), cn.args().0), 1);
                    }
                }
            }
        }
        bump(&mut len_hist, format!("{:03}-{:03}", nops / 25 * 25, nops / 25 * 25 + 24), 1);
        bump(&mut branch_hist, "rehash (compaction threshold crossed)".into(), out.rehashes);
        bump(&mut branch_hist, "cases with >=1 rehash".into(), (out.rehashes > 0) as usize);
        bump(&mut branch_hist, "clear bumping the generation".into(), out.clears_bumped);
        bump(&mut branch_hist, "fast_subset Some".into(), out.fast_some);
        bump(&mut branch_hist, "fast_subset None".into(), out.fast_none);
        bump(&mut branch_hist, "merge panics (sort-order assertion)".into(), out.panicked_merge as usize);
        bump(&mut branch_hist, "read panics".into(), out.read_panics);
        bump(&mut branch_hist, "one-atom RuleSet queries run".into(), out.queries);
        bump(&mut branch_hist, "merges through Database::merge_table".into(), out.merge_table_calls);
        if samples.len() < 4 && out.nontrivial && nops < 40 {
            samples.push(format!("{{\"case\":{},\"observed\":{:?}}}", case.json(), out.obs));
        }
        let term = match case {
            Case::S(c) => format!(
                "CaseS {} {} {} {} {}",
                c.nk,
                c.sort.map(|s| format!("(Some {s})")).unwrap_or("None".into()),
                c.mk.coq(),
                coq_list(&c.ops, |x| x.coq()),
                obs_coq(&out.obs)
            ),
            Case::D(ops) => format!("CaseD {} {}", coq_list(ops, |x| x.coq()), obs_coq(&out.obs)),
        };
        if pool.is_none() {
            w.push(format!("({term})"));
        }
    };

    if let Some(path) = &o.replay {
        let txt = std::fs::read_to_string(path).expect("replay file");
        let v: serde_json::Value = serde_json::from_str(&txt).expect("json");
        emit(&Case::from_json(&v), &mut w);
    } else {
        // corpus first
        let corpus = std::path::Path::new(env!("CARGO_MANIFEST_DIR")).join("../corpus/C16");
        if let Ok(rd) = std::fs::read_dir(&corpus) {
            let mut files: Vec<_> = rd.flatten().map(|e| e.path()).filter(|p| p.extension().map(|x| x == "json").unwrap_or(false)).collect();
            files.sort();
            for f in files {
                let v: serde_json::Value = serde_json::from_str(&std::fs::read_to_string(&f).unwrap()).expect("corpus json");
                emit(&Case::from_json(&v), &mut w);
            }
        }
        let (ns, nd) = if o.thorough { (8000, 2000) } else { (450, 150) };
        for i in 0..ns {
            let mut r = Rng::for_case(o.seed, i as u64);
            let mut c = gen_sorted(&mut r, o.thorough);
            if pool.is_some() && c.sort.is_some() && !matches!(c.mk, MKind::Old | MKind::Always) {
                // The parallel path pre-merges the rows of one batch before meeting the stored row.
                // For a merge function that is not associative in EVERY column this legitimately
                // differs from the one-by-one fold (New/Max/Min keep the old row, hence the old
                // sort value, when the payload is unchanged). Only associative merge functions are
                // compared with the sequential plain-map oracle in pool mode.
                c.mk = if c.ops.len() % 2 == 0 { MKind::Always } else { MKind::Old };
            }
            emit(&Case::S(c), &mut w);
        }
        for i in 0..nd {
            let mut r = Rng::for_case(o.seed, 1_000_000 + i as u64);
            emit(&Case::D(gen_displaced(&mut r, o.thorough)), &mut w);
        }
    }
    w.flush();
    let hist = |h: &BTreeMap<String, usize>| serde_json::to_string(h).unwrap();
    let report = format!(
        "{{\"sub\":\"table\",\"evaluations\":{},\"cases\":{},\"shards\":{},\"distinct_nontrivial\":{},\"rule\":{},\"op_hist\":{},\"cfg_hist\":{},\"constraint_hist\":{},\"branch_hist\":{},\"len_hist\":{},\"samples\":[{}],\"violations\":[{}]}}\n",
        distinct.len(),
        w.total,
        w.shards,
        nontrivial,
        json_str("corpus seeds, then seeded random op sequences on a Database holding one SortedWritesTable (0-4 key columns, 1-2 value columns, with/without a sort column, merge function one of New/Always/Old/Max/Min; ops: stage_insert, stage_remove, merge_all, clear_table, get_row, scan, constrained scans via refine / refine_ref / scan_project, fast_subset, len/version) or one DisplacedTable; a sorted-table case is non-trivial iff some insert overwrote a live key through the merge function, some removal hit a present key, and a read followed; a displaced case iff >= 2 effective unions and a read; distinct by (configuration, op sequence)"),
        hist(&op_hist),
        hist(&cfg_hist),
        hist(&cn_hist),
        hist(&branch_hist),
        hist(&len_hist),
        samples.join(","),
        violations
            .iter()
            .take(20)
            .map(|(case, key, msg)| format!("{{\"key\":{},\"what\":{},\"input\":{}}}", json_str(key), json_str(msg), case.json()))
            .collect::<Vec<_>>()
            .join(",")
    );
    std::fs::write(o.out.join("impl_report.json"), report).unwrap();
    0
}
