use egglog_concurrency::ConcurrentVec;
fn main() {
    // poison the allocator's free lists so that fresh memory is not accidentally zero
    for _ in 0..64 { let v: Vec<usize> = vec![0xDEAD_BEEF; 8]; std::hint::black_box(&v); }
    let v: ConcurrentVec<usize> = ConcurrentVec::with_capacity(8);
    for i in 0..5 { v.push(100 + i); }
    v.resize_with(8, || 777);
    let r = v.read();
    println!("len={} contents={:?}", r.len(), &r[..]);
}
