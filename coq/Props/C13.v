(** C13 — Subsumed rows stop matching and extracting, forever; deleted rows are gone.
    Statements pinned here; proofs in Egg/Subsume.v. *)
From Coq Require Import List ZArith Bool.
Import ListNotations.
From Coq Require Import NArith.
Require Import Verif.Base.Res Verif.Egg.SchemaPrelude Verif.gen.SchemaFns Verif.Egg.Callback.
Require Import Verif.gen.BridgeFns Verif.gen.SourceFacts Verif.Egg.Model Verif.Egg.Rules Verif.Egg.Merge Verif.Egg.Subsume Verif.Egg.Guards.

(** the flag-combination translated from egglog-bridge (combine_subsumed = max) is OR: merging a
    subsumed row with a non-subsumed congruent row, in either order, gives a subsumed row *)
Theorem c13_combine_is_or : forall a b, combine_sub a b = orb a b.
Proof. exact combine_sub_orb. Qed.
Print Assumptions c13_combine_is_or.

(** sticky through ANY sequence of inserts / re-insertions / merges *)
Theorem c13_sticky_inserts : forall m ws t k,
  tab_sub (insert_all m t ws) k
  = orb (tab_sub t k) (existsb (fun w => andb (vals_eqb (rargs w) k) (rsub w)) ws).
Proof. exact insert_all_sub. Qed.
Print Assumptions c13_sticky_inserts.

(** sticky through rebuild: the row of canonical key k is subsumed iff some row whose key
    canonicalises to k was *)
Theorem c13_sticky_rebuild : forall p m rows k,
  tab_sub (fst (fst (rebuild_rows p m rows []))) k
  = existsb (fun r => andb (vals_eqb (map (canon p) (rargs r)) k) (rsub r)) rows.
Proof. exact rebuild_rows_sub. Qed.
Print Assumptions c13_sticky_rebuild.

(** never matched: a rule body matches exactly as if subsumed rows were absent, at any nesting *)
Theorem c13_not_matched : forall s fs es, match_body (visible s) fs es = match_body s fs es.
Proof. exact match_body_visible. Qed.
Print Assumptions c13_not_matched.

(** still satisfies check: term evaluation ignores the flag *)
Theorem c13_still_checks : forall s t, eval (unflag s) t = eval s t.
Proof. exact eval_unflag. Qed.
Print Assumptions c13_still_checks.

(** still takes part in congruence: rebuilding ignores the flag (same keys, values, unions) *)
Theorem c13_congruence_still : forall p m rows acc,
  let '(t1, us1, e1) := rebuild_rows p m rows acc in
  let '(t2, us2, e2) := rebuild_rows p m (map unflag_row rows) (map unflag_row acc) in
  map unflag_row t1 = t2 /\ us1 = us2 /\ e1 = e2.
Proof. exact rebuild_rows_unflag. Qed.
Print Assumptions c13_congruence_still.

(** frames: subsuming / deleting key k affects no other row *)
Theorem c13_subsume_frame_flag : forall t k k',
  tab_sub (tab_subsume t k) k'
  = orb (tab_sub t k') (andb (vals_eqb k k') (match tab_lookup t k with Some _ => true | None => false end)).
Proof. exact tab_subsume_sub. Qed.
Print Assumptions c13_subsume_frame_flag.

Theorem c13_subsume_frame_value : forall t k k', tab_get (tab_subsume t k) k' = tab_get t k'.
Proof. exact tab_subsume_get. Qed.
Print Assumptions c13_subsume_frame_value.

Theorem c13_delete_gone : forall t k k', keys_distinct t ->
  tab_get (tab_remove t k) k' = if vals_eqb k k' then None else tab_get t k'.
Proof. exact tab_remove_get. Qed.
Print Assumptions c13_delete_gone.

Theorem c13_delete_frame_flag : forall t k k', keys_distinct t ->
  tab_sub (tab_remove t k) k' = if vals_eqb k k' then false else tab_sub t k'.
Proof. exact tab_remove_sub. Qed.
Print Assumptions c13_delete_frame_flag.

(** non-vacuity: a subsumed row merged with a congruent non-subsumed one (either order) *)
Example c13_example :
  tab_sub (fst (fst (rebuild_rows [0; 0] MUnionId
     [mkRow [VId 1] (VId 1) true; mkRow [VId 0] (VId 0) false] []))) [VId 0] = true
  /\ tab_sub (fst (fst (rebuild_rows [0; 0] MUnionId
     [mkRow [VId 0] (VId 0) false; mkRow [VId 1] (VId 1) true] []))) [VId 0] = true.
Proof. split; vm_compute; reflexivity. Qed.

(** the source AS WRITTEN NOW (regenerated facts): the frontend constrains every table atom of a
    rule body to non-subsumed rows, which is exactly the model matcher's filter, and the flag does
    reach the backend query; every table scan of the extractor's relaxation / parent-edge /
    variant passes runs a closure whose whole body is `if !row.subsumed { .. }` *)
Theorem c13_source_filters_subsumed :
  (forall sub, row_passes query_subsumed_default sub = negb sub)
  /\ query_table_passes_flag = true
  /\ forallb (fun c => guarded_scan (fst c) (snd c)) extraction_calls = true
  /\ 3 <= List.length extraction_calls.
Proof.
  exact (conj query_default_is_model_filter
          (conj query_flag_reaches_backend (conj extraction_scans_guarded extraction_scans_count))).
Qed.
Print Assumptions c13_source_filters_subsumed.

(* ================================================================================================
   The subsume column through the merge callback AS WRITTEN NOW (gen/SchemaFns.v is regenerated from
   egglog-bridge/src/lib.rs on every run) *)

(** the regenerated flag combination over the regenerated constants is OR *)
Theorem c13_combineN_is_or : forall a b, combine_subsumedN (flagN a) (flagN b) = flagN (orb a b).
Proof. exact combine_subsumedN_or. Qed.
Print Assumptions c13_combineN_is_or.

(** whatever the merge function does to the value, for every arity: after the callback of a table
    with subsumption the row the table holds (the produced row if "changed", the current row
    otherwise) carries the COMBINED flag of the current and the incoming row - a flag change alone
    makes the callback report "changed" *)
Theorem c13_callback_flag_sticky : forall sm run cur new st v st',
  (1 <= sm_func_cols sm)%N -> sm_subsume sm = true ->
  length cur = N.to_nat (SchemaMath_table_columns sm) ->
  length new = N.to_nat (SchemaMath_table_columns sm) ->
  run st (nth (rv sm) cur 0%N) (nth (rv sm) new 0%N) (nth (tsc sm) new 0%N) = Ok (v, st') ->
  exists changed out, MergeFn_to_callback sm run st cur new [] = Ok (changed, st', out)
    /\ nth (sc sm) (if changed then out else cur) 0%N
       = combine_subsumedN (nth (sc sm) cur 0%N) (nth (sc sm) new 0%N).
Proof. exact callback_flag_sticky. Qed.
Print Assumptions c13_callback_flag_sticky.

(** the subsume column is a column of its own: distinct from keys, value and timestamp, inside the
    row (all arities) *)
Theorem c13_subsume_column : forall sm, (1 <= sm_func_cols sm)%N -> sm_subsume sm = true ->
  exists c, SchemaMath_subsume_col sm = Ok c
    /\ (SchemaMath_num_keys sm <= SchemaMath_ret_val_col sm /\ SchemaMath_ret_val_col sm < SchemaMath_ts_col sm
        /\ SchemaMath_ts_col sm < c /\ c < SchemaMath_table_columns sm)%N.
Proof.
  intros sm W S. destruct (schema_layout sm W) as (_ & H1 & H2 & _ & H4). rewrite S in H4.
  destruct H4 as (c & Hc & H5 & H6 & _). exists c. auto.
Qed.
Print Assumptions c13_subsume_column.

(** non-vacuity: a subsumed current row meets a non-subsumed incoming row under the Old merge:
    nothing changes, nothing is written, the stored row stays subsumed; in the other order the
    flag change alone produces a row *)
Example c13_callback_example :
  MergeFn_to_callback (mkSchemaMath true 2) (ResolvedMergeFn_run ex_env RMF_Old) [] [5; 10; 3; 1]%N [5; 4; 8; 0]%N []
  = Ok (false, [], [])
  /\ MergeFn_to_callback (mkSchemaMath true 2) (ResolvedMergeFn_run ex_env RMF_Old) [] [5; 10; 3; 0]%N [5; 4; 8; 1]%N []
  = Ok (true, [], [5; 10; 8; 1]%N).
Proof. split; vm_compute; reflexivity. Qed.
