(** C19 / ReadOptimizedLock: invariant and theorems over the transition system of RoLockModel.v *)
From Coq Require Import List Arith Bool Lia.
Import ListNotations.
Require Import Verif.Base.Res Verif.Conc.RoLockModel.

(** the writer's section: from the successful CAS to the drop of the MutexWriter *)
Definition wcs (p : tpc) : option nat :=
  match p with WSwapped _ g' | WIn g' | WHalf g' _ | WFull g' => Some g' | _ => None end.
(** the MutexWriter exists (past [readers_done.wait()]) *)
Definition writing (p : tpc) : bool :=
  match p with WIn _ | WHalf _ _ | WFull _ => true | _ => false end.
Definition midwrite (p : tpc) : bool :=
  match p with WHalf _ _ | WFull _ => true | _ => false end.
(** the MutexReader exists *)
Definition reading (p : tpc) : bool :=
  match p with RIn _ | RGot _ _ | RObs _ _ _ => true | _ => false end.

Record Inv (s : st) : Prop := {
  i_tok : fst (tok s) < next s;
  i_hold : forall x g ok, holds (pcof s x) = Some (g, ok) ->
             g < next s /\ (g = fst (tok s) -> ok = snd (tok s));
  i_wtok : forall x g', wcs (pcof s x) = Some g' -> tok s = (g', false);
  i_wuniq : forall x y, wcs (pcof s x) <> None -> wcs (pcof s y) <> None -> x = y;
  i_rd : forall x g, holds (pcof s x) = Some (g, true) ->
           tok s = (g, true) \/
           (snd (tok s) = false /\
            forall y, wcs (pcof s y) <> None -> exists g', pcof s y = WSwapped g g');
  i_data : (forall x, midwrite (pcof s x) = false) -> lo s = lastw s /\ hi s = lastw s;
  i_half : forall x g' v, pcof s x = WHalf g' v -> lo s = v;
  i_full : forall x g', pcof s x = WFull g' -> lo s = hi s;
  i_got : forall x g a, pcof s x = RGot g a -> a = lastw s;
  i_obs : forall x g a b, pcof s x = RObs g a b -> a = lastw s /\ b = lastw s
}.

Lemma pcof_repeat n x : nth x (repeat Idle n) Idle = Idle.
Proof. revert x. induction n; destruct x; simpl; auto. Qed.

Lemma inv_init n : Inv (init n).
Proof.
  constructor; unfold pcof; simpl; intros; try rewrite pcof_repeat in *; simpl in *;
    try discriminate; try congruence; auto.
Qed.

Lemma pcof_lt s t : pcof s t <> Idle -> t < length (thr s).
Proof.
  intros H. destruct (Nat.lt_ge_cases t (length (thr s))); auto.
  exfalso. apply H. unfold pcof. apply nth_overflow. auto.
Qed.

Lemma pcof_upd s t p x a b c d e f : t < length (thr s) ->
  pcof (mk a b c d e f (setpc s t p)) x = if Nat.eqb x t then p else pcof s x.
Proof. intros. unfold pcof, setpc. simpl. apply nth_set_nth. auto. Qed.

Lemma writing_wcs p : writing p = true -> wcs p <> None.
Proof. destruct p; simpl; congruence. Qed.
Lemma midwrite_writing p : midwrite p = true -> writing p = true.
Proof. destruct p; simpl; congruence. Qed.

(** a thread past [readers_done.wait()] excludes every guard on a ReadOk token *)
Lemma no_reader_when_writing s x y g : Inv s ->
  writing (pcof s y) = true -> holds (pcof s x) = Some (g, true) -> False.
Proof.
  intros I W H. destruct (i_rd s I x g H) as [E|[_ A]].
  - destruct (wcs (pcof s y)) eqn:Ew; [|apply writing_wcs in W; congruence].
    rewrite (i_wtok s I y n Ew) in E. discriminate.
  - destruct (A y (writing_wcs _ W)) as (g' & E). rewrite E in W. discriminate.
Qed.

Lemma reader_no_midwrite s x g : Inv s -> holds (pcof s x) = Some (g, true) ->
  forall y, midwrite (pcof s y) = false.
Proof.
  intros I H y. destruct (midwrite (pcof s y)) eqn:E; auto.
  exfalso. apply (no_reader_when_writing s x y g I); auto. apply midwrite_writing; auto.
Qed.

Tactic Notation "caseeq" constr(x) constr(t) "as" ident(N) :=
  destruct (Nat.eqb_spec x t) as [?E|N]; [subst x|].

(** frame steps: thread t moves from pc q to pc p, nothing else changes; it is not in a writer's
    section before or after; its guard is dropped, kept, or freshly loaded from the current token *)
Lemma inv_frame s t p : Inv s -> t < length (thr s) ->
  wcs (pcof s t) = None -> wcs p = None ->
  (holds p = None \/ holds p = holds (pcof s t) \/ holds p = Some (tok s)) ->
  (forall g a, p = RGot g a -> a = lastw s) ->
  (forall g a b, p = RObs g a b -> a = lastw s /\ b = lastw s) ->
  Inv (mk (tok s) (next s) (notified s) (lo s) (hi s) (lastw s) (setpc s t p)).
Proof.
  intros I Hlt Wq Wp Hh Hg Ho.
  assert (Hmq : midwrite (pcof s t) = false).
  { destruct (pcof s t); simpl in *; auto; discriminate. }
  assert (Hmp : midwrite p = false) by (destruct p; simpl in *; auto; discriminate).
  constructor; cbn [tok next notified lo hi lastw]; intros;
    repeat (rewrite pcof_upd in * by auto).
  - apply I.
  - caseeq x t as N; [|eapply i_hold; eauto].
    destruct Hh as [E|[E|E]]; rewrite E in H; [discriminate|eapply i_hold; eauto|].
    injection H as H. pose proof (i_tok s I) as Ht. rewrite H in *. simpl in *. split; auto.
  - caseeq x t as N; [congruence|eapply i_wtok; eauto].
  - caseeq x t as Nx; [congruence|].
    caseeq y t as Ny; [congruence|]. eapply i_wuniq; eauto.
  - assert (Hold : tok s = (g, true) \/ holds (pcof s x) = Some (g, true) /\ (x <> t \/ holds p = holds (pcof s t))).
    { caseeq x t as N; [|right; split; auto].
      destruct Hh as [E|[E|E]]; rewrite E in H; [discriminate| |].
      - right. split; auto.
      - left. congruence. }
    destruct Hold as [E|[Hx _]]; [left; auto|].
    destruct (i_rd s I x g Hx) as [E|[E A]]; [left; auto|]. right. split; auto.
    intros y Hy. rewrite pcof_upd in * by auto.
    destruct (Nat.eqb_spec y t) as [Ey|Ny]; [subst y; congruence|]. apply A; auto.
  - apply (i_data s I). intro x. specialize (H x). rewrite pcof_upd in H by auto.
    caseeq x t as N; auto.
  - caseeq x t as N; [subst; discriminate|eapply i_half; eauto].
  - caseeq x t as N; [subst; discriminate|eapply i_full; eauto].
  - caseeq x t as N; [eapply Hg; eauto|eapply i_got; eauto].
  - caseeq x t as N; [eapply Ho; eauto|eapply i_obs; eauto].
Qed.

Lemma existsb_nth_false (f : tpc -> bool) l : f Idle = false -> existsb f l = false ->
  forall x, f (nth x l Idle) = false.
Proof.
  intros Hi H x. destruct (Nat.lt_ge_cases x (length l)).
  - destruct (f (nth x l Idle)) eqn:E; auto.
    assert (existsb f l = true) by (apply existsb_exists; exists (nth x l Idle); split; [apply nth_In; auto|auto]).
    congruence.
  - rewrite nth_overflow; auto.
Qed.

Theorem inv_step s l s' : Inv s -> step s l s' -> Inv s'.
Proof.
  intros I H. unfold step, exec in H.
  destruct l; destruct (pcof s t) eqn:Ept; try discriminate;
    try (assert (Hlt : t < length (thr s)) by (apply pcof_lt; congruence)).
  - (* RLoad *)
    destruct (Nat.ltb_spec t (length (thr s))) as [Hlt|]; [|discriminate]. injection H as <-.
    apply inv_frame; auto; try (rewrite Ept; reflexivity); try discriminate.
    right. right. simpl. destruct (tok s); reflexivity.
  - (* REnter *)
    destruct ok; [|discriminate]. injection H as <-.
    apply inv_frame; auto; try (rewrite Ept; reflexivity); try discriminate.
    right. left. rewrite Ept. reflexivity.
  - (* Block from RLoaded *)
    destruct ok; [discriminate|]. injection H as <-.
    apply inv_frame; auto; try (rewrite Ept; reflexivity); try discriminate; try (left; reflexivity).
  - (* Block from WLoaded *)
    destruct ok; [discriminate|]. injection H as <-.
    apply inv_frame; auto; try (rewrite Ept; reflexivity); try discriminate; try (left; reflexivity).
  - (* Wake *)
    destruct (memn g (notified s)); [|discriminate]. injection H as <-.
    apply inv_frame; auto; try (rewrite Ept; reflexivity); try discriminate; try (left; reflexivity).
  - (* ReadLo *)
    injection H as <-.
    assert (Hh : holds (pcof s t) = Some (g, true)) by (rewrite Ept; reflexivity).
    destruct (i_data s I (reader_no_midwrite s t g I Hh)) as [Hlo Hhi].
    apply inv_frame; auto; try (rewrite Ept; reflexivity); try discriminate;
      try (right; left; rewrite Ept; reflexivity).
    intros g0 a0 E. injection E as <- <-. auto.
  - (* ReadHi *)
    injection H as <-.
    assert (Hh : holds (pcof s t) = Some (g, true)) by (rewrite Ept; reflexivity).
    destruct (i_data s I (reader_no_midwrite s t g I Hh)) as [Hlo Hhi].
    apply inv_frame; auto; try (rewrite Ept; reflexivity); try discriminate;
      try (right; left; rewrite Ept; reflexivity).
    intros g0 a0 b0 E. injection E as <- <- <-. split; auto. eapply i_got; eauto.
  - (* RLeave *)
    injection H as <-.
    apply inv_frame; auto; try (rewrite Ept; reflexivity); try discriminate; try (left; reflexivity).
  - (* WLoad *)
    destruct (Nat.ltb_spec t (length (thr s))) as [Hlt|]; [|discriminate]. injection H as <-.
    apply inv_frame; auto; try (rewrite Ept; reflexivity); try discriminate.
    right. right. simpl. destruct (tok s); reflexivity.
  - (* CasOk *)
    destruct ok; [|discriminate].
    destruct (Nat.eqb_spec g (fst (tok s))) as [Eg|]; [|discriminate].
    destruct (snd (tok s)) eqn:Eok; [|discriminate]. simpl in H. injection H as <-.
    assert (Hnosec : forall x, wcs (pcof s x) = None).
    { intro x. destruct (wcs (pcof s x)) eqn:E; auto.
      rewrite (i_wtok s I x n E) in Eok. discriminate. }
    constructor; cbn [tok next notified lo hi lastw fst snd]; intros;
      repeat (rewrite pcof_upd in * by auto).
    + lia.
    + caseeq x t as N; [discriminate|].
      destruct (i_hold s I x g0 ok H) as [A _]. split; [lia|]. intros ->. lia.
    + caseeq x t as N; [simpl in H; congruence|].
      rewrite Hnosec in H. discriminate.
    + caseeq x t as Nx; caseeq y t as Ny; auto;
        try (rewrite Hnosec in *; congruence).
    + caseeq x t as N; [discriminate|].
      right. split; auto.
      assert (g0 = g).
      { destruct (i_rd s I x g0 H) as [E|[E _]]; [|congruence]. rewrite E in Eg. simpl in Eg. auto. }
      subst g0. intros y Hy. rewrite pcof_upd in * by auto.
      destruct (Nat.eqb_spec y t) as [Ey|Ny]; [subst y; eauto|]. rewrite Hnosec in Hy. congruence.
    + apply (i_data s I). intro x. specialize (H x). rewrite pcof_upd in H by auto.
      caseeq x t as N; auto. rewrite Ept. reflexivity.
    + caseeq x t as N; [discriminate|eapply i_half; eauto].
    + caseeq x t as N; [discriminate|eapply i_full; eauto].
    + caseeq x t as N; [discriminate|eapply i_got; eauto].
    + caseeq x t as N; [discriminate|eapply i_obs; eauto].
  - (* CasFail *)
    destruct ok; [|discriminate].
    destruct (Nat.eqb g (fst (tok s)) && snd (tok s))%bool; [discriminate|]. injection H as <-.
    apply inv_frame; auto; try (rewrite Ept; reflexivity); try discriminate; try (left; reflexivity).
  - (* WaitReaders *)
    destruct (existsb (holds_gen g) (thr s)) eqn:Eex; [discriminate|]. injection H as <-.
    pose proof (existsb_nth_false (holds_gen g) (thr s) eq_refl Eex) as Hno.
    assert (Hwt : wcs (pcof s t) = Some g') by (rewrite Ept; reflexivity).
    assert (Hnord : forall x g0, holds (pcof s x) = Some (g0, true) -> False).
    { intros x g0 Hx. destruct (i_rd s I x g0 Hx) as [E|[_ A]].
      - rewrite (i_wtok s I t g' Hwt) in E. discriminate.
      - destruct (A t) as (g2 & E2); [congruence|]. rewrite Ept in E2. injection E2 as <- _.
        specialize (Hno x). unfold holds_gen in Hno. fold (pcof s x) in Hno. rewrite Hx in Hno.
        rewrite Nat.eqb_refl in Hno. discriminate. }
    constructor; cbn [tok next notified lo hi lastw fst snd]; intros;
      repeat (rewrite pcof_upd in * by auto).
    + apply I.
    + caseeq x t as N; [discriminate|eapply i_hold; eauto].
    + caseeq x t as N; [|eapply i_wtok; eauto].
      simpl in H. injection H as <-. eapply i_wtok; eauto.
    + apply (i_wuniq s I).
      * caseeq x t as N; auto. congruence.
      * caseeq y t as N; auto. congruence.
    + exfalso. caseeq x t as N; [discriminate|eapply Hnord; eauto].
    + apply (i_data s I). intro x. specialize (H x). rewrite pcof_upd in H by auto.
      caseeq x t as N; auto. rewrite Ept. reflexivity.
    + caseeq x t as N; [discriminate|eapply i_half; eauto].
    + caseeq x t as N; [discriminate|eapply i_full; eauto].
    + caseeq x t as N; [discriminate|eapply i_got; eauto].
    + caseeq x t as N; [discriminate|eapply i_obs; eauto].
  - (* WriteLo *)
    injection H as <-.
    assert (Hw : writing (pcof s t) = true) by (rewrite Ept; reflexivity).
    assert (Hwt : wcs (pcof s t) = Some g') by (rewrite Ept; reflexivity).
    assert (Hnord : forall x g0, holds (pcof s x) = Some (g0, true) -> False)
      by (intros; eapply no_reader_when_writing; eauto).
    assert (Honly : forall x, wcs (pcof s x) <> None -> x = t)
      by (intros; apply (i_wuniq s I); congruence).
    constructor; cbn [tok next notified lo hi lastw fst snd]; intros;
      repeat (rewrite pcof_upd in * by auto).
    + apply I.
    + caseeq x t as N; [discriminate|eapply i_hold; eauto].
    + caseeq x t as N; [|eapply i_wtok; eauto].
      simpl in H. injection H as <-. eapply i_wtok; eauto.
    + apply (i_wuniq s I).
      * caseeq x t as N; auto. congruence.
      * caseeq y t as N; auto. congruence.
    + exfalso. caseeq x t as N; [discriminate|eapply Hnord; eauto].
    + specialize (H t). rewrite pcof_upd in H by auto. rewrite Nat.eqb_refl in H. discriminate.
    + caseeq x t as N; [congruence|].
      exfalso. apply N, Honly. rewrite H. discriminate.
    + caseeq x t as N; [discriminate|].
      exfalso. apply N, Honly. rewrite H. discriminate.
    + caseeq x t as N; [discriminate|].
      exfalso. apply (Hnord x g). rewrite H. reflexivity.
    + caseeq x t as N; [discriminate|].
      exfalso. apply (Hnord x g). rewrite H. reflexivity.
  - (* WriteHi *)
    injection H as <-.
    assert (Hw : writing (pcof s t) = true) by (rewrite Ept; reflexivity).
    assert (Hwt : wcs (pcof s t) = Some g') by (rewrite Ept; reflexivity).
    assert (Hnord : forall x g0, holds (pcof s x) = Some (g0, true) -> False)
      by (intros; eapply no_reader_when_writing; eauto).
    assert (Honly : forall x, wcs (pcof s x) <> None -> x = t)
      by (intros; apply (i_wuniq s I); congruence).
    constructor; cbn [tok next notified lo hi lastw fst snd]; intros;
      repeat (rewrite pcof_upd in * by auto).
    + apply I.
    + caseeq x t as N; [discriminate|eapply i_hold; eauto].
    + caseeq x t as N; [|eapply i_wtok; eauto].
      simpl in H. injection H as <-. eapply i_wtok; eauto.
    + apply (i_wuniq s I).
      * caseeq x t as N; auto. congruence.
      * caseeq y t as N; auto. congruence.
    + exfalso. caseeq x t as N; [discriminate|eapply Hnord; eauto].
    + specialize (H t). rewrite pcof_upd in H by auto. rewrite Nat.eqb_refl in H. discriminate.
    + caseeq x t as N; [discriminate|].
      exfalso. apply N, Honly. rewrite H. discriminate.
    + caseeq x t as N; [eapply i_half; eauto|].
      exfalso. apply N, Honly. rewrite H. discriminate.
    + caseeq x t as N; [discriminate|].
      exfalso. apply (Hnord x g). rewrite H. reflexivity.
    + caseeq x t as N; [discriminate|].
      exfalso. apply (Hnord x g). rewrite H. reflexivity.
  - (* Release *)
    injection H as <-.
    assert (Hw : writing (pcof s t) = true) by (rewrite Ept; reflexivity).
    assert (Hwt : wcs (pcof s t) <> None) by (rewrite Ept; discriminate).
    assert (Hnord : forall x g0, holds (pcof s x) = Some (g0, true) -> False)
      by (intros; eapply no_reader_when_writing; eauto).
    assert (Honly : forall x, wcs (pcof s x) <> None -> x = t)
      by (intros; apply (i_wuniq s I); congruence).
    pose proof (i_tok s I) as Ht.
    constructor; cbn [tok next notified lo hi lastw fst snd]; intros;
      repeat (rewrite pcof_upd in * by auto).
    + lia.
    + caseeq x t as N; [discriminate|].
      destruct (i_hold s I x g ok H) as [A _]. split; [lia|]. intros ->. lia.
    + caseeq x t as N; [discriminate|].
      exfalso. apply N, Honly. congruence.
    + caseeq x t as N; [simpl in *; congruence|].
      exfalso. apply N, Honly. auto.
    + exfalso. caseeq x t as N; [discriminate|eapply Hnord; eauto].
    + split; auto. eapply i_full; eauto.
    + caseeq x t as N; [discriminate|].
      exfalso. apply N, Honly. rewrite H. discriminate.
    + caseeq x t as N; [discriminate|].
      exfalso. apply N, Honly. rewrite H. discriminate.
    + caseeq x t as N; [discriminate|].
      exfalso. apply (Hnord x g). rewrite H. reflexivity.
    + caseeq x t as N; [discriminate|].
      exfalso. apply (Hnord x g). rewrite H. reflexivity.
Qed.

Theorem reachable_inv n s : reachable n s -> Inv s.
Proof. induction 1; [apply inv_init|eapply inv_step; eauto]. Qed.

(** mutual exclusion:
    (1) at most one thread is in a writer's section (successful CAS .. drop of MutexWriter);
    (2) while a MutexWriter exists (the writer got past [readers_done.wait()]) no thread holds a
        guard on ANY ReadOk token - in particular no MutexReader exists, neither one admitted
        under the old token nor a new one;
    (3) while a writer is in its section the current token is its WriteOngoing token, so no new
        reader can be admitted. *)
Theorem rolock_mutex n s : reachable n s ->
  (forall x y, wcs (pcof s x) <> None -> wcs (pcof s y) <> None -> x = y) /\
  (forall x y, writing (pcof s x) = true -> reading (pcof s y) = true -> False) /\
  (forall x y g, writing (pcof s x) = true -> holds (pcof s y) = Some (g, true) -> False) /\
  (forall x g', wcs (pcof s x) = Some g' -> tok s = (g', false)).
Proof.
  intros R. pose proof (reachable_inv n s R) as I. repeat split.
  - apply (i_wuniq s I).
  - intros x y W Rd. destruct (pcof s y) eqn:E; try discriminate;
      eapply (no_reader_when_writing s y x); eauto; rewrite E; reflexivity.
  - intros. eapply no_reader_when_writing; eauto.
  - apply (i_wtok s I).
Qed.

(** a reader never observes a partial update: whatever a thread holding a MutexReader has read,
    and whatever it can still read, is the value of the last write whose MutexWriter was dropped
    (both halves), and no writer is between its two stores *)
Theorem rolock_reader_sees_complete_write n s : reachable n s ->
  forall x, reading (pcof s x) = true ->
    lo s = lastw s /\ hi s = lastw s /\
    (forall y, midwrite (pcof s y) = false) /\
    (forall g a, pcof s x = RGot g a -> a = lastw s) /\
    (forall g a b, pcof s x = RObs g a b -> a = lastw s /\ b = lastw s).
Proof.
  intros R x Rd. pose proof (reachable_inv n s R) as I.
  assert (exists g, holds (pcof s x) = Some (g, true)) as (g & Hh).
  { destruct (pcof s x); try discriminate; eexists; reflexivity. }
  pose proof (reader_no_midwrite s x g I Hh) as Hm.
  destruct (i_data s I Hm). split; auto. split; auto. split; auto. split.
  - intros g0 a E. eapply i_got; eauto.
  - intros g0 a b E. eapply i_obs; eauto.
Qed.

(* ------------------------------------------------------------------------------------------ *)
(** replayed logs are runs of the system *)
Lemma exec_all_reach n : forall ls s s', reachable n s -> exec_all s ls = Some s' -> reachable n s'.
Proof.
  induction ls as [|l ls IH]; intros s s' R H; simpl in H.
  - injection H as <-. auto.
  - destruct (exec s l) eqn:E; [|discriminate].
    apply (IH s0 s'); auto. apply (reach_step n s l s0); auto.
Qed.

Lemma replay_reach n : forall es s s', reachable n s -> replay s es = Some s' -> reachable n s'.
Proof.
  induction es as [|e es IH]; intros s s' R H.
  - simpl in H. injection H as <-. auto.
  - destruct e; cbn [replay] in H.
    + destruct (exec_all s (ev_labels (ERdIn t))) eqn:E; [|discriminate].
      eapply IH; [|exact H]. eapply exec_all_reach; eauto.
    + destruct (exec_all s [LReadLo t; LReadHi t]) eqn:E; [|discriminate].
      pose proof (exec_all_reach n _ _ _ R E) as R1.
      destruct (pcof s0 t); try discriminate.
      destruct (Nat.eqb a a0 && Nat.eqb b b0)%bool; [|discriminate].
      destruct (exec s0 (LRLeave t)) eqn:E2; [|discriminate].
      eapply IH; [|exact H]. eapply reach_step; eauto.
    + destruct (exec_all s (ev_labels (EWrIn t))) eqn:E; [|discriminate].
      eapply IH; [|exact H]. eapply exec_all_reach; eauto.
    + destruct (exec_all s (ev_labels (EWrOut t v))) eqn:E; [|discriminate].
      eapply IH; [|exact H]. eapply exec_all_reach; eauto.
Qed.

Theorem replay_sound n es : check_case (n, es) = true ->
  exists s, reachable n s /\ replay (init n) es = Some s.
Proof.
  unfold check_case. destruct (replay (init n) es) eqn:E; [|discriminate].
  intros _. exists s. split; auto. eapply replay_reach; eauto. constructor.
Qed.
