(** C03 — Semi-naive evaluation is observationally identical to naive evaluation.
    Theorem-backed: the delta decomposition over the timestamp constraints regenerated from
    egglog-bridge/src/rule.rs. The end-to-end equivalence (timestamps re-stamped by rebuild,
    merges, container refresh) is decided by the correspondence check: semi-naive engine vs naive
    engine vs the naive Gallina model, after every command. *)
From Coq Require Import List Arith PeanoNat Bool.
Import ListNotations.
Require Import Verif.gen.SourceFacts Verif.Semi.Delta Verif.Semi.History.

Theorem c03_old_is_not_new : forall mid ts, is_old mid ts = negb (is_new mid ts).
Proof. exact old_is_not_new. Qed.
Print Assumptions c03_old_is_not_new.

Theorem c03_delta_decomp : forall mid m,
  (all_old mid m = false <-> exists i, variant mid i m = true)
  /\ (forall i j, variant mid i m = true -> variant mid j m = true -> i = j)
  /\ (forall i, variant mid i m = true -> i < length m).
Proof. exact delta_decomp. Qed.
Print Assumptions c03_delta_decomp.

Theorem c03_first_run_late : forall m, m <> [] -> variant 0 0 m = true /\ all_old 0 m = false.
Proof. exact first_run_sees_all. Qed.
Print Assumptions c03_first_run_late.

Theorem c03_sole_focus_same : semi_sole_focus = semi_focus.
Proof. exact sole_focus_same. Qed.
Print Assumptions c03_sole_focus_same.

(** "each rule keeps its own last-run timestamp": with the frontier `run_rules_impl` uses NOW
    ([semi_frontier_src], [semi_frontier_advances_own]: regenerated from egglog-bridge/src/lib.rs),
    over ANY history of batches (any rules in any batch, any interleaving of rulesets, a rule run
    for the first time long after its inputs were written) with a clock that never goes back,
    every match older than its rule's stamp has fired exactly once and no other match has fired *)
Theorem c03_history_exactly_once : forall h,
  clocks_from 0 h ->
  let '(st, ws) := run_history semi_frontier_src semi_frontier_advances_own h (fun _ => 0) [] in
  forall r t, fired r t ws = if Nat.ltb t (st r) then 1 else 0.
Proof. exact source_frontier_exactly_once. Qed.
Print Assumptions c03_history_exactly_once.

(** a rule that has just run has nothing pending that is older than the clock *)
Theorem c03_run_catches_up : forall batch next st ws c r,
  c <= next -> inv c st ws -> In r batch ->
  let '(st', ws') := run_batch FOwnLastRun true batch batch next st ws in
  forall t, t < next -> fired r t ws' = 1.
Proof. exact own_frontier_run_catches_up. Qed.
Print Assumptions c03_run_catches_up.

(** non-vacuity: one frontier for a whole batch loses a match *)
Theorem c03_batch_frontier_refuted :
  let '(st, ws) := run_history FNotOwn true [mkRun [1] 5; mkRun [0; 1] 7] (fun _ => 0) [] in
  fired 0 2 ws = 0 /\ st 0 = 7.
Proof. exact batch_frontier_loses_a_match. Qed.
Print Assumptions c03_batch_frontier_refuted.

Example c03_example : variant 5 1 [3; 7; 2] = true /\ variant 5 0 [3; 7; 2] = false
                      /\ variant 5 2 [3; 7; 2] = false /\ all_old 5 [3; 4; 2] = true.
Proof. repeat split. Qed.
