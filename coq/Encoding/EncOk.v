(** C11: [enc_rules_ok]: the maintenance rules that the REAL encoder emitted for a signature
    (translated from the text of [resolve_program] by the harness h_modes) are, up to the names of
    variables, exactly the template instances [enc_prog sg] that the theorems are about.
    Executable definitions only; evaluated by the kernel on every model case. *)
From Coq Require Import List Arith ZArith Bool PeanoNat.
Import ListNotations.
Require Import Verif.Base.Res Verif.Base.Cases Verif.Egg.Model Verif.Encoding.Datalog Verif.Encoding.Templates.

(* ---------------------------------------------------------------- renaming to first-occurrence order *)

Definition ren := list (nat * nat).

Fixpoint ren_find (r : ren) (x : nat) : option nat :=
  match r with
  | [] => None
  | (a, b) :: tl => if Nat.eqb a x then Some b else ren_find tl x
  end.

Definition ren_var (r : ren) (x : nat) : ren * nat :=
  match ren_find r x with
  | Some y => (r, y)
  | None => ((x, length r) :: r, length r)
  end.

Fixpoint ren_vars (r : ren) (l : list nat) : ren * list nat :=
  match l with
  | [] => (r, [])
  | x :: tl => let '(r1, y) := ren_var r x in let '(r2, ys) := ren_vars r1 tl in (r2, y :: ys)
  end.

Fixpoint ren_expr (r : ren) (e : expr) : ren * expr :=
  match e with
  | EVar x => let '(r1, y) := ren_var r x in (r1, EVar y)
  | EUnit => (r, EUnit)
  | EMax a b => let '(r1, a') := ren_expr r a in let '(r2, b') := ren_expr r1 b in (r2, EMax a' b')
  | EMin a b => let '(r1, a') := ren_expr r a in let '(r2, b') := ren_expr r1 b in (r2, EMin a' b')
  end.

Fixpoint ren_exprs (r : ren) (l : list expr) : ren * list expr :=
  match l with
  | [] => (r, [])
  | x :: tl => let '(r1, y) := ren_expr r x in let '(r2, ys) := ren_exprs r1 tl in (r2, y :: ys)
  end.

Fixpoint ren_pairs (r : ren) (l : list (expr * expr)) : ren * list (expr * expr) :=
  match l with
  | [] => (r, [])
  | (a, b) :: tl =>
      let '(r1, a') := ren_expr r a in let '(r2, b') := ren_expr r1 b in
      let '(r3, tl') := ren_pairs r2 tl in (r3, (a', b') :: tl')
  end.

Fixpoint ren_atoms (r : ren) (l : list atom) : ren * list atom :=
  match l with
  | [] => (r, [])
  | a :: tl => let '(r1, vs) := ren_vars r (avars a) in
               let '(r2, tl') := ren_atoms r1 tl in (r2, mkAtom (atab a) vs :: tl')
  end.

Definition ren_guard (r : ren) (g : guard) : ren * guard :=
  match g with
  | GNeq a b => let '(r1, a') := ren_expr r a in let '(r2, b') := ren_expr r1 b in (r2, GNeq a' b')
  | GEq a b => let '(r1, a') := ren_expr r a in let '(r2, b') := ren_expr r1 b in (r2, GEq a' b')
  | GAnyNeq l => let '(r1, l') := ren_pairs r l in (r1, GAnyNeq l')
  end.

Fixpoint ren_guards (r : ren) (l : list guard) : ren * list guard :=
  match l with
  | [] => (r, [])
  | g :: tl => let '(r1, g') := ren_guard r g in let '(r2, tl') := ren_guards r1 tl in (r2, g' :: tl')
  end.

Definition ren_action (r : ren) (a : action) : ren * action :=
  match a with
  | ASet t k v => let '(r1, k') := ren_exprs r k in let '(r2, v') := ren_expr r1 v in (r2, ASet t k' v')
  | ADel t k => let '(r1, k') := ren_exprs r k in (r1, ADel t k')
  end.

Fixpoint ren_actions (r : ren) (l : list action) : ren * list action :=
  match l with
  | [] => (r, [])
  | a :: tl => let '(r1, a') := ren_action r a in let '(r2, tl') := ren_actions r1 tl in (r2, a' :: tl')
  end.

Definition normalize (r : rule) : rule :=
  let '(r1, b) := ren_atoms [] (rbody r) in
  let '(r2, g) := ren_guards r1 (rguards r) in
  let '(_, a) := ren_actions r2 (racts r) in
  mkRule b g a.

(* ---------------------------------------------------------------- structural equality *)

Fixpoint expr_eqb (a b : expr) : bool :=
  match a, b with
  | EVar x, EVar y => Nat.eqb x y
  | EUnit, EUnit => true
  | EMax a1 a2, EMax b1 b2 => expr_eqb a1 b1 && expr_eqb a2 b2
  | EMin a1 a2, EMin b1 b2 => expr_eqb a1 b1 && expr_eqb a2 b2
  | _, _ => false
  end.

Definition atom_eqb (a b : atom) : bool := Nat.eqb (atab a) (atab b) && list_eqb Nat.eqb (avars a) (avars b).

Definition pair_eqb (p q : expr * expr) : bool := expr_eqb (fst p) (fst q) && expr_eqb (snd p) (snd q).

Definition guard_eqb (a b : guard) : bool :=
  match a, b with
  | GNeq a1 a2, GNeq b1 b2 => expr_eqb a1 b1 && expr_eqb a2 b2
  | GEq a1 a2, GEq b1 b2 => expr_eqb a1 b1 && expr_eqb a2 b2
  | GAnyNeq l1, GAnyNeq l2 => list_eqb pair_eqb l1 l2
  | _, _ => false
  end.

Definition action_eqb (a b : action) : bool :=
  match a, b with
  | ASet t1 k1 v1, ASet t2 k2 v2 => Nat.eqb t1 t2 && list_eqb expr_eqb k1 k2 && expr_eqb v1 v2
  | ADel t1 k1, ADel t2 k2 => Nat.eqb t1 t2 && list_eqb expr_eqb k1 k2
  | _, _ => false
  end.

Definition rule_eqb (a b : rule) : bool :=
  list_eqb atom_eqb (rbody a) (rbody b) && list_eqb guard_eqb (rguards a) (rguards b) &&
  list_eqb action_eqb (racts a) (racts b).

(** same rules up to variable names and order within the ruleset *)
Definition ruleset_eqb (emitted template : list rule) : bool :=
  let e := map normalize emitted in
  let t := map normalize template in
  Nat.eqb (length e) (length t) &&
  forallb (fun r => existsb (rule_eqb r) t) e && forallb (fun r => existsb (rule_eqb r) e) t.

Definition enc_rules_ok (sg : sigT) (emitted : list (list rule)) : bool :=
  list_eqb ruleset_eqb emitted (prulesets (enc_prog sg)).

(* ---------------------------------------------------------------- re-keying of subsume requests *)

(** The model has no subsumed flag, but the RULE that re-keys pending [__to_subsume_f] requests
    when a child's leader changes is compared with its template too ([rebuilding_subsumed_rules]):
    (rule ((__to_subsume_f c0..) (= ci_leader (__UF_Sf ci)).. (guard (or (bool-!= ci ci_leader)..)))
          ((__to_subsume_f c0'..) (delete (__to_subsume_f c0..))) :ruleset __rebuilding)
    one lookup per eq-sort INPUT column; emitted for every constructor with at least one eq-sort
    input (also when its inputs mix primitive and eq-sort columns). *)
Definition tSub (f : nat) : nat := 1000 + f.

Definition r_rebuild_sub (f : nat) (kinds : list bool) : rule :=
  let n := length kinds in
  let eqs := eq_cols kinds 0 in
  mkRule (mkAtom (tSub f) (seq 0 n ++ [2 * n + 2]) :: map (fun i => mkAtom tUFf [i; lead n i]) eqs)
         [GAnyNeq (map (fun i => (EVar i, EVar (lead n i))) eqs)]
         [ASet (tSub f) (new_cols n kinds 0) EUnit; ADel (tSub f) (map EVar (seq 0 n))].

Fixpoint sub_rules (sg : sigT) (f : nat) : list rule :=
  match sg with
  | [] => []
  | kinds :: tl => (if existsb (fun b => b) kinds then [r_rebuild_sub f kinds] else []) ++ sub_rules tl (S f)
  end.

(* ---------------------------------------------------------------- cases written by h_modes *)

Record mcase2 := mkCase2 {
  c2_case : mcase;
  (** the [__rebuild_to_subsume_rule]s as emitted by the real encoder for [c_sig] *)
  c2_sub : option (list rule);
  (** the rulesets __parent, __single_parent, __uf_function_index, __rebuilding,
      __rebuilding_cleanup, __delete_subsume_ruleset as emitted by the real encoder for [c_sig]
      (the rules over the __to_subsume tables are compared separately, [c2_sub]; [__delete_rule_subsume],
      whose action the model cannot express, is left out) *)
  c2_rules : option (list (list rule))
}.

Definition check_case2 (c : mcase2) : bool :=
  check_case (c2_case c) &&
  match c2_rules c with
  | Some rs => enc_rules_ok (c_sig (c2_case c)) rs
  | None => true
  end &&
  match c2_sub c with
  | Some rs => ruleset_eqb rs (sub_rules (c_sig (c2_case c)) 0)
  | None => true
  end.

(** sanity: the check is not vacuous — the template instances pass, a template with a dropped guard
    or a swapped ordering does not *)
Example enc_rules_ok_self : enc_rules_ok [[]; [true]; [true; false]] (prulesets (enc_prog [[]; [true]; [true; false]])) = true.
Proof. vm_compute. reflexivity. Qed.

Example enc_rules_ok_detects :
  enc_rules_ok [[true]]
    [ [mkRule (rbody r_uf_update) [] (racts r_uf_update)]; [r_single_parent]; [r_uf_index];
      rebuilding_rules [[true]] 0; []; delete_rules [[true]] 0 ] = false /\
  enc_rules_ok [[true]]
    [ [r_uf_update];
      [mkRule (rbody r_single_parent) [GNeq (EVar 1) (EVar 2); GEq (EMin (EVar 1) (EVar 2)) (EVar 1)] (racts r_single_parent)];
      [r_uf_index]; rebuilding_rules [[true]] 0; []; delete_rules [[true]] 0 ] = false.
Proof. vm_compute. split; reflexivity. Qed.
