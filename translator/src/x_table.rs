//! Extension module (Tier A) for C16. Output: coq/gen/TableFns.v
//!
//! Regenerates, from /repo/core-relations/src on every run, the small decision functions of the
//! table store that coq/Table/Model.v and coq/Table/Displaced.v use:
//!
//!  * `table/mod.rs`  `SortedWritesTable::binary_search_sort_val`   -> `binary_search_sort_val`
//!  * `table/mod.rs`  `<SortedWritesTable as Table>::fast_subset`   -> `fast_subset`
//!  * `table/mod.rs`  `SortedWritesTable::maybe_rehash` (guard)     -> `maybe_rehash_skip`
//!  * `table/rebuild.rs` `fn incremental_rebuild`                   -> `incremental_rebuild` (over N)
//!  * `table/rebuild.rs` `SortedWritesTable::do_rebuild` (strategy) -> `do_rebuild_incremental`
//!  * `uf/mod.rs`     `DisplacedTable::timestamp_bounds`            -> `timestamp_bounds` (+ loops)
//!  * `uf/mod.rs`     `<DisplacedTable as Table>::fast_subset`      -> `displaced_fast_subset`
//!
//! Scheme: values are `nat` (row ids, column ids, values: all u32 newtypes compared through their
//! representation), `Result<A,B>` is `rres A B` (Table/Prelude.v), a `Subset::Dense(OffsetRange)` is
//! the pair `(start, end)`, `Subset::empty()` is `(0, 0)` (its definition in offsets/mod.rs).
//! Indexing `v[i]` is `idx v i` (Panic out of bounds), `a - b` is `usub a b` (Panic on underflow),
//! `while` loops become fuel-recursive fixpoints. The standard library's
//! `binary_search_by_key` is NOT translated: it is the Section variable `std_bs` applied to the list
//! of keys; the proofs assume only its documented contract.
//! `self.<field>` / `self.<method>()` are mapped to parameters by an explicit per-item table; any
//! expression outside the supported subset makes the item fail (definition omitted, ok:false).
use quote::ToTokens;
use syn::{spanned::Spanned, BinOp, Expr, ImplItem, Item as SynItem, Lit, Pat, Stmt, UnOp};

type R<T> = Result<T, String>;

fn err<T, S: Spanned>(s: &S, msg: &str) -> R<T> {
    Err(format!("line {}: {}", s.span().start().line, msg))
}

fn norm<T: ToTokens>(t: &T) -> String {
    t.to_token_stream().to_string().chars().filter(|c| !c.is_whitespace()).collect()
}

struct Cfg {
    /// name of the emitted Gallina definition
    name: &'static str,
    file: &'static str,
    impl_type: &'static str,
    fname: &'static str,
    /// Gallina parameters (text) and the same names as an argument list
    params: &'static str,
    args: &'static str,
    ret: &'static str,
    /// Rust variables in scope at the start (function parameters)
    vars: &'static [&'static str],
    /// normalised Rust expression -> Gallina atom
    atoms: &'static [(&'static str, &'static str)],
    /// normalised `self.method` -> Gallina function applied to its fixed arguments (effectful: Res)
    calls: &'static [(&'static str, &'static str)],
    fuel: bool,
}

const CFGS: &[Cfg] = &[
    Cfg {
        name: "binary_search_sort_val",
        file: "core-relations/src/table/mod.rs",
        impl_type: "SortedWritesTable",
        fname: "binary_search_sort_val",
        params: "(offsets : list (nat * nat)) (next_row : nat) (val : nat)",
        args: "offsets next_row val",
        ret: "rres (nat * nat) nat",
        vars: &["val"],
        atoms: &[("self.offsets", "offsets"), ("self.data.next_row()", "next_row")],
        calls: &[],
        fuel: false,
    },
    Cfg {
        name: "fast_subset",
        file: "core-relations/src/table/mod.rs",
        impl_type: "SortedWritesTable",
        fname: "fast_subset",
        params: "(sort_by_field : option nat) (offsets : list (nat * nat)) (next_row : nat) (constraint : constr)",
        args: "sort_by_field offsets next_row constraint",
        ret: "option (nat * nat)",
        vars: &["constraint"],
        atoms: &[("self.sort_by", "sort_by_field"), ("self.data.next_row()", "next_row")],
        calls: &[("self.binary_search_sort_val", "binary_search_sort_val offsets next_row")],
        fuel: false,
    },
    Cfg {
        name: "timestamp_bounds",
        file: "core-relations/src/uf/mod.rs",
        impl_type: "DisplacedTable",
        fname: "timestamp_bounds",
        params: "(displaced : list (nat * nat)) (val : nat)",
        args: "displaced val",
        ret: "rres (nat * nat) nat",
        vars: &["val"],
        atoms: &[("self.displaced", "displaced")],
        calls: &[],
        fuel: true,
    },
    Cfg {
        name: "displaced_fast_subset",
        file: "core-relations/src/uf/mod.rs",
        impl_type: "DisplacedTable",
        fname: "fast_subset",
        params: "(displaced : list (nat * nat)) (lookup_table : list (nat * nat)) (constraint : constr)",
        args: "displaced lookup_table constraint",
        ret: "option (nat * nat)",
        vars: &["constraint"],
        atoms: &[("self.displaced", "displaced"), ("self.lookup_table.get(val)", "(assoc lookup_table val)")],
        calls: &[("self.timestamp_bounds", "timestamp_bounds fuel displaced")],
        fuel: true,
    },
];

/// field order of the Gallina constructors of `constr` (Table/Prelude.v)
const CONSTRAINT_VARIANTS: &[(&str, &str, &[&str])] = &[
    ("Eq", "CEq", &["l_col", "r_col"]),
    ("EqConst", "CEqC", &["col", "val"]),
    ("LtConst", "CLt", &["col", "val"]),
    ("GtConst", "CGt", &["col", "val"]),
    ("LeConst", "CLe", &["col", "val"]),
    ("GeConst", "CGe", &["col", "val"]),
];

struct Gen<'c> {
    cfg: &'c Cfg,
    aux: Vec<String>,
    tmp: usize,
    loops: usize,
    /// plain (non-monadic) definition: no effect allowed
    pure_mode: bool,
}

type Scope = Vec<String>;

fn wrap(prefix: Vec<(String, String)>, body: String) -> String {
    prefix.into_iter().rev().fold(body, |acc, (n, e)| format!("bind ({e}) (fun {n} =>\n{acc})"))
}

fn path_segs(p: &syn::Path) -> Vec<String> {
    p.segments.iter().map(|s| s.ident.to_string()).collect()
}

fn check_name(n: &str) -> R<()> {
    let is_tmp = n.len() > 1 && n.starts_with('t') && n[1..].chars().all(|c| c.is_ascii_digit());
    const RESERVED: &[&str] = &[
        "fuel", "bind", "forall", "exists", "Type", "Prop", "Set", "std_bs", "idx", "usub", "assoc", "fst", "snd", "length", "map",
        "offsets", "displaced", "next_row", "sort_by_field", "lookup_table",
    ];
    if is_tmp || RESERVED.contains(&n) || n.ends_with('_') || n.ends_with("_r") {
        return Err(format!("variable name {n} may collide with a generated name"));
    }
    Ok(())
}

/// Rust identifiers that are Gallina keywords get a suffix
fn cn(n: &str) -> String {
    match n {
        "end" | "in" | "at" | "as" | "fix" | "fun" | "with" | "then" | "using" | "where" => format!("{n}_r"),
        _ => n.to_string(),
    }
}

/// `|(v, _)| *v` -> fst, `|(_, r)| *r` -> snd
fn closure_proj(e: &Expr) -> R<&'static str> {
    let Expr::Closure(c) = e else { return err(e, "expected a projection closure") };
    if c.inputs.len() != 1 {
        return err(e, "closure with more than one parameter");
    }
    let Pat::Tuple(t) = &c.inputs[0] else { return err(e, "closure parameter is not a pair pattern") };
    if t.elems.len() != 2 {
        return err(e, "closure parameter is not a pair pattern");
    }
    let body = norm(&*c.body);
    let name = |p: &Pat| match p {
        Pat::Ident(i) if i.by_ref.is_none() && i.subpat.is_none() => Some(i.ident.to_string()),
        _ => None,
    };
    match (&t.elems[0], &t.elems[1]) {
        (a, Pat::Wild(_)) if name(a).map(|n| format!("*{n}")) == Some(body.clone()) => Ok("fst"),
        (Pat::Wild(_), b) if name(b).map(|n| format!("*{n}")) == Some(body.clone()) => Ok("snd"),
        _ => err(e, "closure is not a projection of a pair"),
    }
}

impl<'c> Gen<'c> {
    fn fresh(&mut self) -> String {
        self.tmp += 1;
        format!("t{}", self.tmp)
    }

    fn effect(&self, e: &Expr) -> R<()> {
        if self.pure_mode {
            return err(e, "effectful expression in a plain definition");
        }
        Ok(())
    }

    /// (effectful bindings to run first, pure atom)
    fn value(&mut self, e: &Expr, sc: &Scope) -> R<(Vec<(String, String)>, String)> {
        let n = norm(e);
        if let Some((_, a)) = self.cfg.atoms.iter().find(|(k, _)| *k == n) {
            return Ok((vec![], a.to_string()));
        }
        match e {
            Expr::Paren(p) => self.value(&p.expr, sc),
            Expr::Group(p) => self.value(&p.expr, sc),
            Expr::Reference(r) if r.mutability.is_none() => self.value(&r.expr, sc),
            Expr::Unary(u) if matches!(u.op, UnOp::Deref(_)) => self.value(&u.expr, sc),
            Expr::Unary(u) if matches!(u.op, UnOp::Not(_)) => {
                let (p, a) = self.value(&u.expr, sc)?;
                Ok((p, format!("(negb {a})")))
            }
            Expr::Lit(l) => match &l.lit {
                Lit::Int(i) => {
                    if !(i.suffix().is_empty() || ["u8", "u16", "u32", "u64", "usize"].contains(&i.suffix())) {
                        return err(e, "integer literal of a non-unsigned type");
                    }
                    let d = i.base10_digits().to_string();
                    if !d.chars().all(|c| c.is_ascii_digit()) {
                        return err(e, "unsupported integer literal");
                    }
                    Ok((vec![], d))
                }
                Lit::Bool(b) => Ok((vec![], if b.value { "true".into() } else { "false".into() })),
                _ => err(e, "unsupported literal"),
            },
            Expr::Path(p) if p.qself.is_none() => {
                let segs = path_segs(&p.path);
                if segs.len() == 1 && segs[0] == "None" {
                    return Ok((vec![], "None".into()));
                }
                if segs.len() == 1 && sc.contains(&segs[0]) {
                    return Ok((vec![], cn(&segs[0])));
                }
                err(e, &format!("unknown path {}", segs.join("::")))
            }
            Expr::Tuple(t) => {
                let mut pre = vec![];
                let mut parts = vec![];
                for x in &t.elems {
                    let (p, a) = self.value(x, sc)?;
                    pre.extend(p);
                    parts.push(a);
                }
                if parts.len() < 2 {
                    return err(e, "unit / 1-tuple");
                }
                Ok((pre, format!("({})", parts.join(", "))))
            }
            Expr::Field(f) => {
                let (p, a) = self.value(&f.base, sc)?;
                match &f.member {
                    syn::Member::Unnamed(i) if i.index == 0 => Ok((p, format!("(fst {a})"))),
                    syn::Member::Unnamed(i) if i.index == 1 => Ok((p, format!("(snd {a})"))),
                    _ => err(e, "unsupported field access"),
                }
            }
            Expr::Index(ix) => {
                self.effect(e)?;
                let (mut p, a) = self.value(&ix.expr, sc)?;
                let (p2, i) = self.value(&ix.index, sc)?;
                p.extend(p2);
                let t = self.fresh();
                p.push((t.clone(), format!("idx {a} {i}")));
                Ok((p, t))
            }
            Expr::Binary(b) => {
                let (mut p, a) = self.value(&b.left, sc)?;
                let (p2, c) = self.value(&b.right, sc)?;
                let s = match &b.op {
                    BinOp::Lt(_) => format!("({a} <? {c})"),
                    BinOp::Le(_) => format!("({a} <=? {c})"),
                    BinOp::Gt(_) => format!("({c} <? {a})"),
                    BinOp::Ge(_) => format!("({c} <=? {a})"),
                    BinOp::Eq(_) => format!("({a} =? {c})"),
                    BinOp::Ne(_) => format!("(negb ({a} =? {c}))"),
                    BinOp::Add(_) => format!("({a} + {c})"),
                    BinOp::Mul(_) => format!("({a} * {c})"),
                    BinOp::Div(_) => {
                        if !matches!(&*b.right, Expr::Lit(l) if matches!(&l.lit, Lit::Int(i) if i.base10_digits() != "0")) {
                            return err(e, "division by a non-literal");
                        }
                        format!("({a} / {c})")
                    }
                    BinOp::And(_) | BinOp::Or(_) => {
                        // short-circuit only matters when the right operand has an effect
                        if !p2.is_empty() {
                            return err(e, "effectful right operand of && / || in value position");
                        }
                        let op = if matches!(b.op, BinOp::And(_)) { "&&" } else { "||" };
                        format!("({a} {op} {c})")
                    }
                    BinOp::Sub(_) => {
                        self.effect(e)?;
                        p.extend(p2);
                        let t = self.fresh();
                        p.push((t.clone(), format!("usub {a} {c}")));
                        return Ok((p, t));
                    }
                    _ => return err(e, "unsupported binary operator"),
                };
                p.extend(p2);
                Ok((p, s))
            }
            Expr::Call(c) => {
                let Expr::Path(fp) = &*c.func else { return err(e, "unsupported call") };
                let segs = path_segs(&fp.path);
                let f = segs.join("::");
                let mut pre = vec![];
                let mut args = vec![];
                for x in &c.args {
                    let (p, a) = self.value(x, sc)?;
                    pre.extend(p);
                    args.push(a);
                }
                let s = match (f.as_str(), args.len()) {
                    ("Ok", 1) => format!("(ROk {})", args[0]),
                    ("Err", 1) => format!("(RErr {})", args[0]),
                    ("Some", 1) => format!("(Some {})", args[0]),
                    // id newtypes are their representation; a dense subset is its range
                    ("RowId::new", 1) | ("RowId::from_usize", 1) | ("ColumnId::new", 1) | ("Subset::Dense", 1) => {
                        args[0].clone()
                    }
                    ("OffsetRange::new", 2) => format!("({}, {})", args[0], args[1]),
                    // offsets/mod.rs: Subset::empty() = Dense(OffsetRange::new(0, 0))
                    ("Subset::empty", 0) => "(0, 0)".to_string(),
                    ("cmp::max", 2) => format!("(Nat.max {} {})", args[0], args[1]),
                    _ => return err(e, &format!("unsupported call {f}(..)")),
                };
                Ok((pre, s))
            }
            Expr::MethodCall(m) => {
                let name = m.method.to_string();
                // calls to other translated methods of self
                let callee = format!("{}.{}", norm(&*m.receiver), name);
                if let Some((_, g)) = self.cfg.calls.iter().find(|(k, _)| *k == callee) {
                    self.effect(e)?;
                    let mut pre = vec![];
                    let mut args = vec![];
                    for x in &m.args {
                        let (p, a) = self.value(x, sc)?;
                        pre.extend(p);
                        args.push(a);
                    }
                    let t = self.fresh();
                    pre.push((t.clone(), format!("{g} {}", args.join(" "))));
                    return Ok((pre, t));
                }
                match (name.as_str(), m.args.len()) {
                    ("index", 0) => self.value(&m.receiver, sc),
                    ("len", 0) => {
                        let (p, a) = self.value(&m.receiver, sc)?;
                        Ok((p, format!("(length {a})")))
                    }
                    ("binary_search_by_key", 2) => {
                        let (mut p, a) = self.value(&m.receiver, sc)?;
                        let (p2, k) = self.value(&m.args[0], sc)?;
                        p.extend(p2);
                        let proj = closure_proj(&m.args[1])?;
                        Ok((p, format!("(std_bs (map {proj} {a}) {k})")))
                    }
                    // v.get(i).map(|(_, r)| *r).unwrap_or(d)
                    ("unwrap_or", 1) => {
                        let Expr::MethodCall(mm) = &*m.receiver else { return err(e, "unsupported unwrap_or receiver") };
                        if mm.method != "map" || mm.args.len() != 1 {
                            return err(e, "unsupported unwrap_or receiver");
                        }
                        let proj = closure_proj(&mm.args[0])?;
                        let Expr::MethodCall(mg) = &*mm.receiver else { return err(e, "unsupported map receiver") };
                        if mg.method != "get" || mg.args.len() != 1 {
                            return err(e, "unsupported map receiver");
                        }
                        let (mut p, v) = self.value(&mg.receiver, sc)?;
                        let (p2, i) = self.value(&mg.args[0], sc)?;
                        let (p3, d) = self.value(&m.args[0], sc)?;
                        p.extend(p2);
                        p.extend(p3);
                        Ok((p, format!("(match nth_error {v} {i} with Some p_ => {proj} p_ | None => {d} end)")))
                    }
                    _ => err(e, &format!("unsupported method call .{name}()")),
                }
            }
            Expr::Match(m) => {
                // a match whose arms are all effect-free values
                let (p, s) = self.value(&m.expr, sc)?;
                let mut arms = String::new();
                for arm in &m.arms {
                    if arm.guard.is_some() {
                        return err(arm, "match guard");
                    }
                    let mut sc2 = sc.clone();
                    let pat = self.pattern(&arm.pat, &mut sc2)?;
                    let (pa, v) = self.value(&arm.body, &sc2)?;
                    if !pa.is_empty() {
                        return err(arm, "effectful arm of a match in value position");
                    }
                    arms.push_str(&format!("| {pat} => {v} "));
                }
                Ok((p, format!("(match {s} with {arms}end)")))
            }
            Expr::Block(b) if b.label.is_none() && b.block.stmts.len() == 1 => match &b.block.stmts[0] {
                Stmt::Expr(x, None) => self.value(x, sc),
                _ => err(e, "unsupported block in value position"),
            },
            _ => err(e, "unsupported expression"),
        }
    }

    fn pattern(&mut self, p: &Pat, sc: &mut Scope) -> R<String> {
        match p {
            Pat::Wild(_) => Ok("_".into()),
            Pat::Paren(pp) => self.pattern(&pp.pat, sc),
            Pat::Ident(i) if i.by_ref.is_none() && i.subpat.is_none() => {
                let n = i.ident.to_string();
                if n == "None" {
                    return Ok("None".into());
                }
                check_name(&n)?;
                if !sc.contains(&n) {
                    sc.push(n.clone());
                }
                Ok(cn(&n))
            }
            Pat::Path(pp) if path_segs(&pp.path) == ["None"] => Ok("None".into()),
            Pat::Tuple(t) => {
                let mut parts = vec![];
                for x in &t.elems {
                    parts.push(self.pattern(x, sc)?);
                }
                if parts.len() < 2 {
                    return err(p, "unit / 1-tuple pattern");
                }
                Ok(format!("({})", parts.join(", ")))
            }
            Pat::TupleStruct(ts) => {
                let f = path_segs(&ts.path).join("::");
                if ts.elems.len() != 1 {
                    return err(p, "unsupported constructor pattern");
                }
                let inner = self.pattern(&ts.elems[0], sc)?;
                match f.as_str() {
                    "Ok" => Ok(format!("ROk {inner}")),
                    "Err" => Ok(format!("RErr {inner}")),
                    "Some" => Ok(format!("Some {inner}")),
                    _ => err(p, "unsupported constructor pattern"),
                }
            }
            Pat::Struct(s) => {
                let segs = path_segs(&s.path);
                if segs.len() != 2 || segs[0] != "Constraint" {
                    return err(p, "unsupported struct pattern");
                }
                let Some((_, ctor, fields)) = CONSTRAINT_VARIANTS.iter().find(|(v, _, _)| *v == segs[1]) else {
                    return err(p, "unknown Constraint variant");
                };
                let mut out = vec!["_".to_string(); fields.len()];
                for fp in &s.fields {
                    let syn::Member::Named(id) = &fp.member else { return err(p, "unsupported field pattern") };
                    let Some(pos) = fields.iter().position(|f| id == f) else { return err(p, "unknown Constraint field") };
                    out[pos] = self.pattern(&fp.pat, sc)?;
                }
                if s.fields.len() != fields.len() && s.rest.is_none() {
                    return err(p, "Constraint pattern misses fields");
                }
                Ok(format!("{ctor} {}", out.join(" ")))
            }
            Pat::Or(o) => {
                // every alternative must bind the same variables (checked by Coq as well)
                let mut alts = vec![];
                for c in &o.cases {
                    alts.push(self.pattern(c, sc)?);
                }
                Ok(alts.join(" | "))
            }
            _ => err(p, "unsupported pattern"),
        }
    }

    fn ret(&self, v: String) -> String {
        if self.pure_mode {
            v
        } else {
            format!("Ok {v}")
        }
    }

    /// `if e then t else f` with short-circuit evaluation of `&&`, `||`, `!`
    fn cond(&mut self, e: &Expr, sc: &Scope, t: String, f: String) -> R<String> {
        match e {
            Expr::Paren(p) => self.cond(&p.expr, sc, t, f),
            Expr::Binary(b) if matches!(b.op, BinOp::And(_)) => {
                let inner = self.cond(&b.right, sc, t, f.clone())?;
                self.cond(&b.left, sc, inner, f)
            }
            Expr::Binary(b) if matches!(b.op, BinOp::Or(_)) => {
                let inner = self.cond(&b.right, sc, t.clone(), f)?;
                self.cond(&b.left, sc, t, inner)
            }
            Expr::Unary(u) if matches!(u.op, UnOp::Not(_)) => self.cond(&u.expr, sc, f, t),
            Expr::Let(_) => err(e, "if let"),
            _ => {
                let (p, a) = self.value(e, sc)?;
                Ok(wrap(p, format!("if {a} then\n{t}\nelse\n{f}")))
            }
        }
    }

    /// an expression in tail position: a term of the function's result type
    fn tail(&mut self, e: &Expr, sc: &Scope) -> R<String> {
        match e {
            Expr::Paren(p) => self.tail(&p.expr, sc),
            Expr::Block(b) if b.label.is_none() => self.block(&b.block.stmts, sc.clone()),
            Expr::Return(r) => match &r.expr {
                Some(x) => self.tail(x, sc),
                None => err(e, "return without a value"),
            },
            Expr::If(i) => {
                let t = self.block(&i.then_branch.stmts, sc.clone())?;
                let f = match &i.else_branch {
                    Some((_, eb)) => self.tail(eb, sc)?,
                    None => return err(e, "if without else in tail position"),
                };
                self.cond(&i.cond, sc, t, f)
            }
            Expr::Match(m) => {
                let (p, s) = self.value(&m.expr, sc)?;
                let mut arms = String::new();
                for arm in &m.arms {
                    if arm.guard.is_some() {
                        return err(arm, "match guard");
                    }
                    let mut sc2 = sc.clone();
                    let pat = self.pattern(&arm.pat, &mut sc2)?;
                    let body = self.tail(&arm.body, &sc2)?;
                    arms.push_str(&format!("| {pat} =>\n{body}\n"));
                }
                Ok(wrap(p, format!("match {s} with\n{arms}end")))
            }
            _ => {
                let (p, v) = self.value(e, sc)?;
                Ok(wrap(p, self.ret(v)))
            }
        }
    }

    fn ends_in_return(stmts: &[Stmt]) -> bool {
        matches!(stmts.last(), Some(Stmt::Expr(Expr::Return(_), _)))
    }

    fn block(&mut self, stmts: &[Stmt], mut sc: Scope) -> R<String> {
        let Some((first, rest)) = stmts.split_first() else {
            return Err("block falls off its end without a value".into());
        };
        match first {
            // debug assertions are not part of the release behaviour the harness observes
            Stmt::Macro(m) if m.mac.path.is_ident("debug_assert") => self.block(rest, sc),
            Stmt::Local(l) => {
                let name = match &l.pat {
                    Pat::Ident(p) if p.by_ref.is_none() && p.subpat.is_none() => p.ident.to_string(),
                    _ => return err(first, "unsupported let pattern"),
                };
                check_name(&name)?;
                if sc.contains(&name) {
                    return err(first, &format!("let {name} shadows a variable in scope"));
                }
                let init = match &l.init {
                    Some(i) if i.diverge.is_none() => &*i.expr,
                    _ => return err(first, "let without initialiser / let-else"),
                };
                if let Expr::Try(t) = init {
                    // `let x = <option>?;` in a function returning Option
                    if !self.cfg.ret.starts_with("option") {
                        return err(first, "? outside an Option-returning function");
                    }
                    let (p, v) = self.value(&t.expr, &sc)?;
                    sc.push(name.clone());
                    let body = self.block(rest, sc)?;
                    let none = self.ret("None".into());
                    return Ok(wrap(p, format!("match {v} with\n| Some {name} =>\n{body}\n| None => {none}\nend")));
                }
                let (p, v) = self.value(init, &sc)?;
                sc.push(name.clone());
                let body = self.block(rest, sc)?;
                Ok(wrap(p, format!("let {name} := {v} in\n{body}")))
            }
            Stmt::Expr(Expr::If(i), _) if i.else_branch.is_none() && !rest.is_empty() => {
                if !Self::ends_in_return(&i.then_branch.stmts) {
                    return err(first, "if without else that does not return");
                }
                let t = self.block(&i.then_branch.stmts, sc.clone())?;
                let f = self.block(rest, sc.clone())?;
                self.cond(&i.cond, &sc, t, f)
            }
            Stmt::Expr(Expr::While(w), _) if !rest.is_empty() => {
                self.effect(&w.cond)?;
                if w.label.is_some() || !self.cfg.fuel {
                    return err(first, "labelled while / item without fuel");
                }
                // body: exactly one `x += e;` / `x -= e;` on a local variable
                let [Stmt::Expr(Expr::Binary(b), Some(_))] = w.body.stmts.as_slice() else {
                    return err(first, "unsupported while body");
                };
                let Expr::Path(lp) = &*b.left else { return err(first, "unsupported while body") };
                let Some(x) = lp.path.get_ident().map(|i| i.to_string()) else { return err(first, "unsupported while body") };
                if !sc.contains(&x) || self.cfg.vars.contains(&x.as_str()) {
                    return err(first, "while body assigns something other than a local variable");
                }
                let (mut p, v) = self.value(&b.right, &sc)?;
                let step = match b.op {
                    BinOp::AddAssign(_) => format!("({x} + {v})"),
                    BinOp::SubAssign(_) => {
                        let t = self.fresh();
                        p.push((t.clone(), format!("usub {x} {v}")));
                        t
                    }
                    _ => return err(first, "unsupported while body"),
                };
                self.loops += 1;
                let lname = format!("{}_loop{}", self.cfg.name, self.loops);
                let locals: Vec<String> = sc.iter().filter(|v| !self.cfg.vars.contains(&v.as_str())).cloned().collect();
                let lparams: String = locals.iter().map(|v| format!(" ({v} : nat)")).collect();
                let largs = format!("{} {}", self.cfg.args, locals.join(" "));
                let again = wrap(p, format!("let {x} := {step} in\n{lname} fuel {largs}"));
                let body = self.cond(&w.cond, &sc, again, format!("Ok {x}"))?;
                self.aux.push(format!(
                    "Fixpoint {lname} (fuel : nat) {}{lparams} {{struct fuel}} : Res nat :=\nmatch fuel with\n| O => OutOfFuel\n| S fuel =>\n{body}\nend.\n",
                    self.cfg.params
                ));
                let after = self.block(rest, sc.clone())?;
                Ok(format!("bind ({lname} fuel {largs}) (fun {x} =>\n{after})"))
            }
            Stmt::Expr(e, _) if rest.is_empty() => self.tail(e, &sc),
            _ => err(first, "unsupported statement"),
        }
    }
}

fn find_fn<'a>(file: &'a syn::File, impl_type: &str, fname: &str) -> Option<(&'a syn::Signature, &'a syn::Block)> {
    for it in &file.items {
        match it {
            SynItem::Fn(f) if impl_type.is_empty() && f.sig.ident == fname => return Some((&f.sig, &f.block)),
            SynItem::Impl(im) if !impl_type.is_empty() => {
                let ty = match &*im.self_ty {
                    syn::Type::Path(p) => p.path.segments.last().map(|s| s.ident.to_string()),
                    _ => None,
                };
                if ty.as_deref() != Some(impl_type) {
                    continue;
                }
                for ii in &im.items {
                    if let ImplItem::Fn(f) = ii {
                        if f.sig.ident == fname {
                            return Some((&f.sig, &f.block));
                        }
                    }
                }
            }
            _ => {}
        }
    }
    None
}

fn parse(repo: &std::path::Path, file: &str) -> R<syn::File> {
    let src = std::fs::read_to_string(repo.join(file)).map_err(|e| format!("cannot read {file}: {e}"))?;
    syn::parse_file(&src).map_err(|e| format!("parse error in {file}: {e}"))
}

fn translate_cfg(repo: &std::path::Path, cfg: &Cfg) -> R<String> {
    let file = parse(repo, cfg.file)?;
    let (sig, block) = find_fn(&file, cfg.impl_type, cfg.fname).ok_or_else(|| format!("fn {}::{} not found", cfg.impl_type, cfg.fname))?;
    // the parameter names the per-item table relies on
    let mut names = vec![];
    for a in &sig.inputs {
        match a {
            syn::FnArg::Receiver(r) if r.mutability.is_none() && r.reference.is_some() => {}
            syn::FnArg::Typed(pt) => match &*pt.pat {
                Pat::Ident(p) if p.by_ref.is_none() && p.mutability.is_none() => names.push(p.ident.to_string()),
                _ => return err(a, "unsupported parameter pattern"),
            },
            _ => return err(a, "receiver must be &self"),
        }
    }
    if names.iter().map(|s| s.as_str()).collect::<Vec<_>>() != cfg.vars {
        return Err(format!("parameters {:?}, expected {:?}", names, cfg.vars));
    }
    let mut g = Gen { cfg, aux: vec![], tmp: 0, loops: 0, pure_mode: false };
    let body = g.block(&block.stmts, cfg.vars.iter().map(|s| s.to_string()).collect())?;
    let mut out = String::new();
    for a in &g.aux {
        out.push_str(a);
        out.push('\n');
    }
    out.push_str(&format!(
        "Definition {} {}{} : Res ({}) :=\n{body}.\n",
        cfg.name,
        if cfg.fuel { "(fuel : nat) " } else { "" },
        cfg.params,
        cfg.ret
    ));
    Ok(out)
}

/// `fn incremental_rebuild(uf_size, table_size, parallel) -> bool` of table/rebuild.rs, over N
fn translate_incremental(repo: &std::path::Path) -> R<String> {
    const C: Cfg = Cfg {
        name: "incremental_rebuild",
        file: "core-relations/src/table/rebuild.rs",
        impl_type: "",
        fname: "incremental_rebuild",
        params: "(uf_size table_size : N) (parallel : bool)",
        args: "uf_size table_size parallel",
        ret: "bool",
        vars: &["uf_size", "table_size", "parallel"],
        atoms: &[],
        calls: &[],
        fuel: false,
    };
    let file = parse(repo, C.file)?;
    let (sig, block) = find_fn(&file, "", C.fname).ok_or("fn incremental_rebuild not found")?;
    if norm(&sig.inputs) != "uf_size:usize,table_size:usize,parallel:bool" || norm(&sig.output) != "->bool" {
        return Err(format!("unexpected signature {}", norm(sig)));
    }
    let mut g = Gen { cfg: &C, aux: vec![], tmp: 0, loops: 0, pure_mode: true };
    let body = g.block(&block.stmts, C.vars.iter().map(|s| s.to_string()).collect())?;
    Ok(format!("Definition incremental_rebuild {} : bool :=\n({body})%N.\n", C.params))
}

/// the guard of `maybe_rehash`: `if <cond> { return; }` followed by the (parallel or serial) rehash
fn translate_maybe_rehash(repo: &std::path::Path) -> R<String> {
    const C: Cfg = Cfg {
        name: "maybe_rehash_skip",
        file: "core-relations/src/table/mod.rs",
        impl_type: "SortedWritesTable",
        fname: "maybe_rehash",
        params: "(stale_rows data_len : nat)",
        args: "stale_rows data_len",
        ret: "bool",
        vars: &[],
        atoms: &[("self.data.stale_rows", "stale_rows"), ("self.data.data.len()", "data_len")],
        calls: &[],
        fuel: false,
    };
    let file = parse(repo, C.file)?;
    let (_, block) = find_fn(&file, C.impl_type, C.fname).ok_or("fn maybe_rehash not found")?;
    let [Stmt::Expr(Expr::If(guard), _), Stmt::Expr(Expr::If(disp), _)] = block.stmts.as_slice() else {
        return Err("maybe_rehash: expected `if <guard> { return; }` followed by the rehash dispatch".into());
    };
    if guard.else_branch.is_some() || norm(&guard.then_branch) != "{return;}" {
        return Err("maybe_rehash: guard is not `if <cond> { return; }`".into());
    }
    let d = norm(disp);
    if d != "ifparallelize_table_op(self.data.data.len()){self.parallel_rehash();}else{self.rehash();}" {
        return Err(format!("maybe_rehash: unexpected dispatch {d}"));
    }
    let mut g = Gen { cfg: &C, aux: vec![], tmp: 0, loops: 0, pure_mode: true };
    let (p, v) = g.value(&guard.cond, &vec![])?;
    if !p.is_empty() {
        return Err("maybe_rehash: effectful guard".into());
    }
    Ok(format!("Definition maybe_rehash_skip {} : bool :=\n{v}.\n", C.params))
}

/// the strategy choice of `do_rebuild`: incremental iff the rebuilder has a hint column and
/// `incremental_rebuild(to_scan.size(), next_row, parallelize_rebuild(to_scan.size()))`
fn translate_do_rebuild(repo: &std::path::Path) -> R<String> {
    let file = parse(repo, "core-relations/src/table/rebuild.rs")?;
    let (_, block) = find_fn(&file, "SortedWritesTable", "do_rebuild").ok_or("fn do_rebuild not found")?;
    let Some(Stmt::Expr(Expr::If(outer), None)) = block.stmts.last() else {
        return Err("do_rebuild: last statement is not the strategy `if`".into());
    };
    if norm(&*outer.cond) != "letSome(hint_col)=rebuilder.hint_col()" {
        return Err(format!("do_rebuild: unexpected outer condition {}", norm(&*outer.cond)));
    }
    let Some((_, else_b)) = &outer.else_branch else { return Err("do_rebuild: no else".into()) };
    let full = "{self.rebuild_nonincremental(&*rebuilder,next_ts,exec_state)}";
    if norm(&**else_b) != full {
        return Err("do_rebuild: the no-hint branch is not the full rebuild".into());
    }
    let [Stmt::Local(l), Stmt::Expr(Expr::If(inner), None)] = outer.then_branch.stmts.as_slice() else {
        return Err("do_rebuild: unexpected hint branch".into());
    };
    if norm(l) != "letto_scan=self.subset_tracker.recent_updates(table_id,table);" {
        return Err("do_rebuild: unexpected to_scan".into());
    }
    if norm(&*inner.cond) != "incremental_rebuild(to_scan.size(),self.data.next_row().index(),parallelize_rebuild(to_scan.size()),)" {
        return Err(format!("do_rebuild: unexpected strategy test {}", norm(&*inner.cond)));
    }
    if norm(&inner.then_branch) != "{self.rebuild_incremental(table,&*rebuilder,hint_col,to_scan,next_ts,exec_state)}" {
        return Err("do_rebuild: unexpected incremental branch".into());
    }
    match &inner.else_branch {
        Some((_, e)) if norm(&**e) == full => {}
        _ => return Err("do_rebuild: unexpected full branch".into()),
    }
    Ok("Definition do_rebuild_incremental (has_hint_col : bool) (to_scan_size next_row : N) (parallelize : bool) : bool :=\nif has_hint_col then incremental_rebuild to_scan_size next_row parallelize else false.\n".to_string())
}

pub fn generate(repo: &std::path::Path) -> (String, Vec<String>) {
    let mut rep = Vec::new();
    let mut plain = String::new();
    let mut sect = String::new();
    let mut emit = |dst: &mut String, name: &str, file: &str, origin: &str, res: R<String>| match res {
        Ok(text) => {
            dst.push_str(&format!("(* {origin} *)\n{text}\n"));
            rep.push(format!("{{\"item\":\"TableFns.{name}\",\"file\":\"{file}\",\"ok\":true}}"));
        }
        Err(e) => {
            dst.push_str(&format!("(* {origin}: translation FAILED ({}); definition omitted *)\n\n", e.replace("*)", "* )")));
            rep.push(format!("{{\"item\":\"TableFns.{name}\",\"file\":\"{file}\",\"ok\":false,\"error\":{:?}}}", e));
        }
    };
    emit(&mut plain, "maybe_rehash_skip", "core-relations/src/table/mod.rs", "core-relations/src/table/mod.rs SortedWritesTable::maybe_rehash (guard)", translate_maybe_rehash(repo));
    let inc = translate_incremental(repo);
    let inc_ok = inc.is_ok();
    emit(&mut plain, "incremental_rebuild", "core-relations/src/table/rebuild.rs", "core-relations/src/table/rebuild.rs fn incremental_rebuild", inc);
    let dr = if inc_ok { translate_do_rebuild(repo) } else { Err("incremental_rebuild was not translated".into()) };
    emit(&mut plain, "do_rebuild_incremental", "core-relations/src/table/rebuild.rs", "core-relations/src/table/rebuild.rs SortedWritesTable::do_rebuild (strategy choice)", dr);
    let mut failed: Vec<&str> = vec![];
    for cfg in CFGS {
        // an item that calls a failed item is omitted as well
        let dep_failed = cfg.calls.iter().any(|(_, g)| failed.iter().any(|f| g.split(' ').next() == Some(*f)));
        let res = if dep_failed { Err("a function it calls was not translated".to_string()) } else { translate_cfg(repo, cfg) };
        if res.is_err() {
            failed.push(cfg.name);
        }
        emit(&mut sect, cfg.name, cfg.file, &format!("{} {}::{}", cfg.file, cfg.impl_type, cfg.fname), res);
    }
    let mut out = String::new();
    out.push_str("(* GENERATED by /verif/translator (x_table.rs) from /repo/core-relations -- do not edit *)\n");
    out.push_str("From Coq Require Import List Arith PeanoNat NArith Bool.\nImport ListNotations.\nRequire Import Verif.Base.Res Verif.Table.Prelude.\nOpen Scope bool_scope.\n\n");
    out.push_str(&plain);
    out.push_str("Section TableFns.\n(* [T]::binary_search_by_key of the standard library, applied to the list of keys: NOT translated;\n   the proofs assume only its documented contract (Table/Prelude.v, bs_contract) *)\nVariable std_bs : list nat -> nat -> rres nat nat.\n\n");
    out.push_str(&sect);
    out.push_str("End TableFns.\n");
    (out, rep)
}
