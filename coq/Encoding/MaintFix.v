(** C11: a database of the encoded shape on which the maintenance schedule is quiet (which is
    what its saturation returns) has a path-compressed single-parent union-find with self-loops at
    the roots, a UF index that mirrors it, and view tables that are canonical and functional. *)
From Coq Require Import List Arith ZArith Bool PeanoNat Lia.
Import ListNotations.
Require Import Verif.Base.Res Verif.Egg.Model Verif.Egg.CCDefs
  Verif.Encoding.Datalog Verif.Encoding.DatalogFacts Verif.Encoding.Templates Verif.Encoding.Maint
  Verif.Encoding.MaintInv.

Lemma rules_ops_member d rs ops r : rules_ops d rs = Ok ops -> In r rs ->
  exists x, rule_ops d r = Ok x /\ forall o, In o x -> In o ops.
Proof.
  unfold rules_ops. intros H Hr. apply collect_ok in H. destruct H as [H1 H2].
  destruct (H1 r Hr) as (x & Hx). exists x. split; [exact Hx|]. intros o Ho. apply H2. exists r, x. auto.
Qed.

Lemma rebuilding_rules_in : forall sg0 f0 f kinds, nth_error sg0 f = Some kinds ->
  In (r_congruence (f0 + f) (length kinds)) (rebuilding_rules sg0 f0) /\
  In (r_rebuild (f0 + f) kinds) (rebuilding_rules sg0 f0).
Proof.
  induction sg0 as [|k0 tl IH]; intros f0 f kinds H; [destruct f; discriminate|].
  destruct f as [|f]; cbn [nth_error] in H; cbn [rebuilding_rules].
  - injection H as <-. rewrite Nat.add_0_r. simpl. auto.
  - destruct (IH (S f0) f kinds H) as [H1 H2]. replace (f0 + S f) with (S f0 + f) by lia. simpl. auto.
Qed.

Lemma list_all_or_ex {A} (P : A -> Prop) (dec : forall x, {P x} + {~ P x}) :
  forall l, (forall x, In x l -> P x) \/ (exists x, In x l /\ ~ P x).
Proof.
  induction l as [|a tl IH]; [left; intros x []|].
  destruct (dec a) as [Ha|Ha]; [|right; exists a; simpl; auto].
  destruct IH as [IH|(x & Hx & Hn)]; [left; intros x [<-|Hx]; auto|right; exists x; simpl; auto].
Qed.

Lemma eq_cols_is_id : forall cols k j0 i, Forall2 col_ok cols k -> In i (eq_cols cols j0) ->
  is_id (nth (i - j0) k unitv).
Proof.
  induction cols as [|b tl IH]; intros k j0 i HF Hi; cbn [eq_cols] in Hi; [destruct Hi|].
  inversion HF as [|b' v tl' ktl Hb Htl]; subst. apply in_app_or in Hi. destruct Hi as [Hi|Hi].
  - destruct b; [|destruct Hi]. destruct Hi as [<-|[]]. rewrite Nat.sub_diag. exact Hb.
  - pose proof (eq_cols_range _ _ _ Hi) as Hr. replace (i - j0) with (S (i - S j0)) by lia. cbn [nth].
    apply IH; assumption.
Qed.

Lemma eq_cols_last : forall kinds j0, In (j0 + length kinds) (eq_cols (kinds ++ [true]) j0).
Proof.
  induction kinds as [|b tl IH]; intros j0; cbn [app eq_cols length].
  - rewrite Nat.add_0_r. simpl. auto.
  - apply in_or_app. right. replace (j0 + S (length tl)) with (S j0 + length tl) by lia. apply IH.
Qed.

Section Fix.
  Variable sg : sigT.
  Variable U : list (term * term).
  Variable w : list term.
  Let P := enc_prog sg.

  Definition root (d : db) (v : val) : Prop := ufE d v v.

  Record Canonical (d : db) : Prop := {
    (** each id has at most one parent ... *)
    cn_single : forall a b c, ufE d a b -> ufE d a c -> b = c;
    (** ... which is a root carrying a self-loop (path compression) *)
    cn_compressed : forall a b, ufE d a b -> root d b;
    (** the function index mirrors the UF table *)
    cn_index : forall a b, ufE d a b -> uffE d a b;
    (** every eq-sort column of every view row (children and leader) is a root *)
    cn_canon : forall f kinds k i, nth_error sg f = Some kinds -> viewE d f k ->
               In i (eq_cols (kinds ++ [true]) 0) -> root d (nth i k unitv);
    (** view tables are functional: one leader per tuple of children *)
    cn_func : forall f kinds cs o1 o2, nth_error sg f = Some kinds ->
              viewE d f (cs ++ [VId o1]) -> viewE d f (cs ++ [VId o2]) -> o1 = o2
  }.

  Lemma quiet_single d r : run_ruleset enc_merges [r] d = Ok (d, false) ->
    exists ops, rule_ops d r = Ok ops /\
      (forall t k, In (ODel t k) ops -> forall r0, In r0 (gett d t) -> dkey r0 <> k) /\
      (forall t k v, In (OSet t k v) ops ->
         exists r0, In r0 (gett d t) /\ dkey r0 = k /\ (mergeof enc_merges t = DNew -> dval r0 = v)).
  Proof.
    intros H. apply run_ruleset_single in H. destruct H as (ops & Hops & Happ). exists ops. split; [exact Hops|].
    pose proof (step_false enc_merges d ops) as Hs. rewrite Happ in Hs. cbn [fst snd] in Hs.
    destruct (Hs eq_refl) as (_ & H1 & H2). auto.
  Qed.

  Theorem quiet_canonical d : Inv sg U w d -> quiet P maint_inner d -> Canonical d.
  Proof.
    intros HI HQ.
    pose proof (quiet_seq _ _ _ HQ) as Hparts. unfold maint_inner in Hparts.
    assert (Qsp : run_ruleset enc_merges [r_single_parent] d = Ok (d, false)).
    { apply (quiet_run P rsSingleParent). apply quiet_sat. apply Hparts. simpl. auto. }
    assert (Qpa : run_ruleset enc_merges [r_uf_update] d = Ok (d, false)).
    { apply (quiet_run P rsParent). apply quiet_sat. apply Hparts. simpl. auto. }
    assert (Qix : run_ruleset enc_merges [r_uf_index] d = Ok (d, false)).
    { apply (quiet_run P rsIndex). apply quiet_sat. apply Hparts. simpl. auto. }
    assert (Qrb : run_ruleset enc_merges (rebuilding_rules sg 0) d = Ok (d, false)).
    { apply (quiet_run P rsRebuilding). apply Hparts. simpl. auto 10. }
    destruct (quiet_single _ _ Qsp) as (ops1 & Hops1 & Hd1 & _).
    destruct (quiet_single _ _ Qpa) as (ops2 & Hops2 & Hd2 & _).
    destruct (quiet_single _ _ Qix) as (ops3 & Hops3 & _ & Hs3).
    unfold run_ruleset in Qrb. destruct (rules_ops d (rebuilding_rules sg 0)) as [ops4| |] eqn:Hops4; cbn [bind] in Qrb; try discriminate.
    injection Qrb as Happ4. pose proof (step_false enc_merges d ops4) as Hs4. rewrite Happ4 in Hs4. cbn [fst snd] in Hs4.
    destruct (Hs4 eq_refl) as (_ & Hd4 & Hset4). clear Hs4.
    (* F1: a parent's parent is itself *)
    assert (F1 : forall a b c, ufE d a b -> ufE d b c -> b = c).
    { intros a b c Hab Hbc. destruct (val_eq_dec b c) as [E|Ne]; [exact E|exfalso].
      destruct (uf_update_fire d ops2 a b c Hops2 Hab Hbc Ne) as [Hdel _].
      destruct Hab as (r & Hr & Hk). exact (Hd2 _ _ Hdel r Hr Hk). }
    (* F2: single parent *)
    assert (F2 : forall a b c, ufE d a b -> ufE d a c -> b = c).
    { intros a b c Hab Hac. destruct (ufE_ids _ _ _ _ _ _ HI Hab) as (i & j & -> & -> & _).
      destruct (ufE_ids _ _ _ _ _ _ HI Hac) as (i' & k & Ei & -> & _). injection Ei as <-.
      destruct (Nat.lt_trichotomy j k) as [Hlt|[->|Hlt]]; [exfalso| reflexivity |exfalso].
      - destruct (single_parent_fire d ops1 i k j Hops1 Hac Hab Hlt) as [Hdel _].
        destruct Hac as (r & Hr & Hk). exact (Hd1 _ _ Hdel r Hr Hk).
      - destruct (single_parent_fire d ops1 i j k Hops1 Hab Hac Hlt) as [Hdel _].
        destruct Hab as (r & Hr & Hk). exact (Hd1 _ _ Hdel r Hr Hk). }
    (* F3: index *)
    assert (F3 : forall a b, ufE d a b -> uffE d a b).
    { intros a b Hab. pose proof (uf_index_fire d ops3 a b Hops3 Hab) as Hset.
      destruct (Hs3 _ _ _ Hset) as (r & Hr & Hk & Hv). exists r. split; [exact Hr|]. split; [exact Hk|]. apply Hv. reflexivity. }
    assert (Fcomp : forall a b, ufE d a b -> root d b).
    { intros a b Hab. destruct (iv_dom_uf _ _ _ _ HI a b Hab) as (c & Hbc). rewrite <- (F1 a b c Hab Hbc) in Hbc. exact Hbc. }
    (* F5: views canonical *)
    assert (F5 : forall f kinds k i, nth_error sg f = Some kinds -> viewE d f k ->
                 In i (eq_cols (kinds ++ [true]) 0) -> root d (nth i k unitv)).
    { intros f kinds k i Hn Hk Hi.
      destruct (rules_ops_member d _ ops4 (r_rebuild f kinds) Hops4) as (x & Hx & Hsub).
      { apply (rebuilding_rules_in sg 0 f kinds Hn). }
      pose proof Hk as (r & Hr & Hkr).
      destruct (iv_view _ _ _ _ HI f kinds r Hn Hr) as (cs & o & Hsh & Hc). rewrite Hkr in Hsh.
      assert (Hcols : Forall2 col_ok (kinds ++ [true]) k).
      { rewrite Hsh. apply Forall2_app; [exact Hc|]. constructor; [exact I|constructor]. }
      assert (Hlen : length k = S (length kinds)).
      { rewrite Hsh, app_length. cbn [length]. apply Forall2_len in Hc. lia. }
      (* a leader for every id of the row *)
      assert (Hls : exists ls, forall j, In j (eq_cols (kinds ++ [true]) 0) -> ufE d (nth j k unitv) (nth j ls unitv)).
      { assert (Hdom : forall v, In v k -> is_id v -> exists p, ufE d v p).
        { intros v Hv Hid. eapply (iv_dom_view _ _ _ _ HI); eauto. }
        assert (Hch : exists ls, forall j, j < length k -> is_id (nth j k unitv) -> ufE d (nth j k unitv) (nth j ls unitv)).
        { clear - Hdom. induction k as [|v tl IH]; [exists []; intros j Hj; cbn in Hj; lia|].
          destruct IH as (ls & Hls); [intros v' Hv'; apply Hdom; right; exact Hv'|].
          destruct v as [a|z].
          - destruct (Hdom (VId a)) as (p & Hp); [left; reflexivity|exact I|]. exists (p :: ls).
            intros [|j] Hj Hid; cbn [nth]; [exact Hp|apply Hls; [cbn in Hj; lia|exact Hid]].
          - exists (unitv :: ls). intros [|j] Hj Hid; cbn [nth] in *; [destruct Hid|apply Hls; [cbn in Hj; lia|exact Hid]]. }
        destruct Hch as (ls & Hls). exists ls. intros j Hj.
        pose proof (eq_cols_range _ _ _ Hj) as Hr'. rewrite app_length in Hr'. cbn [length] in Hr'.
        apply Hls; [lia|]. pose proof (eq_cols_is_id _ _ 0 j Hcols Hj) as Hid. rewrite Nat.sub_0_r in Hid. exact Hid. }
      destruct Hls as (ls & Hls).
      destruct (list_all_or_ex (fun j => nth j k unitv = nth j ls unitv) (fun j => val_eq_dec _ _) (eq_cols (kinds ++ [true]) 0))
        as [Hall|(j & Hj & Hne)].
      - unfold root. rewrite (Hall i Hi) at 2. apply Hls. exact Hi.
      - exfalso. assert (Hdel : In (ODel (tView f) k) x).
        { apply (rebuild_fire d f kinds x k ls Hx Hk Hlen); [intros j' Hj'; apply F3, Hls; exact Hj'|exists j; auto]. }
        apply Hsub in Hdel. exact (Hd4 _ _ Hdel r Hr Hkr). }
    constructor.
    - exact F2.
    - exact Fcomp.
    - exact F3.
    - exact F5.
    - (* functional *)
      intros f kinds cs o1 o2 Hn H1 H2.
      assert (Hlt : forall a b, viewE d f (cs ++ [VId a]) -> viewE d f (cs ++ [VId b]) -> b < a -> False).
      { intros a b Ha Hb Hlt.
        destruct (rules_ops_member d _ ops4 (r_congruence f (length kinds)) Hops4) as (x & Hx & Hsub).
        { apply (rebuilding_rules_in sg 0 f kinds Hn). }
        pose proof Ha as (r & Hr & Hkr). destruct (iv_view _ _ _ _ HI f kinds r Hn Hr) as (cs' & o' & Hsh & Hc).
        rewrite Hkr in Hsh. apply app_inj_tail in Hsh. destruct Hsh as [<- _].
        assert (Hl : length cs = length kinds) by (apply Forall2_len in Hc; lia).
        pose proof (congruence_fire d f _ x cs a b Hx Hl Ha Hb Hlt) as Hset. apply Hsub in Hset.
        destruct (Hset4 _ _ _ Hset) as (r0 & Hr0 & Hk0 & _).
        assert (Hab : ufE d (VId a) (VId b)) by (exists r0; auto).
        assert (Hroot : root d (VId a)).
        { pose proof (F5 f kinds (cs ++ [VId a]) (length kinds) Hn Ha (eq_cols_last kinds 0)) as Hr'.
          rewrite <- Hl in Hr'. rewrite app_nth2, Nat.sub_diag in Hr' by lia. exact Hr'. }
        pose proof (F2 _ _ _ Hab Hroot) as E. injection E as E. lia. }
      destruct (Nat.lt_trichotomy o1 o2) as [H|[H|H]]; [exfalso; exact (Hlt o2 o1 H2 H1 H)|exact H|exfalso; exact (Hlt o1 o2 H1 H2 H)].
  Qed.

  (** decomposition of the between-commands schedule *)
  Lemma run_maint_sched fuel d d' c : Inv sg U w d -> run_sched fuel P maint_sched d = Ok (d', c) ->
    Inv sg U w d' /\ quiet P maint_inner d'.
  Proof.
    intros HI H. destruct fuel as [|fuel]; [discriminate|]. unfold maint_sched in H. cbn [run_sched] in H.
    destruct (run_sched fuel P (SSat maint_inner) d) as [[d1 c1]| |] eqn:E1; cbn [bind] in H; try discriminate.
    destruct (run_sched fuel P (SRun rsDelete) d1) as [[d2 c2]| |] eqn:E2; cbn [bind] in H; try discriminate.
    injection H as <- <-.
    assert (HI1 : Inv sg U w d1) by (eapply inv_sched; eauto).
    pose proof (run_sat_quiet _ _ _ _ _ _ E1) as HQ.
    destruct fuel as [|fuel]; [discriminate|]. cbn [run_sched] in E2.
    apply (inv_delete sg U w) in E2; [|exact HI1]. destruct E2 as [-> _]. auto.
  Qed.

  Theorem maint_canonical fuel d d' c : Inv sg U w d -> run_sched fuel P maint_sched d = Ok (d', c) ->
    Inv sg U w d' /\ Canonical d'.
  Proof.
    intros HI H. destruct (run_maint_sched _ _ _ _ HI H) as [HI' HQ]. split; [exact HI'|]. apply quiet_canonical; assumption.
  Qed.
End Fix.
