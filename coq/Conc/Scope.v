(** C19 / thread-pool scope: invariant and theorems over the transition system of ScopeModel.v *)
From Coq Require Import List Arith NArith Bool Lia.
Import ListNotations.
Require Import Verif.Conc.ScopeModel.

Notation occ := (count_occ Nat.eq_dec).

Definition pend_of (p : pc) : list nat := match p with Enq k => [k] | _ => [] end.
Definition pend (r : list (nat * pc)) : list nat := flat_map (fun e => pend_of (snd e)) r.
Definition ids (r : list (nat * pc)) : list nat := map fst r.

Lemma ids_app r1 e r2 : ids (r1 ++ e :: r2) = ids r1 ++ fst e :: ids r2.
Proof. unfold ids. rewrite map_app. reflexivity. Qed.
Lemma ids_app0 r1 r2 : ids (r1 ++ r2) = ids r1 ++ ids r2.
Proof. unfold ids. apply map_app. Qed.
Lemma pend_app r1 e r2 : pend (r1 ++ e :: r2) = pend r1 ++ pend_of (snd e) ++ pend r2.
Proof. unfold pend. rewrite flat_map_app. reflexivity. Qed.
Lemma pend_app0 r1 r2 : pend (r1 ++ r2) = pend r1 ++ pend r2.
Proof. unfold pend. apply flat_map_app. Qed.

Lemma occ_app l1 l2 k : occ (l1 ++ l2) k = occ l1 k + occ l2 k.
Proof. apply count_occ_app. Qed.

Lemma occ_le_length l k : occ l k <= length l.
Proof. induction l; simpl; [lia|]. destruct (Nat.eq_dec a k); lia. Qed.

Lemma occ_In l k : In k l <-> occ l k >= 1.
Proof. rewrite (count_occ_In Nat.eq_dec). lia. Qed.

(* ---- packed counter arithmetic ---- *)

(** what the REGENERATED arithmetic (gen/CountsFns.v, from threadpool/mod.rs) amounts to: these
    equalities are where a change of [EXPECTED_SHIFT], of the mask, of the halves, of the words added
    by [expect_one] / [complete_one] or of the completion test stops the development *)
Lemma expected_spec v : expected v = ((v / SHIFT) mod SHIFT)%N.
Proof.
  unfold expected, CountsFns.expected, CountsFns.EXPECTED_SHIFT, SHIFT.
  rewrite N.shiftr_div_pow2. reflexivity.
Qed.

Lemma completed_spec v : completed v = (v mod SHIFT)%N.
Proof.
  unfold completed, CountsFns.completed, CountsFns.COMPLETED_MASK, SHIFT.
  change 4294967295%N with (N.ones 32). rewrite N.land_ones.
  change (2 ^ 32)%N with 4294967296%N. apply N.mod_mod. discriminate.
Qed.

Lemma init_word_spec : CountsFns.with_root_callback = SHIFT.
Proof. vm_compute. reflexivity. Qed.

Lemma expect_guard_spec v : CountsFns.expect_one_guard v = (expected v <? U32MAX)%N.
Proof. reflexivity. Qed.

Lemma expect_next_spec v : CountsFns.expect_one_next v = add64 v SHIFT.
Proof.
  unfold CountsFns.expect_one_next, CountsFns.EXPECTED_SHIFT, add64, U64MOD, SHIFT. cbv zeta.
  change (N.shiftl 1 32 mod 18446744073709551616)%N with 4294967296%N. reflexivity.
Qed.

Lemma complete_next_spec v : CountsFns.complete_one_next v = add64 v 1.
Proof. reflexivity. Qed.

(** [complete_one] hands the word BEFORE its addition to the completion test, which is an EQUALITY
    between completed + 1 (u32, wrapping) and expected *)
Lemma is_last_word_spec c : is_last c = N.eqb ((completed c + 1) mod SHIFT) (expected c).
Proof. reflexivity. Qed.

(** all of it in one statement over plain numerals (pinned as [c19_counts_packing]) *)
Theorem counts_packing : forall v : N,
  CountsFns.EXPECTED_SHIFT = 32%N /\ CountsFns.COMPLETED_MASK = 4294967295%N /\
  CountsFns.with_root_callback = 4294967296%N /\
  expected v = ((v / 4294967296) mod 4294967296)%N /\
  completed v = (v mod 4294967296)%N /\
  CountsFns.expect_one_guard v = (expected v <? 4294967295)%N /\
  CountsFns.expect_one_next v = ((v + 4294967296) mod 18446744073709551616)%N /\
  CountsFns.complete_one_next v = ((v + 1) mod 18446744073709551616)%N /\
  CountsFns.complete_one_result v = v /\
  is_last v = ((completed v + 1) mod 4294967296 =? expected v)%N.
Proof.
  intro v. repeat split; try reflexivity.
  - apply expected_spec.
  - apply completed_spec.
Qed.

Lemma decode (E C : N) : (E <= U32MAX)%N -> (C <= U32MAX)%N ->
  expected (E * SHIFT + C) = E /\ completed (E * SHIFT + C) = C.
Proof.
  intros HE HC. rewrite expected_spec, completed_spec. unfold U32MAX, SHIFT in *.
  assert (HC' : (C < 4294967296)%N) by lia.
  split.
  - rewrite N.div_add_l by lia. rewrite (N.div_small C) by lia.
    rewrite N.add_0_r. apply N.mod_small. lia.
  - rewrite N.add_comm, N.mod_add by lia. apply N.mod_small. lia.
Qed.

Lemma add64_small a b : (a + b < U64MOD)%N -> add64 a b = (a + b)%N.
Proof. intros. unfold add64. apply N.mod_small. auto. Qed.

(* ---- the invariant ---- *)

Definition task_rec (s : st) : Prop := exists w, w <> 0 /\ In (w, Rec) (run s).

Record Inv (s : st) : Prop := {
  i_cnt : cnt s = (N.of_nat (length (spawned s)) * SHIFT + N.of_nat (length (fins s)))%N;
  i_bound : (N.of_nat (length (spawned s)) <= U32MAX)%N;
  i_part : forall k, occ (spawned s) k
             = occ (pend (run s)) k + occ (queue s) k + occ (ids (run s)) k + occ (fins s) k;
  i_nodup : forall k, occ (spawned s) k <= 1;
  i_runs : forall k, occ (runs s) k = occ (ids (run s)) k + occ (fins s) k;
  i_len : length (spawned s)
          = length (pend (run s)) + length (queue s) + length (run s) + length (fins s);
  i_sent : sent s = if Nat.eqb (length (fins s)) (length (spawned s)) then 1 else 0;
  i_caller : (caller s = Cb /\ occ (ids (run s)) 0 = 1) \/ (caller s <> Cb /\ occ (fins s) 0 = 1);
  i_root : occ (spawned s) 0 = 1;
  i_msgs : done_msgs s <= sent s
           /\ (caller s = Cb \/ caller s = Wait -> done_msgs s = sent s)
           /\ (caller s = Take \/ caller s = Ret -> sent s = 1);
  i_ptask1 : slot s = true \/ task_rec s -> ptask s = true;
  i_ptask2 : ptask s = true -> slot s = true \/ task_rec s \/ caller s = Ret;
  i_proot1 : rooterr s = true \/ In (0, Rec) (run s) -> proot s = true;
  i_proot2 : proot s = true -> rooterr s = true \/ In (0, Rec) (run s);
  i_rep : caller s = Ret -> reported s = (proot s || ptask s)%bool
}.

Lemma inv_init : Inv init.
Proof.
  constructor; simpl; try reflexivity; try lia.
  - unfold U32MAX. lia.
  - intro k. destruct k; simpl; lia.
  - left. auto.
  - repeat split; intros; try lia. destruct H; discriminate.
  - intros [H|(w & Hw & [H|[]])]; discriminate.
  - intros [H|[H|[]]]; discriminate.
Qed.

(** some job wrapper is still running => not everything has completed *)
Lemma running_not_done s : Inv s -> run s <> [] -> length (fins s) < length (spawned s).
Proof.
  intros I H. rewrite (i_len s I). destruct (run s); [congruence|]. simpl. lia.
Qed.

Lemma fins_le s : Inv s -> length (fins s) <= length (spawned s).
Proof. intros I. rewrite (i_len s I). lia. Qed.

Lemma decode_s s : Inv s ->
  expected (cnt s) = N.of_nat (length (spawned s)) /\ completed (cnt s) = N.of_nat (length (fins s)).
Proof.
  intros I. rewrite (i_cnt s I). apply decode; [apply I|].
  pose proof (i_bound s I). pose proof (fins_le s I). lia.
Qed.

Lemma is_last_spec s : Inv s -> length (fins s) < length (spawned s) ->
  is_last (cnt s) = Nat.eqb (S (length (fins s))) (length (spawned s)).
Proof.
  intros I Hlt. rewrite is_last_word_spec. destruct (decode_s s I) as [-> ->].
  pose proof (i_bound s I) as Hb. unfold U32MAX in Hb.
  rewrite N.mod_small by (unfold SHIFT; lia).
  destruct (Nat.eqb_spec (S (length (fins s))) (length (spawned s))) as [E|N].
  - apply N.eqb_eq. lia.
  - apply N.eqb_neq. lia.
Qed.

Ltac occs :=
  repeat (rewrite ?ids_app, ?ids_app0, ?pend_app, ?pend_app0, ?occ_app, ?app_length in *; simpl in * );
  repeat match goal with
         | |- context [Nat.eq_dec ?a ?b] => destruct (Nat.eq_dec a b); subst
         | H : context [Nat.eq_dec ?a ?b] |- _ => destruct (Nat.eq_dec a b); subst
         end; try lia; try congruence.

Lemma app_neq_nil {A} (r1 : list A) e r2 : r1 ++ e :: r2 <> [].
Proof. destruct r1; discriminate. Qed.

Lemma In_mid {A} (x : A) r1 e r2 e' : In x (r1 ++ e :: r2) -> x <> e -> In x (r1 ++ e' :: r2).
Proof.
  intros H N. apply in_app_or in H. apply in_or_app. destruct H as [H|[H|H]]; auto.
  - congruence.
  - right. right. auto.
Qed.

Lemma In_mid_del {A} (x : A) r1 e r2 : In x (r1 ++ e :: r2) -> x <> e -> In x (r1 ++ r2).
Proof.
  intros H N. apply in_app_or in H. apply in_or_app. destruct H as [H|[H|H]]; auto. congruence.
Qed.

Lemma In_del_mid {A} (x : A) r1 e r2 : In x (r1 ++ r2) -> In x (r1 ++ e :: r2).
Proof.
  intros H. apply in_app_or in H. apply in_or_app. destruct H; auto. right. right. auto.
Qed.

(** Rec-membership is untouched when a thread moves between two pcs that are not Rec *)
Lemma rec_mid_iff (w : nat) (p q : pc) r1 r2 (x : nat) :
  p <> Rec -> q <> Rec -> (In (x, Rec) (r1 ++ (w, p) :: r2) <-> In (x, Rec) (r1 ++ (w, q) :: r2)).
Proof. intros Hp Hq. split; intro H; (eapply In_mid; [exact H|congruence]). Qed.

Lemma task_rec_mid (P : nat -> Prop) (w : nat) (p q : pc) r1 r2 :
  p <> Rec -> q <> Rec ->
  ((exists x, P x /\ In (x, Rec) (r1 ++ (w, p) :: r2)) <-> (exists x, P x /\ In (x, Rec) (r1 ++ (w, q) :: r2))).
Proof.
  intros Hp Hq. split; intros (x & Hx & Hin); exists x; split; auto;
    eapply rec_mid_iff; try exact Hin; auto.
Qed.

Theorem inv_step s l s' : Inv s -> step s l s' -> Inv s'.
Proof.
  intros I St.
  pose proof (fins_le s I) as Hfle.
  pose proof (running_not_done s I) as Hrnd.
  pose proof (decode_s s I) as [Hexp Hcomp].
  pose proof (is_last_spec s I) as Hlast.
  destruct I as [Icnt Ibound Ipart Inodup Iruns Ilen Isent Icaller Iroot Imsgs Ipt1 Ipt2 Ipr1 Ipr2 Irep].
  unfold task_rec in *.
  inversion St; subst; clear St;
    try (rename H into Hrun; rewrite Hrun in *; specialize (Hrnd (app_neq_nil _ _ _))).
  - (* expect *)
    rename H0 into Hfresh. rename H1 into Hguard.
    rewrite expect_guard_spec in Hguard. apply N.ltb_lt in Hguard. rewrite Hexp in Hguard.
    assert (Hk0 : occ (spawned s) k = 0) by (apply count_occ_not_In; auto).
    constructor; unfold task_rec;
      cbn [cnt queue run caller done_msgs slot rooterr reported sent spawned runs fins ptask proot]; auto.
    + rewrite expect_next_spec.
      rewrite add64_small; rewrite Icnt; unfold U32MAX, U64MOD, SHIFT in *; cbn [length]; lia.
    + cbn [length]. unfold U32MAX in *. lia.
    + intro k0. specialize (Ipart k0). occs.
    + intro k0. specialize (Inodup k0). occs.
    + intro k0. specialize (Iruns k0). occs.
    + occs.
    + cbn [length]. destruct (Nat.eqb_spec (length (fins s)) (S (length (spawned s)))); [lia|].
      rewrite Isent. destruct (Nat.eqb_spec (length (fins s)) (length (spawned s))); lia.
    + destruct Icaller as [[? ?]|[? ?]]; [left|right]; split; auto. occs.
    + occs.
    + rewrite <- (task_rec_mid (fun x => x <> 0) w Body (Enq k)) by discriminate. auto.
    + rewrite <- (task_rec_mid (fun x => x <> 0) w Body (Enq k)) by discriminate. auto.
    + rewrite <- (rec_mid_iff w Body (Enq k)) by discriminate. auto.
    + rewrite <- (rec_mid_iff w Body (Enq k)) by discriminate. auto.
  - (* enqueue *)
    constructor; unfold task_rec;
      cbn [cnt queue run caller done_msgs slot rooterr reported sent spawned runs fins ptask proot]; auto.
    + intro k0. specialize (Ipart k0). occs.
    + intro k0. specialize (Iruns k0). occs.
    + occs.
    + destruct Icaller as [[? ?]|[? ?]]; [left|right]; split; auto. occs.
    + rewrite <- (task_rec_mid (fun x => x <> 0) w (Enq k) Body) by discriminate. auto.
    + rewrite <- (task_rec_mid (fun x => x <> 0) w (Enq k) Body) by discriminate. auto.
    + rewrite <- (rec_mid_iff w (Enq k) Body) by discriminate. auto.
    + rewrite <- (rec_mid_iff w (Enq k) Body) by discriminate. auto.
  - (* start *)
    rename H into Hq. rewrite Hq in *.
    constructor; unfold task_rec;
      cbn [cnt queue run caller done_msgs slot rooterr reported sent spawned runs fins ptask proot]; auto.
    + intro k0. specialize (Ipart k0). occs.
    + intro k0. specialize (Iruns k0). occs.
    + occs.
    + destruct Icaller as [[? ?]|[? ?]]; [left|right]; split; auto.
      pose proof (Ipart 0). occs.
    + intros [?|(x & Hx & [Hin|Hin])]; [auto|discriminate|]. apply Ipt1. right. eauto.
    + intro Hp. destruct (Ipt2 Hp) as [?|[(x & Hx & Hin)|?]]; auto.
      right. left. exists x. split; auto. right. auto.
    + intros [?|[Hin|Hin]]; [auto|discriminate|]. auto.
    + intro Hp. destruct (Ipr2 Hp); auto. right. right. auto.
  - (* body ok *)
    constructor; unfold task_rec;
      cbn [cnt queue run caller done_msgs slot rooterr reported sent spawned runs fins ptask proot]; auto.
    + intro k0. specialize (Ipart k0). occs.
    + intro k0. specialize (Iruns k0). occs.
    + occs.
    + destruct Icaller as [[? ?]|[? ?]]; [left|right]; split; auto. occs.
    + rewrite <- (task_rec_mid (fun x => x <> 0) w Body Fin) by discriminate. auto.
    + rewrite <- (task_rec_mid (fun x => x <> 0) w Body Fin) by discriminate. auto.
    + rewrite <- (rec_mid_iff w Body Fin) by discriminate. auto.
    + rewrite <- (rec_mid_iff w Body Fin) by discriminate. auto.
  - (* body panic *)
    assert (HnotRet : caller s <> Ret).
    { intro HR. destruct Imsgs as (_ & _ & M). specialize (M (or_intror HR)).
      rewrite Isent in M. destruct (Nat.eqb_spec (length (fins s)) (length (spawned s))); lia. }
    constructor; unfold task_rec;
      cbn [cnt queue run caller done_msgs slot rooterr reported sent spawned runs fins ptask proot]; auto.
    + intro k0. specialize (Ipart k0). occs.
    + intro k0. specialize (Iruns k0). occs.
    + occs.
    + destruct Icaller as [[? ?]|[? ?]]; [left|right]; split; auto. occs.
    + destruct (Nat.eqb_spec w 0) as [->|Nw]; auto.
      intros [?|(x & Hx & Hin)]; [auto|].
      apply Ipt1. right. exists x. split; auto.
      eapply In_mid; [exact Hin|]. intro E. injection E as E. congruence.
    + destruct (Nat.eqb_spec w 0) as [->|Nw].
      * intro Hp. destruct (Ipt2 Hp) as [?|[(x & Hx & Hin)|?]]; auto.
        right. left. exists x. split; auto. eapply In_mid; [exact Hin|]. discriminate.
      * intros _. right. left. exists w. split; auto. apply in_or_app. right. left. auto.
    + destruct (Nat.eqb_spec w 0) as [->|Nw]; auto.
      intros [?|Hin]; [auto|]. apply Ipr1. right.
      eapply In_mid; [exact Hin|]. intro E. injection E as E. congruence.
    + destruct (Nat.eqb_spec w 0) as [->|Nw].
      * intros _. right. apply in_or_app. right. left. auto.
      * intro Hp. destruct (Ipr2 Hp); auto. right. eapply In_mid; [eassumption|]. discriminate.
    + intro HR. congruence.
  - (* record *)
    assert (Hin0 : In (w, Rec) (r1 ++ (w, Rec) :: r2)) by (apply in_or_app; right; left; auto).
    constructor; unfold task_rec;
      cbn [cnt queue run caller done_msgs slot rooterr reported sent spawned runs fins ptask proot]; auto.
    + intro k0. specialize (Ipart k0). occs.
    + intro k0. specialize (Iruns k0). occs.
    + occs.
    + destruct Icaller as [[? ?]|[? ?]]; [left|right]; split; auto. occs.
    + destruct (Nat.eqb_spec w 0) as [->|Nw].
      * intros [?|(x & Hx & Hin)]; [auto|]. apply Ipt1. right. exists x. split; auto.
        eapply In_mid; [exact Hin|]. discriminate.
      * intros _. apply Ipt1. right. exists w. auto.
    + destruct (Nat.eqb_spec w 0) as [->|Nw]; auto.
      intro Hp. destruct (Ipt2 Hp) as [?|[(x & Hx & Hin)|?]]; auto.
      right. left. exists x. split; auto.
      eapply In_mid; [exact Hin|]. intro E. injection E as E. congruence.
    + destruct (Nat.eqb_spec w 0) as [->|Nw].
      * intros _. apply Ipr1. right. auto.
      * intros [?|Hin]; [auto|]. apply Ipr1. right. eapply In_mid; [exact Hin|]. discriminate.
    + destruct (Nat.eqb_spec w 0) as [->|Nw]; auto.
      intro Hp. destruct (Ipr2 Hp); auto. right.
      eapply In_mid; [eassumption|]. intro E. injection E as E. congruence.
  - (* complete *)
    specialize (Hlast Hrnd).
    assert (Hsent0 : sent s = 0).
    { rewrite Isent. destruct (Nat.eqb_spec (length (fins s)) (length (spawned s))); lia. }
    assert (Hw0 : w = 0 -> caller s = Cb /\ occ (fins s) 0 = 0).
    { intros ->. pose proof (Ipart 0) as P0. rewrite Iroot in P0.
      destruct Icaller as [[? ?]|[? ?]]; [split; auto|exfalso]; occs. }
    constructor; unfold task_rec;
      cbn [cnt queue run caller done_msgs slot rooterr reported sent spawned runs fins ptask proot]; auto.
    + rewrite complete_next_spec.
      rewrite add64_small; rewrite Icnt; unfold U32MAX, U64MOD, SHIFT in *; cbn [length]; lia.
    + intro k0. specialize (Ipart k0). occs.
    + intro k0. specialize (Iruns k0). occs.
    + occs.
    + rewrite Hlast, Hsent0. cbn [length]. destruct (Nat.eqb (S (length (fins s))) (length (spawned s))); auto.
    + destruct (Nat.eqb_spec w 0) as [->|Nw].
      * right. destruct (Hw0 eq_refl) as [_ F0]. split.
        -- destruct (is_last (cnt s)); discriminate.
        -- simpl. destruct (Nat.eq_dec 0 0); [lia|congruence].
      * destruct Icaller as [[? ?]|[? ?]]; [left|right]; split; auto; occs.
    + destruct Imsgs as (M1 & M2 & M3).
      destruct (Nat.eqb_spec w 0) as [->|Nw].
      * destruct (Hw0 eq_refl) as [HCb _]. specialize (M2 (or_introl HCb)).
        destruct (is_last (cnt s)); repeat split; intros; try lia;
          try (destruct H; discriminate).
      * destruct (is_last (cnt s)); repeat split; intros; try lia;
          try (rewrite M2; auto; fail); try (specialize (M3 H); lia); auto.
    + intros [?|(x & Hx & Hin)]; [auto|]. apply Ipt1. right. exists x. split; auto.
      apply In_del_mid. auto.
    + intro Hp. destruct (Ipt2 Hp) as [?|[(x & Hx & Hin)|HR]]; auto.
      * right. left. exists x. split; auto. eapply In_mid_del; [exact Hin|]. discriminate.
      * right. right. destruct (Nat.eqb_spec w 0) as [->|Nw]; auto.
        destruct (Hw0 eq_refl). congruence.
    + intros [?|Hin]; [auto|]. apply Ipr1. right. apply In_del_mid. auto.
    + intro Hp. destruct (Ipr2 Hp); auto. right. eapply In_mid_del; [eassumption|]. discriminate.
    + destruct (Nat.eqb_spec w 0) as [->|Nw]; auto.
      destruct (is_last (cnt s)); discriminate.
  - (* recv *)
    rename H into HW. rename H0 into HM.
    assert (Hs1 : sent s <= 1).
    { rewrite Isent. destruct (Nat.eqb (length (fins s)) (length (spawned s))); lia. }
    destruct Imsgs as (M1 & M2 & M3). specialize (M2 (or_intror HW)).
    constructor; unfold task_rec;
      cbn [cnt queue run caller done_msgs slot rooterr reported sent spawned runs fins ptask proot]; auto.
    + destruct Icaller as [[? ?]|[? ?]]; [congruence|]. right. split; auto. discriminate.
    + repeat split; intros; try lia. destruct H; discriminate.
    + intro Hp. destruct (Ipt2 Hp) as [?|[?|?]]; auto. congruence.
    + discriminate.
  - (* return *)
    rename H into HT.
    destruct Imsgs as (M1 & M2 & M3). specialize (M3 (or_introl HT)).
    assert (Hrun0 : run s = []).
    { rewrite Isent in M3. destruct (Nat.eqb_spec (length (fins s)) (length (spawned s))); [|lia].
      destruct (run s); auto. simpl in Ilen. lia. }
    constructor; unfold task_rec;
      cbn [cnt queue run caller done_msgs slot rooterr reported sent spawned runs fins ptask proot]; auto.
    + destruct Icaller as [[? ?]|[? ?]]; [congruence|]. right. split; auto. discriminate.
    + repeat split; intros; try lia. destruct H; discriminate.
    + intros [?|?]; [discriminate|]. auto.
    + intros _. f_equal.
      * destruct (rooterr s) eqn:E1, (proot s) eqn:E2; auto.
        -- assert (false = true) by (apply Ipr1; auto). discriminate.
        -- destruct (Ipr2 eq_refl) as [?|Hin]; [congruence|]. rewrite Hrun0 in Hin. destruct Hin.
      * destruct (slot s) eqn:E1, (ptask s) eqn:E2; auto.
        -- assert (false = true) by (apply Ipt1; auto). discriminate.
        -- destruct (Ipt2 eq_refl) as [?|[(x & _ & Hin)|?]]; try congruence.
           rewrite Hrun0 in Hin. destruct Hin.
Qed.

Theorem reachable_inv s : reachable s -> Inv s.
Proof. induction 1; [apply inv_init|eapply inv_step; eauto]. Qed.

Lemma length_zero_nil {A} (l : list A) : length l = 0 -> l = [].
Proof. destruct l; simpl; [auto|lia]. Qed.

(** completion has been signalled  <->  every expected item has completed *)
Lemma sent_iff s : Inv s -> (sent s = 1 <-> length (fins s) = length (spawned s)).
Proof.
  intros I. rewrite (i_sent s I). destruct (Nat.eqb_spec (length (fins s)) (length (spawned s))); split; intros; try lia; auto.
Qed.

Lemma all_done s : Inv s -> length (fins s) = length (spawned s) ->
  queue s = [] /\ run s = [] /\ (forall k, occ (spawned s) k = occ (fins s) k)
  /\ (forall k, occ (runs s) k = occ (fins s) k).
Proof.
  intros I E. pose proof (i_len s I) as L.
  assert (Hr : run s = []) by (apply length_zero_nil; lia).
  assert (Hq : queue s = []) by (apply length_zero_nil; lia).
  repeat split; auto.
  - intro k. rewrite (i_part s I k), Hr, Hq. simpl. lia.
  - intro k. rewrite (i_runs s I k), Hr. simpl. lia.
Qed.

(** [scope] returns (caller past the wait) only when the queue is empty, nothing is running, and
    every spawned task (and the root callback, id 0) was started exactly once and completed exactly
    once; and nothing that was not spawned ever ran *)
Theorem scope_done_iff s : reachable s -> caller s = Take \/ caller s = Ret ->
  queue s = [] /\ run s = [] /\
  (forall k, In k (spawned s) -> occ (runs s) k = 1 /\ occ (fins s) k = 1) /\
  (forall k, ~ In k (spawned s) -> occ (runs s) k = 0).
Proof.
  intros R H. pose proof (reachable_inv s R) as I.
  destruct (i_msgs s I) as (_ & _ & M). specialize (M H).
  apply (sent_iff s I) in M. destruct (all_done s I M) as (Hq & Hr & Hs & Hf).
  repeat split; auto.
  - rewrite Hf, <- Hs. apply occ_In in H0. pose proof (i_nodup s I k). lia.
  - rewrite <- Hs. apply occ_In in H0. pose proof (i_nodup s I k). lia.
  - intros k Hk. rewrite Hf, <- Hs. apply count_occ_not_In. auto.
Qed.

(** the done channel is signalled at most once (the [expect("... signaled once")] cannot fire, the
    bounded(1) channel never overflows), and exactly when everything has completed *)
Theorem done_once s : reachable s ->
  sent s <= 1 /\ done_msgs s <= 1 /\ (sent s = 1 <-> length (fins s) = length (spawned s)).
Proof.
  intros R. pose proof (reachable_inv s R) as I.
  pose proof (sent_iff s I). destruct (i_msgs s I) as (M & _).
  assert (sent s <= 1).
  { rewrite (i_sent s I). destruct (Nat.eqb (length (fins s)) (length (spawned s))); lia. }
  repeat split; try lia; apply H.
Qed.

(** the packed word never overflows: both halves decode to the true counts, the sum stays below
    2^64 (so the wrapping add never wraps), completed never carries into expected, and the
    assertion in [expect_one] keeps expected <= u32::MAX; with fewer than u32::MAX-1 spawned tasks
    that assertion does not fire *)
Theorem no_overflow s : reachable s ->
  (cnt s < U64MOD)%N /\
  expected (cnt s) = N.of_nat (length (spawned s)) /\
  completed (cnt s) = N.of_nat (length (fins s)) /\
  (N.of_nat (length (fins s)) <= N.of_nat (length (spawned s)) <= U32MAX)%N /\
  (length (spawned s) = S (length (spawned s) - 1)) /\
  ((N.of_nat (length (spawned s) - 1) < U32MAX - 1)%N -> (expected (cnt s) < U32MAX)%N).
Proof.
  intros R. pose proof (reachable_inv s R) as I.
  destruct (decode_s s I) as [He Hc]. pose proof (i_bound s I) as B. pose proof (fins_le s I) as F.
  pose proof (i_root s I) as R0.
  assert (length (spawned s) >= 1) by (pose proof (occ_le_length (spawned s) 0); lia).
  repeat split; auto; try lia.
  rewrite (i_cnt s I). unfold U32MAX, U64MOD, SHIFT in *. lia.
Qed.

(** a panicking task (or root callback) is reported to the scope's caller: [scope] leaves by
    unwinding iff some body panicked *)
Theorem panic_reported s : reachable s -> caller s = Ret ->
  reported s = (proot s || ptask s)%bool.
Proof. intros R. apply (i_rep s (reachable_inv s R)). Qed.

(** and while the scope has not returned, a recorded panic is never lost *)
Theorem panic_not_lost s : reachable s -> caller s <> Ret -> ptask s = true ->
  slot s = true \/ exists w, w <> 0 /\ In (w, Rec) (run s).
Proof.
  intros R N P. destruct (i_ptask2 s (reachable_inv s R) P) as [?|[?|?]]; auto; congruence.
Qed.

(** no lost wake-up, no stuck configuration: as long as [scope] has not returned some step is
    enabled (every queued job may be picked up: by a free worker or by a helping waiter) *)
Theorem scope_progress s : reachable s -> caller s <> Ret -> exists l s', step s l s'.
Proof.
  intros R N. pose proof (reachable_inv s R) as I.
  destruct (run s) as [|[w p] r] eqn:Hrun.
  - destruct (queue s) as [|k q] eqn:Hq.
    + assert (E : length (fins s) = length (spawned s)).
      { rewrite (i_len s I), Hrun, Hq. simpl. lia. }
      apply (sent_iff s I) in E.
      destruct (caller s) eqn:Hc; try congruence.
      * destruct (i_caller s I) as [[_ H]|[H _]]; [|congruence]. rewrite Hrun in H. simpl in H. lia.
      * destruct (i_msgs s I) as (_ & M & _). specialize (M (or_intror Hc)).
        eexists _, _. eapply (SRecv s 0); auto. lia.
      * eexists _, _. apply SReturn; auto.
    + eexists _, _. apply (SStart s k [] q). auto.
  - destruct p.
    + eexists _, _. apply (SBodyOk s w [] r). auto.
    + eexists _, _. apply (SEnqueue s w k [] r). auto.
    + eexists _, _. apply (SRecord s w [] r). auto.
    + eexists _, _. apply (SComplete s w [] r). auto.
Qed.

(** the terminal configuration is the only one without successor, and it is a correct one *)
Corollary scope_final_ok s : reachable s -> (forall l s', ~ step s l s') ->
  caller s = Ret /\ queue s = [] /\ run s = [].
Proof.
  intros R H. destruct (caller s) eqn:E;
    try (exfalso; destruct (scope_progress s R) as (l & s' & St); [congruence|exact (H _ _ St)]).
  split; auto. destruct (scope_done_iff s R) as (A & B & _); auto.
Qed.

(* ------------------------------------------------------------------------------------------ *)
(** * the executable stepper refines the relation: a replayed event log is a run of the system *)

Lemma pc_eqb_eq a b : pc_eqb a b = true -> a = b.
Proof. destruct a, b; simpl; try discriminate; auto. intro H. apply Nat.eqb_eq in H. congruence. Qed.

Lemma upd_pc_spec w p q : forall r r', upd_pc w p q r = Some r' ->
  exists r1 r2, r = r1 ++ (w, p) :: r2 /\ r' = r1 ++ (w, q) :: r2.
Proof.
  induction r as [|[w' p'] tl IH]; intros r' H; simpl in H; [discriminate|].
  destruct (Nat.eqb w w' && pc_eqb p p')%bool eqn:E.
  - apply andb_prop in E. destruct E as [E1 E2]. apply Nat.eqb_eq in E1. apply pc_eqb_eq in E2. subst.
    injection H as <-. exists [], tl. auto.
  - destruct (upd_pc w p q tl) eqn:E'; [|discriminate]. injection H as <-.
    destruct (IH _ eq_refl) as (r1 & r2 & -> & ->). exists ((w', p') :: r1), r2. auto.
Qed.

Lemma del_pc_spec w p : forall r r', del_pc w p r = Some r' ->
  exists r1 r2, r = r1 ++ (w, p) :: r2 /\ r' = r1 ++ r2.
Proof.
  induction r as [|[w' p'] tl IH]; intros r' H; simpl in H; [discriminate|].
  destruct (Nat.eqb w w' && pc_eqb p p')%bool eqn:E.
  - apply andb_prop in E. destruct E as [E1 E2]. apply Nat.eqb_eq in E1. apply pc_eqb_eq in E2. subst.
    injection H as <-. exists [], tl. auto.
  - destruct (del_pc w p tl) eqn:E'; [|discriminate]. injection H as <-.
    destruct (IH _ eq_refl) as (r1 & r2 & -> & ->). exists ((w', p') :: r1), r2. auto.
Qed.

Lemma del_q_spec k : forall q q', del_q k q = Some q' ->
  exists q1 q2, q = q1 ++ k :: q2 /\ q' = q1 ++ q2.
Proof.
  induction q as [|k' tl IH]; intros q' H; simpl in H; [discriminate|].
  destruct (Nat.eqb_spec k k') as [->|N].
  - injection H as <-. exists [], tl. auto.
  - destruct (del_q k tl) eqn:E'; [|discriminate]. injection H as <-.
    destruct (IH _ eq_refl) as (q1 & q2 & -> & ->). exists (k' :: q1), q2. auto.
Qed.

Theorem scope_uses_regenerated_counts :
  cnt init = CountsFns.with_root_callback /\
  (forall s w k s', step s (LExpect w k) s' ->
     CountsFns.expect_one_guard (cnt s) = true /\ cnt s' = CountsFns.expect_one_next (cnt s)) /\
  (forall s w s', step s (LComplete w) s' ->
     cnt s' = CountsFns.complete_one_next (cnt s) /\
     sent s' = if CountsFns.scope_complete_is_last (CountsFns.complete_one_result (cnt s))
               then S (sent s) else sent s).
Proof.
  split; [reflexivity|]. split.
  - intros s w k s' H. inversion H; subst. split; auto.
  - intros s w s' H. inversion H; subst. split; reflexivity.
Qed.

Lemma mem_false k l : mem k l = false -> ~ In k l.
Proof.
  induction l; simpl; auto. intros H [E|Hin].
  - subst. rewrite Nat.eqb_refl in H. discriminate.
  - apply orb_false_elim in H. tauto.
Qed.

Theorem exec_sound s l s' : exec s l = Some s' -> step s l s'.
Proof.
  destruct l; simpl; intro H.
  - destruct (upd_pc w Body (Enq k) (run s)) eqn:E; [|discriminate].
    destruct (negb (mem k (spawned s)) && CountsFns.expect_one_guard (cnt s))%bool eqn:G; [|discriminate].
    apply andb_prop in G. destruct G as [G1 G2]. apply negb_true_iff in G1.
    injection H as <-. destruct (upd_pc_spec _ _ _ _ _ E) as (r1 & r2 & Hr & ->).
    apply SExpect; auto. apply mem_false. auto.
  - destruct (upd_pc w (Enq k) Body (run s)) eqn:E; [|discriminate].
    injection H as <-. destruct (upd_pc_spec _ _ _ _ _ E) as (r1 & r2 & Hr & ->).
    apply SEnqueue; auto.
  - destruct (del_q k (queue s)) eqn:E; [|discriminate].
    injection H as <-. destruct (del_q_spec _ _ _ E) as (q1 & q2 & Hq & ->).
    apply SStart; auto.
  - destruct (upd_pc w Body Fin (run s)) eqn:E; [|discriminate].
    injection H as <-. destruct (upd_pc_spec _ _ _ _ _ E) as (r1 & r2 & Hr & ->).
    apply SBodyOk; auto.
  - destruct (upd_pc w Body Rec (run s)) eqn:E; [|discriminate].
    injection H as <-. destruct (upd_pc_spec _ _ _ _ _ E) as (r1 & r2 & Hr & ->).
    apply SBodyPanic; auto.
  - destruct (upd_pc w Rec Fin (run s)) eqn:E; [|discriminate].
    injection H as <-. destruct (upd_pc_spec _ _ _ _ _ E) as (r1 & r2 & Hr & ->).
    apply SRecord; auto.
  - destruct (del_pc w Fin (run s)) eqn:E; [|discriminate].
    injection H as <-. destruct (del_pc_spec _ _ _ _ E) as (r1 & r2 & Hr & ->).
    apply SComplete; auto.
  - destruct (caller s) eqn:Ec; try discriminate. destruct (done_msgs s) eqn:Em; [discriminate|].
    injection H as <-. eapply SRecv; eauto.
  - destruct (caller s) eqn:Ec; try discriminate. injection H as <-. apply SReturn; auto.
Qed.

Lemma exec_all_reach : forall ls s s', reachable s -> exec_all s ls = Some s' -> reachable s'.
Proof.
  induction ls as [|l ls IH]; intros s s' R H; simpl in H.
  - injection H as <-. auto.
  - destruct (exec s l) eqn:E; [|discriminate].
    apply (IH s0 s'); auto. apply (reach_step s l s0); auto. apply exec_sound; auto.
Qed.

Lemma replay_reach : forall es s s', reachable s -> replay s es = Some s' -> reachable s'.
Proof.
  induction es as [|e es IH]; intros s s' R H; simpl in H.
  - injection H as <-. auto.
  - destruct (exec_all s (ev_labels s e)) eqn:E; [|discriminate].
    pose proof (exec_all_reach _ _ _ R E) as R'.
    destruct e; try (eapply IH; eauto; fail).
    destruct (Bool.eqb r (reported s0)); [|discriminate]. eapply IH; eauto.
Qed.

(** trace inclusion: an event log accepted by [check_case] is a run of the transition system that
    ends in the returned configuration - to which all the theorems above apply *)
Theorem replay_sound es : check_case es = true ->
  exists s, reachable s /\ caller s = Ret /\ queue s = [] /\ run s = []
            /\ reported s = (proot s || ptask s)%bool.
Proof.
  unfold check_case. destruct (replay init es) eqn:E; [|discriminate].
  intro H. exists s. pose proof (replay_reach _ _ _ reach_init E) as R.
  assert (Hc : caller s = Ret) by (destruct (caller s); simpl in H; try discriminate; auto).
  destruct (scope_done_iff s R (or_intror Hc)) as (A & B & _).
  repeat split; auto. apply panic_reported; auto.
Qed.
