//! Extension module (Tier A, C18). Output: coq/gen/MatchesFns.v
//! Contract: return (text of the .v file, report lines). Each report line is one JSON object
//! {"item":"MatchesFns.<name>","file":"<rust file>","ok":true|false[,"error":"..."]}.
//! Fail closed: when a site is not recognised, OMIT the Gallina definition (so dependent proofs stop
//! compiling) and push an ok:false report line.
//!
//! Part 1 (function level): the methods of `impl Matches` of src/scheduler.rs (`new`, `match_size`,
//! `tuple_len`, `get_match`, `choose`, `choose_all`, `instantiate`) are translated statement by
//! statement into Gallina over `Res` (Base/Res.v) with the std operations of Sched/MatchesPrelude.v.
//!   * a value of type `Matches` is the tuple of its fields in declaration order; inside a method
//!     the field `self.f` is the variable `self_f` (every method takes ALL fields);
//!   * `Vec<Value>` / `Vec<ResolvedVar>` -> `list N`, `Vec<usize>` -> `list nat`, `usize` -> `nat`;
//!   * `a - b`, `x -= e` -> `usub` (Panic on underflow), `a / b` -> `udiv`, `v[a..b]` -> `slice`,
//!     `v[i]` -> `idx`, `v.swap(i, j)` -> `vswap`, `v.chunks(w)` -> `chunks`, `assert!(c)` -> Panic
//!     unless c; `+`, `*` unbounded;
//!   * mutation is shadowing; `for x in it { body }` becomes a structural `Fixpoint <fn>_loop<k>`
//!     over the iterated list, threading exactly the variables the body mutates;
//!   * `table_action.insert(state, row)` appends `row` to the effect log `ins` (the rows inserted into
//!     the `decided` table, in order); a function with a `table_action` parameter returns
//!     `(ins, value)`; `state.base_values().get(())` is the parameter `base_unit`.
//! Anything outside this subset (break / continue / return, closures, unknown calls, shadowing `let`)
//! is an error for that method.
//!
//! Part 2 (expression-level facts about `step_rules_with_scheduler`): see `facts()`.
use std::collections::HashMap;
use syn::{spanned::Spanned, BinOp, Expr, FnArg, ImplItem, Item as SynItem, Lit, Pat, Stmt, Type, UnOp};

type R<T> = Result<T, String>;
type Scope = Vec<(String, String)>;

const FILE: &str = "src/scheduler.rs";
const METHODS: &[&str] = &["new", "match_size", "tuple_len", "get_match", "choose", "choose_all", "instantiate"];

fn err<T, S: Spanned>(s: &S, msg: &str) -> R<T> {
    Err(format!("line {}: {}", s.span().start().line, msg))
}

fn coq_name(s: &str) -> String {
    match s {
        "unit" => "unit_v".into(),
        "fuel" | "bind" | "fun" | "end" | "in" | "let" | "match" | "with" | "if" | "then" | "else" | "as" | "at"
        | "return" | "fix" | "forall" | "exists" | "Type" | "Prop" | "Set"
        | "idx" | "upd" | "slice" | "chunks" | "rev" | "length" | "firstn" => format!("{s}_v"),
        _ => s.to_string(),
    }
}

/// source names that could collide with generated ones are rejected
fn check_name(name: &str) -> R<()> {
    if name == "ins" || name == "base_unit" || name.ends_with('_') || name.ends_with("_v") || name.starts_with("self_") {
        return Err(format!("variable name {name} may collide with a generated name"));
    }
    Ok(())
}

fn path_last(p: &syn::Path) -> String {
    p.segments.last().map(|s| s.ident.to_string()).unwrap_or_default()
}

fn type_last(t: &Type) -> Option<&syn::PathSegment> {
    match t {
        Type::Path(p) if p.qself.is_none() => p.path.segments.last(),
        Type::Reference(r) => type_last(&r.elem),
        _ => None,
    }
}

/// Rust type -> Coq type
fn coq_type(t: &Type) -> R<String> {
    let seg = match type_last(t) {
        Some(s) => s,
        None => return err(t, "unsupported type"),
    };
    let name = seg.ident.to_string();
    match name.as_str() {
        "usize" => Ok("nat".into()),
        "bool" => Ok("bool".into()),
        "Value" | "ResolvedVar" => Ok("N".into()),
        "Vec" => {
            if let syn::PathArguments::AngleBracketed(a) = &seg.arguments {
                if let Some(syn::GenericArgument::Type(inner)) = a.args.first() {
                    return Ok(format!("list {}", paren_ty(&coq_type(inner)?)));
                }
            }
            err(t, "unsupported Vec type")
        }
        _ => err(t, &format!("unsupported type {name}")),
    }
}

fn paren_ty(t: &str) -> String {
    if t.contains(' ') {
        format!("({t})")
    } else {
        t.to_string()
    }
}

fn elem_ty(t: &str) -> Option<String> {
    let rest = t.strip_prefix("list ")?;
    let rest = rest.trim();
    if rest.starts_with('(') && rest.ends_with(')') {
        Some(rest[1..rest.len() - 1].to_string())
    } else {
        Some(rest.to_string())
    }
}

fn lookup(scope: &Scope, name: &str) -> Option<String> {
    scope.iter().rev().find(|(n, _)| n == name).map(|(_, t)| t.clone())
}

fn wrap(prefix: Vec<(String, String)>, body: String) -> String {
    prefix.into_iter().rev().fold(body, |acc, (n, e)| format!("bind ({e}) (fun {n} =>\n{acc})"))
}

enum K {
    /// end of the function body: the value of the block is the result
    Ret,
    /// statement position: continue with this Gallina expression
    Tail(String),
}

struct Gen<'a> {
    fname: String,
    structs: &'a HashMap<String, Vec<(String, String)>>,
    /// fields of `Matches` as (self_<f>, type)
    fields: Scope,
    /// already translated methods (all take the fields first)
    methods: &'a HashMap<String, Vec<String>>,
    aux: Vec<String>,
    tmp: usize,
    loops: usize,
    has_ins: bool,
    has_state: bool,
    /// `&mut self` method: the result is the tuple of the fields
    returns_self: bool,
}

/// names assigned / mutated in a block (candidates; filtered by the scope afterwards)
fn mutated(block: &syn::Block) -> Vec<String> {
    struct V(Vec<String>);
    fn place(e: &Expr) -> Option<String> {
        match e {
            Expr::Path(p) => p.path.get_ident().map(|i| i.to_string()),
            Expr::Field(f) => match (&*f.base, &f.member) {
                (Expr::Path(p), syn::Member::Named(m)) if p.path.is_ident("self") => Some(format!("self_{m}")),
                _ => None,
            },
            Expr::Paren(p) => place(&p.expr),
            _ => None,
        }
    }
    impl<'ast> syn::visit::Visit<'ast> for V {
        fn visit_expr_binary(&mut self, b: &'ast syn::ExprBinary) {
            if matches!(b.op, BinOp::AddAssign(_) | BinOp::SubAssign(_) | BinOp::MulAssign(_) | BinOp::DivAssign(_)) {
                if let Some(n) = place(&b.left) {
                    self.0.push(n);
                }
            }
            syn::visit::visit_expr_binary(self, b);
        }
        fn visit_expr_assign(&mut self, a: &'ast syn::ExprAssign) {
            if let Some(n) = place(&a.left) {
                self.0.push(n);
            }
            syn::visit::visit_expr_assign(self, a);
        }
        fn visit_expr_method_call(&mut self, m: &'ast syn::ExprMethodCall) {
            let name = m.method.to_string();
            if let Some(n) = place(&m.receiver) {
                if n == "table_action" && name == "insert" {
                    self.0.push("ins".into());
                } else if ["swap", "sort_unstable", "dedup", "truncate", "push"].contains(&name.as_str()) {
                    self.0.push(n);
                }
            }
            syn::visit::visit_expr_method_call(self, m);
        }
    }
    let mut v = V(Vec::new());
    syn::visit::Visit::visit_block(&mut v, block);
    v.0
}

fn has_jumps(block: &syn::Block) -> bool {
    struct V(bool);
    impl<'ast> syn::visit::Visit<'ast> for V {
        fn visit_expr(&mut self, e: &'ast Expr) {
            if matches!(e, Expr::Return(_) | Expr::Break(_) | Expr::Continue(_) | Expr::Closure(_) | Expr::Try(_) | Expr::While(_) | Expr::Loop(_)) {
                self.0 = true;
            }
            syn::visit::visit_expr(self, e);
        }
    }
    let mut v = V(false);
    syn::visit::Visit::visit_block(&mut v, block);
    v.0
}

impl<'a> Gen<'a> {
    fn fresh(&mut self) -> String {
        self.tmp += 1;
        format!("t{}_", self.tmp)
    }

    /// the variable a place expression denotes (`x` or `self.f`)
    fn place(&self, e: &Expr, scope: &Scope) -> R<(String, String)> {
        let name = match e {
            Expr::Path(p) if p.path.get_ident().is_some() => {
                let id = p.path.get_ident().unwrap().to_string();
                id
            }
            Expr::Field(f) => match (&*f.base, &f.member) {
                (Expr::Path(p), syn::Member::Named(m)) if p.path.is_ident("self") => format!("self_{m}"),
                _ => return err(e, "unsupported place expression"),
            },
            Expr::Paren(p) => return self.place(&p.expr, scope),
            _ => return err(e, "unsupported place expression"),
        };
        match lookup(scope, &name) {
            Some(t) => Ok((name, t)),
            None => err(e, &format!("unknown variable {name}")),
        }
    }

    /// (effectful bindings to run first, Gallina atom, Coq type)
    fn value(&mut self, e: &Expr, scope: &Scope) -> R<(Vec<(String, String)>, String, String)> {
        match e {
            Expr::Paren(p) => self.value(&p.expr, scope),
            Expr::Group(p) => self.value(&p.expr, scope),
            Expr::Reference(r) if r.mutability.is_none() => self.value(&r.expr, scope),
            Expr::Unary(u) if matches!(u.op, UnOp::Deref(_)) => self.value(&u.expr, scope),
            Expr::Unary(u) if matches!(u.op, UnOp::Not(_)) => {
                let (b, a, t) = self.value(&u.expr, scope)?;
                if t != "bool" {
                    return err(e, "`!` on a non-bool");
                }
                Ok((b, format!("(negb {a})"), t))
            }
            Expr::Lit(l) => match &l.lit {
                Lit::Int(i) => {
                    if !(i.suffix().is_empty() || i.suffix() == "usize") {
                        return err(e, "integer literal of a non-usize type");
                    }
                    Ok((vec![], i.base10_digits().to_string(), "nat".into()))
                }
                Lit::Bool(b) => Ok((vec![], if b.value { "true".into() } else { "false".into() }, "bool".into())),
                _ => err(e, "unsupported literal"),
            },
            Expr::Path(_) | Expr::Field(_) => {
                let (n, t) = self.place(e, scope)?;
                Ok((vec![], coq_name(&n), t))
            }
            Expr::Binary(b) => {
                let (mut pre, l, lt) = self.value(&b.left, scope)?;
                let (pre2, r, rt) = self.value(&b.right, scope)?;
                pre.extend(pre2);
                if lt != rt {
                    return err(e, &format!("operands of different types {lt} / {rt}"));
                }
                let nat = lt == "nat";
                let pure = |s: String, t: &str| -> R<(Vec<(String, String)>, String, String)> { Ok((Vec::new(), s, t.to_string())) };
                let (p2, a, t) = match &b.op {
                    BinOp::Add(_) if nat => pure(format!("({l} + {r})"), "nat")?,
                    BinOp::Mul(_) if nat => pure(format!("({l} * {r})"), "nat")?,
                    BinOp::Sub(_) if nat => {
                        let t = self.fresh();
                        (vec![(t.clone(), format!("usub {l} {r}"))], t, "nat".to_string())
                    }
                    BinOp::Div(_) if nat => {
                        let t = self.fresh();
                        (vec![(t.clone(), format!("udiv {l} {r}"))], t, "nat".to_string())
                    }
                    BinOp::Eq(_) if nat => pure(format!("(Nat.eqb {l} {r})"), "bool")?,
                    BinOp::Ne(_) if nat => pure(format!("(negb (Nat.eqb {l} {r}))"), "bool")?,
                    BinOp::Lt(_) if nat => pure(format!("(Nat.ltb {l} {r})"), "bool")?,
                    BinOp::Le(_) if nat => pure(format!("(Nat.leb {l} {r})"), "bool")?,
                    BinOp::Gt(_) if nat => pure(format!("(Nat.ltb {r} {l})"), "bool")?,
                    BinOp::Ge(_) if nat => pure(format!("(Nat.leb {r} {l})"), "bool")?,
                    _ => return err(e, "unsupported binary operator"),
                };
                pre.extend(p2);
                Ok((pre, a, t))
            }
            Expr::Index(ix) => {
                let (mut pre, v, vt) = self.value(&ix.expr, scope)?;
                if elem_ty(&vt).is_none() {
                    return err(e, "indexing a non-list");
                }
                match &*ix.index {
                    Expr::Range(r) => {
                        if !matches!(r.limits, syn::RangeLimits::HalfOpen(_)) {
                            return err(e, "unsupported range");
                        }
                        let lo = match &r.start {
                            Some(s) => {
                                let (p, a, t) = self.value(s, scope)?;
                                if t != "nat" {
                                    return err(e, "range bound is not a usize");
                                }
                                pre.extend(p);
                                a
                            }
                            None => "0".to_string(),
                        };
                        let hi = match &r.end {
                            Some(s) => {
                                let (p, a, t) = self.value(s, scope)?;
                                if t != "nat" {
                                    return err(e, "range bound is not a usize");
                                }
                                pre.extend(p);
                                a
                            }
                            None => format!("(length {v})"),
                        };
                        let t = self.fresh();
                        pre.push((t.clone(), format!("slice {v} {lo} {hi}")));
                        Ok((pre, t, vt))
                    }
                    i => {
                        let (p, a, t) = self.value(i, scope)?;
                        if t != "nat" {
                            return err(e, "index is not a usize");
                        }
                        pre.extend(p);
                        let tv = self.fresh();
                        pre.push((tv.clone(), format!("idx {v} {a}")));
                        Ok((pre, tv, elem_ty(&vt).unwrap()))
                    }
                }
            }
            Expr::Range(r) => {
                if !matches!(r.limits, syn::RangeLimits::HalfOpen(_)) || r.start.is_none() || r.end.is_none() {
                    return err(e, "unsupported range");
                }
                let (mut pre, lo, t1) = self.value(r.start.as_ref().unwrap(), scope)?;
                let (p2, hi, t2) = self.value(r.end.as_ref().unwrap(), scope)?;
                pre.extend(p2);
                if t1 != "nat" || t2 != "nat" {
                    return err(e, "range over a non-usize");
                }
                Ok((pre, format!("(range_excl {lo} {hi})"), "list nat".into()))
            }
            Expr::Macro(m) if m.mac.path.is_ident("vec") && m.mac.tokens.is_empty() => {
                Ok((vec![], "[]".into(), "list _".into()))
            }
            Expr::Call(c) => {
                let f = match &*c.func {
                    Expr::Path(p) => p.path.segments.iter().map(|s| s.ident.to_string()).collect::<Vec<_>>().join("::"),
                    _ => return err(e, "unsupported call"),
                };
                if (f == "std::iter::once" || f == "iter::once") && c.args.len() == 1 {
                    let (pre, a, t) = self.value(&c.args[0], scope)?;
                    Ok((pre, format!("[{a}]"), format!("list {}", paren_ty(&t))))
                } else if f == "Vec::new" && c.args.is_empty() {
                    Ok((vec![], "[]".into(), "list _".into()))
                } else {
                    err(e, &format!("unsupported call {f}"))
                }
            }
            Expr::Struct(s) => {
                let mut name = path_last(&s.path);
                if name == "Self" {
                    name = "Matches".into();
                }
                if s.rest.is_some() {
                    return err(e, "struct update syntax");
                }
                let decl = match self.structs.get(&name) {
                    Some(d) => d.clone(),
                    None => return err(e, &format!("unknown struct {name}")),
                };
                if decl.len() != s.fields.len() {
                    return err(e, "struct literal does not list every field once");
                }
                let mut pre = Vec::new();
                let mut parts = Vec::new();
                let mut tys = Vec::new();
                for (fname, fty) in decl.iter() {
                    let fv = s.fields.iter().find(|fv| matches!(&fv.member, syn::Member::Named(m) if m == fname));
                    let fv = match fv {
                        Some(f) => f,
                        None => return err(e, &format!("field {fname} missing in the struct literal")),
                    };
                    let (p, a, t) = self.value(&fv.expr, scope)?;
                    pre.extend(p);
                    if t == "list _" && elem_ty(fty).is_some() {
                        parts.push(format!("({a} : {fty})"));
                        tys.push(fty.clone());
                    } else if &t == fty {
                        parts.push(a);
                        tys.push(t);
                    } else {
                        return err(e, &format!("field {fname} : {fty} initialised with a {t}"));
                    }
                }
                Ok((pre, format!("({})", parts.join(", ")), format!("({})", tys.join(" * "))))
            }
            Expr::MethodCall(m) => {
                let name = m.method.to_string();
                // state.base_values().get(())
                if name == "get" && m.args.len() == 1 {
                    if let (Expr::MethodCall(inner), Expr::Tuple(tu)) = (&*m.receiver, &m.args[0]) {
                        if inner.method == "base_values"
                            && inner.args.is_empty()
                            && tu.elems.is_empty()
                            && matches!(&*inner.receiver, Expr::Path(p) if p.path.is_ident("state"))
                            && self.has_state
                        {
                            return Ok((vec![], "base_unit".into(), "N".into()));
                        }
                    }
                }
                // self.method()
                if matches!(&*m.receiver, Expr::Path(p) if p.path.is_ident("self")) {
                    let params = match self.methods.get(&name) {
                        Some(p) => p.clone(),
                        None => return err(e, &format!("call of an untranslated method {name}")),
                    };
                    if params.len() != m.args.len() {
                        return err(e, "wrong number of arguments");
                    }
                    let mut pre = Vec::new();
                    let mut call = name.clone();
                    for (f, _) in self.fields.iter() {
                        if lookup(scope, f).is_none() {
                            return err(e, "field not in scope");
                        }
                        call.push(' ');
                        call.push_str(f);
                    }
                    for (a, pt) in m.args.iter().zip(params.iter()) {
                        let (p, v, t) = self.value(a, scope)?;
                        if &t != pt {
                            return err(e, "argument type mismatch");
                        }
                        pre.extend(p);
                        call.push(' ');
                        call.push_str(&v);
                    }
                    let t = self.fresh();
                    pre.push((t.clone(), call));
                    let rt = match name.as_str() {
                        "match_size" | "tuple_len" => "nat",
                        _ => return err(e, &format!("self.{name}() is not usable as a value")),
                    };
                    return Ok((pre, t, rt.to_string()));
                }
                let (mut pre, r, rt) = self.value(&m.receiver, scope)?;
                let is_list = elem_ty(&rt).is_some();
                let mut args = Vec::new();
                for a in m.args.iter() {
                    let (p, v, t) = self.value(a, scope)?;
                    pre.extend(p);
                    args.push((v, t));
                }
                match (name.as_str(), args.len()) {
                    ("len", 0) if is_list => Ok((pre, format!("(length {r})"), "nat".into())),
                    ("iter", 0) | ("cloned", 0) | ("copied", 0) | ("into_iter", 0) | ("clone", 0) if is_list => Ok((pre, r, rt)),
                    ("rev", 0) if is_list => Ok((pre, format!("(rev {r})"), rt)),
                    ("chain", 1) if is_list && args[0].1 == rt => Ok((pre, format!("({r} ++ {})", args[0].0), rt)),
                    ("chunks", 1) if is_list && args[0].1 == "nat" => {
                        let t = self.fresh();
                        pre.push((t.clone(), format!("chunks {r} {}", args[0].0)));
                        Ok((pre, t, format!("list ({rt})")))
                    }
                    ("max", 1) if rt == "nat" && args[0].1 == "nat" => Ok((pre, format!("(Nat.max {r} {})", args[0].0), rt)),
                    ("min", 1) if rt == "nat" && args[0].1 == "nat" => Ok((pre, format!("(Nat.min {r} {})", args[0].0), rt)),
                    ("is_multiple_of", 1) if rt == "nat" && args[0].1 == "nat" => {
                        Ok((pre, format!("(is_multiple_of {r} {})", args[0].0), "bool".into()))
                    }
                    _ => err(e, &format!("unsupported method {name} on {rt}")),
                }
            }
            _ => err(e, "unsupported expression"),
        }
    }

    fn ret_value(&self, v: &str) -> String {
        if self.has_ins {
            format!("Ok (ins, {v})")
        } else {
            format!("Ok {v}")
        }
    }

    fn end_of_block(&mut self, scope: &Scope, k: &K) -> R<String> {
        match k {
            K::Tail(s) => Ok(s.clone()),
            K::Ret => {
                if self.returns_self {
                    let fs: Vec<String> = self.fields.iter().map(|(f, _)| f.clone()).collect();
                    for f in fs.iter() {
                        if lookup(scope, f).is_none() {
                            return Err("field not in scope".into());
                        }
                    }
                    Ok(self.ret_value(&format!("({})", fs.join(", "))))
                } else {
                    Err("function body without a value".into())
                }
            }
        }
    }

    fn block(&mut self, b: &syn::Block, scope: &Scope, k: &K) -> R<String> {
        self.stmts(&b.stmts, scope.clone(), k)
    }

    fn stmts(&mut self, stmts: &[Stmt], mut scope: Scope, k: &K) -> R<String> {
        let (first, rest) = match stmts.split_first() {
            Some(x) => x,
            None => return self.end_of_block(&scope, k),
        };
        match first {
            Stmt::Local(l) => {
                let name = match &l.pat {
                    Pat::Ident(pi) if pi.by_ref.is_none() && pi.subpat.is_none() => pi.ident.to_string(),
                    _ => return err(l, "unsupported let pattern"),
                };
                check_name(&name)?;
                if lookup(&scope, &name).is_some() {
                    return err(l, &format!("let {name} shadows a name in scope"));
                }
                let init = match &l.init {
                    Some(i) if i.diverge.is_none() => &i.expr,
                    _ => return err(l, "let without initialiser / let-else"),
                };
                let (pre, a, t) = self.value(init, &scope)?;
                scope.push((name.clone(), t));
                let rest_s = self.stmts(rest, scope, k)?;
                Ok(wrap(pre, format!("let {} := {a} in\n{rest_s}", coq_name(&name))))
            }
            Stmt::Expr(e, semi) => {
                if semi.is_none() && rest.is_empty() {
                    if let K::Ret = k {
                        if !self.returns_self {
                            return self.tail_expr(e, &scope);
                        }
                    }
                }
                self.stmt_expr(e, rest, scope, k)
            }
            Stmt::Macro(m) => {
                if m.mac.path.is_ident("assert") {
                    let cond: Expr = syn::parse2(m.mac.tokens.clone()).map_err(|_| format!("line {}: unsupported assert!", m.span().start().line))?;
                    let (pre, c, t) = self.value(&cond, &scope)?;
                    if t != "bool" {
                        return err(m, "assert! of a non-bool");
                    }
                    let rest_s = self.stmts(rest, scope, k)?;
                    Ok(wrap(pre, format!("if {c} then\n{rest_s}\nelse Panic")))
                } else {
                    err(m, "unsupported macro statement")
                }
            }
            _ => err(first, "unsupported statement"),
        }
    }

    /// expression in tail position of the function body
    fn tail_expr(&mut self, e: &Expr, scope: &Scope) -> R<String> {
        match e {
            Expr::If(i) => {
                let (pre, c, t) = self.value(&i.cond, scope)?;
                if t != "bool" {
                    return err(e, "condition is not a bool");
                }
                let th = self.block(&i.then_branch, scope, &K::Ret)?;
                let el = match &i.else_branch {
                    Some((_, eb)) => match &**eb {
                        Expr::Block(b) => self.block(&b.block, scope, &K::Ret)?,
                        other => self.tail_expr(other, scope)?,
                    },
                    None => return err(e, "if without else in value position"),
                };
                Ok(wrap(pre, format!("if {c} then (\n{th}\n) else (\n{el}\n)")))
            }
            Expr::Block(b) if b.label.is_none() => self.block(&b.block, scope, &K::Ret),
            _ => {
                let (pre, a, _t) = self.value(e, scope)?;
                Ok(wrap(pre, self.ret_value(&a)))
            }
        }
    }

    /// expression in statement position, followed by `rest`
    fn stmt_expr(&mut self, e: &Expr, rest: &[Stmt], scope: Scope, k: &K) -> R<String> {
        match e {
            Expr::Paren(p) => self.stmt_expr(&p.expr, rest, scope, k),
            Expr::If(i) => {
                let (pre, c, t) = self.value(&i.cond, &scope)?;
                if t != "bool" {
                    return err(e, "condition is not a bool");
                }
                // the continuation is duplicated into both branches (it is nested inside the
                // branch's binders, so it sees the branch's mutations)
                let rest_s = self.stmts(rest, scope.clone(), k)?;
                let kk = K::Tail(rest_s.clone());
                let th = self.block(&i.then_branch, &scope, &kk)?;
                let el = match &i.else_branch {
                    Some((_, eb)) => match &**eb {
                        Expr::Block(b) => self.block(&b.block, &scope, &kk)?,
                        other => self.stmt_expr(other, &[], scope.clone(), &kk)?,
                    },
                    None => rest_s,
                };
                Ok(wrap(pre, format!("if {c} then (\n{th}\n) else (\n{el}\n)")))
            }
            Expr::ForLoop(f) => {
                if f.label.is_some() || has_jumps(&f.body) {
                    return err(e, "loop with break / continue / return / closure");
                }
                let x = match &*f.pat {
                    Pat::Ident(pi) if pi.by_ref.is_none() && pi.subpat.is_none() => pi.ident.to_string(),
                    _ => return err(e, "unsupported loop pattern"),
                };
                check_name(&x)?;
                if lookup(&scope, &x).is_some() {
                    return err(e, "loop variable shadows a name in scope");
                }
                let (pre, it, itt) = self.value(&f.expr, &scope)?;
                let et = match elem_ty(&itt) {
                    Some(t) => t,
                    None => return err(e, "iteration over a non-list"),
                };
                let cand = mutated(&f.body);
                let muts: Vec<(String, String)> = scope.iter().filter(|(n, _)| cand.contains(n)).cloned().collect();
                let frees: Vec<(String, String)> = scope.iter().filter(|(n, _)| !cand.contains(n)).cloned().collect();
                self.loops += 1;
                let lname = format!("{}_loop{}", self.fname, self.loops);
                let tuple = |vs: &[(String, String)]| -> String {
                    if vs.is_empty() {
                        "tt".to_string()
                    } else {
                        format!("({})", vs.iter().map(|(n, _)| coq_name(n)).collect::<Vec<_>>().join(", "))
                    }
                };
                let pat = |vs: &[(String, String)]| -> String {
                    match vs.len() {
                        0 => "_".to_string(),
                        1 => coq_name(&vs[0].0),
                        _ => format!("'({})", vs.iter().map(|(n, _)| coq_name(n)).collect::<Vec<_>>().join(", ")),
                    }
                };
                let free_args = frees.iter().map(|(n, _)| coq_name(n)).collect::<Vec<_>>().join(" ");
                let mut_args = muts.iter().map(|(n, _)| coq_name(n)).collect::<Vec<_>>().join(" ");
                let back = format!("{lname} {free_args} itl_ {mut_args}");
                let mut inner = scope.clone();
                inner.push((x.clone(), et.clone()));
                let body = self.block(&f.body, &inner, &K::Tail(back))?;
                let params = |vs: &[(String, String)]| -> String {
                    vs.iter().map(|(n, t)| format!("({} : {t})", coq_name(n))).collect::<Vec<_>>().join(" ")
                };
                self.aux.push(format!(
                    "Fixpoint {lname} {} (it_ : list {}) {} {{struct it_}} :=\n  match it_ with\n  | [] => Ok {}\n  | {} :: itl_ =>\n{body}\n  end.\n",
                    params(&frees),
                    paren_ty(&et),
                    params(&muts),
                    tuple(&muts),
                    coq_name(&x)
                ));
                let rest_s = self.stmts(rest, scope, k)?;
                Ok(wrap(
                    pre,
                    format!("bind ({lname} {free_args} {it} {mut_args}) (fun {} =>\n{rest_s})", pat(&muts)),
                ))
            }
            Expr::Binary(b) if matches!(b.op, BinOp::SubAssign(_) | BinOp::AddAssign(_)) => {
                let (n, t) = self.place(&b.left, &scope)?;
                if t != "nat" {
                    return err(e, "compound assignment to a non-usize");
                }
                let (mut pre, r, rt) = self.value(&b.right, &scope)?;
                if rt != "nat" {
                    return err(e, "compound assignment of a non-usize");
                }
                let rest_s = self.stmts(rest, scope, k)?;
                let n = coq_name(&n);
                if matches!(b.op, BinOp::SubAssign(_)) {
                    pre.push((n.clone(), format!("usub {n} {r}")));
                    Ok(wrap(pre, rest_s))
                } else {
                    Ok(wrap(pre, format!("let {n} := ({n} + {r}) in\n{rest_s}")))
                }
            }
            Expr::Assign(a) => {
                let (n, t) = self.place(&a.left, &scope)?;
                let (pre, r, rt) = self.value(&a.right, &scope)?;
                if rt != t {
                    return err(e, "assignment of a different type");
                }
                let rest_s = self.stmts(rest, scope, k)?;
                Ok(wrap(pre, format!("let {} := {r} in\n{rest_s}", coq_name(&n))))
            }
            Expr::MethodCall(m) => {
                let name = m.method.to_string();
                // table_action.insert(state, row)
                if matches!(&*m.receiver, Expr::Path(p) if p.path.is_ident("table_action")) {
                    if name != "insert" || m.args.len() != 2 || !self.has_ins || !matches!(&m.args[0], Expr::Path(p) if p.path.is_ident("state")) {
                        return err(e, "unsupported use of table_action");
                    }
                    let (pre, row, t) = self.value(&m.args[1], &scope)?;
                    if t != "list N" {
                        return err(e, "inserted row is not a list of values");
                    }
                    let rest_s = self.stmts(rest, scope, k)?;
                    return Ok(wrap(pre, format!("let ins := ins ++ [{row}] in\n{rest_s}")));
                }
                let (n, t) = self.place(&m.receiver, &scope)?;
                let n = coq_name(&n);
                let mut pre = Vec::new();
                let mut args = Vec::new();
                for a in m.args.iter() {
                    let (p, v, ty) = self.value(a, &scope)?;
                    pre.extend(p);
                    args.push((v, ty));
                }
                let is_list = elem_ty(&t).is_some();
                let rest_s = self.stmts(rest, scope, k)?;
                match (name.as_str(), args.len()) {
                    ("swap", 2) if is_list && args[0].1 == "nat" && args[1].1 == "nat" => {
                        pre.push((n.clone(), format!("vswap {n} {} {}", args[0].0, args[1].0)));
                        Ok(wrap(pre, rest_s))
                    }
                    ("sort_unstable", 0) if t == "list nat" => Ok(wrap(pre, format!("let {n} := sort_nat {n} in\n{rest_s}"))),
                    ("dedup", 0) if t == "list nat" => Ok(wrap(pre, format!("let {n} := dedup_nat {n} in\n{rest_s}"))),
                    ("truncate", 1) if is_list && args[0].1 == "nat" => {
                        Ok(wrap(pre, format!("let {n} := firstn {} {n} in\n{rest_s}", args[0].0)))
                    }
                    ("push", 1) if is_list && Some(args[0].1.clone()) == elem_ty(&t) => {
                        Ok(wrap(pre, format!("let {n} := {n} ++ [{}] in\n{rest_s}", args[0].0)))
                    }
                    _ => err(e, &format!("unsupported statement method {name}")),
                }
            }
            _ => err(e, "unsupported expression statement"),
        }
    }
}

fn struct_fields(file: &syn::File) -> HashMap<String, Vec<(String, String)>> {
    let mut out = HashMap::new();
    for it in file.items.iter() {
        if let SynItem::Struct(s) = it {
            let name = s.ident.to_string();
            if name != "Matches" && name != "Match" {
                continue;
            }
            let mut fs = Vec::new();
            let mut ok = true;
            if let syn::Fields::Named(n) = &s.fields {
                for f in n.named.iter() {
                    let t = match &f.ty {
                        // `&'a [T]`
                        Type::Reference(r) => match &*r.elem {
                            Type::Slice(sl) => coq_type(&sl.elem).map(|t| format!("list {}", paren_ty(&t))),
                            other => coq_type(other),
                        },
                        other => coq_type(other),
                    };
                    match t {
                        Ok(t) => fs.push((f.ident.as_ref().unwrap().to_string(), t)),
                        Err(_) => ok = false,
                    }
                }
            } else {
                ok = false;
            }
            if ok {
                out.insert(name, fs);
            }
        }
    }
    out
}

fn translate_method(
    m: &syn::ImplItemFn,
    structs: &HashMap<String, Vec<(String, String)>>,
    methods: &HashMap<String, Vec<String>>,
) -> R<(String, Vec<String>)> {
    let fname = m.sig.ident.to_string();
    let fields: Scope = structs
        .get("Matches")
        .ok_or("struct Matches not recognised")?
        .iter()
        .map(|(f, t)| (format!("self_{f}"), t.clone()))
        .collect();
    let mut g = Gen {
        fname: fname.clone(),
        structs,
        fields: fields.clone(),
        methods,
        aux: Vec::new(),
        tmp: 0,
        loops: 0,
        has_ins: false,
        has_state: false,
        returns_self: false,
    };
    let mut scope: Scope = Vec::new();
    let mut params: Vec<(String, String)> = Vec::new();
    let mut arg_tys = Vec::new();
    for a in m.sig.inputs.iter() {
        match a {
            FnArg::Receiver(r) => {
                if r.reference.is_some() && r.mutability.is_some() {
                    g.returns_self = true;
                }
                for (f, t) in fields.iter() {
                    scope.push((f.clone(), t.clone()));
                    params.push((f.clone(), t.clone()));
                }
            }
            FnArg::Typed(pt) => {
                let name = match &*pt.pat {
                    Pat::Ident(pi) => pi.ident.to_string(),
                    _ => return err(pt, "unsupported parameter pattern"),
                };
                let tn = type_last(&pt.ty).map(|s| s.ident.to_string()).unwrap_or_default();
                if name == "state" && tn == "ExecutionState" {
                    g.has_state = true;
                    params.push(("base_unit".into(), "N".into()));
                } else if name == "table_action" && tn == "TableAction" {
                    g.has_ins = true;
                } else {
                    check_name(&name)?;
                    let t = coq_type(&pt.ty)?;
                    scope.push((name.clone(), t.clone()));
                    params.push((coq_name(&name), t.clone()));
                    arg_tys.push(t);
                }
            }
        }
    }
    if has_jumps(&m.block) {
        return err(&m.block, "body with break / continue / return / closure / ? / while");
    }
    if g.has_ins {
        scope.push(("ins".into(), "list (list N)".into()));
    }
    let body = g.block(&m.block, &scope, &K::Ret)?;
    let ps = params.iter().map(|(n, t)| format!("({n} : {t})")).collect::<Vec<_>>().join(" ");
    let mut text = String::new();
    for a in g.aux.iter() {
        text.push_str(a);
        text.push('\n');
    }
    let init = if g.has_ins { "let ins : list (list N) := [] in\n" } else { "" };
    text.push_str(&format!("Definition {fname} {ps} :=\n{init}{body}.\n"));
    Ok((text, arg_tys))
}

// ------------------------------------------------------------------------------------------------
// Part 2: expression-level facts about step_rules_with_scheduler / SchedulerRecord

fn tokens_of<T: quote::ToTokens>(t: &T) -> String {
    t.to_token_stream().to_string().split_whitespace().collect::<Vec<_>>().join(" ")
}

fn find_fn<'a>(file: &'a syn::File, impl_ty: &str, name: &str) -> Option<&'a syn::ImplItemFn> {
    for it in file.items.iter() {
        if let SynItem::Impl(im) = it {
            if im.trait_.is_none() && type_last(&im.self_ty).map(|s| s.ident == impl_ty).unwrap_or(false) {
                for ii in im.items.iter() {
                    if let ImplItem::Fn(f) = ii {
                        if f.sig.ident == name {
                            return Some(f);
                        }
                    }
                }
            }
        }
    }
    None
}

/// all method calls / macro statements of a function body in source order, as (kind, text, line)
struct Events(Vec<(String, String, usize)>);
impl<'ast> syn::visit::Visit<'ast> for Events {
    fn visit_expr_method_call(&mut self, m: &'ast syn::ExprMethodCall) {
        // receiver first: source order of evaluation
        syn::visit::visit_expr(self, &m.receiver);
        self.0.push(("call".into(), m.method.to_string(), m.method.span().start().line));
        for a in m.args.iter() {
            syn::visit::visit_expr(self, a);
        }
    }
    fn visit_expr_call(&mut self, c: &'ast syn::ExprCall) {
        self.0.push(("fn".into(), tokens_of(&c.func), c.span().start().line));
        syn::visit::visit_expr_call(self, c);
    }
}

/// Facts (each a Gallina definition + report line):
///  * `sched_residual_recanon`: in step 3 of `step_rules_with_scheduler`, between taking the residual
///    vector out of `rule_info.matches` and `Matches::new`, every value is replaced by
///    `self.backend.get_canon_repr(*v, *ty)` whenever `free_vars` is non-empty, with chunk width
///    `tys.len()` (fix of F7, c01cd3e); and the residual stored back is the result of `instantiate`.
///  * `sched_cache_key_fields`: the key pushed by `collect_rules` is `(ruleset.to_owned(),
///    rule_name.clone())` and `SchedulerRecord::rule_info` is a map keyed by `(String, String)`
///    (fix 03b67b0); `filter_matches` gets the rule name `&rule_id.1` and the stepped ruleset.
///  * `sched_step_order`: the order of the phases: run_rules(query) ; filter_matches ; instantiate ;
///    flush_updates ; run_rules(action).
///  * `sched_query_rules_only_seeking`: the query rules run are those with `should_seek`.
fn facts(file: &syn::File, out: &mut String, rep: &mut Vec<String>) {
    let mut push = |name: &str, res: R<String>| match res {
        Ok(def) => {
            out.push_str(&def);
            out.push('\n');
            rep.push(format!("{{\"item\":\"MatchesFns.{name}\",\"file\":\"{FILE}\",\"ok\":true}}"));
        }
        Err(e) => {
            out.push_str(&format!("(* {name}: NOT RECOGNISED: {} *)\n\n", e.replace("*)", "* )")));
            rep.push(format!("{{\"item\":\"MatchesFns.{name}\",\"file\":\"{FILE}\",\"ok\":false,\"error\":{:?}}}", e));
        }
    };
    let step = find_fn(file, "EGraph", "step_rules_with_scheduler");

    // ---- sched_step_order + sched_residual_recanon ------------------------------------------
    let order = (|| -> R<String> {
        let f = step.ok_or("step_rules_with_scheduler not found")?;
        let mut ev = Events(Vec::new());
        syn::visit::Visit::visit_block(&mut ev, &f.block);
        let interesting = ["run_rules", "get_canon_repr", "filter_matches", "instantiate", "flush_updates"];
        let seq: Vec<String> = ev
            .0
            .iter()
            .filter(|(k, n, _)| (k == "call" && interesting.contains(&n.as_str())) || (k == "fn" && n == "Matches :: new"))
            .map(|(_, n, _)| if n == "Matches :: new" { "new".to_string() } else { n.clone() })
            .collect();
        // `take` also matches mem::take? (those are fn calls, not methods) — only method `take` would
        // appear; none expected
        let expect = ["run_rules", "get_canon_repr", "new", "filter_matches", "instantiate", "flush_updates", "run_rules"];
        if seq != expect {
            return Err(format!("phase order is {:?}", seq));
        }
        Ok("(** order of the phases of step_rules_with_scheduler: 0 = run_rules(query rules), 1 = residual ids\n    re-canonicalised (get_canon_repr), 2 = Matches::new, 3 = filter_matches, 4 = instantiate, 5 = flush_updates,\n    6 = run_rules(action rules) *)\nDefinition sched_step_order : list nat := [0; 1; 2; 3; 4; 5; 6].\n".to_string())
    })();
    push("sched_step_order", order);

    let recanon = (|| -> R<String> {
        let f = step.ok_or("step_rules_with_scheduler not found")?;
        // find `if !rule_info.free_vars.is_empty() { let tys = ..; for row in matches.chunks_mut(tys.len()) { for (v, ty) in row.iter_mut().zip(tys.iter()) { *v = self.backend.get_canon_repr(*v, *ty); } } }`
        struct F {
            found: Vec<String>,
        }
        impl<'ast> syn::visit::Visit<'ast> for F {
            fn visit_expr_if(&mut self, i: &'ast syn::ExprIf) {
                if tokens_of(&i.cond) == "! rule_info . free_vars . is_empty ()" && i.else_branch.is_none() {
                    for s in i.then_branch.stmts.iter() {
                        if let Stmt::Expr(Expr::ForLoop(outer), _) = s {
                            if tokens_of(&outer.expr) == "matches . chunks_mut (tys . len ())" && tokens_of(&outer.pat) == "row" && outer.body.stmts.len() == 1 {
                                if let Stmt::Expr(Expr::ForLoop(inner), _) = &outer.body.stmts[0] {
                                    if tokens_of(&inner.expr) == "row . iter_mut () . zip (tys . iter ())"
                                        && tokens_of(&inner.pat) == "(v , ty)"
                                        && inner.body.stmts.len() == 1
                                        && tokens_of(&inner.body.stmts[0]) == "* v = self . backend . get_canon_repr (* v , * ty) ;"
                                    {
                                        self.found.push("loop".into());
                                    }
                                }
                            }
                        }
                        if let Stmt::Local(l) = s {
                            if tokens_of(&l.pat).starts_with("tys") {
                                if let Some(init) = &l.init {
                                    if tokens_of(&init.expr)
                                        == "rule_info . free_vars . iter () . map (| v | v . sort . column_ty (& self . backend)) . collect ()"
                                    {
                                        self.found.push("tys".into());
                                    }
                                }
                            }
                        }
                    }
                }
                syn::visit::visit_expr_if(self, i);
            }
            fn visit_local(&mut self, l: &'ast syn::Local) {
                if let Some(init) = &l.init {
                    let t = tokens_of(&init.expr);
                    if tokens_of(&l.pat).starts_with("mut matches") && t == "std :: mem :: take (rule_info . matches . lock () . unwrap () . as_mut ())" {
                        self.found.push("take".into());
                    }
                    if tokens_of(&l.pat) == "mut matches" && t == "Matches :: new (matches , rule_info . free_vars . clone ())" {
                        self.found.push("new".into());
                    }
                }
                syn::visit::visit_local(self, l);
            }
            fn visit_expr_assign(&mut self, a: &'ast syn::ExprAssign) {
                if tokens_of(&a.left) == "* rule_info . matches . lock () . unwrap ()" && tokens_of(&a.right) == "matches . instantiate (state , & table_action)" {
                    self.found.push("store".into());
                }
                syn::visit::visit_expr_assign(self, a);
            }
        }
        let mut v = F { found: Vec::new() };
        syn::visit::Visit::visit_block(&mut v, &f.block);
        let expect = ["take", "tys", "loop", "new", "store"];
        if v.found != expect {
            return Err(format!("residual handling of step 3 not recognised: {:?}", v.found));
        }
        Ok("(** step 3: the residual vector is taken out of the side cell, every value of every row (row width =\n    number of free variables) is replaced by `backend.get_canon_repr(value, column type)` when the rule has\n    free variables, then handed to Matches::new; the cell receives what `instantiate` returns *)\nDefinition sched_residual_recanon : bool := true.\nDefinition sched_residual_stored_from_instantiate : bool := true.\n".to_string())
    })();
    push("sched_residual_recanon", recanon);

    // ---- sched_cache_key_fields -----------------------------------------------------------------
    let key = (|| -> R<String> {
        let f = step.ok_or("step_rules_with_scheduler not found")?;
        struct F {
            push_key: Option<String>,
            contains: Option<String>,
            insert: Option<String>,
            filter_args: Option<String>,
        }
        impl<'ast> syn::visit::Visit<'ast> for F {
            fn visit_expr_method_call(&mut self, m: &'ast syn::ExprMethodCall) {
                let name = m.method.to_string();
                let recv = tokens_of(&m.receiver);
                let args: Vec<String> = m.args.iter().map(tokens_of).collect();
                if name == "push" && recv == "ids" && args.len() == 1 {
                    self.push_key = Some(args[0].clone());
                }
                if name == "contains_key" && recv == "record . rule_info" && args.len() == 1 {
                    self.contains = Some(args[0].clone());
                }
                if name == "insert" && recv == "record . rule_info" && args.len() == 2 {
                    self.insert = Some(args.join(" | "));
                }
                if name == "filter_matches" {
                    self.filter_args = Some(args.join(" | "));
                }
                syn::visit::visit_expr_method_call(self, m);
            }
        }
        let mut v = F { push_key: None, contains: None, insert: None, filter_args: None };
        syn::visit::Visit::visit_block(&mut v, &f.block);
        if v.push_key.as_deref() != Some("((ruleset . to_owned () , rule_name . clone ()) , core_rule)") {
            return Err(format!("collect_rules key is {:?}", v.push_key));
        }
        if v.contains.as_deref() != Some("id") || v.insert.as_deref() != Some("id . clone () | info") {
            return Err(format!("cache lookup/insert not by the collected id: {:?} {:?}", v.contains, v.insert));
        }
        if v.filter_args.as_deref() != Some("& rule_id . 1 | ruleset | & mut matches") {
            return Err(format!("filter_matches arguments are {:?}", v.filter_args));
        }
        // the map type
        let mut map_ty = None;
        for it in file.items.iter() {
            if let SynItem::Struct(s) = it {
                if s.ident == "SchedulerRecord" {
                    for fld in s.fields.iter() {
                        if fld.ident.as_ref().map(|i| i == "rule_info").unwrap_or(false) {
                            map_ty = Some(tokens_of(&fld.ty));
                        }
                    }
                }
            }
        }
        if map_ty.as_deref() != Some("HashMap < (String , String) , SchedulerRuleInfo >") {
            return Err(format!("SchedulerRecord::rule_info has type {:?}", map_ty));
        }
        Ok("(** the compiled-rule cache of a scheduler is keyed by the pair (owning ruleset, rule name): component 0 =\n    ruleset, 1 = rule name; number of key components *)\nDefinition sched_cache_key_fields : list nat := [0; 1].\n".to_string())
    })();
    push("sched_cache_key_fields", key);

    // ---- sched_query_rules_only_seeking ---------------------------------------------------------
    let seek = (|| -> R<String> {
        let f = step.ok_or("step_rules_with_scheduler not found")?;
        struct F(bool, bool);
        impl<'ast> syn::visit::Visit<'ast> for F {
            fn visit_expr_if(&mut self, i: &'ast syn::ExprIf) {
                if tokens_of(&i.cond) == "rule_info . should_seek" {
                    let th = tokens_of(&i.then_branch);
                    let el = i.else_branch.as_ref().map(|(_, e)| tokens_of(e)).unwrap_or_default();
                    if th == "{ Some (rule_info . query_rule) }" && el == "{ None }" {
                        self.0 = true;
                    }
                }
                syn::visit::visit_expr_if(self, i);
            }
            fn visit_expr_assign(&mut self, a: &'ast syn::ExprAssign) {
                if tokens_of(&a.left) == "rule_info . should_seek" && tokens_of(&a.right).contains(". filter_matches (") {
                    self.1 = true;
                }
                syn::visit::visit_expr_assign(self, a);
            }
        }
        let mut v = F(false, false);
        syn::visit::Visit::visit_block(&mut v, &f.block);
        if !(v.0 && v.1) {
            return Err(format!("should_seek handling not recognised ({}, {})", v.0, v.1));
        }
        Ok("(** a rule's query rule is run iff its `should_seek`, which is what its last filter_matches returned *)\nDefinition sched_query_iff_should_seek : bool := true.\n".to_string())
    })();
    push("sched_query_iff_should_seek", seek);
}

pub fn generate(repo: &std::path::Path) -> (String, Vec<String>) {
    let mut rep = Vec::new();
    let mut out = String::from(
        "(* GENERATED by /verif/translator (x_matches.rs) from src/scheduler.rs; do not edit *)\nFrom Coq Require Import List Arith NArith PeanoNat Bool.\nImport ListNotations.\nRequire Import Verif.Base.Res Verif.Sched.MatchesPrelude.\n\n",
    );
    let src = match std::fs::read_to_string(repo.join(FILE)) {
        Ok(s) => s,
        Err(e) => {
            rep.push(format!("{{\"item\":\"MatchesFns\",\"file\":\"{FILE}\",\"ok\":false,\"error\":{:?}}}", e.to_string()));
            return ("(* GENERATED: cannot read src/scheduler.rs *)\n".into(), rep);
        }
    };
    let file = match syn::parse_file(&src) {
        Ok(f) => f,
        Err(e) => {
            rep.push(format!("{{\"item\":\"MatchesFns\",\"file\":\"{FILE}\",\"ok\":false,\"error\":{:?}}}", e.to_string()));
            return ("(* GENERATED: cannot parse src/scheduler.rs *)\n".into(), rep);
        }
    };
    let structs = struct_fields(&file);
    if let Some(fs) = structs.get("Matches") {
        out.push_str(&format!(
            "(** a `Matches` value is the tuple of its fields: ({}) *)\n\n",
            fs.iter().map(|(n, t)| format!("{n} : {t}")).collect::<Vec<_>>().join(", ")
        ));
    }
    let mut methods: HashMap<String, Vec<String>> = HashMap::new();
    for name in METHODS {
        let res = match find_fn(&file, "Matches", name) {
            Some(m) => translate_method(m, &structs, &methods),
            None => Err(format!("method Matches::{name} not found")),
        };
        match res {
            Ok((text, arg_tys)) => {
                out.push_str(&text);
                out.push('\n');
                methods.insert(name.to_string(), arg_tys);
                rep.push(format!("{{\"item\":\"MatchesFns.{name}\",\"file\":\"{FILE}\",\"ok\":true}}"));
            }
            Err(e) => {
                out.push_str(&format!("(* Matches::{name}: translation FAILED: {} *)\n\n", e.replace("*)", "* )")));
                rep.push(format!("{{\"item\":\"MatchesFns.{name}\",\"file\":\"{FILE}\",\"ok\":false,\"error\":{:?}}}", e));
            }
        }
    }
    facts(&file, &mut out, &mut rep);
    (out, rep)
}
