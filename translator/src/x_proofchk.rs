//! Extension module (Tier A) for C12. Output: coq/gen/ProofChkFacts.v
//!
//! Regenerates, from the proof checker's source, the DISPATCH TABLES the Gallina checker
//! (coq/ProofChk/Checker.v) re-implements by hand:
//!   * `justification_kinds`  src/proofs/proof_format.rs   variants (+ field names) of `enum Justification`
//!   * `checker_arms`         src/proofs/proof_checker.rs  arms of `match &proof.justification` in
//!                            `ProofStore::check_proof_with_context`
//!   * `action_arms`          src/proofs/proof_checker.rs  arms of `match action` in `process_actions`
//!   * `fact_arms`            src/proofs/proof_checker.rs  arms of `match fact` in
//!                            `check_fact_matches_proposition`
//!   * `ctx_new_errs`         src/proofs/proof_checker.rs  error kinds `ProofCheckContext::new` can raise
//!   * `run_merge_shape`      src/proofs/proof_checker.rs  error kinds / comparisons / calls of `run_merge`
//! Per match arm: the pattern, the guard, the number of recursive `check_proof_with_context` calls
//! (outside / inside a loop), the `ProofCheckErrorKind::X` it can raise (source order), every `==` /
//! `!=` comparison (source order, both operands as text), and the helper calls (`self.f`, `ctx.f`,
//! lower-case free functions, `.contains` / `.insert` / `.extend` with their receiver).
//!
//! Contract: return (text of the .v file, report lines). Fail closed: when a site is not
//! recognised, OMIT the Gallina definition and push an ok:false report line.
use quote::ToTokens;
use std::path::Path;
use syn::visit::Visit;

fn toks<T: ToTokens>(t: &T) -> String {
    let s = t.to_token_stream().to_string();
    // token streams print with spaces between tokens; drop them except inside string literals
    let mut out = String::new();
    let mut in_str = false;
    let mut prev = ' ';
    for c in s.chars() {
        if c == '"' && prev != '\\' {
            in_str = !in_str;
        }
        if c.is_whitespace() && !in_str {
            prev = c;
            continue;
        }
        out.push(c);
        prev = c;
    }
    out
}

fn coq_str(s: &str) -> String {
    format!("\"{}\"", s.replace('"', "\"\""))
}

fn coq_str_list(v: &[String]) -> String {
    format!("[{}]", v.iter().map(|s| coq_str(s)).collect::<Vec<_>>().join("; "))
}

fn find_fn(file: &syn::File, name: &str, nth: usize) -> Option<syn::Block> {
    struct F<'n> {
        name: &'n str,
        found: Vec<syn::Block>,
    }
    impl<'ast, 'n> Visit<'ast> for F<'n> {
        fn visit_impl_item_fn(&mut self, f: &'ast syn::ImplItemFn) {
            if f.sig.ident == self.name {
                self.found.push(f.block.clone());
            }
            syn::visit::visit_impl_item_fn(self, f);
        }
        fn visit_item_fn(&mut self, f: &'ast syn::ItemFn) {
            if f.sig.ident == self.name {
                self.found.push((*f.block).clone());
            }
            syn::visit::visit_item_fn(self, f);
        }
    }
    let mut v = F { name, found: vec![] };
    v.visit_file(file);
    v.found.into_iter().nth(nth)
}

/// the method `name` inside `impl <ty>`
fn find_impl_fn(file: &syn::File, ty: &str, name: &str) -> Option<syn::Block> {
    for it in &file.items {
        if let syn::Item::Impl(im) = it {
            if im.trait_.is_none() && toks(&*im.self_ty) == ty {
                for ii in &im.items {
                    if let syn::ImplItem::Fn(f) = ii {
                        if f.sig.ident == name {
                            return Some(f.block.clone());
                        }
                    }
                }
            }
        }
    }
    None
}

fn find_match(block: &syn::Block, scrutinee: &str) -> Option<syn::ExprMatch> {
    struct M<'n> {
        scrutinee: &'n str,
        found: Option<syn::ExprMatch>,
    }
    impl<'ast, 'n> Visit<'ast> for M<'n> {
        fn visit_expr_match(&mut self, m: &'ast syn::ExprMatch) {
            if self.found.is_none() && toks(&*m.expr) == self.scrutinee {
                self.found = Some(m.clone());
                return;
            }
            syn::visit::visit_expr_match(self, m);
        }
    }
    let mut v = M { scrutinee, found: None };
    v.visit_block(block);
    v.found
}

#[derive(Default, Debug)]
struct Shape {
    rec: usize,
    rec_loop: usize,
    errs: Vec<String>,
    cmps: Vec<(String, String, String)>,
    calls: Vec<String>,
    loop_depth: usize,
}

impl<'ast> Visit<'ast> for Shape {
    fn visit_expr_for_loop(&mut self, e: &'ast syn::ExprForLoop) {
        self.visit_expr(&e.expr);
        self.loop_depth += 1;
        self.visit_block(&e.body);
        self.loop_depth -= 1;
    }
    fn visit_expr_while(&mut self, e: &'ast syn::ExprWhile) {
        self.loop_depth += 1;
        syn::visit::visit_expr_while(self, e);
        self.loop_depth -= 1;
    }
    fn visit_expr_loop(&mut self, e: &'ast syn::ExprLoop) {
        self.loop_depth += 1;
        syn::visit::visit_expr_loop(self, e);
        self.loop_depth -= 1;
    }
    fn visit_expr_method_call(&mut self, e: &'ast syn::ExprMethodCall) {
        let recv = toks(&*e.receiver);
        let name = e.method.to_string();
        if name == "check_proof_with_context" {
            if self.loop_depth > 0 {
                self.rec_loop += 1;
            } else {
                self.rec += 1;
            }
        } else if recv == "self" || recv == "ctx" {
            self.calls.push(format!("{recv}.{name}"));
        } else if name == "contains" || name == "insert" || name == "extend" {
            self.calls.push(format!("{recv}.{name}"));
        }
        syn::visit::visit_expr_method_call(self, e);
    }
    fn visit_expr_call(&mut self, e: &'ast syn::ExprCall) {
        if let syn::Expr::Path(p) = &*e.func {
            if p.path.segments.len() == 1 {
                let n = p.path.segments[0].ident.to_string();
                // format_term / format_substitution only build error messages
                if n.chars().next().map(|c| c.is_lowercase()).unwrap_or(false) && !n.starts_with("format") {
                    self.calls.push(n);
                }
            }
        }
        syn::visit::visit_expr_call(self, e);
    }
    fn visit_path(&mut self, p: &'ast syn::Path) {
        let segs: Vec<String> = p.segments.iter().map(|s| s.ident.to_string()).collect();
        if segs.len() == 2 && segs[0] == "ProofCheckErrorKind" {
            self.errs.push(segs[1].clone());
        }
        syn::visit::visit_path(self, p);
    }
    fn visit_expr_binary(&mut self, e: &'ast syn::ExprBinary) {
        let op = match e.op {
            syn::BinOp::Eq(_) => Some("=="),
            syn::BinOp::Ne(_) => Some("!="),
            syn::BinOp::Ge(_) => Some(">="),
            syn::BinOp::Gt(_) => Some(">"),
            syn::BinOp::Le(_) => Some("<="),
            syn::BinOp::Lt(_) => Some("<"),
            _ => None,
        };
        if let Some(op) = op {
            self.cmps.push((op.to_string(), toks(&*e.left), toks(&*e.right)));
        }
        syn::visit::visit_expr_binary(self, e);
    }
    fn visit_macro(&mut self, m: &'ast syn::Macro) {
        let name = m.path.segments.last().map(|s| s.ident.to_string()).unwrap_or_default();
        if name == "matches" {
            self.cmps.push(("matches".to_string(), toks(&m.tokens), String::new()));
        } else if name == "panic" || name == "unreachable" || name == "todo" || name == "unimplemented" {
            self.calls.push(format!("{name}!"));
        }
    }
}

fn shape_record(pat: &str, guard: &str, s: &Shape) -> String {
    let cmps: Vec<String> = s.cmps.iter().map(|(o, l, r)| format!("({}, {}, {})", coq_str(o), coq_str(l), coq_str(r))).collect();
    format!(
        "  mkArm {} {} {} {}\n    {}\n    [{}]\n    {}",
        coq_str(pat),
        coq_str(guard),
        s.rec,
        s.rec_loop,
        coq_str_list(&s.errs),
        cmps.join("; "),
        coq_str_list(&s.calls)
    )
}

fn arms_of(file: &syn::File, owner: Option<&str>, func: &str, nth: usize, scrutinee: &str, def: &str) -> Result<String, String> {
    let body = match owner {
        Some(ty) => find_impl_fn(file, ty, func).ok_or(format!("method {ty}::{func} not found"))?,
        None => find_fn(file, func, nth).ok_or(format!("fn {func} not found"))?,
    };
    let m = find_match(&body, scrutinee).ok_or(format!("`match {scrutinee}` not found in {func}"))?;
    if m.arms.is_empty() {
        return Err(format!("`match {scrutinee}` in {func} has no arms"));
    }
    let mut recs = Vec::new();
    for arm in &m.arms {
        if matches!(arm.pat, syn::Pat::Wild(_)) {
            return Err(format!("`match {scrutinee}` in {func} has a wildcard arm: the dispatch is no longer explicit"));
        }
        let mut s = Shape::default();
        if let Some((_, g)) = &arm.guard {
            s.visit_expr(g);
        }
        s.visit_expr(&arm.body);
        let guard = arm.guard.as_ref().map(|(_, g)| toks(&**g)).unwrap_or_default();
        recs.push(shape_record(&toks(&arm.pat), &guard, &s));
    }
    Ok(format!(
        "(* src/proofs/proof_checker.rs {func}: arms of `match {scrutinee}` *)\nDefinition {def} : list arm := [\n{}\n].\n",
        recs.join(";\n")
    ))
}

fn fn_shape(file: &syn::File, owner: Option<&str>, func: &str, def: &str) -> Result<String, String> {
    let body = match owner {
        Some(ty) => find_impl_fn(file, ty, func).ok_or(format!("method {ty}::{func} not found"))?,
        None => find_fn(file, func, 0).ok_or(format!("fn {func} not found"))?,
    };
    let mut s = Shape::default();
    s.visit_block(&body);
    Ok(format!(
        "(* src/proofs/proof_checker.rs {func}: whole body *)\nDefinition {def} : arm :=\n{}.\n",
        shape_record(func, "", &s)
    ))
}

fn justification_kinds(file: &syn::File) -> Result<String, String> {
    for it in &file.items {
        if let syn::Item::Enum(e) = it {
            if e.ident == "Justification" {
                let mut rows = Vec::new();
                for v in &e.variants {
                    let fields: Vec<String> = match &v.fields {
                        syn::Fields::Unit => vec![],
                        syn::Fields::Named(n) => n.named.iter().map(|f| format!("{}:{}", f.ident.as_ref().unwrap(), toks(&f.ty))).collect(),
                        syn::Fields::Unnamed(u) => u.unnamed.iter().map(|f| toks(&f.ty)).collect(),
                    };
                    rows.push(format!("  ({}, {})", coq_str(&v.ident.to_string()), coq_str_list(&fields)));
                }
                if rows.is_empty() {
                    return Err("enum Justification has no variants".into());
                }
                return Ok(format!(
                    "(* src/proofs/proof_format.rs enum Justification *)\nDefinition justification_kinds : list (string * list string) := [\n{}\n].\n",
                    rows.join(";\n")
                ));
            }
        }
    }
    Err("enum Justification not found".into())
}

pub fn generate(repo: &Path) -> (String, Vec<String>) {
    let mut out = String::from(
        "(* GENERATED by /verif/translator (x_proofchk.rs) from src/proofs/proof_checker.rs and\n   src/proofs/proof_format.rs. Do not edit. *)\nFrom Coq Require Import List String.\nImport ListNotations.\nOpen Scope string_scope.\n\n(** one match arm (or one whole function body) of the proof checker: pattern, guard, number of\n    recursive check_proof_with_context calls outside / inside a loop, the ProofCheckErrorKind it\n    can raise, its comparisons (operator, left, right) and its helper calls, all in source order *)\nRecord arm := mkArm {\n  a_pat : string; a_guard : string; a_rec : nat; a_rec_loop : nat;\n  a_errs : list string; a_cmps : list (string * string * string); a_calls : list string }.\n\n",
    );
    let mut report = Vec::new();
    let mut push = |out: &mut String, item: &str, file: &str, r: Result<String, String>| match r {
        Ok(t) => {
            out.push_str(&t);
            out.push('\n');
            report.push(format!("{{\"item\":\"ProofChkFacts.{item}\",\"file\":\"{file}\",\"ok\":true}}"));
        }
        Err(e) => {
            out.push_str(&format!("(* {item}: NOT REGENERATED: {} *)\n\n", e.replace("*)", "* )")));
            report.push(format!(
                "{{\"item\":\"ProofChkFacts.{item}\",\"file\":\"{file}\",\"ok\":false,\"error\":\"{}\"}}",
                e.replace('\\', "\\\\").replace('"', "\\\"")
            ));
        }
    };

    let pf = "src/proofs/proof_format.rs";
    let pc = "src/proofs/proof_checker.rs";
    let parse = |rel: &str| -> Result<syn::File, String> {
        let src = std::fs::read_to_string(repo.join(rel)).map_err(|e| format!("{rel}: {e}"))?;
        syn::parse_file(&src).map_err(|e| format!("{rel}: {e}"))
    };
    match parse(pf) {
        Ok(f) => push(&mut out, "justification_kinds", pf, justification_kinds(&f)),
        Err(e) => push(&mut out, "justification_kinds", pf, Err(e)),
    }
    match parse(pc) {
        Ok(f) => {
            push(&mut out, "checker_arms", pc, arms_of(&f, Some("ProofStore"), "check_proof_with_context", 0, "&proof.justification", "checker_arms"));
            push(&mut out, "action_arms", pc, arms_of(&f, None, "process_actions", 0, "action", "action_arms"));
            push(&mut out, "fact_arms", pc, arms_of(&f, Some("ProofStore"), "check_fact_matches_proposition", 0, "fact", "fact_arms"));
            push(&mut out, "eval_props_arms", pc, arms_of(&f, None, "eval_expr_with_subst", 0, "expr", "eval_props_arms"));
            push(&mut out, "eval_term_arms", pc, arms_of(&f, Some("ProofStore"), "eval_expr_with_subst", 0, "expr", "eval_term_arms"));
            push(&mut out, "ctx_new_shape", pc, fn_shape(&f, Some("ProofCheckContext"), "new", "ctx_new_shape"));
            push(&mut out, "run_merge_shape", pc, fn_shape(&f, None, "run_merge", "run_merge_shape"));
            push(&mut out, "rule_produces_shape", pc, fn_shape(&f, Some("ProofStore"), "check_rule_produces_equality", "rule_produces_shape"));
        }
        Err(e) => {
            for it in ["checker_arms", "action_arms", "fact_arms", "eval_props_arms", "eval_term_arms", "ctx_new_shape", "run_merge_shape", "rule_produces_shape"] {
                push(&mut out, it, pc, Err(e.clone()));
            }
        }
    }
    (out, report)
}
