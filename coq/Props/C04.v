(** C04 — The database is canonical and consistent after every command (invariant part over the
    Egg model; the lead adds the theorems about failing commands / containers / serialisation).
    This file only pins statements and prints their assumptions. *)
From Coq Require Import List Arith PeanoNat ZArith.
Import ListNotations.
Require Import Verif.Base.Res Verif.gen.UFSeq Verif.gen.MergeArms Verif.UF.Seq
  Verif.Egg.Model Verif.Egg.CmdOk Verif.Egg.CCDefs Verif.Egg.Rebuild Verif.Egg.CC.

(** After EVERY command history over constructor tables, when control returns:
    the union-find order invariant holds; every e-class id stored in any column of any row is in
    range and is the canonical representative of its class; every table holds at most one row per
    key; and congruent rows (keys equal modulo the union-find) have been merged. *)
Theorem c04_inv_reachable : forall n sg cs s,
  Forall (fun m => m = MUnionId) sg ->
  run sg (init n) cs = Ok s ->
  Inv (uf s) /\ length (wit s) = length (uf s) /\ length (tabs s) = n /\
  (forall f r i, In r (get_tab (tabs s) f) -> (In (VId i) (rargs r) \/ rret r = VId i) ->
     i < length (uf s) /\ par (uf s) i = i /\ rep (uf s) i = i) /\
  (forall f r, In r (get_tab (tabs s) f) -> exists i, rret r = VId i) /\
  (forall f, NoDup (map rargs (get_tab (tabs s) f))) /\
  (forall f r1 r2, In r1 (get_tab (tabs s) f) -> In r2 (get_tab (tabs s) f) ->
     map (canon (uf s)) (rargs r1) = map (canon (uf s)) (rargs r2) -> r1 = r2).
Proof. exact CC.c04_inv_reachable. Qed.
Print Assumptions c04_inv_reachable.

(** "Everything the engine has recorded as equal is already visible to the very next query":
    on a reachable state, plain lookups ([eval], which never consults the union-find) give exactly
    the evaluation modulo the union-find ([R]: any row whose canonicalised key matches). *)
Theorem c04_eval_is_eval_modulo_uf : forall n sg cs s t v,
  Forall (fun m => m = MUnionId) sg ->
  run sg (init n) cs = Ok s ->
  (eval s t = Some v <-> R (uf s) (tabs s) t v).
Proof. exact CC.c04_eval_is_eval_modulo_uf. Qed.
Print Assumptions c04_eval_is_eval_modulo_uf.

(** non-vacuity: the final tables of the chain example (f-table has 3 rows after 6 were inserted
    and merged; all ids are roots of the final union-find) *)
Example c04_example_tables :
  bind (run Ex.sg (init 4) Ex.cs1) (fun s => Ok (uf s, map (map (fun r => (rargs r, rret r))) (tabs s)))
  = Ok ([0; 1; 2; 3; 0; 1; 2; 3; 8],
        [[([], VId 0)]; [([], VId 0)];
         [([VId 0], VId 1); ([VId 1], VId 2); ([VId 2], VId 3)];
         [([], VId 8)]]).
Proof. vm_compute. reflexivity. Qed.
