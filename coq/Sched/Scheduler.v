(** C18 — custom schedulers (src/scheduler.rs). Executable definitions only; the proofs are in
    Sched/SchedulerProofs.v.

    Part A: the bookkeeping of [Matches] ([choose], [choose_all], [instantiate] with its
            swap-remove loop), hand-written after scheduler.rs:114-166 and tied to the code by
            the harness h_sched2 (the exact residual ORDER the engine offers at the next call is
            compared with [instantiate] on every recorded call).
    Part B: [step_rules_with_scheduler] (scheduler.rs:188-317) over the shared Egg model
            ([Egg/Rules.v]): the scheduler is an ARBITRARY function (Section variable), the residual
            matches live OUTSIDE the database as tuples of raw values (never rebuilt; the step
            canonicalises them through the union-find before offering them again),
            queries are [Rules.match_body] over the non-subsumed rows.
    Part C: the checker for the cases written by the harness. *)
From Coq Require Import List Arith ZArith Bool PeanoNat.
Import ListNotations.
Require Import Verif.Base.Res Verif.Base.Cases Verif.gen.UFSeq Verif.Egg.Model Verif.Egg.Rules.

(* ====================================================================================== *)
(** * Part A: Matches::instantiate *)

Section Inst.
  Context {A : Type}.   (* one stored tuple ([tuple_width] consecutive values of the Vec) *)

  (** [self.matches.swap(idx_c + i, idx_p + i)] for every [i] of the tuple: exchange two tuples;
      indexing out of bounds panics *)
  Definition swap (m : list A) (c p : nat) : Res (list A) :=
    bind (idx m c) (fun a => bind (idx m p) (fun b =>
    bind (upd m c b) (fun m1 => upd m1 p a))).

  (** [for c in self.chosen.into_iter().rev() { p -= 1; if c != p { swap } }]
      ([p -= 1] on [0usize] is a panic in debug builds / wraps in release: modelled as Panic) *)
  Fixpoint swap_remove (cs_desc : list nat) (p : nat) (m : list A) : Res (nat * list A) :=
    match cs_desc with
    | [] => Ok (p, m)
    | c :: tl =>
        match p with
        | O => Panic
        | S p' => bind (if Nat.eqb c p' then Ok m else swap m c p') (fun m' => swap_remove tl p' m')
        end
    end.

  Fixpoint mapM {B} (f : nat -> Res B) (l : list nat) : Res (list B) :=
    match l with
    | [] => Ok []
    | x :: tl => bind (f x) (fun b => bind (mapM f tl) (fun bs => Ok (b :: bs)))
    end.

  (** [chosen.sort_unstable(); chosen.dedup()] of a list of indices below [n]: the increasing
      enumeration of the indices that occur in it *)
  Definition sort_dedup (chosen : list nat) (n : nat) : list nat :=
    filter (fun i => existsb (Nat.eqb i) chosen) (seq 0 n).

  (** [(rows inserted into the `decided` table in insertion order, residual matches)] *)
  Definition instantiate (m : list A) (chosen : list nat) (all : bool) : Res (list A * list A) :=
    if all then Ok (m, [])
    else
      bind (mapM (idx m) chosen) (fun ins =>
      bind (swap_remove (rev (sort_dedup chosen (length m))) (length m) m) (fun '(p, m') =>
      Ok (ins, firstn p m'))).
End Inst.

(* ====================================================================================== *)
(** * Part B: stepping with a scheduler *)

(** a match as the scheduler and the side vector hold it: the RAW values of the free variables of
    the rule head, in the order of [fv] *)
Definition tuple := list (option val).

Definition proj (fv : list nat) (e : env) : tuple := map (env_get e) fv.

Fixpoint env_of (fv : list nat) (t : tuple) : env :=
  match fv, t with
  | x :: fv', Some v :: t' => (x, v) :: env_of fv' t'
  | _ :: fv', None :: t' => env_of fv' t'
  | _, _ => []
  end.

(** variables of a pattern / of a rule head ([rule.head.get_free_vars()]) *)
Fixpoint pat_vars (p : pat) : list nat :=
  match p with
  | PVar x => [x]
  | PApp _ ps => flat_map pat_vars ps
  | PInt _ => []
  | PAdd a b => pat_vars a ++ pat_vars b
  end.

Definition action_vars (a : action) : list nat :=
  match a with
  | AExpr p => pat_vars p
  | AUnion p q => pat_vars p ++ pat_vars q
  | ASet _ ps v => flat_map pat_vars ps ++ pat_vars v
  | ASubsume _ ps => flat_map pat_vars ps
  | ADelete _ ps => flat_map pat_vars ps
  | APanic => []
  end.

Definition head_vars (r : rule) : list nat := nodup Nat.eq_dec (flat_map action_vars (rhead r)).

(** ** value-level commands

    The engine applies a decided match with the VALUES it holds. [Rules.v] instantiates actions
    through witness TERMS, which re-reads every id through the tables and so is automatically
    "modulo the current equalities". A match whose ids are all canonical when it is applied is
    executed exactly as [Rules.v] does (for canonical ids the two readings coincide on the Egg
    model); a match that holds a displaced id would be executed with the raw ids ([VRaw]) — this
    was finding F7; since the step canonicalises the side vector first ([canon_t]), that branch
    is proved unreachable from well-formed states ([c18_canonical_after_step]). *)
Inductive vterm := VT (f : nat) (args : list vterm) | VI (z : Z) | VRaw (i : nat).

Fixpoint embed (t : term) : vterm :=
  match t with
  | T f ts => VT f (map embed ts)
  | TI z => VI z
  end.

Fixpoint vadd (s : state) (t : vterm) : state * val :=
  match t with
  | VI z => (s, VInt z)
  | VRaw i => (s, VId i)
  | VT f ts =>
      let fix adds (s : state) (l : list vterm) : state * list val :=
        match l with
        | [] => (s, [])
        | x :: tl => let '(s1, v) := vadd s x in
                     let '(s2, vs) := adds s1 tl in (s2, v :: vs)
        end in
      let '(s', vs) := adds s ts in add_node s' f vs
  end.

Fixpoint vadds (s : state) (l : list vterm) : state * list val :=
  match l with
  | [] => (s, [])
  | x :: tl => let '(s1, v) := vadd s x in
               let '(s2, vs) := vadds s1 tl in (s2, v :: vs)
  end.

Inductive vcmd :=
| VAdd (t : vterm)
| VUnion (a b : vterm)
| VSet (f : nat) (ts : list vterm) (v : vterm)
| VSubsume (f : nat) (ts : list vterm)
| VDelete (f : nat) (ts : list vterm)
| VPanic.

Definition embed_cmd (c : xcmd) : vcmd :=
  match c with
  | XC (CAdd t) => VAdd (embed t)
  | XC (CUnion a b) => VUnion (embed a) (embed b)
  | XSet f ts v => VSet f (map embed ts) (embed v)
  | XSubsume f ts => VSubsume f (map embed ts)
  | XDelete f ts => VDelete f (map embed ts)
  | XPanic => VPanic
  end.

(** [Rules.xexec] / [Model.exec] with [vadd] in the place of [add_term] *)
Definition vexec (sg : list mergefn) (s : state) (c : vcmd) : xres :=
  match c with
  | VAdd t => (fst (vadd s t), None)
  | VUnion t1 t2 =>
      let '(s1, v1) := vadd s t1 in
      let '(s2, v2) := vadd s1 t2 in
      match v1, v2 with
      | VId a, VId b =>
          match bind (uf_union (uf s2) a b) (fun p' =>
                  let s3 := mkSt p' (tabs s2) (wit s2) in
                  bind (rebuild (rebuild_fuel s3) sg s3) (fun '(s4, _) => Ok s4)) with
          | Ok s' => (s', None)
          | _ => (s, Some 4)
          end
      | _, _ => (s2, None)
      end
  | VSet f ts v =>
      let '(s1, vs) := vadds s ts in
      let '(s2, w) := vadd s1 v in
      let m := nth f sg MUnionId in
      let '(t', us, e) := tab_insert m (get_tab (tabs s2) f) (mkRow vs w false) in
      let s3 := mkSt (uf s2) (set_tab (tabs s2) f t') (wit s2) in
      if e then (s3, Some 2)
      else match uf_unions (uf s3) us with
           | Ok p' => match us with
                      | [] => (s3, None)
                      | _ => do_rebuild sg (mkSt p' (tabs s3) (wit s3))
                      end
           | _ => (s3, Some 4)
           end
  | VSubsume f ts =>
      let '(s0, vs) := vadds s ts in
      let '(s1, _) := add_node s0 f vs in
      (mkSt (uf s1) (set_tab (tabs s1) f (tab_subsume (get_tab (tabs s1) f) vs)) (wit s1), None)
  | VDelete f ts =>
      let '(s1, vs) := vadds s ts in
      (mkSt (uf s1) (set_tab (tabs s1) f (tab_remove (get_tab (tabs s1) f) vs)) (wit s1), None)
  | VPanic => (s, Some 1)
  end.

Fixpoint vrun (sg : list mergefn) (s : state) (cs : list vcmd) : xres :=
  match cs with
  | [] => (s, None)
  | c :: tl => match vexec sg s c with
               | (s', None) => vrun sg s' tl
               | r => r
               end
  end.

(** instantiate an action pattern with the raw values of a match *)
Fixpoint rground (e : env) (p : pat) : option vterm :=
  match p with
  | PVar x => match env_get e x with
              | Some (VId i) => Some (VRaw i)
              | Some (VInt z) => Some (VI z)
              | None => None
              end
  | PInt z => Some (VI z)
  | PAdd _ _ => match int_of e p with Some z => Some (VI z) | None => None end
  | PApp f ps =>
      let fix rgrounds (ps : list pat) : option (list vterm) :=
        match ps with
        | [] => Some []
        | p :: tl => match rground e p, rgrounds tl with
                     | Some t, Some ts => Some (t :: ts)
                     | _, _ => None
                     end
        end in
      match rgrounds ps with Some ts => Some (VT f ts) | None => None end
  end.

Fixpoint rgrounds (e : env) (ps : list pat) : option (list vterm) :=
  match ps with
  | [] => Some []
  | p :: tl => match rground e p, rgrounds e tl with
               | Some t, Some ts => Some (t :: ts)
               | _, _ => None
               end
  end.

Definition rground_action (e : env) (a : action) : option vcmd :=
  match a with
  | AExpr p => option_map VAdd (rground e p)
  | AUnion p q => match rground e p, rground e q with
                  | Some a, Some b => Some (VUnion a b)
                  | _, _ => None
                  end
  | ASet f ps v => match rgrounds e ps, rground e v with
                   | Some ts, Some t => Some (VSet f ts t)
                   | _, _ => None
                   end
  | ASubsume f ps => option_map (VSubsume f) (rgrounds e ps)
  | ADelete f ps => option_map (VDelete f) (rgrounds e ps)
  | APanic => Some VPanic
  end.

(** every id of the match is its own representative in the state the match is applied to *)
Definition canon_val (s : state) (v : val) : bool :=
  match v with VId i => Nat.eqb (rep (uf s) i) i | VInt _ => true end.
Definition canon_env (s : state) (e : env) : bool := forallb (fun xv => canon_val s (snd xv)) e.
Definition canon_tuple (s : state) (t : tuple) : bool :=
  forallb (fun o => match o with Some v => canon_val s v | None => true end) t.

(** the commands one decided match issues (computed on the frozen state [s]) *)
Definition match_cmds (s : state) (r : rule) (e : env) : list vcmd :=
  if canon_env s e then
    map embed_cmd (flat_map (fun a => match ground_action s e a with
                                      | Some c => [c]
                                      | None => [XPanic]
                                      end) (rhead r))
  else
    flat_map (fun a => match rground_action e a with
                       | Some c => [c]
                       | None => [VPanic]
                       end) (rhead r).

(** [SchedulerRuleInfo]: the residual matches and [should_seek] *)
Record rinfo := mkInfo { ri_res : list tuple; ri_seek : bool }.
Definition info0 : rinfo := mkInfo [] true.

Section Step.
  (** the user's scheduler: an arbitrary state machine. [filter st k offered] is
      [filter_matches] for rule number [k]: it returns its new state, whether [choose_all] was
      called, the indices passed to [choose] (in call order, duplicates allowed), and the
      returned [should_seek]. *)
  Variable Sst : Type.
  Variable filter : Sst -> nat -> list tuple -> Sst * (bool * list nat * bool).
  Variable sg : list mergefn.

  (** steps 2+3 for one rule: what the scheduler is offered = the residual vector followed by the
      matches the query rule collects now (one per match of the body over non-subsumed rows) *)
  Definition fresh (s : state) (r : rule) : list tuple :=
    map (proj (head_vars r)) (match_body s (rbody r) [[]]).

  (** the residual vector is outside the database, so no rebuild ever touches it: the step
      re-canonicalises every id it holds through the union-find before it is offered (and
      possibly applied) again (scheduler.rs step 3, [get_canon_repr] per column; fix of F7) *)
  Definition canon_t (s : state) (t : tuple) : tuple := map (option_map (canon (uf s))) t.

  Definition offered (s : state) (r : rule) (ri : rinfo) : list tuple :=
    map (canon_t s) (ri_res ri) ++ (if ri_seek ri then fresh s r else []).

  (** per rule: (offered, inserted into `decided`, new info) *)
  Fixpoint decide (s : state) (k : nat) (rules : list rule) (infos : list rinfo) (st : Sst)
    : Res (Sst * list (list tuple * list tuple * rinfo)) :=
    match rules with
    | [] => Ok (st, [])
    | r :: rtl =>
        let ri := hd info0 infos in
        let off := offered s r ri in
        let '(st1, (all, chosen, seek)) := filter st k off in
        bind (instantiate off chosen all) (fun '(ins, res) =>
        bind (decide s (S k) rtl (tl infos) st1) (fun '(st2, rest) =>
        Ok (st2, (off, ins, mkInfo res seek) :: rest)))
    end.

  Record sstate := mkSS { ss_db : state; ss_infos : list rinfo; ss_sched : Sst }.

  Definition decided_cmds (s : state) (rules : list rule) (ds : list (list tuple * list tuple * rinfo))
    : list vcmd :=
    flat_map (fun rd => let '(r, (_, ins, _)) := rd in
                        flat_map (fun t => match_cmds s r (env_of (head_vars r) t)) ins)
             (combine rules ds).

  (** one [step_rules_with_scheduler]: returns the new state, the execution error (as
      [Rules.xres]) and, for the theorems, what each rule's [filter_matches] was offered *)
  Definition step (rules : list rule) (x : sstate) : Res (sstate * option nat * list (list tuple)) :=
    bind (decide (ss_db x) 0 rules (ss_infos x) (ss_sched x)) (fun '(st', ds) =>
    let '(s', e) := vrun sg (ss_db x) (decided_cmds (ss_db x) rules ds) in
    Ok (mkSS s' (map (fun d => snd d) ds) st', e, map (fun d => fst (fst d)) ds)).
End Step.
Arguments mkSS {Sst}.
Arguments ss_db {Sst}.
Arguments ss_infos {Sst}.
Arguments ss_sched {Sst}.

(* ====================================================================================== *)
(** * Part C: cases written by the harness *)

Definition oval_eqb (a b : option val) : bool :=
  match a, b with
  | Some x, Some y => val_eqb x y
  | None, None => true
  | _, _ => false
  end.
Definition tuple_eqb : tuple -> tuple -> bool := list_eqb oval_eqb.
Definition tmem (t : tuple) (l : list tuple) : bool := existsb (tuple_eqb t) l.
Definition tincl (a b : list tuple) : bool := forallb (fun t => tmem t b) a.
Fixpoint tcount (t : tuple) (l : list tuple) : nat :=
  match l with
  | [] => 0
  | x :: tl => (if tuple_eqb t x then 1 else 0) + tcount t tl
  end.

Inductive scase :=
(** one [filter_matches] call: labels of the offered tuples, the indices chosen (call order),
    [choose_all], and the labels of the first |residual| tuples offered at the rule's next call *)
| CInst (m : list nat) (chosen : list nat) (all : bool) (next : list nat)
(** one query: the tables just before the step, the rule body, the head's variables, the tuples
    freshly offered, the tuples offered at earlier calls (modulo the union-find of that moment) *)
| COff (tabs : list table) (body : list fact) (fv : list nat) (fresh hist : list (list val)).

Definition check_scase (c : scase) : bool :=
  match c with
  | CInst m chosen all next =>
      match instantiate m chosen all with
      | Ok (_, res) => list_eqb Nat.eqb res next
      | _ => false
      end
  | COff tabs body fv fr hist =>
      let s := mkSt [] tabs [] in
      let model := map (proj fv) (match_body s body [[]]) in
      let fr' := map (map (@Some val)) fr in
      let hist' := map (map (@Some val)) hist in
      (* every fresh tuple is a match, offered no more often than it matches; every match is
         offered now or was offered before *)
      tincl fr' model && forallb (fun t => Nat.leb (tcount t fr') (tcount t model)) fr'
      && tincl model (fr' ++ hist')
  end.
