//! Generator of valid sessions and of the ill-typed mutations of C09's quantifier.
use super::ast::*;
use verif_harness::util::Rng;

#[derive(Clone, Copy, Debug, PartialEq, Eq)]
pub enum SKind {
    Base,
    Eq,
    Container,
}

#[derive(Clone, Debug)]
pub struct FSig {
    pub name: Name,
    pub ctor: bool,
    pub rel: bool,
    pub ins: Vec<Name>,
    /// output sort (for relations: a dummy, never used as a sort reference)
    pub out: Name,
}

#[derive(Clone, Default, Debug)]
pub struct Env {
    pub sorts: Vec<(Name, SKind)>,
    pub funcs: Vec<FSig>,
    pub rulesets: Vec<Name>,
    pub globals: Vec<(Name, Name)>,
    /// rules currently installed (popped with the environment): the valid command that declared them
    pub rules: Vec<Cmd>,
}

impl Env {
    pub fn initial() -> Env {
        Env { sorts: vec![(I64, SKind::Base), (STR, SKind::Base)], ..Default::default() }
    }
    pub fn kind(&self, s: Name) -> Option<SKind> {
        self.sorts.iter().find(|(n, _)| *n == s).map(|(_, k)| *k)
    }
    pub fn eq_sorts(&self) -> Vec<Name> {
        self.sorts.iter().filter(|(_, k)| *k == SKind::Eq).map(|(n, _)| *n).collect()
    }
    /// a ground term of sort `s` using at most `d` levels of constructors
    pub fn ground(&self, r: &mut Rng, s: Name, d: usize) -> Option<Expr> {
        if s == I64 {
            return Some(Expr::Int(r.below(4) as i64));
        }
        if s == STR {
            return Some(Expr::Str(r.below(3)));
        }
        if self.kind(s) != Some(SKind::Eq) {
            return None;
        }
        let mut cands: Vec<Expr> = Vec::new();
        for (g, gs) in &self.globals {
            if *gs == s {
                cands.push(Expr::Var(*g));
            }
        }
        let ctors: Vec<&FSig> = self.funcs.iter().filter(|f| f.ctor && !f.rel && f.out == s).collect();
        // try a few random constructors
        for _ in 0..4 {
            if ctors.is_empty() {
                break;
            }
            let c = ctors[r.below(ctors.len())];
            if c.ins.is_empty() {
                cands.push(Expr::Call(c.name, vec![]));
            } else if d > 0 {
                let args: Option<Vec<Expr>> = c.ins.iter().map(|i| self.ground(r, *i, d - 1)).collect();
                if let Some(a) = args {
                    cands.push(Expr::Call(c.name, a));
                }
            }
        }
        if cands.is_empty() {
            for c in &ctors {
                if c.ins.is_empty() {
                    return Some(Expr::Call(c.name, vec![]));
                }
            }
            return None;
        }
        let k = r.below(cands.len());
        Some(cands.swap_remove(k))
    }
    pub fn ground_args(&self, r: &mut Rng, f: &FSig, d: usize) -> Option<Vec<Expr>> {
        f.ins.iter().map(|i| self.ground(r, *i, d)).collect()
    }
}

pub struct Gen {
    pub env: Env,
    pub stack: Vec<Env>,
    pub next: usize,
    pub next_rule: usize,
}

fn merge_expr(r: &mut Rng) -> Expr {
    match r.below(6) {
        0 => Expr::Prim(Prim::Min, vec![Expr::Var(OLD), Expr::Var(NEW)]),
        1 => Expr::Prim(Prim::Max, vec![Expr::Var(OLD), Expr::Var(NEW)]),
        2 => Expr::Prim(Prim::Add, vec![Expr::Var(OLD), Expr::Var(NEW)]),
        3 => Expr::Var(OLD),
        4 => Expr::Var(NEW),
        _ => Expr::Prim(Prim::Max, vec![Expr::Var(NEW), Expr::Int(1)]),
    }
}

impl Gen {
    pub fn new() -> Gen {
        Gen { env: Env::initial(), stack: vec![], next: FIRST_USER, next_rule: 0 }
    }
    pub fn fresh(&mut self) -> Name {
        self.next += 1;
        Name::U(self.next - 1)
    }
    fn arg_sorts(&self, r: &mut Rng, max: usize) -> Vec<Name> {
        let n = r.below(max + 1);
        let eqs = self.env.eq_sorts();
        (0..n)
            .map(|_| if eqs.is_empty() || r.chance(1, 2) { I64 } else { *r.pick(&eqs) })
            .collect()
    }

    /// a body atom over `f` with fresh variables; returns the fact and the typed variables it binds
    fn atom(&mut self, f: &FSig, vars: &mut Vec<(Name, Name)>, r: &mut Rng) -> Fact {
        let mut args = Vec::new();
        for s in &f.ins {
            // sometimes reuse a bound variable of the same sort (joins)
            let reuse: Vec<Name> = vars.iter().filter(|(_, vs)| vs == s).map(|(v, _)| *v).collect();
            if !reuse.is_empty() && r.chance(1, 3) {
                args.push(Expr::Var(*r.pick(&reuse)));
            } else {
                let v = self.fresh();
                vars.push((v, *s));
                args.push(Expr::Var(v));
            }
        }
        let call = Expr::Call(f.name, args);
        if f.rel {
            Fact::Holds(call)
        } else {
            let v = self.fresh();
            vars.push((v, f.out));
            Fact::Eq(Expr::Var(v), call)
        }
    }

    fn term_from(&self, r: &mut Rng, s: Name, vars: &[(Name, Name)]) -> Option<Expr> {
        let c: Vec<Name> = vars.iter().filter(|(_, vs)| *vs == s).map(|(v, _)| *v).collect();
        if !c.is_empty() && r.chance(3, 4) {
            return Some(Expr::Var(*r.pick(&c)));
        }
        self.env.ground(r, s, 1)
    }

    fn head_action(&self, r: &mut Rng, vars: &[(Name, Name)]) -> Option<Action> {
        let env = &self.env;
        for _ in 0..6 {
            match r.below(4) {
                0 | 1 => {
                    // constructor / relation insertion
                    let cs: Vec<&FSig> = env.funcs.iter().filter(|f| f.ctor).collect();
                    if cs.is_empty() {
                        continue;
                    }
                    let f = cs[r.below(cs.len())];
                    let args: Option<Vec<Expr>> = f.ins.iter().map(|s| self.term_from(r, *s, vars)).collect();
                    if let Some(a) = args {
                        return Some(Action::Do(Expr::Call(f.name, a)));
                    }
                }
                2 => {
                    let fs: Vec<&FSig> = env.funcs.iter().filter(|f| !f.ctor).collect();
                    if fs.is_empty() {
                        continue;
                    }
                    let f = fs[r.below(fs.len())];
                    let args: Option<Vec<Expr>> = f.ins.iter().map(|s| self.term_from(r, *s, vars)).collect();
                    let v = self.term_from(r, f.out, vars);
                    if let (Some(a), Some(v)) = (args, v) {
                        return Some(Action::Set(f.name, a, v));
                    }
                }
                _ => {
                    let eqs = env.eq_sorts();
                    if eqs.is_empty() {
                        continue;
                    }
                    let s = *r.pick(&eqs);
                    if let (Some(a), Some(b)) = (self.term_from(r, s, vars), self.term_from(r, s, vars)) {
                        return Some(Action::Union(a, b));
                    }
                }
            }
        }
        None
    }

    pub fn gen_rule(&mut self, r: &mut Rng) -> Option<Cmd> {
        if self.env.funcs.is_empty() {
            return None;
        }
        let mut vars = Vec::new();
        let mut body = Vec::new();
        let natoms = r.range(1, 2);
        for _ in 0..natoms {
            let f = self.env.funcs[r.below(self.env.funcs.len())].clone();
            let a = self.atom(&f, &mut vars, r);
            body.push(a);
        }
        let mut head = Vec::new();
        for _ in 0..r.range(1, 2) {
            if let Some(a) = self.head_action(r, &vars) {
                head.push(a);
            }
        }
        if head.is_empty() {
            return None;
        }
        let rs = if !self.env.rulesets.is_empty() && r.chance(1, 2) { Some(*r.pick(&self.env.rulesets)) } else { None };
        self.next_rule += 1;
        Some(Cmd::Rule(self.next_rule - 1, rs, body, head))
    }

    /// a named rewrite / birewrite over constructors (link-only: not in the Gallina model)
    pub fn gen_rewrite(&mut self, r: &mut Rng) -> Option<Cmd> {
        let (lhs, rhs, bi) = rewrite_sides(&self.env, r, &mut self.next, None)?;
        let rs = if !self.env.rulesets.is_empty() && r.chance(1, 2) { Some(*r.pick(&self.env.rulesets)) } else { None };
        self.next_rule += 1;
        Some(Cmd::Rewrite { id: self.next_rule - 1, rs, lhs, rhs, bi })
    }

    /// apply a (valid, accepted) declaration to the generator's environment
    pub fn apply(&mut self, c: &Cmd) {
        let env = &mut self.env;
        match c {
            Cmd::Sort(n) => env.sorts.push((*n, SKind::Eq)),
            Cmd::SortPre(n, _, _) => env.sorts.push((*n, SKind::Container)),
            Cmd::Datatype(n, vs) => {
                env.sorts.push((*n, SKind::Eq));
                for (v, a) in vs {
                    env.funcs.push(FSig { name: *v, ctor: true, rel: false, ins: a.clone(), out: *n });
                }
            }
            Cmd::Function(n, i, o, _) => env.funcs.push(FSig { name: *n, ctor: false, rel: false, ins: i.clone(), out: *o }),
            Cmd::Constructor(n, i, o) => env.funcs.push(FSig { name: *n, ctor: true, rel: false, ins: i.clone(), out: *o }),
            Cmd::Relation(n, i) => env.funcs.push(FSig { name: *n, ctor: true, rel: true, ins: i.clone(), out: *n }),
            Cmd::Ruleset(n) | Cmd::Combined(n, _) => env.rulesets.push(*n),
            Cmd::Rule(..) | Cmd::Rewrite { .. } => env.rules.push(c.clone()),
            Cmd::Push => {
                let e = env.clone();
                self.stack.push(e)
            }
            Cmd::Pop => {
                if let Some(e) = self.stack.pop() {
                    self.env = e
                }
            }
            _ => {}
        }
    }

    /// one valid command for the current environment (already applied to it)
    pub fn gen_valid(&mut self, r: &mut Rng) -> Cmd {
        for _ in 0..50 {
            let k = r.below(100);
            let c: Option<Cmd> = if k < 6 {
                Some(Cmd::Sort(self.fresh()))
            } else if k < 16 {
                let d = self.fresh();
                let nv = r.range(1, 3);
                let mut vs = vec![(self.fresh(), vec![])];
                for _ in 1..nv {
                    let v = self.fresh();
                    let na = r.range(1, 2);
                    let eqs = self.env.eq_sorts();
                    let args = (0..na)
                        .map(|_| match r.below(3) {
                            0 => I64,
                            1 => d,
                            _ => {
                                if eqs.is_empty() {
                                    d
                                } else {
                                    *r.pick(&eqs)
                                }
                            }
                        })
                        .collect();
                    vs.push((v, args));
                }
                Some(Cmd::Datatype(d, vs))
            } else if k < 21 {
                let eqs = self.env.eq_sorts();
                if eqs.is_empty() {
                    None
                } else {
                    let o = *r.pick(&eqs);
                    let i = self.arg_sorts(r, 2);
                    Some(Cmd::Constructor(self.fresh(), i, o))
                }
            } else if k < 31 {
                let i = self.arg_sorts(r, 2);
                let m = if r.chance(1, 6) { None } else { Some(merge_expr(r)) };
                Some(Cmd::Function(self.fresh(), i, I64, m))
            } else if k < 38 {
                let i = self.arg_sorts(r, 2);
                Some(Cmd::Relation(self.fresh(), i))
            } else if k < 42 {
                Some(Cmd::Ruleset(self.fresh()))
            } else if k < 44 {
                let n = self.fresh();
                if r.chance(1, 2) {
                    Some(Cmd::SortPre(n, Presort::Vec, vec![I64]))
                } else {
                    Some(Cmd::SortPre(n, Presort::Map, vec![I64, I64]))
                }
            } else if k < 53 {
                self.gen_rule(r)
            } else if k < 56 {
                self.gen_rewrite(r)
            } else if k < 76 {
                // top-level action
                let env = &self.env;
                match r.below(5) {
                    0 | 1 => {
                        let cs: Vec<&FSig> = env.funcs.iter().filter(|f| f.ctor).collect();
                        if cs.is_empty() {
                            None
                        } else {
                            let f = cs[r.below(cs.len())];
                            env.ground_args(r, f, 2).map(|a| Cmd::Act(Action::Do(Expr::Call(f.name, a))))
                        }
                    }
                    2 => {
                        let fs: Vec<&FSig> = env.funcs.iter().filter(|f| !f.ctor).collect();
                        if fs.is_empty() {
                            None
                        } else {
                            let f = fs[r.below(fs.len())];
                            match (env.ground_args(r, f, 2), env.ground(r, f.out, 1)) {
                                (Some(a), Some(v)) => Some(Cmd::Act(Action::Set(f.name, a, v))),
                                _ => None,
                            }
                        }
                    }
                    3 => {
                        let eqs = env.eq_sorts();
                        if eqs.is_empty() {
                            None
                        } else {
                            let s = *r.pick(&eqs);
                            match (env.ground(r, s, 2), env.ground(r, s, 2)) {
                                (Some(a), Some(b)) => Some(Cmd::Act(Action::Union(a, b))),
                                _ => None,
                            }
                        }
                    }
                    _ => {
                        let mut ss = env.eq_sorts();
                        ss.push(I64);
                        let s = *r.pick(&ss);
                        match env.ground(r, s, 2) {
                            Some(t) => {
                                self.next += 1;
                                let g = Name::G(self.next - 1);
                                self.env.globals.push((g, s));
                                Some(Cmd::Act(Action::Let(g, t)))
                            }
                            None => None,
                        }
                    }
                }
            } else if k < 84 {
                if !self.env.rulesets.is_empty() && r.chance(1, 2) {
                    Some(Cmd::Run(Some(*r.pick(&self.env.rulesets)), r.range(1, 2)))
                } else {
                    Some(Cmd::Run(None, r.range(1, 3)))
                }
            } else if k < 92 {
                // check a ground fact (may fail at run time; both sessions must agree)
                let env = &self.env;
                if env.funcs.is_empty() {
                    None
                } else {
                    let f = &env.funcs[r.below(env.funcs.len())];
                    match env.ground_args(r, f, 2) {
                        None => None,
                        Some(a) => {
                            let call = Expr::Call(f.name, a);
                            if f.rel {
                                Some(Cmd::Check(vec![Fact::Holds(call)]))
                            } else {
                                env.ground(r, f.out, 1).map(|v| Cmd::Check(vec![Fact::Eq(v, call)]))
                            }
                        }
                    }
                }
            } else if k < 95 {
                if self.env.funcs.is_empty() {
                    None
                } else {
                    Some(Cmd::PrintSize(self.env.funcs[r.below(self.env.funcs.len())].name))
                }
            } else if k < 98 {
                if self.stack.len() < 2 {
                    Some(Cmd::Push)
                } else {
                    None
                }
            } else if !self.stack.is_empty() || r.chance(1, 4) {
                Some(Cmd::Pop)
            } else {
                None
            };
            if let Some(c) = c {
                self.apply(&c);
                return c;
            }
        }
        let c = Cmd::Sort(self.fresh());
        self.apply(&c);
        c
    }
}

/// sides of a valid rewrite: lhs = (c x..), rhs built from the same variables (birewrite: exactly the
/// same variables) or ground; `avoid`: an rhs that must not be produced again
pub fn rewrite_sides(env: &Env, r: &mut Rng, next: &mut usize, avoid: Option<(&Expr, bool)>) -> Option<(Expr, Expr, bool)> {
    let ctors: Vec<&FSig> = env.funcs.iter().filter(|f| f.ctor && !f.rel && env.kind(f.out) == Some(SKind::Eq)).collect();
    if ctors.is_empty() {
        return None;
    }
    for _ in 0..8 {
        let c = ctors[r.below(ctors.len())];
        let vars: Vec<Name> = c
            .ins
            .iter()
            .map(|_| {
                *next += 1;
                Name::U(*next - 1)
            })
            .collect();
        let lhs = Expr::Call(c.name, vars.iter().map(|v| Expr::Var(*v)).collect());
        let want_bi = match avoid {
            Some((_, b)) => b,
            None => r.chance(1, 3),
        };
        // candidates with the same input sorts (so that both directions bind every variable)
        let same: Vec<&&FSig> = ctors.iter().filter(|d| d.out == c.out && d.ins == c.ins).collect();
        let rhs = if want_bi || r.chance(1, 2) {
            let d = same[r.below(same.len())];
            let mut vs: Vec<Expr> = vars.iter().map(|v| Expr::Var(*v)).collect();
            // permute variables of equal sort
            if vs.len() == 2 && c.ins[0] == c.ins[1] && r.chance(1, 2) {
                vs.swap(0, 1);
            }
            Expr::Call(d.name, vs)
        } else {
            match env.ground(r, c.out, 1) {
                Some(t) => t,
                None => continue,
            }
        };
        if let Some((a, _)) = avoid {
            if *a == rhs {
                continue;
            }
        }
        if rhs == lhs && !want_bi {
            continue;
        }
        return Some((lhs, rhs, want_bi));
    }
    None
}

/// ground facts that make `body` match at least once (one ground term per variable)
fn instantiate_body(env: &Env, r: &mut Rng, body: &[Fact]) -> Option<Vec<Cmd>> {
    let mut asg: Vec<(Name, Expr)> = Vec::new();
    let mut out = Vec::new();
    let get = |asg: &Vec<(Name, Expr)>, v: Name| asg.iter().find(|(n, _)| *n == v).map(|(_, e)| e.clone());
    for f in body {
        let (outv, call) = match f {
            Fact::Eq(Expr::Var(v), c @ Expr::Call(..)) => (Some(*v), c),
            Fact::Holds(c @ Expr::Call(..)) => (None, c),
            _ => return None,
        };
        let Expr::Call(fname, args) = call else { return None };
        let sig = env.funcs.iter().find(|g| g.name == *fname)?;
        let mut gargs = Vec::new();
        for (a, s) in args.iter().zip(sig.ins.iter()) {
            match a {
                Expr::Var(v) => {
                    if let Some((_, gs)) = env.globals.iter().find(|(g, _)| g == v) {
                        let _ = gs;
                        gargs.push(Expr::Var(*v));
                    } else if let Some(e) = get(&asg, *v) {
                        gargs.push(e);
                    } else {
                        let e = env.ground(r, *s, 1)?;
                        asg.push((*v, e.clone()));
                        gargs.push(e);
                    }
                }
                other => gargs.push(other.clone()),
            }
        }
        let gcall = Expr::Call(*fname, gargs.clone());
        if sig.ctor {
            out.push(Cmd::Act(Action::Do(gcall.clone())));
            if let Some(v) = outv {
                if get(&asg, v).is_none() {
                    asg.push((v, gcall));
                } else {
                    return None;
                }
            }
        } else {
            let v = outv?;
            let val = match get(&asg, v) {
                Some(e) => e,
                None => {
                    let e = env.ground(r, sig.out, 1)?;
                    asg.push((v, e.clone()));
                    e
                }
            };
            out.push(Cmd::Act(Action::Set(*fname, gargs, val)));
        }
    }
    Some(out)
}

fn ground_pattern(env: &Env, r: &mut Rng, lhs: &Expr) -> Option<Cmd> {
    let Expr::Call(c, args) = lhs else { return None };
    let sig = env.funcs.iter().find(|g| g.name == *c)?;
    let _ = args;
    Some(Cmd::Act(Action::Do(Expr::Call(*c, env.ground_args(r, sig, 1)?))))
}

pub struct Mutation {
    pub class: &'static str,
    pub sub: &'static str,
    pub bad: Cmd,
    /// commands inserted right after the bad command in BOTH sessions: they use, re-declare and
    /// use again the names the bad command mentioned, so leftovers become visible
    pub probes: Vec<Cmd>,
}

pub const CLASSES: &[&str] = &[
    "wrong-sort",
    "wrong-arity",
    "unbound-var",
    "ungrounded-var",
    "shadow-var",
    "set-constructor",
    "union-non-eq",
    "lookup-in-action",
    "dup-decl",
    "bad-merge",
    "bad-presort",
    "undefined-sort",
    "ctor-non-eq-output",
    "unknown-name",
    "shadow-decl",
    "dup-rule-name",
    "dup-rule-name",
];

/// Known-finding key by mutation sub-class (None: must be clean).
/// F2 = "a command rejected by the typechecker / shadowing check leaves declaration state behind
/// (sort / constructor / function / global names) so that a later command observes it". Since
/// repository commit 473a35e a single function declaration is atomic, so bad merge expressions,
/// constructors with a non-eq output and duplicate declarations are NOT covered any more; what
/// remains is (a) compound declarations whose later part fails and (b) declarations that
/// typecheck and are then rejected by check_shadowing.
/// `h_session::compare_sessions` additionally demands that the observed difference IS of that
/// kind (see `decl_visibility_only`), otherwise the violation gets a fresh key.
pub fn known_key(sub: &str) -> Option<&'static str> {
    match sub {
        "bad-merge/self-reference" => Some("F9-self-referential-merge"),
        "undefined-sort/datatype-variant" | "undefined-sort/relation" | "shadow-decl/sort-vs-ruleset"
        | "shadow-decl/function-vs-ruleset" | "shadow-decl/constructor-vs-ruleset" | "shadow-decl/let-twice"
        | "shadow-decl/datatype-vs-ruleset" => Some("F2-typecheck-not-atomic"),
        _ => None,
    }
}

fn ok_merge() -> Option<Expr> {
    Some(Expr::Prim(Prim::Min, vec![Expr::Var(OLD), Expr::Var(NEW)]))
}

/// Build one mutation of class `class` for environment `env`; `m` allocates names that no valid
/// command of the session uses. Returns None when the environment cannot host this class.
pub fn mutate(env: &Env, class: &'static str, r: &mut Rng, m: &mut usize, rule_id: &mut usize) -> Option<Mutation> {
    let mut fresh = || {
        *m += 1;
        Name::U(*m - 1)
    };
    let mut rid = || {
        *rule_id += 1;
        *rule_id - 1
    };
    let with_ins: Vec<&FSig> = env.funcs.iter().filter(|f| !f.ins.is_empty()).collect();
    let mk = |sub: &'static str, bad: Cmd, probes: Vec<Cmd>| Some(Mutation { class, sub, bad, probes });
    match class {
        "wrong-sort" => {
            if with_ins.is_empty() {
                return None;
            }
            let f = with_ins[r.below(with_ins.len())];
            let mut a = env.ground_args(r, f, 1)?;
            let k = r.below(a.len());
            a[k] = if f.ins[k] == I64 { Expr::Str(0) } else { Expr::Int(7) };
            if f.ctor {
                mk("wrong-sort/call", Cmd::Act(Action::Do(Expr::Call(f.name, a))), vec![Cmd::PrintSize(f.name)])
            } else {
                let v = env.ground(r, f.out, 1)?;
                mk("wrong-sort/set", Cmd::Act(Action::Set(f.name, a, v)), vec![Cmd::PrintSize(f.name)])
            }
        }
        "wrong-arity" => {
            if env.funcs.is_empty() {
                return None;
            }
            let f = &env.funcs[r.below(env.funcs.len())];
            let mut a = env.ground_args(r, f, 1)?;
            if a.is_empty() || r.chance(1, 2) {
                a.push(Expr::Int(1));
            } else {
                a.pop();
            }
            if r.chance(1, 2) {
                // inside a rule body
                let v = fresh();
                let call = Expr::Call(f.name, a);
                let fact = if f.rel { Fact::Holds(call) } else { Fact::Eq(Expr::Var(v), call) };
                mk("wrong-arity/rule", Cmd::Rule(rid(), None, vec![fact], vec![]), vec![Cmd::PrintSize(f.name)])
            } else if f.ctor {
                mk("wrong-arity/call", Cmd::Act(Action::Do(Expr::Call(f.name, a))), vec![Cmd::PrintSize(f.name)])
            } else {
                let v = env.ground(r, f.out, 1)?;
                mk("wrong-arity/set", Cmd::Act(Action::Set(f.name, a, v)), vec![Cmd::PrintSize(f.name)])
            }
        }
        "unbound-var" => {
            let cs: Vec<&FSig> = env.funcs.iter().filter(|f| f.ctor && !f.ins.is_empty()).collect();
            if cs.is_empty() {
                return None;
            }
            let f = cs[r.below(cs.len())];
            let x = fresh();
            let mut a = env.ground_args(r, f, 1)?;
            let k = r.below(a.len());
            a[k] = Expr::Var(x);
            if r.chance(1, 2) {
                mk("unbound-var/top-level", Cmd::Act(Action::Do(Expr::Call(f.name, a))), vec![Cmd::PrintSize(f.name)])
            } else {
                // a rule whose body binds other variables only
                let g = &env.funcs[r.below(env.funcs.len())];
                let mut args = Vec::new();
                for _ in &g.ins {
                    args.push(Expr::Var(fresh()));
                }
                let call = Expr::Call(g.name, args);
                let fact = if g.rel { Fact::Holds(call) } else { Fact::Eq(Expr::Var(fresh()), call) };
                mk(
                    "unbound-var/rule-action",
                    Cmd::Rule(rid(), None, vec![fact], vec![Action::Do(Expr::Call(f.name, a))]),
                    vec![Cmd::PrintSize(f.name), Cmd::Run(None, 1)],
                )
            }
        }
        "ungrounded-var" => {
            let (a, b) = (fresh(), fresh());
            let cs: Vec<&FSig> = env.funcs.iter().filter(|f| f.ctor && f.ins.len() == 1).collect();
            if cs.is_empty() || r.chance(1, 3) {
                mk("ungrounded-var/check", Cmd::Check(vec![Fact::Eq(Expr::Var(a), Expr::Var(b))]), vec![])
            } else {
                let f = cs[r.below(cs.len())];
                mk(
                    "ungrounded-var/rule",
                    Cmd::Rule(
                        rid(),
                        None,
                        vec![Fact::Eq(Expr::Var(a), Expr::Var(b))],
                        vec![Action::Do(Expr::Call(f.name, vec![Expr::Var(a)]))],
                    ),
                    vec![Cmd::PrintSize(f.name), Cmd::Run(None, 1)],
                )
            }
        }
        "shadow-var" => {
            if with_ins.is_empty() {
                return None;
            }
            let f = with_ins[r.below(with_ins.len())];
            // candidates for a clashing variable name: declared function / sort / ruleset names, or the
            // un-prefixed alias of a declared global
            let mut cl: Vec<(Name, &'static str)> = Vec::new();
            for g in &env.funcs {
                cl.push((g.name, "shadow-var/function-name"));
            }
            for (s, k) in &env.sorts {
                if *k != SKind::Base {
                    cl.push((*s, "shadow-var/sort-name"));
                }
            }
            for s in &env.rulesets {
                cl.push((*s, "shadow-var/ruleset-name"));
            }
            for (g, _) in &env.globals {
                if let Name::G(k) = g {
                    cl.push((Name::U(*k), "shadow-var/global-alias"));
                }
            }
            let (x, sub) = *r.pick(&cl);
            let mut args: Vec<Expr> = f.ins.iter().map(|_| Expr::Var(Name::U(0))).collect();
            for a in args.iter_mut() {
                *a = Expr::Var(fresh());
            }
            let k = r.below(args.len());
            args[k] = Expr::Var(x);
            let call = Expr::Call(f.name, args);
            let fact = if f.rel { Fact::Holds(call) } else { Fact::Eq(Expr::Var(fresh()), call) };
            if r.chance(1, 2) {
                mk(sub, Cmd::Rule(rid(), None, vec![fact], vec![]), vec![Cmd::PrintSize(f.name)])
            } else {
                mk(sub, Cmd::Check(vec![fact]), vec![Cmd::PrintSize(f.name)])
            }
        }
        "set-constructor" => {
            let cs: Vec<&FSig> = env.funcs.iter().filter(|f| f.ctor).collect();
            if cs.is_empty() {
                return None;
            }
            let f = cs[r.below(cs.len())];
            let a = env.ground_args(r, f, 1)?;
            let v = if f.rel { Expr::Int(1) } else { env.ground(r, f.out, 1)? };
            mk(
                if f.rel { "set-constructor/relation" } else { "set-constructor/constructor" },
                Cmd::Act(Action::Set(f.name, a, v)),
                vec![Cmd::PrintSize(f.name)],
            )
        }
        "union-non-eq" => {
            let rels: Vec<&FSig> = env.funcs.iter().filter(|f| f.rel).collect();
            if !rels.is_empty() && r.chance(1, 2) {
                let f = rels[r.below(rels.len())];
                let a = env.ground_args(r, f, 1)?;
                let b = env.ground_args(r, f, 1)?;
                mk(
                    "union-non-eq/relation",
                    Cmd::Act(Action::Union(Expr::Call(f.name, a), Expr::Call(f.name, b))),
                    vec![Cmd::PrintSize(f.name)],
                )
            } else if r.chance(1, 2) {
                mk("union-non-eq/i64", Cmd::Act(Action::Union(Expr::Int(1), Expr::Int(2))), vec![])
            } else {
                mk("union-non-eq/string", Cmd::Act(Action::Union(Expr::Str(1), Expr::Str(1))), vec![])
            }
        }
        "lookup-in-action" => {
            let fs: Vec<&FSig> = env.funcs.iter().filter(|f| !f.ctor && f.out == I64).collect();
            if fs.is_empty() {
                return None;
            }
            let f = fs[r.below(fs.len())];
            let mut args = Vec::new();
            for _ in &f.ins {
                args.push(Expr::Var(fresh()));
            }
            let v = fresh();
            let fact = Fact::Eq(Expr::Var(v), Expr::Call(f.name, args.clone()));
            let head = Action::Set(
                f.name,
                args.clone(),
                Expr::Prim(Prim::Add, vec![Expr::Call(f.name, args), Expr::Int(1)]),
            );
            mk(
                "lookup-in-action/set",
                Cmd::Rule(rid(), None, vec![fact], vec![head]),
                vec![Cmd::Run(None, 1), Cmd::PrintSize(f.name)],
            )
        }
        "dup-decl" => {
            let mut opts: Vec<u8> = Vec::new();
            if env.sorts.iter().any(|(_, k)| *k != SKind::Base) {
                opts.push(0);
            }
            if !env.funcs.is_empty() {
                opts.push(1);
                opts.push(2);
                opts.push(3);
            }
            if !env.rulesets.is_empty() {
                opts.push(4);
            }
            opts.push(5);
            match *r.pick(&opts) {
                0 => {
                    let ss: Vec<Name> = env.sorts.iter().filter(|(_, k)| *k != SKind::Base).map(|(n, _)| *n).collect();
                    let s = *r.pick(&ss);
                    mk("dup-decl/sort", Cmd::Sort(s), vec![Cmd::Function(fresh(), vec![s], I64, ok_merge())])
                }
                1 => {
                    // same signature again
                    let f = &env.funcs[r.below(env.funcs.len())];
                    let bad = if f.rel {
                        Cmd::Relation(f.name, f.ins.clone())
                    } else if f.ctor {
                        Cmd::Constructor(f.name, f.ins.clone(), f.out)
                    } else {
                        Cmd::Function(f.name, f.ins.clone(), f.out, ok_merge())
                    };
                    mk("dup-decl/function-same-sig", bad, vec![Cmd::PrintSize(f.name)])
                }
                2 => {
                    // other signature: one more i64 column
                    let fs: Vec<&FSig> = env.funcs.iter().filter(|f| !f.rel).collect();
                    if fs.is_empty() {
                        return None;
                    }
                    let f = fs[r.below(fs.len())];
                    let mut ins = f.ins.clone();
                    ins.push(I64);
                    let mut probes = vec![Cmd::PrintSize(f.name)];
                    if let Some(a) = env.ground_args(r, f, 1) {
                        let mut a2 = a.clone();
                        a2.push(Expr::Int(1));
                        if f.ctor {
                            probes.push(Cmd::Act(Action::Do(Expr::Call(f.name, a))));
                            probes.push(Cmd::Act(Action::Do(Expr::Call(f.name, a2))));
                        } else if let Some(v) = env.ground(r, f.out, 1) {
                            probes.push(Cmd::Act(Action::Set(f.name, a, v.clone())));
                            probes.push(Cmd::Act(Action::Set(f.name, a2, v)));
                        }
                    }
                    probes.push(Cmd::PrintSize(f.name));
                    if f.ctor {
                        mk("dup-decl/constructor-other-sig", Cmd::Constructor(f.name, ins, f.out), probes)
                    } else {
                        mk("dup-decl/function-other-sig", Cmd::Function(f.name, ins, f.out, ok_merge()), probes)
                    }
                }
                3 => {
                    let f = &env.funcs[r.below(env.funcs.len())];
                    mk("dup-decl/sort-named-as-function", Cmd::Sort(f.name), vec![Cmd::PrintSize(f.name)])
                }
                4 => {
                    let s = *r.pick(&env.rulesets);
                    mk("dup-decl/ruleset", Cmd::Ruleset(s), vec![Cmd::Run(Some(s), 1)])
                }
                _ => {
                    let ss: Vec<Name> = env.sorts.iter().map(|(n, _)| *n).collect();
                    let s = *r.pick(&ss);
                    mk("dup-decl/function-named-as-sort", Cmd::Function(s, vec![I64], I64, ok_merge()), vec![Cmd::PrintSize(s)])
                }
            }
        }
        "bad-merge" => {
            let a = fresh();
            let (sub, m): (&'static str, Expr) = match r.below(5) {
                0 => ("bad-merge/unbound-function", Expr::Call(fresh(), vec![Expr::Var(OLD), Expr::Var(NEW)])),
                1 => ("bad-merge/unbound-var", Expr::Var(fresh())),
                2 => ("bad-merge/type", Expr::Prim(Prim::Min, vec![Expr::Var(OLD), Expr::Str(0)])),
                3 => ("bad-merge/unknown-prim", Expr::Prim(Prim::Bogus, vec![Expr::Var(OLD), Expr::Var(NEW)])),
                _ => ("bad-merge/self-reference", Expr::Call(a, vec![Expr::Var(OLD)])),
            };
            let set = Cmd::Act(Action::Set(a, vec![Expr::Int(1)], Expr::Int(2)));
            mk(
                sub,
                Cmd::Function(a, vec![I64], I64, Some(m)),
                vec![Cmd::PrintSize(a), set.clone(), Cmd::Function(a, vec![I64], I64, ok_merge()), set, Cmd::PrintSize(a)],
            )
        }
        "bad-presort" => {
            let a = fresh();
            let (sub, bad) = match r.below(4) {
                0 => ("bad-presort/undefined-arg", Cmd::SortPre(a, Presort::Vec, vec![fresh()])),
                1 => ("bad-presort/no-arg", Cmd::SortPre(a, Presort::Vec, vec![])),
                2 => ("bad-presort/unknown-presort", Cmd::SortPre(a, Presort::Bogus, vec![I64])),
                _ => ("bad-presort/map-undefined-value", Cmd::SortPre(a, Presort::Map, vec![I64, fresh()])),
            };
            let f = fresh();
            mk(
                sub,
                bad,
                vec![
                    Cmd::Function(f, vec![a], I64, ok_merge()),
                    Cmd::SortPre(a, Presort::Vec, vec![I64]),
                    Cmd::Function(f, vec![a], I64, ok_merge()),
                    Cmd::PrintSize(f),
                ],
            )
        }
        "undefined-sort" => {
            let (a, b, c, u) = (fresh(), fresh(), fresh(), fresh());
            let use_b = Cmd::Act(Action::Do(Expr::Call(b, vec![Expr::Int(1)])));
            match r.below(4) {
                0 => mk(
                    "undefined-sort/function",
                    Cmd::Function(a, vec![u], I64, ok_merge()),
                    vec![Cmd::PrintSize(a), Cmd::Function(a, vec![I64], I64, ok_merge()), Cmd::PrintSize(a)],
                ),
                1 => {
                    let eqs = env.eq_sorts();
                    if eqs.is_empty() {
                        return None;
                    }
                    let s = *r.pick(&eqs);
                    mk(
                        "undefined-sort/constructor",
                        Cmd::Constructor(a, vec![u], s),
                        vec![Cmd::PrintSize(a), Cmd::Constructor(a, vec![I64], s), Cmd::PrintSize(a)],
                    )
                }
                2 => mk(
                    "undefined-sort/datatype-variant",
                    Cmd::Datatype(a, vec![(b, vec![I64]), (c, vec![u])]),
                    vec![
                        Cmd::PrintSize(b),
                        use_b.clone(),
                        Cmd::Datatype(a, vec![(b, vec![I64]), (c, vec![])]),
                        use_b,
                        Cmd::PrintSize(b),
                    ],
                ),
                _ => mk(
                    "undefined-sort/relation",
                    Cmd::Relation(b, vec![u]),
                    vec![Cmd::PrintSize(b), use_b.clone(), Cmd::Relation(b, vec![I64]), use_b, Cmd::PrintSize(b)],
                ),
            }
        }
        "ctor-non-eq-output" => {
            let a = fresh();
            let use_a = Cmd::Act(Action::Do(Expr::Call(a, vec![Expr::Int(1)])));
            mk(
                "ctor-non-eq-output/decl",
                Cmd::Constructor(a, vec![I64], if r.chance(1, 2) { I64 } else { STR }),
                vec![Cmd::PrintSize(a), use_a.clone(), Cmd::Relation(a, vec![I64]), use_a, Cmd::PrintSize(a)],
            )
        }
        "unknown-name" => {
            let u = fresh();
            match r.below(5) {
                0 => mk("unknown-name/run-ruleset", Cmd::Run(Some(u), 1), vec![Cmd::Ruleset(u), Cmd::Run(Some(u), 1)]),
                4 => {
                    // a combined ruleset naming a sub-ruleset that does not exist (alone or next to
                    // an existing one): rejected, the name stays free, nothing dangles
                    let c = fresh();
                    let mut subs = vec![u];
                    if !env.rulesets.is_empty() && r.chance(1, 2) {
                        subs.insert(0, *r.pick(&env.rulesets));
                    }
                    mk(
                        "unknown-name/combined-sub-ruleset",
                        Cmd::Combined(c, subs),
                        vec![Cmd::Run(Some(c), 1), Cmd::Ruleset(c), Cmd::Run(Some(c), 1), Cmd::Ruleset(u), Cmd::Run(Some(u), 1)],
                    )
                }
                1 => mk("unknown-name/print-size", Cmd::PrintSize(u), vec![]),
                2 => {
                    if env.funcs.is_empty() {
                        return None;
                    }
                    let g = &env.funcs[r.below(env.funcs.len())];
                    let mut args = Vec::new();
                    for _ in &g.ins {
                        args.push(Expr::Var(fresh()));
                    }
                    let call = Expr::Call(g.name, args);
                    let fact = if g.rel { Fact::Holds(call) } else { Fact::Eq(Expr::Var(fresh()), call) };
                    let k = rid();
                    mk(
                        "unknown-name/rule-ruleset",
                        Cmd::Rule(k, Some(u), vec![fact.clone()], vec![]),
                        vec![Cmd::Ruleset(u), Cmd::Rule(k, Some(u), vec![fact], vec![]), Cmd::Run(Some(u), 1)],
                    )
                }
                _ => mk(
                    "unknown-name/function",
                    Cmd::Act(Action::Do(Expr::Call(u, vec![Expr::Int(1)]))),
                    vec![Cmd::PrintSize(u)],
                ),
            }
        }
        "shadow-decl" => {
            let mut opts: Vec<u8> = Vec::new();
            if !env.rulesets.is_empty() {
                opts.extend([0, 1, 2, 3]);
            }
            if !env.globals.is_empty() {
                opts.push(4);
            }
            if !env.funcs.is_empty() {
                opts.push(5);
                opts.push(6);
                opts.push(6);
            }
            if opts.is_empty() {
                return None;
            }
            let f = fresh();
            match *r.pick(&opts) {
                6 => {
                    // a rule whose action-let reuses a declared table name: rejected for shadowing
                    // AFTER its body variables were looked at; a later valid rule using the very same
                    // variable names must still be accepted and fire
                    let g = env.funcs[r.below(env.funcs.len())].clone();
                    let shadowed = env.funcs[r.below(env.funcs.len())].name;
                    let vars: Vec<Name> = g.ins.iter().map(|_| fresh()).collect();
                    let call = Expr::Call(g.name, vars.iter().map(|v| Expr::Var(*v)).collect());
                    let x = fresh();
                    let fact = if g.rel { Fact::Holds(call) } else { Fact::Eq(Expr::Var(x), call) };
                    let (k, k2) = (rid(), rid());
                    mk(
                        "shadow-decl/rule-action-let-vs-table",
                        Cmd::Rule(k, None, vec![fact.clone()], vec![Action::Let(shadowed, Expr::Int(1))]),
                        vec![Cmd::Rule(k2, None, vec![fact], vec![]), Cmd::Run(None, 1), Cmd::PrintSize(g.name)],
                    )
                }
                0 => {
                    let s = *r.pick(&env.rulesets);
                    mk(
                        "shadow-decl/sort-vs-ruleset",
                        Cmd::Sort(s),
                        vec![Cmd::Function(f, vec![s], I64, ok_merge()), Cmd::PrintSize(f), Cmd::Run(Some(s), 1)],
                    )
                }
                1 => {
                    let s = *r.pick(&env.rulesets);
                    let set = Cmd::Act(Action::Set(s, vec![Expr::Int(1)], Expr::Int(2)));
                    mk(
                        "shadow-decl/function-vs-ruleset",
                        Cmd::Function(s, vec![I64], I64, ok_merge()),
                        vec![Cmd::PrintSize(s), set, Cmd::Run(Some(s), 1)],
                    )
                }
                2 => {
                    let s = *r.pick(&env.rulesets);
                    let eqs = env.eq_sorts();
                    if eqs.is_empty() {
                        return None;
                    }
                    let o = *r.pick(&eqs);
                    mk(
                        "shadow-decl/constructor-vs-ruleset",
                        Cmd::Constructor(s, vec![I64], o),
                        vec![Cmd::PrintSize(s), Cmd::Act(Action::Do(Expr::Call(s, vec![Expr::Int(1)]))), Cmd::Run(Some(s), 1)],
                    )
                }
                3 => {
                    let s = *r.pick(&env.rulesets);
                    let v = fresh();
                    mk(
                        "shadow-decl/datatype-vs-ruleset",
                        Cmd::Datatype(s, vec![(v, vec![])]),
                        vec![Cmd::PrintSize(v), Cmd::Act(Action::Do(Expr::Call(v, vec![]))), Cmd::Run(Some(s), 1)],
                    )
                }
                4 => {
                    let (g, gs) = *r.pick(&env.globals);
                    let t = if gs == I64 { Expr::Str(1) } else { Expr::Int(5) };
                    let old = env.ground(r, gs, 1)?;
                    mk(
                        "shadow-decl/let-twice",
                        Cmd::Act(Action::Let(g, t)),
                        vec![Cmd::Check(vec![Fact::Eq(Expr::Var(g), old)])],
                    )
                }
                _ => {
                    let g = &env.funcs[r.below(env.funcs.len())];
                    mk("shadow-decl/ruleset-vs-function", Cmd::Ruleset(g.name), vec![Cmd::PrintSize(g.name), Cmd::Run(Some(g.name), 1)])
                }
            }
        }
        "dup-rule-name" => {
            // a rule / rewrite / birewrite whose :name collides with an installed rule of the same ruleset
            // while head or right-hand side DIFFER: rejected (RuleAlreadyExists) — the installed rule
            // must keep firing and the rejected one must not exist. Probes make the body match, run the
            // ruleset and read the tables both rules write.
            if env.rules.is_empty() {
                return None;
            }
            let old = env.rules[r.below(env.rules.len())].clone();
            let mut next = *m;
            let res = match &old {
                Cmd::Rule(k, rs, body, head) => {
                    // variable sorts from the body
                    let mut vars: Vec<(Name, Name)> = Vec::new();
                    for f in body {
                        let (outv, call) = match f {
                            Fact::Eq(Expr::Var(v), c) => (Some(*v), c),
                            Fact::Holds(c) => (None, c),
                            _ => continue,
                        };
                        if let Expr::Call(fname, args) = call {
                            if let Some(sig) = env.funcs.iter().find(|g| g.name == *fname) {
                                for (a, s) in args.iter().zip(sig.ins.iter()) {
                                    if let Expr::Var(v) = a {
                                        vars.push((*v, *s));
                                    }
                                }
                                if let Some(v) = outv {
                                    if !sig.rel {
                                        vars.push((v, sig.out));
                                    }
                                }
                            }
                        }
                    }
                    // a different head: insert into some constructor / relation
                    let cs: Vec<&FSig> = env.funcs.iter().filter(|f| f.ctor).collect();
                    let mut new_head = None;
                    for t in 0..cs.len().min(8) {
                        let g = cs[(r.below(cs.len()) + t) % cs.len()];
                        let args: Option<Vec<Expr>> = g
                            .ins
                            .iter()
                            .map(|s| {
                                let c: Vec<Name> = vars.iter().filter(|(_, vs)| vs == s).map(|(v, _)| *v).collect();
                                if !c.is_empty() && r.chance(2, 3) {
                                    Some(Expr::Var(*r.pick(&c)))
                                } else {
                                    env.ground(r, *s, 1)
                                }
                            })
                            .collect();
                        if let Some(a) = args {
                            let act = Action::Do(Expr::Call(g.name, a));
                            if !head.contains(&act) {
                                new_head = Some((act, g.name));
                                break;
                            }
                        }
                    }
                    let (act, gname) = new_head?;
                    let mut probes = instantiate_body(env, r, body).unwrap_or_default();
                    probes.push(Cmd::Run(*rs, 2));
                    probes.push(Cmd::PrintSize(gname));
                    for a in head {
                        match a {
                            Action::Do(Expr::Call(h, _)) | Action::Set(h, _, _) => probes.push(Cmd::PrintSize(*h)),
                            _ => {}
                        }
                    }
                    if r.chance(1, 3) {
                        // the colliding declaration is a rewrite carrying the rule's name
                        match rewrite_sides(env, r, &mut next, None) {
                            Some((lhs, rhs, false)) => {
                                if let Some(g) = ground_pattern(env, r, &lhs) {
                                    probes.insert(0, g);
                                }
                                Some(Mutation { class, sub: "dup-rule-name/rewrite-vs-rule", bad: Cmd::Rewrite { id: *k, rs: *rs, lhs, rhs, bi: false }, probes })
                            }
                            _ => Some(Mutation { class, sub: "dup-rule-name/rule", bad: Cmd::Rule(*k, *rs, body.clone(), vec![act]), probes }),
                        }
                    } else {
                        Some(Mutation { class, sub: "dup-rule-name/rule", bad: Cmd::Rule(*k, *rs, body.clone(), vec![act]), probes })
                    }
                }
                Cmd::Rewrite { id, rs, lhs, rhs, bi } => {
                    let (l2, r2, _) = rewrite_sides(env, r, &mut next, Some((rhs, *bi)))?;
                    let mut probes = Vec::new();
                    if let Some(g) = ground_pattern(env, r, lhs) {
                        probes.push(g);
                    }
                    if let Some(g) = ground_pattern(env, r, &l2) {
                        probes.push(g);
                    }
                    probes.push(Cmd::Run(*rs, 2));
                    for e in [lhs, &l2] {
                        if let Expr::Call(c, _) = e {
                            probes.push(Cmd::PrintSize(*c));
                        }
                    }
                    for e in [rhs, &r2] {
                        if let Expr::Call(c, _) = e {
                            probes.push(Cmd::PrintSize(*c));
                        }
                    }
                    Some(Mutation {
                        class,
                        sub: if *bi { "dup-rule-name/birewrite" } else { "dup-rule-name/rewrite" },
                        bad: Cmd::Rewrite { id: *id, rs: *rs, lhs: l2, rhs: r2, bi: *bi },
                        probes,
                    })
                }
                _ => None,
            };
            *m = next;
            res
        }
        "dup-rule-name" => {
            // a rule / rewrite / birewrite whose :name collides with an installed rule of the same ruleset
            // while head or right-hand side DIFFER: rejected (RuleAlreadyExists) — the installed rule
            // must keep firing and the rejected one must not exist. Probes make the body match, run the
            // ruleset and read the tables both rules write.
            if env.rules.is_empty() {
                return None;
            }
            let old = env.rules[r.below(env.rules.len())].clone();
            let mut next = *m;
            let res = match &old {
                Cmd::Rule(k, rs, body, head) => {
                    // variable sorts from the body
                    let mut vars: Vec<(Name, Name)> = Vec::new();
                    for f in body {
                        let (outv, call) = match f {
                            Fact::Eq(Expr::Var(v), c) => (Some(*v), c),
                            Fact::Holds(c) => (None, c),
                            _ => continue,
                        };
                        if let Expr::Call(fname, args) = call {
                            if let Some(sig) = env.funcs.iter().find(|g| g.name == *fname) {
                                for (a, s) in args.iter().zip(sig.ins.iter()) {
                                    if let Expr::Var(v) = a {
                                        vars.push((*v, *s));
                                    }
                                }
                                if let Some(v) = outv {
                                    if !sig.rel {
                                        vars.push((v, sig.out));
                                    }
                                }
                            }
                        }
                    }
                    // a different head: insert into some constructor / relation
                    let cs: Vec<&FSig> = env.funcs.iter().filter(|f| f.ctor).collect();
                    let mut new_head = None;
                    for t in 0..cs.len().min(8) {
                        let g = cs[(r.below(cs.len()) + t) % cs.len()];
                        let args: Option<Vec<Expr>> = g
                            .ins
                            .iter()
                            .map(|s| {
                                let c: Vec<Name> = vars.iter().filter(|(_, vs)| vs == s).map(|(v, _)| *v).collect();
                                if !c.is_empty() && r.chance(2, 3) {
                                    Some(Expr::Var(*r.pick(&c)))
                                } else {
                                    env.ground(r, *s, 1)
                                }
                            })
                            .collect();
                        if let Some(a) = args {
                            let act = Action::Do(Expr::Call(g.name, a));
                            if !head.contains(&act) {
                                new_head = Some((act, g.name));
                                break;
                            }
                        }
                    }
                    let (act, gname) = new_head?;
                    let mut probes = instantiate_body(env, r, body).unwrap_or_default();
                    probes.push(Cmd::Run(*rs, 2));
                    probes.push(Cmd::PrintSize(gname));
                    for a in head {
                        match a {
                            Action::Do(Expr::Call(h, _)) | Action::Set(h, _, _) => probes.push(Cmd::PrintSize(*h)),
                            _ => {}
                        }
                    }
                    if r.chance(1, 3) {
                        // the colliding declaration is a rewrite carrying the rule's name
                        match rewrite_sides(env, r, &mut next, None) {
                            Some((lhs, rhs, false)) => {
                                if let Some(g) = ground_pattern(env, r, &lhs) {
                                    probes.insert(0, g);
                                }
                                Some(Mutation { class, sub: "dup-rule-name/rewrite-vs-rule", bad: Cmd::Rewrite { id: *k, rs: *rs, lhs, rhs, bi: false }, probes })
                            }
                            _ => Some(Mutation { class, sub: "dup-rule-name/rule", bad: Cmd::Rule(*k, *rs, body.clone(), vec![act]), probes }),
                        }
                    } else {
                        Some(Mutation { class, sub: "dup-rule-name/rule", bad: Cmd::Rule(*k, *rs, body.clone(), vec![act]), probes })
                    }
                }
                Cmd::Rewrite { id, rs, lhs, rhs, bi } => {
                    let (l2, r2, _) = rewrite_sides(env, r, &mut next, Some((rhs, *bi)))?;
                    let mut probes = Vec::new();
                    if let Some(g) = ground_pattern(env, r, lhs) {
                        probes.push(g);
                    }
                    if let Some(g) = ground_pattern(env, r, &l2) {
                        probes.push(g);
                    }
                    probes.push(Cmd::Run(*rs, 2));
                    for e in [lhs, &l2] {
                        if let Expr::Call(c, _) = e {
                            probes.push(Cmd::PrintSize(*c));
                        }
                    }
                    for e in [rhs, &r2] {
                        if let Expr::Call(c, _) = e {
                            probes.push(Cmd::PrintSize(*c));
                        }
                    }
                    Some(Mutation {
                        class,
                        sub: if *bi { "dup-rule-name/birewrite" } else { "dup-rule-name/rewrite" },
                        bad: Cmd::Rewrite { id: *id, rs: *rs, lhs: l2, rhs: r2, bi: *bi },
                        probes,
                    })
                }
                _ => None,
            };
            *m = next;
            res
        }
        _ => None,
    }
}
