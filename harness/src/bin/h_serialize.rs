//! C04 "the serialised e-graph and the read API describe the same rows".
//!
//! Generated Egg sessions (generators of egg_gen.rs, all biases: inserts, unions, sets, rules, runs,
//! subsume / delete, fault injection) run on the real engine command by command. After EVERY
//! command (also failed ones):
//!   * the database is dumped through the read API (functions_iter + constructor_enodes /
//!     function_entries), the canonical id of every id in use is read through hook H0;
//!   * `EGraph::serialize` is called with the default configuration (and, for a part of the
//!     states, with a random max_functions / max_calls_per_function);
//!   * the predicate twin is evaluated on the implementation's output: the function nodes are
//!     exactly the live rows, a node's e-class is the canonical class of its row's output, every
//!     child is a node of the graph whose e-class is the canonical class of the argument, subsumed
//!     flags agree, equal outputs <-> one e-class;
//!   * the state is written as a case for the Gallina model `Egg/Serialize.v`: the kernel runs the
//!     model on the dump and compares the whole node map (IndexMap order), the class data, the
//!     truncated / discarded lists.
use std::collections::{BTreeMap, HashMap, HashSet};
use verif_harness::egg::*;
use verif_harness::egg_gen::*;
use verif_harness::util::*;
use egglog_numeric_id::NumericId;
use egglog::sort::Sort as _;

struct Viol {
    what: String,
    key: String,
    program: String,
    at: usize,
    case: usize,
    bias: String,
}

#[derive(Clone, Debug, PartialEq, Eq, Hash)]
enum Cls {
    Eq(u32),
    Int(i64),
    Unit,
    Bad(String),
}
#[derive(Clone, Debug, PartialEq, Eq, Hash)]
enum Nid {
    Fun(usize, usize),
    Prim(Cls),
    Dummy(Cls),
    Bad(String),
}

fn cls_coq(c: &Cls) -> String {
    match c {
        Cls::Eq(i) => format!("CEq {i}"),
        Cls::Int(z) => format!("CInt {}", coq_z(*z)),
        Cls::Unit => "CUnit".into(),
        Cls::Bad(_) => "CEq 999999".into(),
    }
}
fn nid_coq(n: &Nid) -> String {
    match n {
        Nid::Fun(f, o) => format!("NFun {f} {o}"),
        Nid::Prim(c) => format!("NPrim ({})", cls_coq(c)),
        Nid::Dummy(c) => format!("NDummy ({})", cls_coq(c)),
        Nid::Bad(_) => "NFun 999999 0".into(),
    }
}
fn v_coq(v: &V) -> String {
    match v {
        V::Id(i) => format!("VId {i}"),
        V::Int(z) => format!("VInt {}", coq_z(*z)),
    }
}

#[derive(Clone, Copy, PartialEq, Debug)]
enum OKind {
    Eq,
    Int,
    Unit,
}

struct FunInfo {
    name: String,
    args: Vec<Sort>,
    out: OKind,
    is_ctor_table: bool,
    out_sort: String,
}

/// the tables of the engine in `functions_iter` order; None when a table is outside the modelled
/// fragment (let bindings, container / other sorts)
fn signature(eg: &egglog::EGraph) -> Option<Vec<FunInfo>> {
    let mut v = Vec::new();
    for (name, f) in eg.functions_iter() {
        if f.is_let_binding() {
            return None;
        }
        let ft = f.func_type();
        let mut args = Vec::new();
        for s in &ft.input {
            match s.name() {
                _ if s.is_eq_sort() => args.push(Sort::S),
                "i64" => args.push(Sort::I),
                o => {
                    if std::env::var("SER_DEBUG").is_ok() { eprintln!("unsupported arg sort {o} in {name}"); }
                    return None;
                }
            }
        }
        let out = match ft.output.name() {
            _ if ft.output.is_eq_sort() => OKind::Eq,
            "i64" => OKind::Int,
            "Unit" => OKind::Unit,
            o => {
                if std::env::var("SER_DEBUG").is_ok() { eprintln!("unsupported out sort {o} in {name}"); }
                return None;
            }
        };
        let is_ctor_table = matches!(ft.subtype, egglog::ast::FunctionSubtype::Constructor);
        v.push(FunInfo { name: name.clone(), args, out, is_ctor_table, out_sort: ft.output.name().to_string() });
    }
    Some(v)
}

fn gdump(eg: &egglog::EGraph, sig: &[FunInfo]) -> Result<Vec<Vec<DumpRow>>, String> {
    let mut tabs = Vec::new();
    for fi in sig {
        let mut rows = Vec::new();
        let outv = |v: egglog::Value| match fi.out {
            OKind::Eq => V::Id(v.rep()),
            OKind::Int => V::Int(eg.value_to_base::<i64>(v)),
            OKind::Unit => V::Int(0),
        };
        if fi.is_ctor_table {
            eg.constructor_enodes(&fi.name, |e| {
                let args = e.children.iter().zip(fi.args.iter()).map(|(v, s)| conv(eg, *v, s)).collect();
                rows.push(DumpRow { args, ret: outv(e.eclass), sub: e.subsumed });
            })
            .map_err(|e| format!("{e}"))?;
        } else {
            eg.function_entries(&fi.name, |e| {
                let args = e.inputs.iter().zip(fi.args.iter()).map(|(v, s)| conv(eg, *v, s)).collect();
                rows.push(DumpRow { args, ret: outv(e.output), sub: e.subsumed });
            })
            .map_err(|e| format!("{e}"))?;
        }
        tabs.push(rows);
    }
    Ok(tabs)
}

fn parse_cls(eg: &egglog::EGraph, sig: &[FunInfo], s: &str) -> Cls {
    match s.rsplit_once('-') {
        Some((sn, n)) if sig.iter().any(|fi| fi.out == OKind::Eq && fi.out_sort == sn) => n.parse::<u32>().map(Cls::Eq).unwrap_or(Cls::Bad(s.into())),
        Some(("i64", _)) => {
            let cid: String = s.to_string();
            let v = eg.class_id_to_value(&cid.into());
            Cls::Int(eg.value_to_base::<i64>(v))
        }
        Some(("Unit", _)) => Cls::Unit,
        _ => Cls::Bad(s.into()),
    }
}
fn parse_nid(eg: &egglog::EGraph, sig: &[FunInfo], s: &str) -> Nid {
    if let Some(rest) = s.strip_prefix("function-") {
        if let Some((off, name)) = rest.split_once('-') {
            if let (Ok(off), Some(f)) = (off.parse::<usize>(), sig.iter().position(|fi| fi.name == name)) {
                return Nid::Fun(f, off);
            }
        }
        Nid::Bad(s.into())
    } else if let Some(rest) = s.strip_prefix("primitive-") {
        Nid::Prim(parse_cls(eg, sig, rest))
    } else if let Some(rest) = s.strip_prefix("dummy-") {
        Nid::Dummy(parse_cls(eg, sig, rest))
    } else {
        Nid::Bad(s.into())
    }
}

struct SNode {
    id: Nid,
    op: String,
    cls: Cls,
    children: Vec<Nid>,
    sub: bool,
}

fn node_coq(sig: &[FunInfo], n: &SNode) -> String {
    let op = match &n.id {
        Nid::Fun(..) => match sig.iter().position(|fi| fi.name == n.op) {
            Some(f) => format!("OpFun {f}"),
            None => "OpFun 999999".into(),
        },
        Nid::Prim(Cls::Unit) => if n.op == "()" { "OpUnit".into() } else { "OpDummy".to_string() },
        Nid::Prim(_) => match n.op.parse::<i64>() {
            Ok(z) => format!("OpInt {}", coq_z(z)),
            Err(_) => "OpDummy".into(),
        },
        Nid::Dummy(_) => if n.op == "[...]" { "OpDummy".into() } else { "OpUnit".to_string() },
        Nid::Bad(_) => "OpDummy".into(),
    };
    format!("mkNE ({}) (mkNode ({op}) ({}) {} {})", nid_coq(&n.id), cls_coq(&n.cls), coq_list(&n.children, nid_coq), coq_bool(n.sub))
}

fn main() {
    let o = verif_harness::parse_opts();
    let mut ncases_override: Option<usize> = None;
    let mut i = 0;
    while i < o.extra.len() {
        if o.extra[i] == "--cases" {
            ncases_override = Some(o.extra[i + 1].parse::<usize>().expect("cases"));
            i += 1;
        }
        i += 1;
    }
    let header = "From Coq Require Import List ZArith NArith.\nImport ListNotations.\nRequire Import Verif.Base.Cases Verif.Egg.Model Verif.Egg.Serialize.\n";
    let mut w = CaseWriter::new(&o.out, "cases_ser", header, "check_case", 300);
    let nsessions = if o.thorough { ncases_override.map(|n| n * 10).unwrap_or(1500) } else { ncases_override.unwrap_or(120) };
    std::panic::set_hook(Box::new(|_| {}));
    let biases = [Bias::C04, Bias::C13, Bias::C01, Bias::C13, Bias::C05, Bias::C03];

    let mut sessions: Vec<(usize, Bias)> = Vec::new();
    let mut seed = o.seed;
    if let Some(path) = &o.replay {
        let txt = std::fs::read_to_string(path).expect("replay");
        let v: serde_json::Value = serde_json::from_str(&txt).expect("json");
        let viol = if v.get("violation").is_some() { &v["violation"] } else { &v };
        seed = viol["seed"].as_u64().unwrap_or(o.seed);
        let idx = viol["case"].as_u64().unwrap_or(0) as usize;
        sessions.push((idx, biases[idx % biases.len()]));
    } else {
        for ci in 0..nsessions {
            sessions.push((ci, biases[ci % biases.len()]));
        }
    }
    // corpus programs first (raw egglog text, one command per line after a `;; header` block)
    let mut corpus: Vec<(String, Vec<String>)> = Vec::new();
    if o.replay.is_none() {
        if let Ok(rd) = std::fs::read_dir("/verif/corpus/C04") {
            let mut files: Vec<_> = rd.flatten().map(|e| e.path()).filter(|p| p.extension().map(|x| x == "ser").unwrap_or(false)).collect();
            files.sort();
            for f in files {
                if let Ok(t) = std::fs::read_to_string(&f) {
                    let mut parts = t.splitn(2, ";; commands\n");
                    let head = parts.next().unwrap_or("").to_string();
                    let cmds: Vec<String> = parts.next().unwrap_or("").lines().filter(|l| !l.trim().is_empty()).map(|l| l.to_string()).collect();
                    corpus.push((head, cmds));
                }
            }
        }
    }

    let mut viols: Vec<Viol> = Vec::new();
    let mut distinct: HashSet<String> = HashSet::new();
    let mut nontrivial = 0usize;
    let mut states = 0usize;
    let mut unsupported_states = 0usize;
    let mut cfg_cases = 0usize;
    let mut kind_hist: BTreeMap<String, usize> = BTreeMap::new();
    let mut cmd_hist: BTreeMap<String, usize> = BTreeMap::new();
    let mut size_hist: BTreeMap<String, usize> = BTreeMap::new();
    let mut samples: Vec<serde_json::Value> = Vec::new();
    let mut twin_evals = 0usize;

    // unify corpus + generated sessions: (header, command texts, tag, case index, bias name)
    let mut runs: Vec<(String, Vec<String>, String, usize, String)> = Vec::new();
    for (n, (h, c)) in corpus.iter().enumerate() {
        runs.push((h.clone(), c.clone(), format!("corpus #{n}"), 1_000_000 + n, "corpus".into()));
    }
    for (ci, bias) in &sessions {
        let mut r = Rng::for_case(seed, *ci as u64);
        let n = r.range(3, 14);
        let p = Gen::new(&mut r, *bias).program(n);
        for c in &p.cmds {
            *cmd_hist
                .entry(
                    match c {
                        Cmd::Act(Action::Expr(_)) => "insert",
                        Cmd::Act(Action::Union(..)) => "union",
                        Cmd::Act(Action::Set(..)) => "set",
                        Cmd::Act(Action::Subsume(..)) => "subsume",
                        Cmd::Act(Action::Delete(..)) => "delete",
                        Cmd::Act(Action::Panic) => "panic",
                        Cmd::Rule(_) => "rule",
                        Cmd::Run(_) => "run",
                        Cmd::Raw(_) => "fault",
                    }
                    .to_string(),
                )
                .or_insert(0) += 1;
        }
        runs.push((p.header(), p.cmds.iter().map(|c| p.cmd_text(c)).collect(), format!("seed={seed} case={ci}"), *ci, format!("{bias:?}")));
    }

    for (head, cmds, tag, ci, bias) in &runs {
        let mut eg = egglog::EGraph::default();
        let (r0, _) = step(&mut eg, head);
        if let Err(e) = r0 {
            viols.push(Viol { what: format!("harness: header rejected: {e}"), key: "harness-header".into(), program: head.clone(), at: 0, case: *ci, bias: bias.clone() });
            continue;
        }
        let mut text = head.clone();
        let mut r2 = Rng::for_case(seed ^ 0x5e71a112e, *ci as u64);
        *size_hist.entry(format!("cmds_{:02}", cmds.len())).or_insert(0) += 1;
        'cmds: for (k, ctext) in cmds.iter().enumerate() {
            let (res, panicked) = step(&mut eg, ctext);
            text.push_str(ctext);
            text.push('\n');
            let ok = res.is_ok();
            if panicked {
                // a panicking engine is reported by h_egg; nothing to serialise reliably
                break;
            }
            states += 1;
            let sig = match signature(&eg) {
                Some(s) => s,
                None => {
                    unsupported_states += 1;
                    continue;
                }
            };
            let tabs = match gdump(&eg, &sig) {
                Ok(t) => t,
                Err(e) => {
                    viols.push(Viol { what: format!("dump failed after command {k}: {e}"), key: "dump-failed".into(), program: text.clone(), at: k, case: *ci, bias: bias.clone() });
                    break;
                }
            };
            // canonical-id map (hook H0) over every id in use
            let mut maxid = 0u32;
            let mut any = false;
            for t in &tabs {
                for r in t {
                    for v in r.args.iter().chain(std::iter::once(&r.ret)) {
                        if let V::Id(i) = v {
                            maxid = maxid.max(*i).max(canon_u32(&eg, *i));
                            any = true;
                        }
                    }
                }
            }
            let canon: Vec<usize> = if any { (0..=maxid).map(|i| canon_u32(&eg, i) as usize).collect() } else { vec![] };
            let cls_of = |v: &V| match v {
                V::Id(i) => Cls::Eq(canon_u32(&eg, *i)),
                V::Int(z) => Cls::Int(*z),
            };
            // configurations: default always; a random limited one for a third of the states
            let mut cfgs: Vec<(Option<usize>, Option<usize>)> = vec![(None, None)];
            if r2.chance(1, 3) {
                let mf = if r2.chance(1, 2) { Some(r2.below(5)) } else { None };
                let mc = if r2.chance(2, 3) { Some(r2.below(4)) } else { None };
                if mf.is_some() || mc.is_some() {
                    cfgs.push((mf, mc));
                }
            }
            for (mf, mc) in cfgs {
                let is_default = mf.is_none() && mc.is_none();
                let ser = std::panic::catch_unwind(std::panic::AssertUnwindSafe(|| {
                    eg.serialize(egglog::SerializeConfig { max_functions: mf, max_calls_per_function: mc, include_temporary_functions: false, root_eclasses: vec![] })
                }));
                let ser = match ser {
                    Ok(s) => s,
                    Err(_) => {
                        viols.push(Viol { what: format!("after command {k} `{}`: serialize panicked (max_functions {mf:?}, max_calls {mc:?})", ctext.replace('\n', " ")), key: "C04-serialize-panic".into(), program: text.clone(), at: k, case: *ci, bias: bias.clone() });
                        break 'cmds;
                    }
                };
                let nodes: Vec<SNode> = ser
                    .egraph
                    .nodes
                    .iter()
                    .map(|(id, n)| SNode {
                        id: parse_nid(&eg, &sig, &id.to_string()),
                        op: n.op.clone(),
                        cls: parse_cls(&eg, &sig, &n.eclass.to_string()),
                        children: n.children.iter().map(|c| parse_nid(&eg, &sig, &c.to_string())).collect(),
                        sub: n.subsumed,
                    })
                    .collect();
                let cdata: Vec<Cls> = ser.egraph.class_data.iter().map(|(c, _)| parse_cls(&eg, &sig, &c.to_string())).collect();
                let fidx = |name: &String| sig.iter().position(|fi| fi.name == *name).unwrap_or(999_999);
                let trunc: Vec<usize> = ser.truncated_functions.iter().map(fidx).collect();
                let disc: Vec<usize> = ser.discarded_functions.iter().map(fidx).collect();

                // ---------------- predicate twin on the implementation (default configuration)
                if is_default {
                    twin_evals += 1;
                    let by_id: HashMap<&Nid, &SNode> = nodes.iter().map(|n| (&n.id, n)).collect();
                    let mut bad: Option<(String, &str)> = None;
                    if !ser.is_complete() {
                        bad = Some(("the default configuration reports truncated / discarded functions".into(), "C04-serialize-incomplete"));
                    }
                    let nfun = nodes.iter().filter(|n| matches!(n.id, Nid::Fun(..))).count();
                    let nrows: usize = tabs.iter().map(|t| t.len()).sum();
                    if bad.is_none() && nfun != nrows {
                        bad = Some((format!("serialize has {nfun} function nodes, the read API {nrows} rows"), "C04-serialize-nodes-vs-rows"));
                    }
                    if bad.is_none() && nodes.iter().any(|n| matches!(n.id, Nid::Bad(_)) || matches!(n.cls, Cls::Bad(_))) {
                        bad = Some(("a node / class id of the serialised graph does not parse back".into(), "C04-serialize-ids"));
                    }
                    let mut class_of_out: HashMap<Cls, HashSet<V>> = HashMap::new();
                    'rows: for (f, t) in tabs.iter().enumerate() {
                        if bad.is_some() {
                            break;
                        }
                        for (off, r) in t.iter().enumerate() {
                            let n = match by_id.get(&Nid::Fun(f, off)) {
                                Some(n) => n,
                                None => {
                                    bad = Some((format!("row {off} of {} ({:?} -> {:?}) has no node in the serialised graph", sig[f].name, r.args, r.ret), "C04-serialize-nodes-vs-rows"));
                                    break 'rows;
                                }
                            };
                            let want = match sig[f].out {
                                OKind::Unit => Cls::Unit,
                                _ => cls_of(&r.ret),
                            };
                            if n.cls != want || n.op != sig[f].name {
                                bad = Some((format!("node of row {off} of {} ({:?} -> {:?}): op {} e-class {:?}, the canonical class of the row's output is {:?}", sig[f].name, r.args, r.ret, n.op, n.cls, want), "C04-serialize-class"));
                                break 'rows;
                            }
                            if n.sub != r.sub {
                                bad = Some((format!("node of row {off} of {}: subsumed={} but the read API says {}", sig[f].name, n.sub, r.sub), "C04-serialize-subsumed"));
                                break 'rows;
                            }
                            if n.children.len() != r.args.len() {
                                bad = Some((format!("node of row {off} of {} has {} children for {} arguments", sig[f].name, n.children.len(), r.args.len()), "C04-serialize-children"));
                                break 'rows;
                            }
                            for (ch, a) in n.children.iter().zip(r.args.iter()) {
                                match by_id.get(ch) {
                                    Some(cn) if cn.cls == cls_of(a) => {}
                                    Some(cn) => {
                                        bad = Some((format!("child {:?} of row {off} of {} is in e-class {:?}, the argument {:?} has canonical class {:?}", ch, sig[f].name, cn.cls, a, cls_of(a)), "C04-serialize-children"));
                                        break 'rows;
                                    }
                                    None => {
                                        bad = Some((format!("child {:?} of row {off} of {} is not a node of the serialised graph", ch, sig[f].name), "C04-serialize-children"));
                                        break 'rows;
                                    }
                                }
                            }
                            if sig[f].out == OKind::Eq {
                                class_of_out.entry(n.cls.clone()).or_default().insert(r.ret.clone());
                            }
                        }
                    }
                    // one e-class <-> one output value in the read API (equal terms, one class)
                    if bad.is_none() {
                        let mut seen: HashMap<&V, &Cls> = HashMap::new();
                        for (c, outs) in &class_of_out {
                            if outs.len() != 1 {
                                bad = Some((format!("e-class {:?} holds nodes whose rows have different outputs in the read API: {:?}", c, outs), "C04-serialize-class-vs-read"));
                                break;
                            }
                            if let Some(prev) = seen.insert(outs.iter().next().unwrap(), c) {
                                bad = Some((format!("rows with the same output are serialised into two e-classes {:?} and {:?}", prev, c), "C04-serialize-class-vs-read"));
                                break;
                            }
                        }
                    }
                    // every node's class has class data
                    if bad.is_none() {
                        let cd: HashSet<&Cls> = cdata.iter().collect();
                        if let Some(n) = nodes.iter().find(|n| !cd.contains(&n.cls)) {
                            bad = Some((format!("e-class {:?} of node {:?} has no class data", n.cls, n.id), "C04-serialize-classdata"));
                        }
                    }
                    if let Some((msg, key)) = bad {
                        viols.push(Viol { what: format!("after command {k} `{}` ({}): {msg}", ctext.replace('\n', " "), if ok { "ok" } else { "failed" }), key: key.into(), program: text.clone(), at: k, case: *ci, bias: bias.clone() });
                        break 'cmds;
                    }
                    // statistics: what makes a state non-trivial
                    let mut per_class: HashMap<&Cls, usize> = HashMap::new();
                    for n in nodes.iter().filter(|n| matches!(n.id, Nid::Fun(..)) && matches!(n.cls, Cls::Eq(_))) {
                        *per_class.entry(&n.cls).or_insert(0) += 1;
                    }
                    let shared = per_class.values().any(|c| *c >= 2);
                    let dummy = nodes.iter().any(|n| matches!(n.id, Nid::Dummy(_)));
                    let subs = nodes.iter().any(|n| n.sub);
                    if shared {
                        *kind_hist.entry("state_with_shared_eclass".into()).or_insert(0) += 1;
                    }
                    if dummy {
                        *kind_hist.entry("state_with_dummy_node".into()).or_insert(0) += 1;
                    }
                    if subs {
                        *kind_hist.entry("state_with_subsumed_node".into()).or_insert(0) += 1;
                    }
                    if !ok {
                        *kind_hist.entry("state_after_failed_command".into()).or_insert(0) += 1;
                    }
                    *kind_hist.entry(format!("nodes_{:03}", (nodes.len() / 10) * 10)).or_insert(0) += 1;
                    let case_key = format!("{:?}|{:?}", tabs.iter().map(|t| t.iter().map(|r| (r.args.clone(), r.ret.clone(), r.sub)).collect::<Vec<_>>()).collect::<Vec<_>>(), canon);
                    if (shared || dummy || subs) && distinct.insert(case_key) {
                        nontrivial += 1;
                        if samples.len() < 3 && nodes.len() >= 6 {
                            samples.push(serde_json::json!({"tag": tag, "after_command": k, "program": text, "nodes": nodes.len(),
                                "first_nodes": nodes.iter().take(6).map(|n| format!("{:?} op={} class={:?} children={:?} sub={}", n.id, n.op, n.cls, n.children, n.sub)).collect::<Vec<_>>()}));
                        }
                    }
                } else {
                    cfg_cases += 1;
                    if !trunc.is_empty() {
                        *kind_hist.entry("cfg_truncated".into()).or_insert(0) += 1;
                    }
                    if !disc.is_empty() {
                        *kind_hist.entry("cfg_discarded".into()).or_insert(0) += 1;
                    }
                }
                // ---------------- case for the Gallina model
                let outs = coq_list(&sig, |fi| match fi.out {
                    OKind::Eq => "OEq".into(),
                    OKind::Int => "OInt".into(),
                    OKind::Unit => "OUnit".into(),
                });
                let tabs_coq = coq_list(&tabs, |t| coq_list(t, |r| format!("mkRow {} ({}) {}", coq_list(&r.args, v_coq), v_coq(&r.ret), coq_bool(r.sub))));
                let on = |x: Option<usize>| x.map(|n| format!("(Some {n})")).unwrap_or("None".into());
                w.push(format!(
                    "(mkSCase {} {} {} {} {} {} {} {} {})",
                    outs,
                    coq_nat_list(&canon),
                    tabs_coq,
                    on(mf),
                    on(mc),
                    coq_list(&nodes, |n| node_coq(&sig, n)),
                    coq_list(&cdata, cls_coq),
                    coq_nat_list(&trunc),
                    coq_nat_list(&disc)
                ));
            }
        }
    }
    w.flush();
    let vj: Vec<serde_json::Value> = viols
        .iter()
        .take(25)
        .map(|v| {
            serde_json::json!({"what": v.what, "key": v.key, "input": {"program": v.program, "failing_command_index": v.at},
                               "seed": seed, "case": v.case, "bias": v.bias, "harness": "h_serialize"})
        })
        .collect();
    let rep = serde_json::json!({
        "sub": "serialize",
        "cases": w.total,
        "shards": w.shards,
        "distinct_nontrivial": nontrivial,
        "rule": "seeded random egglog sessions (egg_gen.rs generators with the C04/C13/C01/C05/C03 biases: inserts, unions, sets, rules, runs, subsume, delete, failing commands); one case per (state after a command, serialize configuration): read-API dump + canonical-id map + the engine's serialize output; a state is non-trivial iff two function nodes share an e-class, or a dummy node appears (a class without nodes, after a delete), or a node is subsumed; distinct by dump + canonical map",
        "samples": samples,
        "violations": vj,
        "cmd_hist": cmd_hist,
        "kind_hist": kind_hist,
        "size_hist": size_hist,
        "extra_coverage": {"serialize_states": states, "serialize_twin_evaluations": twin_evals, "serialize_limited_config_cases": cfg_cases, "serialize_unsupported_states": unsupported_states, "serialize_sessions": runs.len()}
    });
    std::fs::write(o.out.join("impl_report.json"), serde_json::to_string(&rep).unwrap()).unwrap();
}
