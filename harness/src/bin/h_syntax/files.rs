//! tests/*.egg of the repository: (a) every command of every file goes through the round-trip
//! predicate and the model cases; (b) `EGraph::resolve_program` output (the desugared, resolved
//! program) is printed, re-run on a fresh engine, and its outputs compared with the outputs of the
//! original program (same procedure and same output projection as tests/files.rs `_desugar`).
use crate::{parse_prog, Ctx, Violation, PR};
use egglog::{CommandOutput, EGraph};
use std::sync::mpsc;
use std::time::{Duration, Instant};
use verif_harness::util::json_str;
use verif_harness::Opts;

fn run_text(text: &str, reserved_ok: bool) -> Result<Vec<CommandOutput>, String> {
    let mut e = EGraph::default();
    if reserved_ok {
        e.ensure_no_reserved_symbols(false);
    }
    e.parse_and_run_program(None, text).map_err(|e| e.to_string())
}

#[derive(Debug)]
enum Outcome {
    Same { exact: bool },
    OrigFails,
    ResolveFails,
    RerunFails(String, String),
    Differs(String, String, String),
}

fn desugar_rerun(program: String) -> Outcome {
    let orig = match run_text(&program, false) {
        Ok(o) => o,
        Err(_) => return Outcome::OrigFails,
    };
    let mut e = EGraph::default();
    let resolved = match e.resolve_program(None, &program) {
        Ok(r) => r,
        Err(_) => return Outcome::ResolveFails,
    };
    let text = resolved.iter().map(|c| c.to_string()).collect::<Vec<_>>().join("\n");
    match run_text(&text, true) {
        Err(err) => Outcome::RerunFails(text, err),
        Ok(out) => {
            let a = CommandOutput::snapshot_stable_under_proof_encoding(&orig);
            let b = CommandOutput::snapshot_stable_under_proof_encoding(&out);
            if a != b {
                Outcome::Differs(text, a, b)
            } else {
                let fa: String = orig.iter().map(|x| x.to_string()).collect();
                let fb: String = out.iter().map(|x| x.to_string()).collect();
                Outcome::Same { exact: fa == fb }
            }
        }
    }
}

pub fn run(cx: &mut Ctx, o: &Opts) -> String {
    let repo = std::env::var("VERIF_REPO").unwrap_or_else(|_| "/repo".into());
    let _ = std::env::set_current_dir(&repo);
    let mut files: Vec<_> = std::fs::read_dir(format!("{repo}/tests"))
        .map(|d| d.flatten().map(|e| e.path()).filter(|p| p.extension().map(|x| x == "egg").unwrap_or(false)).collect())
        .unwrap_or_default();
    files.sort();
    let (mut ncmd, mut nfiles, mut same, mut exact, mut skipped, mut timeouts) = (0usize, 0usize, 0usize, 0usize, 0usize, 0usize);
    let per_file = Duration::from_secs(if o.thorough { 60 } else { 8 });
    let started = Instant::now();
    let budget = Duration::from_secs(if o.thorough { 900 } else { 100 });
    for p in files {
        let Ok(program) = std::fs::read_to_string(&p) else { continue };
        let name = p.file_name().unwrap().to_string_lossy().to_string();
        // (a) commands
        if let PR::Ok(cmds) = parse_prog(&program, true) {
            nfiles += 1;
            for (i, c) in cmds.iter().enumerate() {
                ncmd += 1;
                let origin = c.to_string();
                // the kernel sees a bounded number per file; the predicate sees all of them
                let saved = cx.emit_coq;
                cx.emit_coq = saved && (i < 5 || o.thorough && i < 60);
                cx.cmd_case(c, true, &origin, true);
                cx.emit_coq = saved;
            }
        }
        // (b) desugar, re-run; files that write files or are large are left out
        if program.contains("(output") || program.contains(":file") || program.contains("(input") || program.len() > 60_000 || started.elapsed() > budget {
            skipped += 1;
            continue;
        }
        let (tx, rx) = mpsc::channel();
        let prog = program.clone();
        std::thread::Builder::new()
            .stack_size(256 << 20)
            .spawn(move || {
                let r = std::panic::catch_unwind(|| desugar_rerun(prog));
                let _ = tx.send(r);
            })
            .unwrap();
        match rx.recv_timeout(per_file) {
            Err(_) => timeouts += 1,
            Ok(Err(_)) => cx.violations.push(Violation {
                key: "C15-desugar-panic".into(),
                what: format!("engine panicked while desugaring / re-running tests/{name}"),
                input: format!("{{\"kind\":\"file\",\"file\":{}}}", json_str(&name)),
            }),
            Ok(Ok(Outcome::Same { exact: e })) => {
                same += 1;
                if e {
                    exact += 1;
                }
            }
            Ok(Ok(Outcome::OrigFails)) | Ok(Ok(Outcome::ResolveFails)) => skipped += 1,
            Ok(Ok(Outcome::RerunFails(text, err))) => cx.violations.push(Violation {
                key: format!("C15-desugared-program-rejected:{name}"),
                what: format!("the desugared program of tests/{name} is rejected by a fresh engine: {}", err.chars().take(400).collect::<String>()),
                input: format!("{{\"kind\":\"src-run\",\"file\":{},\"text\":{}}}", json_str(&name), json_str(&text.chars().take(4000).collect::<String>())),
            }),
            Ok(Ok(Outcome::Differs(text, a, b))) => cx.violations.push(Violation {
                key: format!("C15-desugared-program-output-differs:{name}"),
                what: format!("tests/{name}: outputs of the original {:?} and of the desugared program {:?}", a.chars().take(300).collect::<String>(), b.chars().take(300).collect::<String>()),
                input: format!("{{\"kind\":\"src-run\",\"file\":{},\"text\":{}}}", json_str(&name), json_str(&text.chars().take(4000).collect::<String>())),
            }),
        }
    }
    format!(
        ",\"egg_files_parsed\":{nfiles},\"egg_file_commands\":{ncmd},\"desugared_rerun_same_outputs\":{same},\"desugared_rerun_byte_identical_outputs\":{exact},\"desugared_rerun_skipped\":{skipped},\"desugared_rerun_timeouts\":{timeouts}"
    )
}
