(** C12: the dispatch table of the proof checker, REGENERATED from the source
    (gen/ProofChkFacts.v, translator/src/x_proofchk.rs) and tied to the Gallina checker.

    Two ties:
    (1) [check_tbl] is a checker whose side conditions are DRIVEN by the regenerated table: for a
        node of kind K it runs, for every [ProofCheckErrorKind] / helper call the Rust arm of K
        lists (source order), the boolean condition under which that error is NOT raised; a name it
        does not know is a failed condition (fail closed); the number of recursive
        [check_proof_with_context] calls of the arm must be the number of sub-proofs the Gallina
        constructor carries. [check_tbl_eq] proves [check_tbl = check] for all inputs, so the
        soundness / completeness theorems of ProofChk/Sound.v are theorems about the table-driven
        checker: removing an endpoint comparison (its error kind disappears from the arm), adding
        a check, or changing a premise count breaks [check_tbl_eq].
    (2) [model_*] are the tables the hand-written model was written against, row by row, including
        the arms that are not modelled; [dispatch_pinned] proves they are equal to the
        regenerated ones, so ANY change of the extracted shape (a new proof-node kind, a new or
        removed comparison, another operand, another helper) breaks a pinned obligation. *)
From Coq Require Import List Arith ZArith Bool PeanoNat String.
Import ListNotations.
Require Import Verif.Egg.Model Verif.ProofChk.Checker Verif.ProofChk.Sound Verif.gen.ProofChkFacts.
Open Scope string_scope.
Open Scope list_scope.

(* ------------------------------------------------------------------ *)
(** * lookup in the regenerated table *)

Definition arm_of (k : string) : option arm :=
  find (fun a => prefix (String.append "Justification::" k) (a_pat a)) checker_arms.

(** the k-th (k >= 2) occurrence of a name gets the suffix #k: the two [MergeFnNotReflexive] /
    [MergeFnEmptyArgs] checks of the MergeFn arm are different checks *)
Fixpoint occs (x : string) (l : list string) : nat :=
  match l with
  | [] => 0
  | y :: tl => (if String.eqb x y then 1 else 0) + occs x tl
  end.

Definition digit (n : nat) : string :=
  match n with
  | 0 => "0" | 1 => "1" | 2 => "2" | 3 => "3" | 4 => "4" | 5 => "5" | 6 => "6" | 7 => "7" | 8 => "8"
  | _ => "9+"
  end.

Fixpoint tag_dups (seen l : list string) : list string :=
  match l with
  | [] => []
  | x :: tl =>
      (match occs x seen with 0 => x | n => String.append x (String.append "#" (digit (S n))) end) :: tag_dups (x :: seen) tl
  end.

Definition arm_checks (k : string) : list string :=
  match arm_of k with
  | Some a => tag_dups [] (a_errs a ++ a_calls a)
  | None => ["<no such arm>"]
  end.

Definition arm_recs (k : string) (n nloop : nat) : bool :=
  match arm_of k with
  | Some a => Nat.eqb (a_rec a) n && Nat.eqb (a_rec_loop a) nloop
  | None => false
  end.

(** the condition named [e] among [cases]; an unknown name is a failed condition *)
Fixpoint sw (e : string) (cases : list (string * bool)) : bool :=
  match cases with
  | [] => false
  | (n, b) :: tl => if String.eqb e n then b else sw e tl
  end.

(* ------------------------------------------------------------------ *)
(** * the conditions, per kind, named as in the source *)

Definition fiat_chk (g : gctx) (l r : term) (e : string) : bool :=
  sw e [("InvalidFiat", (is_lit l && tm_eqb l r) || in_props l r (geqs g));
        ("ctx.in_globals", true)].

Definition rule_chk (w : env) (l r : term) (orl : option rule) (nprems : nat) (prems_ok : bool)
           (e : string) : bool :=
  sw e [("RuleNotFound", match orl with Some _ => true | None => false end);
        ("RulePremiseCountMismatch",
           match orl with Some rl => Nat.eqb (List.length (rbody rl)) nprems | None => true end);
        (* no primitive in the modelled fragment: every body is in proof normal form and no fact
           is a container side condition *)
        ("self.assert_body_proof_normal_form", true);
        ("is_container_side_condition", true);
        ("self.check_side_condition", true);
        ("self.check_fact_matches_proposition", prems_ok);
        ("self.check_rule_produces_equality",
           match orl with
           | Some rl => match process_actions w (rhead rl) with
                        | Some (_, props) => in_props l r props
                        | None => false
                        end
           | None => true
           end)].

Definition trans_chk (l r a b b' c : term) (e : string) : bool :=
  sw e [("TransitivityMismatch", tm_eqb b b');
        ("TermMismatch", tm_eqb l a && tm_eqb r c)].

Definition sym_chk (l r a b : term) (e : string) : bool :=
  sw e [("TermMismatch", tm_eqb l b && tm_eqb r a)].

Definition congr_chk (l r bl br cl cr : term) (i : nat) (e : string) : bool :=
  sw e [("CongruenceBaseNotApp", match br with T _ _ => true | TI _ => false end);
        ("CongruenceChildIndexOutOfBounds",
           match br with T _ cs => Nat.ltb i (List.length cs) | TI _ => true end);
        ("CongruenceChildMismatch",
           match br with
           | T _ cs => match nth_error cs i with Some x => tm_eqb x cl | None => false end
           | TI _ => true
           end);
        ("CongruenceResultMismatch",
           match br with T f cs => tm_eqb r (T f (set_child cs i cr)) | TI _ => true end);
        ("CongruenceLhsMismatch", tm_eqb l bl)].

(* ------------------------------------------------------------------ *)
(** * the table-driven checker *)

Fixpoint check_tbl (g : gctx) (prog : program) (p : proof) {struct p} : option prop :=
  match p with
  | PFiat l r =>
      if arm_recs "Fiat" 0 0 && forallb (fiat_chk g l r) (arm_checks "Fiat")
      then Some (l, r) else None
  | PRule l r name prems sub =>
      let w := sub ++ gbind g in
      let orl := find_rule prog name in
      let prems_ok :=
        (fix go (fs : list fact) (ps : list proof) {struct ps} : bool :=
           match fs, ps with
           | f :: fs', q :: ps' =>
               match check_tbl g prog q with
               | Some pr => fact_matches w f pr && go fs' ps'
               | None => false
               end
           | _, _ => true
           end) (match orl with Some rl => rbody rl | None => [] end) prems in
      if arm_recs "Rule" 0 1 && forallb (rule_chk w l r orl (List.length prems) prems_ok) (arm_checks "Rule")
      then Some (l, r) else None
  | PTrans l r p1 p2 =>
      match check_tbl g prog p1, check_tbl g prog p2 with
      | Some (a, b), Some (b', c) =>
          if arm_recs "Trans" 2 0 && forallb (trans_chk l r a b b' c) (arm_checks "Trans")
          then Some (l, r) else None
      | _, _ => None
      end
  | PSym l r p1 =>
      match check_tbl g prog p1 with
      | Some (a, b) =>
          if arm_recs "Sym" 1 0 && forallb (sym_chk l r a b) (arm_checks "Sym")
          then Some (l, r) else None
      | None => None
      end
  | PCongr l r p1 i c =>
      match check_tbl g prog p1, check_tbl g prog c with
      | Some (bl, br), Some (cl, cr) =>
          if arm_recs "Congr" 2 0 && forallb (congr_chk l r bl br cl cr i) (arm_checks "Congr")
          then Some (l, r) else None
      | _, _ => None
      end
  | PEval => None
  end.

Definition check_proof_tbl (prog : program) (p : proof) : option prop :=
  match ctx_new prog with
  | Some g => check_tbl g prog p
  | None => None
  end.

(* ------------------------------------------------------------------ *)
(** * [check_tbl = check] *)

Lemma checks_fiat : arm_recs "Fiat" 0 0 = true /\ arm_checks "Fiat" = ["InvalidFiat"; "ctx.in_globals"].
Proof. split; vm_compute; reflexivity. Qed.

Lemma checks_rule : arm_recs "Rule" 0 1 = true /\
  arm_checks "Rule" = ["RuleNotFound"; "RulePremiseCountMismatch"; "self.assert_body_proof_normal_form";
                       "is_container_side_condition"; "self.check_side_condition";
                       "self.check_fact_matches_proposition"; "self.check_rule_produces_equality"].
Proof. split; vm_compute; reflexivity. Qed.

Lemma checks_trans : arm_recs "Trans" 2 0 = true /\ arm_checks "Trans" = ["TransitivityMismatch"; "TermMismatch"].
Proof. split; vm_compute; reflexivity. Qed.

Lemma checks_sym : arm_recs "Sym" 1 0 = true /\ arm_checks "Sym" = ["TermMismatch"].
Proof. split; vm_compute; reflexivity. Qed.

Lemma checks_congr : arm_recs "Congr" 2 0 = true /\
  arm_checks "Congr" = ["CongruenceBaseNotApp"; "CongruenceChildIndexOutOfBounds"; "CongruenceChildMismatch";
                        "CongruenceResultMismatch"; "CongruenceLhsMismatch"].
Proof. split; vm_compute; reflexivity. Qed.

Lemma check_tbl_rule_eq g prog l r name prems sub :
  check_tbl g prog (PRule l r name prems sub) =
  let w := sub ++ gbind g in
  let orl := find_rule prog name in
  if arm_recs "Rule" 0 1 &&
     forallb (rule_chk w l r orl (List.length prems)
                (check_prems (check_tbl g prog) w (match orl with Some rl => rbody rl | None => [] end) prems))
             (arm_checks "Rule")
  then Some (l, r) else None.
Proof. reflexivity. Qed.

Lemma check_prems_ext chk1 chk2 w : forall ps, Forall (fun q => chk1 q = chk2 q) ps ->
  forall fs, check_prems chk1 w fs ps = check_prems chk2 w fs ps.
Proof.
  induction 1 as [|q ps Hq _ IH]; intros [|f fs]; cbn [check_prems]; try reflexivity.
  rewrite Hq, IH. reflexivity.
Qed.

Theorem check_tbl_eq g prog : forall p, check_tbl g prog p = check g prog p.
Proof.
  induction p as [l r|l r n prems sub IH|l r p q IHp IHq|l r p IHp|l r p i c IHp IHc|] using proof_ind'.
  - cbn [check_tbl check]. destruct checks_fiat as [-> ->].
    cbn. rewrite !andb_true_r. reflexivity.
  - rewrite check_tbl_rule_eq, check_rule_eq. destruct checks_rule as [-> ->].
    cbv zeta. rewrite (check_prems_ext _ _ _ _ IH).
    destruct (find_rule prog n) as [rl|]; [|reflexivity].
    cbn. destruct (Nat.eqb _ _); [|reflexivity].
    destruct (check_prems _ _ _ _); [|reflexivity].
    destruct (process_actions _ _) as [[w' props]|]; [|reflexivity].
    destruct (in_props l r props); reflexivity.
  - cbn [check_tbl check]. rewrite IHp, IHq.
    destruct (check g prog p) as [[a b]|]; [|reflexivity].
    destruct (check g prog q) as [[b' c]|]; [|reflexivity].
    destruct checks_trans as [-> ->]. cbn.
    destruct (tm_eqb b b'), (tm_eqb l a), (tm_eqb r c); reflexivity.
  - cbn [check_tbl check]. rewrite IHp.
    destruct (check g prog p) as [[a b]|]; [|reflexivity].
    destruct checks_sym as [-> ->]. cbn.
    destruct (tm_eqb l b), (tm_eqb r a); reflexivity.
  - cbn [check_tbl check]. rewrite IHp, IHc.
    destruct (check g prog p) as [[bl br]|]; [|reflexivity].
    destruct (check g prog c) as [[cl cr]|]; [|destruct br; reflexivity].
    destruct checks_congr as [-> ->]. destruct br as [f cs|z]; [|reflexivity]. cbn.
    rewrite !andb_true_r, !andb_assoc. reflexivity.
  - reflexivity.
Qed.

Corollary check_proof_tbl_eq prog p : check_proof_tbl prog p = check_proof prog p.
Proof. unfold check_proof_tbl, check_proof. destruct (ctx_new prog); [apply check_tbl_eq|reflexivity]. Qed.

(** the theorems of Sound.v, about the table-driven checker *)
Theorem tbl_accepted_iff_derivable prog g : ctx_new prog = Some g ->
  forall a b, (exists p, check_proof_tbl prog p = Some (a, b)) <-> Derivable prog a b.
Proof.
  intros Hg a b. rewrite <- (accepted_iff_derivable prog g Hg a b).
  split; intros [p Hp]; exists p; [rewrite <- check_proof_tbl_eq|rewrite check_proof_tbl_eq]; exact Hp.
Qed.

(* ------------------------------------------------------------------ *)
(** * the tables the hand-written model was written against *)

(** proof_format.rs [enum Justification]  <->  Checker.v [proof] / [pnode] *)
Definition model_justification_kinds : list (string * list string) := [
  ("Fiat", []);                                                          (* PFiat *)
  ("Rule", ["name:String"; "premise_proofs:Vec<ProofId>"; "substitution:HashMap<String,TermId>"]);  (* PRule *)
  ("MergeFn", ["function:String"; "old_proof:ProofId"; "new_proof:ProofId"]);       (* link-only *)
  ("Trans", ["ProofId"; "ProofId"]);                                     (* PTrans *)
  ("Sym", ["ProofId"]);                                                  (* PSym *)
  ("Congr", ["proof:ProofId"; "child_index:usize"; "child_proof:ProofId"]);         (* PCongr *)
  ("ContainerNormalize", ["proof:ProofId"]);                             (* link-only *)
  ("Eval", [])                                                           (* PEval: always rejected *)
].

(** check_proof_with_context  <->  Checker.v [check] *)
Definition model_checker_arms : list arm := [
  mkArm "Justification::Fiat" "" 0 0
    ["InvalidFiat"]
    [("matches", "term,Term::Lit(_)", ""); ("==", "proof.lhs()", "proof.rhs()")]
    ["ctx.in_globals"];
  mkArm "Justification::Rule{name,premise_proofs,substitution,}" "" 0 1
    ["RuleNotFound"; "RulePremiseCountMismatch"]
    [("==", "&rule.name", "name"); ("!=", "rule.body.len()", "premise_proofs.len()")]
    ["self.assert_body_proof_normal_form"; "is_container_side_condition"; "self.check_side_condition";
     "self.check_fact_matches_proposition"; "self.check_rule_produces_equality"];
  mkArm "Justification::MergeFn{function,old_proof,new_proof,}" "" 2 0
    ["MergeFnNotReflexive"; "MergeFnNotReflexive"; "MergeFnFunctionMismatch"; "MergeFnEmptyArgs";
     "MergeFnEmptyArgs"; "MergeFnInputMismatch"; "MergeFnNotApp"; "MergeFnResultMismatch"]
    [("!=", "old_lhs", "old_rhs"); ("!=", "new_lhs", "new_rhs"); ("!=", "old_head", "new_head");
     ("!=", "inputs.len()", "new_args.len()-1"); ("!=", "a", "b")]
    ["run_merge"; "merged_props.insert"; "merged_props.contains"];
  mkArm "Justification::Trans(left_id,right_id)" "" 2 0
    ["TransitivityMismatch"; "TermMismatch"]
    [("!=", "left_rhs", "right_lhs"); ("!=", "proof.lhs()", "left_lhs"); ("!=", "proof.rhs()", "right_rhs")]
    [];
  mkArm "Justification::Sym(inner_id)" "" 1 0
    ["TermMismatch"]
    [("!=", "proof.lhs()", "inner_rhs"); ("!=", "proof.rhs()", "inner_lhs")]
    [];
  mkArm "Justification::Congr{proof:base_id,child_index,child_proof:child_id,}" "" 2 0
    ["CongruenceBaseNotApp"; "CongruenceChildIndexOutOfBounds"; "CongruenceChildMismatch";
     "CongruenceResultMismatch"; "CongruenceLhsMismatch"]
    [(">=", "*child_index", "children.len()"); ("!=", "children[*child_index]", "child_lhs");
     ("==", "i", "*child_index"); ("!=", "proof.rhs()", "expected_rhs_id"); ("!=", "proof.lhs()", "base_lhs")]
    [];
  mkArm "Justification::ContainerNormalize{proof:inner_id}" "" 1 0
    ["ContainerNormalizeMismatch"]
    [("==", "proof.lhs()", "inner_prop.lhs"); ("!=", "proof.rhs()", "normalized")]
    ["self.normalize_container"];
  mkArm "Justification::Eval" "" 0 0
    ["EvalOutsideSideCondition"]
    []
    []
].

(** process_actions  <->  Checker.v [do_action] *)
Definition model_action_arms : list arm := [
  mkArm "GenericAction::Let(_,var,expr)" "" 0 0 [] []                   (* ALet *)
    ["eval_expr_with_subst"; "bindings.insert"; "propositions.extend"];
  mkArm "GenericAction::Union(_,lhs_expr,rhs_expr)" "" 0 0 [] []        (* AUnion *)
    ["eval_expr_with_subst"; "eval_expr_with_subst"; "propositions.extend"; "propositions.extend";
     "propositions.insert"; "propositions.insert"];
  mkArm "GenericAction::Set(_,func,args,rhs)" "" 0 0 [] []              (* outside the fragment *)
    ["eval_expr_with_subst"; "propositions.extend"];
  mkArm "GenericAction::Expr(_,expr)" "" 0 0 [] []                      (* AExpr *)
    ["eval_expr_with_subst"; "propositions.extend"];
  mkArm "GenericAction::Panic(_,_)" "" 0 0 [] [] [];                    (* ANop *)
  mkArm "GenericAction::Change(_,_,_,_)" "" 0 0 [] [] []                (* ANop *)
].

(** check_fact_matches_proposition  <->  Checker.v [fact_matches] *)
Definition model_fact_arms : list arm := [
  mkArm "ResolvedFact::Eq(_,ResolvedExpr::Call(_,call@ResolvedCall::Func(_),args),ResolvedExpr::Var(_,v),)"
    "call.is_custom_func()" 0 0                                        (* outside the fragment *)
    ["UnboundVariable"; "FunctionFactMismatch"]
    [("!=", "lhs", "expected_term_id"); ("!=", "rhs", "expected_term_id")]
    ["self.eval_expr_with_subst"];
  mkArm "ResolvedFact::Eq(_,lhs_expr,rhs_expr)" "" 0 0                  (* FEq *)
    ["EqualityFactMismatch"]
    [("!=", "fact_lhs", "lhs"); ("!=", "fact_rhs", "rhs")]
    ["self.eval_expr_with_subst"; "self.eval_expr_with_subst"];
  mkArm "ResolvedFact::Fact(expr)" "" 0 0                               (* FPat *)
    ["FactMismatch"]
    [("!=", "fact_term", "rhs")]
    ["self.eval_expr_with_subst"]
].

(** the two evaluators  <->  Checker.v [eval] (+ [subterms] for the propositions) *)
Definition model_eval_props_arms : list arm := [
  mkArm "ResolvedExpr::Lit(_,lit)" "" 0 0 [] [] [];
  mkArm "ResolvedExpr::Var(_,var)" "" 0 0 ["UnboundVariable"] [] [];
  mkArm "ResolvedExpr::Call(_,head,args)" "" 0 0 ["PrimitiveValidatorFailed"] []
    ["eval_expr_with_subst"; "propositions.extend"; "eval_expr_with_subst"; "propositions.extend"; "validator"]
].

Definition model_eval_term_arms : list arm := [
  mkArm "ResolvedExpr::Lit(_,lit)" "" 0 0 [] [] [];
  mkArm "ResolvedExpr::Var(_,var)" "" 0 0 ["UnboundVariable"] [] [];
  mkArm "ResolvedExpr::Call(_,head,args)" "" 0 0 ["PrimitiveValidatorFailed"; "PrimitiveNoValidator"] []
    ["self.eval_expr_with_subst"; "validator"; "panic!"]
].

(** ProofCheckContext::new <-> [ctx_new]; run_merge (link-only); check_rule_produces_equality <->
    the last condition of the PRule arm *)
Definition model_ctx_new_shape : arm :=
  mkArm "new" "" 0 0 ["DuplicateRuleName"] []
    ["seen_rule_names.insert"; "gather_global_actions"; "process_actions"].

Definition model_run_merge_shape : arm :=
  mkArm "run_merge" "" 0 0 ["FunctionNotFound"; "FunctionNotFound"]
    [("==", "func_decl.name", "func_name")]
    ["subst.insert"; "subst.insert"; "eval_expr_with_subst"].

Definition model_rule_produces_shape : arm :=
  mkArm "check_rule_produces_equality" "" 0 0 ["RuleHeadMismatch"] []
    ["process_actions"; "action_ctx.propositions.contains"].

Theorem dispatch_pinned :
  justification_kinds = model_justification_kinds /\
  checker_arms = model_checker_arms /\
  action_arms = model_action_arms /\
  fact_arms = model_fact_arms /\
  eval_props_arms = model_eval_props_arms /\
  eval_term_arms = model_eval_term_arms /\
  ctx_new_shape = model_ctx_new_shape /\
  run_merge_shape = model_run_merge_shape /\
  rule_produces_shape = model_rule_produces_shape.
Proof. repeat split; reflexivity. Qed.
