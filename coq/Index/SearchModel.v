(** Executable instances of the standard library's [[T]::binary_search] for running the
    generated search routines (gen/PureFns.v) in the kernel. The proofs (Index/SearchProofs.v)
    never look at these: they hold for EVERY function meeting the documented contract
    ([bs_contract]); two instances with opposite choices among equal elements (first match, last
    match) are provided so that the cases also exercise the independence from that choice. *)
From Coq Require Import List NArith Bool.
Import ListNotations.
Require Import Verif.Base.Res Verif.Index.Prelude Verif.gen.PureFns.
Local Open Scope N_scope.

Fixpoint bs_first_from (s : list N) (t : N) (i : N) : UResult :=
  match s with
  | [] => RErr i
  | x :: tl =>
      match x ?= t with
      | Lt => bs_first_from tl t (i + 1)
      | Eq => ROk i
      | Gt => RErr i
      end
  end.
Definition bs_first (s : list N) (t : N) : UResult := bs_first_from s t 0.

Fixpoint bs_last_from (s : list N) (t : N) (i : N) (found : option N) : UResult :=
  match s with
  | [] => match found with Some j => ROk j | None => RErr i end
  | x :: tl =>
      match x ?= t with
      | Lt => bs_last_from tl t (i + 1) found
      | Eq => bs_last_from tl t (i + 1) (Some i)
      | Gt => match found with Some j => ROk j | None => RErr i end
      end
  end.
Definition bs_last (s : list N) (t : N) : UResult := bs_last_from s t 0 None.

(** fuel that the theorems show sufficient: 2 * len + 2 *)
Definition search_fuel (s : list N) : nat := 2 * length s + 2.

Definition res_uresult_eqb (r : Res UResult) (x : UResult) : bool :=
  match r with Ok y => uresult_eqb y x | _ => false end.
Definition res_N_eqb (r : Res N) (x : N) : bool :=
  match r with Ok y => y =? x | _ => false end.

(** model = implementation, under both instances *)
Definition check_scan (s : list N) (start t : N) (impl : UResult) : bool :=
  res_uresult_eqb (scan_for_offset bs_first (search_fuel s) s start t) impl &&
  res_uresult_eqb (scan_for_offset bs_last (search_fuel s) s start t) impl.

Definition check_bsf (s : list N) (start t : N) (impl : N) : bool :=
  res_N_eqb (binary_search_from bs_first (search_fuel s) s start t) impl &&
  res_N_eqb (binary_search_from bs_last (search_fuel s) s start t) impl.
