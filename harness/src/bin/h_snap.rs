//! C08 — push/pop and clone snapshot isolation on the real `egglog::EGraph`.
//!
//! Families of generated inputs (all deterministic in `--seed`):
//!  * `triple`      : (P, Q, R) over the shared Egg session layer (egg.rs / egg_gen.rs) + extra
//!                    declarations / runs / failing commands / nested push-pop inside Q,
//!                    redeclarations + name-indexed API access + prints inside R; run as
//!                    `P;(push);Q;(pop);R` and `P;R` on fresh engines; per-command Ok/Err, outputs
//!                    (run report dropped, fresh-symbol numbers normalised) and renaming-invariant
//!                    observations compared after every command of R.
//!  * `pair`        : `b = a.clone()` after a prefix, then an interleaving of divergent commands on
//!                    both copies, each compared in lockstep with an independent engine replaying
//!                    `prefix;seqX`.
//!  * `mtriple` / `mpair` : the same two shapes in the vocabulary of the Gallina model
//!                    (coq/Snap/PushPop.v, concrete instance); the observed outputs are written as
//!                    cases for the kernel (`cases_snap_NNN.v`).
//!
//! replay file: {"family": .., "seed": S, "case": I, "drop_q": [..], "drop_r": [..]}  or, for the
//! model families, explicit commands {"family":"mpair","prefix":[..],"cmds":[["A",cmd],..]} /
//! {"family":"mtriple","p":[..],"q":[..],"r":[..]}.
use egglog::{Core, EGraph, Read, Write};
use egglog::{ApiError, Error, RawValues};
use std::collections::{BTreeMap, BTreeSet, HashSet};
use verif_harness::egg::*;
use verif_harness::egg_gen::*;
use verif_harness::util::*;

// ------------------------------------------------------------------------------------------
// items and outcomes

#[derive(Clone, Debug, PartialEq)]
enum Item {
    Text(String),
    ApiSet(String, Vec<i64>, i64),
    ApiLookup(String, Vec<i64>),
    ApiSize(String),
}

impl Item {
    fn show(&self) -> String {
        match self {
            Item::Text(t) => t.replace('\n', " "),
            Item::ApiSet(n, k, v) => format!("update(|fs| fs.set({n:?}, {k:?}, {v}))"),
            Item::ApiLookup(n, k) => format!("read(|rs| rs.lookup({n:?}, {k:?}))"),
            Item::ApiSize(n) => format!("read(|rs| rs.table_size({n:?}))"),
        }
    }
    fn api_name(&self) -> Option<&str> {
        match self {
            Item::Text(_) => None,
            Item::ApiSet(n, _, _) | Item::ApiLookup(n, _) | Item::ApiSize(n) => Some(n),
        }
    }
    fn kind(&self) -> &'static str {
        match self {
            Item::Text(t) => {
                let t = t.trim_start();
                for (p, k) in [
                    ("(push", "push"), ("(pop", "pop"), ("(sort", "decl-sort"), ("(datatype", "decl-datatype"),
                    ("(constructor", "decl-constructor"), ("(function", "decl-function"), ("(relation", "decl-relation"),
                    ("(ruleset", "decl-ruleset"), ("(rule ", "decl-rule"), ("(let ", "decl-let"), ("(run", "run"),
                    ("(check", "check"), ("(print-size", "print-size"), ("(print-function", "print-function"),
                    ("(print-stats", "print-stats"), ("(extract", "extract"), ("(union", "union"), ("(set ", "set"),
                    ("(subsume", "subsume"), ("(delete", "delete"), ("(panic", "panic"), ("(bogus", "parse-error"),
                ] {
                    if t.starts_with(p) {
                        return k;
                    }
                }
                "insert/other"
            }
            Item::ApiSet(..) => "api-set",
            Item::ApiLookup(..) => "api-lookup",
            Item::ApiSize(..) => "api-size",
        }
    }
}

#[derive(Clone, Debug, PartialEq)]
struct Outcome {
    ok: bool,
    panicked: bool,
    err_class: String,
    err_text: String,
    outputs: Vec<String>,
    api: String,
}

/// fresh-symbol numbering is deliberately not restored by pop (lib.rs:713-715): `@hint123` -> `@hint#`
fn norm_fresh(s: &str) -> String {
    let cs: Vec<char> = s.chars().collect();
    let mut out = String::new();
    let mut i = 0;
    while i < cs.len() {
        if cs[i] == '@' {
            let mut j = i + 1;
            while j < cs.len() && !(cs[j].is_whitespace() || cs[j] == '(' || cs[j] == ')' || cs[j] == '"' || cs[j] == ',') {
                j += 1;
            }
            let mut k = j;
            while k > i + 1 && cs[k - 1].is_ascii_digit() {
                k -= 1;
            }
            out.extend(cs[i..k].iter());
            out.push('#');
            i = j;
        } else {
            out.push(cs[i]);
            i += 1;
        }
    }
    out
}

fn render(o: &egglog::CommandOutput) -> String {
    match o {
        // carve-out (b): the accumulated run report survives pop on purpose (lib.rs:711-712);
        // it also contains wall-clock timings
        egglog::CommandOutput::OverallStatistics(_) => "<overall-statistics>".into(),
        other => norm_fresh(&other.to_string()),
    }
}

fn err_class(e: &str) -> String {
    let m = e.to_lowercase();
    if e.starts_with("PANIC:") {
        "PANIC".into()
    } else if m.contains("pop too much") {
        "pop".into()
    } else if m.contains("check failed") {
        "check".into()
    } else if m.contains("already") || m.contains("shadowing") {
        "already-bound".into()
    } else if m.contains("no table named") {
        "missing-table".into()
    } else if m.contains("input columns") {
        "api-arity".into()
    } else if m.contains("unbound") || m.contains("no such") || m.contains("undefined") || m.contains("arity") || m.contains("type") {
        "type".into()
    } else if m.contains("parse") || m.contains("unknown command") || m.contains("expected") {
        "parse".into()
    } else if m.contains("merge") || m.contains("conflict") || m.contains("panic") {
        "runtime".into()
    } else {
        "other".into()
    }
}

fn panic_text(p: Box<dyn std::any::Any + Send>) -> String {
    if let Some(s) = p.downcast_ref::<String>() {
        s.clone()
    } else if let Some(s) = p.downcast_ref::<&str>() {
        s.to_string()
    } else {
        "panic".to_string()
    }
}

fn exec(eg: &mut EGraph, it: &Item) -> Outcome {
    let mut oc = Outcome { ok: true, panicked: false, err_class: String::new(), err_text: String::new(), outputs: vec![], api: String::new() };
    let fail = |oc: &mut Outcome, e: String, panicked: bool| {
        oc.ok = false;
        oc.panicked = panicked;
        oc.err_class = err_class(&e);
        oc.err_text = norm_fresh(&e);
    };
    match it {
        Item::Text(t) => {
            let (res, panicked) = step(eg, t);
            match res {
                Ok(outs) => oc.outputs = outs.iter().map(render).collect(),
                Err(e) => fail(&mut oc, e, panicked),
            }
        }
        Item::ApiSet(n, k, v) => {
            let r = std::panic::catch_unwind(std::panic::AssertUnwindSafe(|| {
                eg.update(|mut fs| {
                    let key = RawValues(k.iter().map(|x| fs.base_values().get::<i64>(*x)).collect());
                    fs.set(n, key, *v)
                })
            }));
            match r {
                Ok(Ok(())) => oc.api = "set-ok".into(),
                Ok(Err(e)) => {
                    oc.api = api_err(&e);
                    fail(&mut oc, format!("{e}"), false)
                }
                Err(p) => fail(&mut oc, format!("PANIC: {}", panic_text(p)), true),
            }
        }
        Item::ApiLookup(n, k) => {
            let r = std::panic::catch_unwind(std::panic::AssertUnwindSafe(|| {
                eg.read(|rs| {
                    let key = RawValues(k.iter().map(|x| rs.base_values().get::<i64>(*x)).collect());
                    rs.lookup(n, key).map(|o| o.map(|v| rs.value_to_base::<i64>(v)))
                })
            }));
            match r {
                Ok(Ok(Some(v))) => oc.api = format!("some({v})"),
                Ok(Ok(None)) => oc.api = "none".into(),
                Ok(Err(e)) => {
                    oc.api = api_err(&e);
                    fail(&mut oc, format!("{e}"), false)
                }
                Err(p) => fail(&mut oc, format!("PANIC: {}", panic_text(p)), true),
            }
        }
        Item::ApiSize(n) => {
            let r = std::panic::catch_unwind(std::panic::AssertUnwindSafe(|| eg.read(|rs| rs.table_size(n))));
            match r {
                Ok(Some(s)) => oc.api = format!("size({s})"),
                Ok(None) => oc.api = "missing".into(),
                Err(p) => fail(&mut oc, format!("PANIC: {}", panic_text(p)), true),
            }
        }
    }
    oc
}

fn api_err(e: &Error) -> String {
    match e {
        Error::ApiError(ApiError::MissingTable { .. }) => "missing".into(),
        Error::ApiError(ApiError::WrongArity { .. }) => "arity".into(),
        Error::ApiError(ApiError::WrongSubtype { .. }) => "subtype".into(),
        _ => "error".into(),
    }
}

struct Viol {
    what: String,
    key: String,
    input: serde_json::Value,
}

fn compare(a: &Outcome, b: &Outcome) -> Option<(&'static str, String)> {
    if a.panicked != b.panicked {
        return Some(("panic", format!("panicked: {} vs {} ({} / {})", a.panicked, b.panicked, a.err_text, b.err_text)));
    }
    if a.ok != b.ok {
        return Some(("outcome", format!("{} vs {}", if a.ok { "Ok".to_string() } else { format!("Err({})", a.err_text) }, if b.ok { "Ok".to_string() } else { format!("Err({})", b.err_text) })));
    }
    if a.err_class != b.err_class || a.err_text != b.err_text {
        return Some(("error", format!("Err({}) vs Err({})", a.err_text, b.err_text)));
    }
    if a.outputs != b.outputs {
        return Some(("output", format!("{:?} vs {:?}", a.outputs, b.outputs)));
    }
    if a.api != b.api {
        return Some(("api", format!("{} vs {}", a.api, b.api)));
    }
    None
}

fn observe(eg: &EGraph, p: &Program, probes: &[Pat], iprobes: &[Pat]) -> Result<Obs, String> {
    let r = std::panic::catch_unwind(std::panic::AssertUnwindSafe(|| dump(eg, p)));
    match r {
        Ok(Ok(d)) => Ok(d.observe(probes, iprobes)),
        Ok(Err(e)) => Err(e),
        Err(p) => Err(format!("PANIC: {}", panic_text(p))),
    }
}

// ------------------------------------------------------------------------------------------
// family `triple`

struct Triple {
    prog: Program,
    header: String,
    p: Vec<Item>,
    q: Vec<Item>,
    r: Vec<Item>,
    probes: Vec<Pat>,
    iprobes: Vec<Pat>,
    depth_p: usize,
}

struct Names {
    n: usize,
}
impl Names {
    fn next(&mut self) -> usize {
        self.n += 1;
        self.n
    }
}

/// what a declaration made inside Q leaves for R to try: (redeclaration + use, API probes)
#[derive(Clone)]
struct QDecl {
    redecl: Vec<Item>,
    probes: Vec<Item>,
}

fn ground(prog: &Program, r: &mut Rng, depth: usize) -> String {
    // a small ground term over the base constructors
    let nullary: Vec<usize> = prog.decls.iter().enumerate().filter(|(_, d)| d.kind == Kind::Ctor && d.args.is_empty()).map(|(i, _)| i).collect();
    let unary: Vec<usize> = prog.decls.iter().enumerate().filter(|(_, d)| d.kind == Kind::Ctor && d.args == vec![Sort::S]).map(|(i, _)| i).collect();
    let mut t = format!("({})", prog.decls[*r.pick(&nullary)].name);
    for _ in 0..r.below(depth + 1) {
        t = format!("({} {})", prog.decls[*r.pick(&unary)].name, t);
    }
    t
}

/// Failing commands of the compound kind: ONE rule iteration (or top-level action) that applies a
/// union AND fails — by an explicit panic, by the rebuild raising a `:no-merge` conflict for the two
/// merged keys of `nmP` (which hold different values since P), or by a failing primitive. The
/// rebuild that runs before the error is reported can itself raise a second error; that one must
/// not stay parked in state shared with the pushed snapshot / the other clone.
fn compound_failure(kind: usize, i: usize, f0: &str, tag: &str) -> Vec<Item> {
    let tx = |s: String| Item::Text(s);
    let rs = format!("boom{tag}{i}");
    match kind % 6 {
        0 => vec![
            tx(format!("(ruleset {rs})")),
            tx(format!("(rule () ((union (K0) (K1)) (panic \"boom\")) :ruleset {rs})")),
            tx(format!("(run {rs} 1)")),
        ],
        1 => vec![
            tx(format!("(ruleset {rs})")),
            tx(format!("(rule () ((union (K0) (K1))) :ruleset {rs})")),
            tx(format!("(run {rs} 1)")),
        ],
        2 => vec![tx("(union (K0) (K1))".into())],
        3 => vec![
            tx(format!("(ruleset {rs})")),
            tx(format!("(relation Dz{tag}{i} (i64))")),
            tx(format!("(rule () ((union (K0) (K1)) (Dz{tag}{i} (/ 1 0))) :ruleset {rs})")),
            tx(format!("(run {rs} 1)")),
        ],
        4 => vec![
            tx(format!("(ruleset {rs})")),
            tx(format!("(rule ((= v0 ({f0} v1))) ((union (K0) (K1)) (union v0 v1) (panic \"boom\")) :ruleset {rs})")),
            tx(format!("({f0} (K0))")),
            tx(format!("(run {rs} 1)")),
        ],
        _ => vec![tx("(union (K0) (K1))\n(panic \"after a conflicting union\")".into())],
    }
}

/// commands that run rules: a stale error parked in shared state surfaces in the next one of these
fn rule_running_probe(r: &mut Rng, f0: &str) -> Item {
    Item::Text(match r.below(5) {
        0 => "(check (= (nmP (K0)) 1))".to_string(),
        1 => "(run 1)".to_string(),
        2 => "(extract (K0))".to_string(),
        3 => format!("({f0} (K1))"),
        _ => "(check (= (nmP (K1)) 2))".to_string(),
    })
}

fn gen_q_body(prog: &Program, r: &mut Rng, names: &mut Names, db: &mut Vec<Item>, len: usize, depth: usize, decls: &mut Vec<QDecl>, fault_ok: bool) -> Vec<Item> {
    let f0 = prog.decls.iter().find(|d| d.kind == Kind::Ctor && d.args == vec![Sort::S]).map(|d| d.name.clone()).unwrap_or("F0".into());
    let mut out = Vec::new();
    for _ in 0..len {
        let k = r.below(24);
        let i = names.next();
        let t1 = ground(prog, r, 2);
        let t2 = ground(prog, r, 2);
        let tx = |s: String| Item::Text(s);
        match k {
            0 => {
                out.push(tx(format!("(sort Sq{i})")));
                decls.push(QDecl { redecl: vec![tx(format!("(sort Sq{i})"))], probes: vec![] });
            }
            1 => {
                out.push(tx(format!("(datatype Dq{i} (Cq{i}a i64) (Cq{i}b Dq{i}))")));
                out.push(tx(format!("(Cq{i}b (Cq{i}a 3))")));
                decls.push(QDecl {
                    redecl: vec![tx(format!("(datatype Dq{i} (Cq{i}a i64 i64))")), tx(format!("(Cq{i}a 1 2)")), tx(format!("(print-size Cq{i}a)"))],
                    probes: vec![Item::ApiSize(format!("Cq{i}a"))],
                });
            }
            2 => {
                out.push(tx(format!("(constructor Kq{i} () S)")));
                out.push(tx(format!("(union (Kq{i}) {t1})")));
                decls.push(QDecl {
                    redecl: vec![tx(format!("(constructor Kq{i} (S) S)")), tx(format!("(Kq{i} {t2})")), tx(format!("(print-size Kq{i})"))],
                    probes: vec![Item::ApiSize(format!("Kq{i}"))],
                });
            }
            3 | 4 => {
                out.push(tx(format!("(function hq{i} (i64) i64 :merge (max old new))")));
                out.push(tx(format!("(set (hq{i} 1) {})", r.below(9))));
                if r.chance(1, 2) {
                    out.push(Item::ApiSet(format!("hq{i}"), vec![2], r.below(9) as i64));
                }
                decls.push(QDecl {
                    redecl: vec![
                        tx(format!("(function hq{i} (i64 i64) i64 :merge (min old new))")),
                        tx(format!("(set (hq{i} 1 2) 3)")),
                        Item::ApiSet(format!("hq{i}"), vec![1, 2], 1),
                        Item::ApiLookup(format!("hq{i}"), vec![1, 2]),
                        tx(format!("(print-function hq{i} 10)")),
                    ],
                    probes: vec![Item::ApiSize(format!("hq{i}")), Item::ApiLookup(format!("hq{i}"), vec![1]), Item::ApiSet(format!("hq{i}"), vec![1], 4)],
                });
            }
            5 => {
                out.push(tx(format!("(relation Rq{i} (S))")));
                out.push(tx(format!("(Rq{i} {t1})")));
                decls.push(QDecl {
                    redecl: vec![tx(format!("(relation Rq{i} (i64))")), tx(format!("(Rq{i} 7)")), tx(format!("(print-size Rq{i})"))],
                    probes: vec![Item::ApiSize(format!("Rq{i}"))],
                });
            }
            6 => {
                out.push(tx(format!("(ruleset rsq{i})")));
                out.push(tx(format!("(rule ((= a ({f0} b))) ((union a b)) :ruleset rsq{i} :name \"rq{i}\")")));
                out.push(tx(format!("(run rsq{i} 2)")));
                decls.push(QDecl {
                    redecl: vec![
                        tx(format!("(ruleset rsq{i})")),
                        tx(format!("(rule ((= a ({f0} ({f0} b)))) ((union a b)) :ruleset rsq{i} :name \"rq{i}\")")),
                        tx(format!("(run rsq{i} 1)")),
                    ],
                    probes: vec![tx(format!("(run rsq{i} 1)"))],
                });
            }
            7 => {
                // a rule added to a ruleset that exists since P: must be gone after the pop
                out.push(tx(format!("(rule ((= a ({f0} b))) ((union a b)) :ruleset rsP :name \"pq{i}\")")));
                out.push(tx("(run rsP 2)".into()));
                decls.push(QDecl {
                    redecl: vec![tx(format!("(rule ((= a ({f0} ({f0} b)))) ((hP0 5 6)) :ruleset rsP :name \"pq{i}\")")), tx("(run rsP 1)".into())],
                    probes: vec![tx("(run rsP 2)".into())],
                });
            }
            8 => {
                out.push(tx(format!("(let $gq{i} {t1})")));
                out.push(tx(format!("(union $gq{i} {t2})")));
                decls.push(QDecl { redecl: vec![tx(format!("(let $gq{i} {t2})")), tx(format!("(check (= $gq{i} {t2}))"))], probes: vec![tx(format!("(check (= $gq{i} {t1}))"))] });
            }
            9 => out.push(tx(format!("(run {})", r.range(1, 3)))),
            10 => {
                // failing commands of several kinds (parse, type, half-declaring, run time)
                let f = match r.below(7) {
                    0 => "(bogus-command 1)".to_string(),
                    1 => format!("(function bad{i} (Nope{i}) i64 :no-merge)"),
                    2 => format!("(datatype Bad{i} (BA{i} i64) (BB{i} Nope{i}))"),
                    3 => format!("(check (= {t1} {t2}))"),
                    4 => "(panic \"inside the bracket\")".to_string(),
                    5 => "(set (nosuchfunction 1) 2)".to_string(),
                    _ => format!("(union {t1} {t2})\n(panic \"after a union\")"),
                };
                out.push(tx(f));
            }
            11 | 12 if depth < 2 => {
                let n = if r.chance(1, 4) { 2 } else { 1 };
                out.push(tx(if n == 2 { "(push 2)".into() } else { "(push)".into() }));
                let l = r.range(1, 4);
                let inner = gen_q_body(prog, r, names, db, l, depth + 1, decls, fault_ok);
                out.extend(inner);
                if n == 2 && r.chance(1, 2) {
                    out.push(tx("(pop 2)".into()));
                } else {
                    for _ in 0..n {
                        out.push(tx("(pop)".into()));
                    }
                }
            }
            20..=23 => out.extend(compound_failure(r.below(6), i, &f0, "q")),
            13 => out.push(Item::ApiSet("hP0".into(), vec![r.below(3) as i64], r.below(20) as i64)),
            14 => out.push(tx(format!("(set (hP0 {}) {})", r.below(3), r.below(20)))),
            _ => {
                if let Some(it) = db.pop() {
                    out.push(it);
                } else {
                    out.push(tx(format!("(union {t1} {t2})")));
                }
            }
        }
    }
    out
}

fn gen_triple(seed: u64, idx: u64) -> Triple {
    let mut r = Rng::for_case(seed, idx);
    let bias = *r.pick(&[Bias::C01, Bias::C01, Bias::C04, Bias::C05, Bias::C13, Bias::C03]);
    let np = r.range(1, 6);
    let nq = r.range(2, 8);
    let nr = r.range(2, 7);
    let prog = Gen::new(&mut r, bias).program(np + nq + nr);
    let texts: Vec<Item> = prog.cmds.iter().map(|c| Item::Text(prog.cmd_text(c))).collect();
    let mut p: Vec<Item> = vec![
        Item::Text("(ruleset rsP)".into()),
        Item::Text("(function hP0 (i64) i64 :merge (max old new))".into()),
        Item::Text("(function hP1 (i64 i64) i64 :merge (max old new))".into()),
        Item::Text("(set (hP0 1) 10)".into()),
        Item::Text("(function nmP (S) i64 :no-merge)".into()),
        Item::Text("(set (nmP (K0)) 1)".into()),
        Item::Text("(set (nmP (K1)) 2)".into()),
    ];
    let mut depth_p = 0;
    for (i, it) in texts[..np.min(texts.len())].iter().enumerate() {
        if i == 1 && r.chance(1, 4) {
            p.push(Item::Text("(push)".into()));
            depth_p += 1;
        }
        p.push(it.clone());
    }
    let mut qdb: Vec<Item> = texts[np.min(texts.len())..(np + nq).min(texts.len())].to_vec();
    qdb.reverse();
    let rdb: Vec<Item> = texts[(np + nq).min(texts.len())..].to_vec();
    let mut names = Names { n: 0 };
    let mut decls: Vec<QDecl> = Vec::new();
    let qlen = qdb.len() + r.range(2, 7);
    let mut q = gen_q_body(&prog, &mut r, &mut names, &mut qdb, qlen, 0, &mut decls, bias == Bias::C04);
    // whatever database commands were not consumed go to the end of Q
    while let Some(it) = qdb.pop() {
        q.push(it);
    }
    // R: database commands interleaved with probes of Q's names, redeclarations, prints
    let mut rr: Vec<Item> = Vec::new();
    let mut pending: Vec<QDecl> = decls.clone();
    let t1 = ground(&prog, &mut r, 2);
    // R starts with commands that run rules, so that an error left parked by Q surfaces
    let f0r = prog.decls.iter().find(|d| d.kind == Kind::Ctor && d.args == vec![Sort::S]).map(|d| d.name.clone()).unwrap_or("F0".into());
    rr.push(rule_running_probe(&mut r, &f0r));
    rr.push(rule_running_probe(&mut r, &f0r));
    rr.push(Item::Text("(print-size)".into()));
    for it in rdb {
        if !pending.is_empty() && r.chance(2, 3) {
            let d = pending.swap_remove(r.below(pending.len()));
            if r.chance(2, 3) {
                rr.extend(d.probes.clone());
            }
            if r.chance(3, 4) {
                rr.extend(d.redecl.clone());
            }
        }
        rr.push(it);
        match r.below(10) {
            0 => rr.push(Item::Text("(print-size)".into())),
            1 => rr.push(Item::Text("(print-function hP0 10)".into())),
            2 => rr.push(Item::Text("(print-stats)".into())),
            3 => rr.push(Item::Text("(run rsP 2)".into())),
            4 => rr.push(Item::Text(format!("(extract {t1})"))),
            5 => rr.push(Item::ApiLookup("hP0".into(), vec![r.below(3) as i64])),
            6 => rr.push(Item::ApiSet("hP1".into(), vec![1, r.below(3) as i64], r.below(9) as i64)),
            _ => {}
        }
    }
    for d in pending {
        if r.chance(1, 2) {
            rr.extend(d.probes.clone());
            rr.extend(d.redecl.clone());
        }
    }
    rr.push(Item::Text("(run 2)".into()));
    rr.push(Item::Text("(print-size)".into()));
    rr.push(Item::ApiSize("hP0".into()));
    // pop back to the bottom and once more: the last one must be a clean error
    for _ in 0..=depth_p {
        rr.push(Item::Text("(pop)".into()));
    }
    let probes = enumerate_probes(&prog, 3, 30, &[0, 1, 2]);
    let mut iprobes: Vec<Pat> = Vec::new();
    for (f, d) in prog.decls.iter().enumerate() {
        if d.kind != Kind::Ctor {
            for t in probes.iter().filter(|t| pat_size(t) <= 3).take(8) {
                iprobes.push(Pat::App(f, vec![t.clone()]));
            }
        }
    }
    let header = prog.header();
    Triple { prog, header, p, q, r: rr, probes, iprobes, depth_p }
}

struct TripleResult {
    violation: Option<(String, String, usize)>, // (key, what, index in R)
    q_decl_ok: usize,
    redeclared_ok: usize,
    api_missing_after_pop: usize,
    q_failed: usize,
    nested: bool,
    panics: usize,
    last_pop_err: bool,
}

fn run_triple(t: &Triple, hist: Option<&mut BTreeMap<String, usize>>, err_hist: Option<&mut BTreeMap<String, usize>>) -> TripleResult {
    let mut res = TripleResult { violation: None, q_decl_ok: 0, redeclared_ok: 0, api_missing_after_pop: 0, q_failed: 0, nested: false, panics: 0, last_pop_err: false };
    let mut a = EGraph::default(); // bracketed
    let mut b = EGraph::default(); // plain
    let (h1, _) = step(&mut a, &t.header);
    let (h2, _) = step(&mut b, &t.header);
    if h1.is_err() || h2.is_err() {
        res.violation = Some(("harness-header".into(), format!("header rejected: {:?}", h1.err()), 0));
        return res;
    }
    let mut hist = hist;
    let mut err_hist = err_hist;
    for it in &t.p {
        let oa = exec(&mut a, it);
        let ob = exec(&mut b, it);
        if let Some(h) = hist.as_deref_mut() {
            *h.entry(format!("P:{}", it.kind())).or_insert(0) += 1;
        }
        if compare(&oa, &ob).is_some() {
            res.violation = Some(("harness-nondeterministic-prefix".into(), format!("the same prefix gave different outcomes on two fresh engines at `{}`", it.show()), 0));
            return res;
        }
    }
    exec(&mut a, &Item::Text("(push)".into()));
    let mut d = 0usize;
    for it in &t.q {
        let o = exec(&mut a, it);
        if let Some(h) = hist.as_deref_mut() {
            *h.entry(format!("Q:{}", it.kind())).or_insert(0) += 1;
        }
        if it.kind() == "push" {
            d += 1;
            res.nested = true;
        }
        if it.kind() == "pop" {
            d = d.saturating_sub(1);
        }
        if o.ok && it.kind().starts_with("decl-") {
            res.q_decl_ok += 1;
        }
        if !o.ok {
            res.q_failed += 1;
            if let Some(h) = err_hist.as_deref_mut() {
                *h.entry(format!("Q:{}", o.err_class)).or_insert(0) += 1;
            }
        }
        if o.panicked {
            res.panics += 1;
        }
    }
    let _ = d;
    let opop = exec(&mut a, &Item::Text("(pop)".into()));
    if !opop.ok {
        res.violation = Some(("C08-pushpop-outcome".into(), format!("the closing (pop) of a balanced bracket failed: {}", opop.err_text), 0));
        return res;
    }
    let n = t.r.len();
    for (i, it) in t.r.iter().enumerate() {
        let oa = exec(&mut a, it);
        let ob = exec(&mut b, it);
        if let Some(h) = hist.as_deref_mut() {
            *h.entry(format!("R:{}", it.kind())).or_insert(0) += 1;
        }
        if !ob.ok {
            if let Some(h) = err_hist.as_deref_mut() {
                *h.entry(format!("R:{}", ob.err_class)).or_insert(0) += 1;
            }
        }
        if ob.ok && it.kind().starts_with("decl-") && (it.show().contains("q") && !it.show().contains("hP")) {
            res.redeclared_ok += 1;
        }
        if ob.api == "missing" {
            res.api_missing_after_pop += 1;
        }
        if let Some((kind, diff)) = compare(&oa, &ob) {
            let key = match (kind, it.kind()) {
                ("panic", _) => "C08-pushpop-panic",
                (_, k) if k.starts_with("decl-") => "C08-redeclare",
                (_, k) if k.starts_with("api-") => "C08-api-after-pop",
                (_, "pop") => "C08-pop-depth",
                ("output", _) => "C08-pushpop-output",
                ("error", _) => "C08-pushpop-error-text",
                _ => "C08-pushpop-outcome",
            };
            res.violation = Some((key.into(), format!("command {i} of R `{}`: after P;(push);Q;(pop) it gave {diff} (second: after P alone)", it.show()), i));
            return res;
        }
        if oa.panicked {
            res.panics += 1;
        }
        if i + 1 == n {
            // the last command is one (pop) too many
            res.last_pop_err = !oa.ok && !oa.panicked && oa.err_class == "pop";
            if !res.last_pop_err {
                res.violation = Some(("C08-pop-without-push".into(), format!("(pop) without a matching (push) gave {:?}, expected a clean error", oa), i));
                return res;
            }
        }
        // database observation after every command of R
        let xa = observe(&a, &t.prog, &t.probes, &t.iprobes);
        let xb = observe(&b, &t.prog, &t.probes, &t.iprobes);
        if xa != xb {
            res.violation = Some((
                "C08-pushpop-db".into(),
                format!("after command {i} of R `{}` the databases differ: bracketed {:?} / plain {:?}", it.show(), xa, xb),
                i,
            ));
            return res;
        }
    }
    res
}

fn triple_json(t: &Triple, seed: u64, idx: u64, drop_q: &[usize], drop_r: &[usize]) -> serde_json::Value {
    serde_json::json!({
        "family": "triple", "seed": seed, "case": idx, "drop_q": drop_q, "drop_r": drop_r,
        "header": t.header,
        "P": t.p.iter().map(|i| i.show()).collect::<Vec<_>>(),
        "Q": t.q.iter().map(|i| i.show()).collect::<Vec<_>>(),
        "R": t.r.iter().map(|i| i.show()).collect::<Vec<_>>(),
    })
}

fn apply_drops(t: &mut Triple, drop_q: &[usize], drop_r: &[usize]) {
    let dq: HashSet<usize> = drop_q.iter().copied().collect();
    let dr: HashSet<usize> = drop_r.iter().copied().collect();
    t.q = t.q.iter().enumerate().filter(|(i, _)| !dq.contains(i)).map(|(_, x)| x.clone()).collect();
    t.r = t.r.iter().enumerate().filter(|(i, _)| !dr.contains(i)).map(|(_, x)| x.clone()).collect();
}

/// shrink Q, then R (greedy, bounded): returns the dropped original indices
fn shrink_triple(seed: u64, idx: u64, key: &str) -> (Vec<usize>, Vec<usize>) {
    let base = gen_triple(seed, idx);
    let mut drop_q: Vec<usize> = Vec::new();
    let mut drop_r: Vec<usize> = Vec::new();
    let mut budget = 150usize;
    let still = |dq: &[usize], dr: &[usize]| -> bool {
        let mut t = gen_triple(seed, idx);
        apply_drops(&mut t, dq, dr);
        matches!(run_triple(&t, None, None).violation, Some((k, _, _)) if k == key)
    };
    for i in 0..base.q.len() {
        if budget == 0 {
            break;
        }
        let k = base.q[i].kind();
        if k == "push" || k == "pop" {
            continue;
        }
        budget -= 1;
        drop_q.push(i);
        if !still(&drop_q, &drop_r) {
            drop_q.pop();
        }
    }
    for i in 0..base.r.len().saturating_sub(1 + base.depth_p) {
        if budget == 0 {
            break;
        }
        budget -= 1;
        drop_r.push(i);
        if !still(&drop_q, &drop_r) {
            drop_r.pop();
        }
    }
    (drop_q, drop_r)
}

// ------------------------------------------------------------------------------------------
// family `pair`

#[derive(Clone, Copy, PartialEq, Debug)]
enum Side {
    A,
    B,
}

struct Pair {
    prog: Program,
    header: String,
    prefix: Vec<Item>,
    cmds: Vec<(Side, Item)>,
    /// table names each item declares when it succeeds
    probes: Vec<Pat>,
    iprobes: Vec<Pat>,
}

fn declared_table_names(it: &Item) -> Vec<String> {
    // names of the tables a declaration registers (function / relation / constructor / datatype variants)
    let mut v = Vec::new();
    if let Item::Text(t) = it {
        let toks: Vec<&str> = t.split(|c: char| c.is_whitespace() || c == '(' || c == ')').filter(|s| !s.is_empty()).collect();
        if toks.is_empty() {
            return v;
        }
        match toks[0] {
            "function" | "relation" | "constructor" => v.push(toks[1].to_string()),
            "datatype" => {
                // (datatype D (C1 ..) (C2 ..)): variant names are the tokens right after an opening paren at depth 2
                let mut depth = 0;
                let cs: Vec<char> = t.chars().collect();
                let mut i = 0;
                while i < cs.len() {
                    if cs[i] == '(' {
                        depth += 1;
                        if depth == 2 {
                            let mut j = i + 1;
                            let mut name = String::new();
                            while j < cs.len() && !cs[j].is_whitespace() && cs[j] != ')' {
                                name.push(cs[j]);
                                j += 1;
                            }
                            v.push(name);
                        }
                    } else if cs[i] == ')' {
                        depth -= 1;
                    }
                    i += 1;
                }
            }
            _ => {}
        }
    }
    v
}

fn gen_pair_seq(prog: &Program, r: &mut Rng, own: &str, db: Vec<Item>, names: &mut Names) -> Vec<Item> {
    let mut out = Vec::new();
    let mut declared: Vec<(String, usize)> = vec![("hP0".into(), 1), ("hP1".into(), 2)];
    let mut db = db;
    db.reverse();
    let n = db.len() + r.range(3, 8);
    let mut d = 0usize;
    for _ in 0..n {
        let t1 = ground(prog, r, 2);
        let t2 = ground(prog, r, 2);
        // name pools: own (never collides), shared (may be declared by both copies -> F6)
        let pool = if r.chance(1, 3) { "cs" } else { own };
        let i = if pool == "cs" { r.below(3) } else { names.next() };
        let tx = |s: String| Item::Text(s);
        match r.below(19) {
            0 | 1 => {
                let ar = r.range(1, 2);
                let sig = if ar == 1 { "(i64)" } else { "(i64 i64)" };
                let name = format!("{pool}f{i}");
                out.push(tx(format!("(function {name} {sig} i64 :merge (max old new))")));
                let key: Vec<i64> = (0..ar).map(|x| x as i64 + 1).collect();
                out.push(tx(format!("(set ({name} {}) {})", key.iter().map(|x| x.to_string()).collect::<Vec<_>>().join(" "), r.below(9))));
                declared.push((name, ar));
            }
            2 => {
                let name = format!("{pool}R{i}");
                out.push(tx(format!("(relation {name} (S))")));
                out.push(tx(format!("({name} {t1})")));
                out.push(Item::ApiSize(name));
            }
            3 => {
                let name = format!("{pool}K{i}");
                out.push(tx(format!("(constructor {name} (S) S)")));
                out.push(tx(format!("(union ({name} {t1}) {t2})")));
                out.push(Item::ApiSize(name));
            }
            4 => out.push(tx(format!("(sort {pool}S{i})"))),
            5 => {
                out.push(tx(format!("(ruleset {pool}rs{i})")));
                out.push(tx(format!("(run {pool}rs{i} 1)")));
            }
            6 => {
                out.push(tx(format!("(let ${pool}g{i} {t1})")));
                out.push(tx(format!("(union ${pool}g{i} {t2})")));
            }
            7 | 8 | 9 => {
                // name-indexed access: mostly to names this copy declared, sometimes to any name
                let (name, ar) = if r.chance(3, 4) && !declared.is_empty() {
                    declared[r.below(declared.len())].clone()
                } else {
                    (format!("{}f{}", if r.chance(1, 2) { "cs" } else { "ca" }, r.below(3)), r.range(1, 2))
                };
                let key: Vec<i64> = (0..ar).map(|x| x as i64 + 1).collect();
                match r.below(3) {
                    0 => out.push(Item::ApiSet(name, key, r.below(9) as i64)),
                    1 => out.push(Item::ApiLookup(name, key)),
                    _ => out.push(Item::ApiSize(name)),
                }
            }
            10 => out.push(tx(format!("(run {})", r.range(1, 2)))),
            11 => out.push(tx("(print-size)".into())),
            14 => {
                let f0 = prog.decls.iter().find(|d| d.kind == Kind::Ctor && d.args == vec![Sort::S]).map(|d| d.name.clone()).unwrap_or("F0".into());
                let j = names.next();
                out.extend(compound_failure(r.below(6), j, &f0, own));
                out.push(rule_running_probe(r, &f0));
            }
            15 => {
                let f0 = prog.decls.iter().find(|d| d.kind == Kind::Ctor && d.args == vec![Sort::S]).map(|d| d.name.clone()).unwrap_or("F0".into());
                out.push(rule_running_probe(r, &f0));
            }
            12 if d == 0 => {
                out.push(tx("(push)".into()));
                d += 1;
            }
            13 if d > 0 => {
                out.push(tx("(pop)".into()));
                d -= 1;
            }
            _ => {
                if let Some(it) = db.pop() {
                    out.push(it);
                } else {
                    out.push(tx(format!("(union {t1} {t2})")));
                }
            }
        }
    }
    while let Some(it) = db.pop() {
        out.push(it);
    }
    out.push(Item::Text("(print-size)".into()));
    out
}

fn gen_pair(seed: u64, idx: u64) -> Pair {
    let mut r = Rng::for_case(seed ^ 0x5EED_C10E, idx);
    let bias = *r.pick(&[Bias::C01, Bias::C05, Bias::C13, Bias::C03]);
    let np = r.range(2, 6);
    let na = r.range(2, 6);
    let nb = r.range(2, 6);
    let prog = Gen::new(&mut r, bias).program(np + na + nb);
    let texts: Vec<Item> = prog.cmds.iter().map(|c| Item::Text(prog.cmd_text(c))).collect();
    let mut prefix: Vec<Item> = vec![
        Item::Text("(function hP0 (i64) i64 :merge (max old new))".into()),
        Item::Text("(function hP1 (i64 i64) i64 :merge (max old new))".into()),
        Item::Text("(set (hP0 1) 10)".into()),
        Item::Text("(function nmP (S) i64 :no-merge)".into()),
        Item::Text("(set (nmP (K0)) 1)".into()),
        Item::Text("(set (nmP (K1)) 2)".into()),
    ];
    let c1 = np.min(texts.len());
    let c2 = (np + na).min(texts.len());
    for (i, it) in texts[..c1].iter().enumerate() {
        if i == 1 && r.chance(1, 4) {
            // the clone also copies the stack of pushed snapshots
            prefix.push(Item::Text("(push)".into()));
        }
        prefix.push(it.clone());
    }
    let mut names = Names { n: 0 };
    let sa = gen_pair_seq(&prog, &mut r, "ca", texts[c1..c2].to_vec(), &mut names);
    let sb = gen_pair_seq(&prog, &mut r, "cb", texts[c2..].to_vec(), &mut names);
    // random interleaving preserving each copy's order
    let (mut ia, mut ib) = (0, 0);
    let mut cmds = Vec::new();
    while ia < sa.len() || ib < sb.len() {
        let take_a = if ia >= sa.len() {
            false
        } else if ib >= sb.len() {
            true
        } else {
            r.chance(1, 2)
        };
        if take_a {
            cmds.push((Side::A, sa[ia].clone()));
            ia += 1;
        } else {
            cmds.push((Side::B, sb[ib].clone()));
            ib += 1;
        }
    }
    if r.chance(1, 4) {
        // both copies declare the same table name after the clone, then use it by name
        let (x, y) = if r.chance(1, 2) { (Side::A, Side::B) } else { (Side::B, Side::A) };
        let n = format!("csf{}", r.below(3));
        cmds.push((x, Item::Text(format!("(function {n} (i64) i64 :no-merge)"))));
        cmds.push((y, Item::Text(format!("(function {n} (i64 i64) i64 :no-merge)"))));
        cmds.push((y, Item::ApiSet(n.clone(), vec![1, 2], 41)));
        cmds.push((x, Item::ApiSet(n.clone(), vec![1], 42)));
        cmds.push((x, Item::ApiLookup(n.clone(), vec![1])));
        cmds.push((x, Item::Text(format!("(print-size {n})"))));
        cmds.push((y, Item::ApiSize(n.clone())));
    }
    if r.chance(1, 3) {
        // one copy fails in the compound way (union + error in one iteration); the OTHER copy then
        // runs rules: nothing of the first copy's failure may surface there
        let (x, y) = if r.chance(1, 2) { (Side::A, Side::B) } else { (Side::B, Side::A) };
        let f0 = prog.decls.iter().find(|d| d.kind == Kind::Ctor && d.args == vec![Sort::S]).map(|d| d.name.clone()).unwrap_or("F0".into());
        let at = r.below(cmds.len() + 1);
        let rest = cmds.split_off(at);
        for it in compound_failure(r.below(6), 900 + r.below(50), &f0, "t") {
            cmds.push((x, it));
        }
        cmds.push((y, rule_running_probe(&mut r, &f0)));
        cmds.push((y, rule_running_probe(&mut r, &f0)));
        cmds.push((x, rule_running_probe(&mut r, &f0)));
        cmds.extend(rest);
    }
    let probes = enumerate_probes(&prog, 3, 30, &[0, 1, 2]);
    let mut iprobes: Vec<Pat> = Vec::new();
    for (f, d) in prog.decls.iter().enumerate() {
        if d.kind != Kind::Ctor {
            for t in probes.iter().filter(|t| pat_size(t) <= 3).take(8) {
                iprobes.push(Pat::App(f, vec![t.clone()]));
            }
        }
    }
    let header = prog.header();
    Pair { prog, header, prefix, cmds, probes, iprobes }
}

struct PairResult {
    violation: Option<(String, String, usize)>,
    collisions: usize,
    f6: usize,
    decls_after_clone: usize,
    api_ok: usize,
}

/// `b = a.clone()`, interleaved commands; every copy is compared in lockstep with an independent
/// engine that replays prefix;its-own-commands.
fn run_pair(pr: &Pair, stop_at_first: bool) -> (PairResult, Vec<(String, String, usize)>) {
    let mut res = PairResult { violation: None, collisions: 0, f6: 0, decls_after_clone: 0, api_ok: 0 };
    let mut all: Vec<(String, String, usize)> = Vec::new();
    let mut a = EGraph::default();
    let mut ra = EGraph::default();
    let mut rb = EGraph::default();
    for eg in [&mut a, &mut ra, &mut rb] {
        if step(eg, &pr.header).0.is_err() {
            res.violation = Some(("harness-header".into(), "header rejected".into(), 0));
            return (res, all);
        }
        for it in &pr.prefix {
            exec(eg, it);
        }
    }
    let mut b = a.clone();
    let mut decl: [BTreeSet<String>; 2] = [BTreeSet::new(), BTreeSet::new()];
    for (i, (sd, it)) in pr.cmds.iter().enumerate() {
        let (x, rx, me, other) = match sd {
            Side::A => (&mut a, &mut ra, 0, 1),
            Side::B => (&mut b, &mut rb, 1, 0),
        };
        let ox = exec(x, it);
        let or = exec(rx, it);
        if or.ok {
            let names = declared_table_names(it);
            if !names.is_empty() {
                res.decls_after_clone += 1;
            }
            for n in names {
                if decl[other].contains(&n) {
                    res.collisions += 1;
                }
                decl[me].insert(n);
            }
            if it.api_name().is_some() {
                res.api_ok += 1;
            }
        }
        let mut diff = compare(&ox, &or).map(|(k, d)| (k.to_string(), d));
        if diff.is_none() {
            let xa = observe(x, &pr.prog, &pr.probes, &pr.iprobes);
            let xr = observe(rx, &pr.prog, &pr.probes, &pr.iprobes);
            if xa != xr {
                diff = Some(("db".into(), format!("databases differ: clone-pair copy {:?} / independent {:?}", xa, xr)));
            }
        }
        if let Some((kind, d)) = diff {
            // F6, and only F6: name-indexed access to a table name that the OTHER copy declared after
            // the clone, while this copy has its own table of that name (the independent engine
            // finds it; declared after the clone or, if the other copy popped and redeclared,
            // before it): the shared registry entry is the other copy's, so here it reads as missing
            let f6 = match it.api_name() {
                Some(n) => decl[other].contains(n) && ox.api == "missing" && or.api != "missing",
                None => false,
            };
            let key = if f6 { "F6-clone-shared-registry" } else { "C08-clone-diverges" };
            if f6 {
                res.f6 += 1;
            }
            let what = format!(
                "command {i} on copy {:?} `{}` ({kind}): in the clone pair it gave {d} (second: independent engine replaying prefix + this copy's commands){}",
                sd,
                it.show(),
                if f6 { "; this copy has a table of that name and the other copy declared the same name after the clone (shared ActionRegistry)".to_string() } else { String::new() }
            );
            all.push((key.to_string(), what.clone(), i));
            if res.violation.is_none() || (!f6 && res.violation.as_ref().map(|v| v.0.starts_with("F6")).unwrap_or(false)) {
                res.violation = Some((key.to_string(), what, i));
            }
            // once a copy has diverged (F6 or anything else) the independent engine is no longer
            // its reference: stop this session
            let _ = stop_at_first;
            break;
        }
    }
    (res, all)
}

fn pair_json(p: &Pair, seed: u64, idx: u64) -> serde_json::Value {
    serde_json::json!({
        "family": "pair", "seed": seed, "case": idx,
        "header": p.header,
        "prefix": p.prefix.iter().map(|i| i.show()).collect::<Vec<_>>(),
        "then_b_eq_a_clone_and": p.cmds.iter().map(|(s, i)| format!("{:?}: {}", s, i.show())).collect::<Vec<_>>(),
    })
}

// ------------------------------------------------------------------------------------------
// model vocabulary (coq/Snap/PushPop.v, concrete instance)

#[derive(Clone, Debug, PartialEq)]
enum Ns {
    Sort,
    Func,
    Ruleset,
    Rule,
    Global,
}

#[derive(Clone, Debug, PartialEq)]
enum MC {
    Push,
    Pop,
    Decl(Ns, usize, Vec<usize>),
    Set(usize, Vec<i64>, i64),
    Check(usize, Vec<i64>, i64),
    Size(usize),
    Run(usize),
    ApiSet(usize, Vec<i64>, i64),
    ApiLookup(usize, Vec<i64>),
    ApiSize(usize),
    Stats,
    Fail,
}

fn keys_text(k: &[i64]) -> String {
    k.iter().map(|x| x.to_string()).collect::<Vec<_>>().join(" ")
}
fn coq_zs(k: &[i64]) -> String {
    coq_list(k, |z| coq_z(*z))
}

impl MC {
    fn item(&self) -> Item {
        match self {
            MC::Push => Item::Text("(push)".into()),
            MC::Pop => Item::Text("(pop)".into()),
            MC::Decl(Ns::Sort, n, _) => Item::Text(format!("(sort S{n})")),
            MC::Decl(Ns::Func, n, aux) => Item::Text(format!("(function g{n} ({}) i64 :merge (max old new))", vec!["i64"; aux[0]].join(" "))),
            MC::Decl(Ns::Ruleset, n, _) => Item::Text(format!("(ruleset rs{n})")),
            MC::Decl(Ns::Rule, n, aux) => Item::Text(format!("(rule ((= v (g{} x))) ((set (g{} x) v)) :ruleset rs{} :name \"r{n}\")", aux[1], aux[2], aux[0])),
            MC::Decl(Ns::Global, n, aux) => Item::Text(format!("(let $x{n} {})", aux[0])),
            MC::Set(f, k, v) => Item::Text(format!("(set (g{f} {}) {v})", keys_text(k))),
            MC::Check(f, k, v) => Item::Text(format!("(check (= (g{f} {}) {v}))", keys_text(k))),
            MC::Size(f) => Item::Text(format!("(print-size g{f})")),
            MC::Run(rs) => Item::Text(format!("(run rs{rs} 1)")),
            MC::ApiSet(f, k, v) => Item::ApiSet(format!("g{f}"), k.clone(), *v),
            MC::ApiLookup(f, k) => Item::ApiLookup(format!("g{f}"), k.clone()),
            MC::ApiSize(f) => Item::ApiSize(format!("g{f}")),
            MC::Stats => Item::Text("(print-stats)".into()),
            MC::Fail => Item::Text("(bogus-command 1)".into()),
        }
    }
    fn coq(&self) -> String {
        match self {
            MC::Push => "CPush".into(),
            MC::Pop => "CPop".into(),
            MC::Decl(k, n, aux) => format!(
                "CDecl {} {n} {}",
                match k {
                    Ns::Sort => "NSort",
                    Ns::Func => "NFunc",
                    Ns::Ruleset => "NRuleset",
                    Ns::Rule => "NRule",
                    Ns::Global => "NGlobal",
                },
                coq_nat_list(aux)
            ),
            MC::Set(f, k, v) => format!("CDb (DSet {f} {} {})", coq_zs(k), coq_z(*v)),
            MC::Check(f, k, v) => format!("CDb (DCheck {f} {} {})", coq_zs(k), coq_z(*v)),
            MC::Size(f) => format!("CDb (DSize {f})"),
            MC::Run(rs) => format!("CDb (DRun {rs})"),
            MC::ApiSet(f, k, v) => format!("CApi {f} (ASet {} {})", coq_zs(k), coq_z(*v)),
            MC::ApiLookup(f, k) => format!("CApi {f} (ALookup {})", coq_zs(k)),
            MC::ApiSize(f) => format!("CApi {f} ASize"),
            MC::Stats => "CStats".into(),
            MC::Fail => "CFail".into(),
        }
    }
    fn json(&self) -> serde_json::Value {
        match self {
            MC::Push => serde_json::json!(["push"]),
            MC::Pop => serde_json::json!(["pop"]),
            MC::Decl(k, n, aux) => serde_json::json!(["decl", format!("{k:?}").to_lowercase(), n, aux]),
            MC::Set(f, k, v) => serde_json::json!(["set", f, k, v]),
            MC::Check(f, k, v) => serde_json::json!(["check", f, k, v]),
            MC::Size(f) => serde_json::json!(["size", f]),
            MC::Run(rs) => serde_json::json!(["run", rs]),
            MC::ApiSet(f, k, v) => serde_json::json!(["api-set", f, k, v]),
            MC::ApiLookup(f, k) => serde_json::json!(["api-lookup", f, k]),
            MC::ApiSize(f) => serde_json::json!(["api-size", f]),
            MC::Stats => serde_json::json!(["stats"]),
            MC::Fail => serde_json::json!(["fail"]),
        }
    }
    fn from_json(v: &serde_json::Value) -> MC {
        let a = v.as_array().expect("command array");
        let us = |i: usize| a[i].as_u64().unwrap() as usize;
        let zs = |i: usize| a[i].as_array().unwrap().iter().map(|x| x.as_i64().unwrap()).collect::<Vec<i64>>();
        match a[0].as_str().unwrap() {
            "push" => MC::Push,
            "pop" => MC::Pop,
            "decl" => MC::Decl(
                match a[1].as_str().unwrap() {
                    "sort" => Ns::Sort,
                    "func" => Ns::Func,
                    "ruleset" => Ns::Ruleset,
                    "rule" => Ns::Rule,
                    _ => Ns::Global,
                },
                us(2),
                a[3].as_array().unwrap().iter().map(|x| x.as_u64().unwrap() as usize).collect(),
            ),
            "set" => MC::Set(us(1), zs(2), a[3].as_i64().unwrap()),
            "check" => MC::Check(us(1), zs(2), a[3].as_i64().unwrap()),
            "size" => MC::Size(us(1)),
            "run" => MC::Run(us(1)),
            "api-set" => MC::ApiSet(us(1), zs(2), a[3].as_i64().unwrap()),
            "api-lookup" => MC::ApiLookup(us(1), zs(2)),
            "api-size" => MC::ApiSize(us(1)),
            "stats" => MC::Stats,
            _ => MC::Fail,
        }
    }
    /// what the engine did, in the model's output vocabulary
    fn sout(&self, o: &Outcome) -> String {
        if o.panicked {
            return "OFresh 0".into(); // never produced by the model for these commands: a mismatch
        }
        match self {
            MC::Push => if o.ok { "OOk" } else { "OErr EParse" }.into(),
            MC::Pop => if o.ok { "OOk" } else { "OErr EPop" }.into(),
            MC::Decl(..) => if o.ok { "OOk" } else { "OErr EDecl" }.into(),
            MC::Set(..) | MC::Run(..) => if o.ok { "ODb DOk" } else { "ODb DErrType" }.into(),
            MC::Check(..) => {
                if o.ok {
                    "ODb DOk".into()
                } else if o.err_class == "check" {
                    "ODb DErrCheck".into()
                } else {
                    "ODb DErrType".into()
                }
            }
            MC::Size(_) => {
                if o.ok {
                    format!("ODb (DSizeIs {})", o.outputs.first().map(|s| s.trim().to_string()).unwrap_or("0".into()))
                } else {
                    "ODb DErrType".into()
                }
            }
            MC::ApiSet(..) | MC::ApiLookup(..) | MC::ApiSize(..) => match o.api.as_str() {
                "missing" => "OMissing".into(),
                "arity" => "OApi AErrArity".into(),
                "set-ok" => "OApi AOk".into(),
                "none" => "OApi (AVal None)".into(),
                s if s.starts_with("some(") => format!("OApi (AVal (Some {}))", coq_z(s[5..s.len() - 1].parse().unwrap())),
                s if s.starts_with("size(") => format!("OApi (ASizeIs {})", &s[5..s.len() - 1]),
                _ => "OFresh 0".into(),
            },
            MC::Stats => if o.ok { "OStats 0" } else { "OErr EParse" }.into(),
            MC::Fail => if o.ok { "OOk" } else { "OErr EParse" }.into(),
        }
    }
}

fn gen_mc(r: &mut Rng, allow_pop: bool) -> MC {
    let f = r.below(5);
    let ar = r.range(1, 2);
    let key: Vec<i64> = (0..ar).map(|_| r.range(1, 3) as i64).collect();
    match r.below(30) {
        0..=4 => MC::Decl(Ns::Func, f, vec![ar]),
        5 => MC::Decl(Ns::Sort, r.below(3), vec![]),
        6 | 7 => MC::Decl(Ns::Ruleset, r.below(3), vec![]),
        8 | 9 | 10 => MC::Decl(Ns::Rule, r.below(4), vec![r.below(3), r.below(5), r.below(5)]),
        11 => MC::Decl(Ns::Global, r.below(3), vec![r.below(9)]),
        12..=15 => MC::Set(f, key, r.below(10) as i64),
        16 => MC::Check(f, key, r.below(10) as i64),
        17 | 18 => MC::Size(f),
        19 | 20 => MC::Run(r.below(3)),
        21 | 22 => MC::ApiSet(f, key, r.below(10) as i64),
        23 | 24 => MC::ApiLookup(f, key),
        25 | 26 => MC::ApiSize(f),
        27 => MC::Stats,
        28 => MC::Fail,
        _ => {
            if allow_pop {
                MC::Pop
            } else {
                MC::Size(f)
            }
        }
    }
}

fn gen_mbody(r: &mut Rng, len: usize, depth: usize) -> Vec<MC> {
    let mut out = Vec::new();
    for _ in 0..len {
        if depth < 2 && r.chance(1, 7) {
            out.push(MC::Push);
            let l = r.range(1, 4);
            out.extend(gen_mbody(r, l, depth + 1));
            out.push(MC::Pop);
        } else {
            out.push(gen_mc(r, false));
        }
    }
    out
}

struct MTriple {
    p: Vec<MC>,
    q: Vec<MC>,
    r: Vec<MC>,
}

fn gen_mtriple(seed: u64, idx: u64) -> MTriple {
    let mut r = Rng::for_case(seed ^ 0x0C08_7713, idx);
    let mut p = Vec::new();
    let np = r.range(1, 7);
    for i in 0..np {
        if i == 1 && r.chance(1, 5) {
            p.push(MC::Push);
        }
        p.push(gen_mc(&mut r, false));
    }
    let nq = r.range(2, 9);
    let q = gen_mbody(&mut r, nq, 0);
    let mut rr = Vec::new();
    // R first looks at (and redeclares) what Q declared, then continues freely
    for c in &q {
        if let MC::Decl(k, n, aux) = c {
            if r.chance(1, 2) {
                if *k == Ns::Func {
                    rr.push(MC::ApiSize(*n));
                    let ar = 3 - aux[0];
                    rr.push(MC::Decl(Ns::Func, *n, vec![ar]));
                    rr.push(MC::ApiSet(*n, (0..ar).map(|x| x as i64 + 1).collect(), 7));
                    rr.push(MC::ApiSize(*n));
                } else {
                    rr.push(c.clone());
                }
            }
        }
    }
    let nr = r.range(2, 9);
    for _ in 0..nr {
        rr.push(gen_mc(&mut r, true));
    }
    rr.push(MC::Pop);
    rr.push(MC::Pop);
    MTriple { p, q, r: rr }
}

fn run_mseq(eg: &mut EGraph, cs: &[MC]) -> Vec<(Outcome, String)> {
    cs.iter()
        .map(|c| {
            let o = exec(eg, &c.item());
            let s = c.sout(&o);
            (o, s)
        })
        .collect()
}

struct MPair {
    prefix: Vec<MC>,
    cmds: Vec<(Side, MC)>,
}

fn gen_mpair(seed: u64, idx: u64) -> MPair {
    let mut r = Rng::for_case(seed ^ 0x0C08_9A12, idx);
    let np = r.range(1, 6);
    let mut prefix = Vec::new();
    for i in 0..np {
        if i == 1 && r.chance(1, 5) {
            prefix.push(MC::Push);
        }
        prefix.push(gen_mc(&mut r, false));
    }
    let n = r.range(4, 14);
    let mut cmds = Vec::new();
    for _ in 0..n {
        let sd = if r.chance(1, 2) { Side::A } else { Side::B };
        cmds.push((sd, gen_mc(&mut r, true)));
    }
    if r.chance(1, 3) {
        // both copies declare the same table name after the clone, then use it by name
        let f = r.below(5);
        let (x, y) = if r.chance(1, 2) { (Side::A, Side::B) } else { (Side::B, Side::A) };
        let (a1, a2) = (r.range(1, 2), r.range(1, 2));
        let mut tail = vec![
            (x, MC::Decl(Ns::Func, f, vec![a1])),
            (y, MC::Decl(Ns::Func, f, vec![a2])),
            (x, MC::ApiSet(f, (0..a1).map(|k| k as i64 + 1).collect(), 42)),
            (y, MC::ApiSet(f, (0..a2).map(|k| k as i64 + 1).collect(), 43)),
            (x, MC::ApiLookup(f, (0..a1).map(|k| k as i64 + 1).collect())),
            (y, MC::ApiSize(f)),
            (x, MC::Size(f)),
        ];
        let at = r.below(cmds.len() + 1);
        let rest = cmds.split_off(at);
        cmds.append(&mut tail);
        for c in rest {
            cmds.push(c);
        }
    }
    MPair { prefix, cmds }
}

/// runs the pair on the engine: outputs in the model's vocabulary + isolation predicate
fn run_mpair(mp: &MPair) -> (Vec<String>, Vec<(String, String, usize)>, usize) {
    let mut a = EGraph::default();
    let mut ra = EGraph::default();
    let mut rb = EGraph::default();
    for eg in [&mut a, &mut ra, &mut rb] {
        for c in &mp.prefix {
            exec(eg, &c.item());
        }
    }
    let mut b = a.clone();
    let mut outs = Vec::new();
    let mut viols = Vec::new();
    let mut decl: [BTreeSet<usize>; 2] = [BTreeSet::new(), BTreeSet::new()];
    let mut collisions = 0;
    for (i, (sd, c)) in mp.cmds.iter().enumerate() {
        let (x, rx, me, other) = match sd {
            Side::A => (&mut a, &mut ra, 0, 1),
            Side::B => (&mut b, &mut rb, 1, 0),
        };
        let it = c.item();
        let ox = exec(x, &it);
        let or = exec(rx, &it);
        outs.push(c.sout(&ox));
        if !viols.is_empty() {
            continue; // diverged already: keep recording what the clone pair does, stop comparing
        }
        if let (MC::Decl(Ns::Func, n, _), true) = (c, or.ok) {
            if decl[other].contains(n) {
                collisions += 1;
            }
            decl[me].insert(*n);
        }
        if let Some((kind, d)) = compare(&ox, &or) {
            let f6 = match c {
                MC::ApiSet(n, ..) | MC::ApiLookup(n, ..) | MC::ApiSize(n) => decl[other].contains(n) && ox.api == "missing" && or.api != "missing",
                _ => false,
            };
            viols.push((
                if f6 { "F6-clone-shared-registry".to_string() } else { "C08-clone-diverges".to_string() },
                format!("command {i} on copy {sd:?} `{}` ({kind}): clone pair gave {d} (second: independent engine)", it.show()),
                i,
            ));
        }
    }
    (outs, viols, collisions)
}

fn mpair_json(mp: &MPair) -> serde_json::Value {
    serde_json::json!({
        "family": "mpair",
        "prefix": mp.prefix.iter().map(|c| c.json()).collect::<Vec<_>>(),
        "cmds": mp.cmds.iter().map(|(s, c)| serde_json::json!([format!("{s:?}"), c.json()])).collect::<Vec<_>>(),
        "text": mp.prefix.iter().map(|c| c.item().show()).chain(std::iter::once("b = a.clone()".to_string()))
            .chain(mp.cmds.iter().map(|(s, c)| format!("{s:?}: {}", c.item().show()))).collect::<Vec<_>>(),
    })
}

fn mtriple_json(t: &MTriple) -> serde_json::Value {
    serde_json::json!({
        "family": "mtriple",
        "p": t.p.iter().map(|c| c.json()).collect::<Vec<_>>(),
        "q": t.q.iter().map(|c| c.json()).collect::<Vec<_>>(),
        "r": t.r.iter().map(|c| c.json()).collect::<Vec<_>>(),
        "text": {"P": t.p.iter().map(|c| c.item().show()).collect::<Vec<_>>(),
                 "Q": t.q.iter().map(|c| c.item().show()).collect::<Vec<_>>(),
                 "R": t.r.iter().map(|c| c.item().show()).collect::<Vec<_>>()},
    })
}

// ------------------------------------------------------------------------------------------

struct Ctx {
    w: CaseWriter,
    viols: Vec<Viol>,
    cases: usize,
    nontrivial: usize,
    distinct: HashSet<String>,
    item_hist: BTreeMap<String, usize>,
    err_hist: BTreeMap<String, usize>,
    family_hist: BTreeMap<String, usize>,
    cov: BTreeMap<String, usize>,
    samples: Vec<serde_json::Value>,
}

impl Ctx {
    fn bump(&mut self, k: &str, n: usize) {
        *self.cov.entry(k.to_string()).or_insert(0) += n;
    }
}

fn do_mtriple(cx: &mut Ctx, t: &MTriple, tag: serde_json::Value) {
    cx.cases += 1;
    *cx.family_hist.entry("mtriple".into()).or_insert(0) += 1;
    let mut a = EGraph::default();
    let mut b = EGraph::default();
    let mut full: Vec<MC> = t.p.clone();
    full.push(MC::Push);
    full.extend(t.q.iter().cloned());
    full.push(MC::Pop);
    let off = full.len();
    full.extend(t.r.iter().cloned());
    let mut plain: Vec<MC> = t.p.clone();
    let offp = plain.len();
    plain.extend(t.r.iter().cloned());
    let ra = run_mseq(&mut a, &full);
    let rb = run_mseq(&mut b, &plain);
    for c in &full {
        *cx.item_hist.entry(format!("M:{}", c.item().kind())).or_insert(0) += 1;
    }
    let mut q_decl = 0;
    for (i, c) in t.q.iter().enumerate() {
        if matches!(c, MC::Decl(..)) && ra[t.p.len() + 1 + i].0.ok {
            q_decl += 1;
        }
    }
    let mut interesting = 0;
    for (i, c) in t.r.iter().enumerate() {
        let (oa, ob) = (&ra[off + i].0, &rb[offp + i].0);
        if let Some((kind, d)) = compare(oa, ob) {
            cx.viols.push(Viol {
                what: format!("model-vocabulary triple: command {i} of R `{}` ({kind}): after P;(push);Q;(pop) {d} (second: after P alone)", c.item().show()),
                key: match c {
                    MC::Decl(..) => "C08-redeclare".into(),
                    MC::ApiSet(..) | MC::ApiLookup(..) | MC::ApiSize(..) => "C08-api-after-pop".into(),
                    _ => "C08-pushpop-outcome".into(),
                },
                input: mtriple_json(t),
            });
            break;
        }
        if (matches!(c, MC::Decl(..)) && ob.ok) || ob.api == "missing" {
            interesting += 1;
        }
    }
    let nt = q_decl > 0 && interesting > 0;
    let key = format!("{:?}{:?}{:?}", t.p, t.q, t.r);
    if cx.distinct.insert(key) && nt {
        cx.nontrivial += 1;
    }
    if nt && cx.samples.iter().filter(|s| s["family"] == "mtriple").count() < 1 {
        let mut s = mtriple_json(t);
        s["tag"] = tag;
        s["outputs_of_R_bracketed"] = serde_json::json!(ra[off..].iter().map(|x| x.1.clone()).collect::<Vec<_>>());
        cx.samples.push(s);
    }
    // both runs are cases for the Gallina model
    cx.w.push(format!("(XS (mkSCase {} {}))", coq_list(&full, |c| c.coq()), coq_list(&ra, |x| x.1.clone())));
    cx.w.push(format!("(XS (mkSCase {} {}))", coq_list(&plain, |c| c.coq()), coq_list(&rb, |x| x.1.clone())));
    cx.bump("model_single_session_cases", 2);
}

fn do_mpair(cx: &mut Ctx, mp: &MPair, tag: serde_json::Value) {
    cx.cases += 1;
    *cx.family_hist.entry("mpair".into()).or_insert(0) += 1;
    let (outs, viols, collisions) = run_mpair(mp);
    for (_, c) in &mp.cmds {
        *cx.item_hist.entry(format!("MP:{}", c.item().kind())).or_insert(0) += 1;
    }
    cx.bump("mpair_same_name_declared_by_both", collisions);
    let mut seen_f6 = false;
    for (key, what, _) in viols {
        if key.starts_with("F6") {
            if seen_f6 {
                continue;
            }
            seen_f6 = true;
            cx.bump("f6_reproductions", 1);
        }
        cx.viols.push(Viol { what, key, input: mpair_json(mp) });
    }
    let key = format!("{:?}{:?}", mp.prefix, mp.cmds.iter().map(|(s, c)| format!("{s:?}{c:?}")).collect::<Vec<_>>());
    let nt = mp.cmds.iter().any(|(s, c)| *s == Side::A && matches!(c, MC::Decl(Ns::Func, ..))) && mp.cmds.iter().any(|(s, c)| *s == Side::B && matches!(c, MC::Decl(Ns::Func, ..)));
    if cx.distinct.insert(key) && nt {
        cx.nontrivial += 1;
    }
    if collisions > 0 && cx.samples.iter().filter(|s| s["family"] == "mpair").count() < 1 {
        let mut s = mpair_json(mp);
        s["tag"] = tag;
        s["outputs"] = serde_json::json!(outs);
        cx.samples.push(s);
    }
    cx.w.push(format!(
        "(XP (mkPCase {} {} {}))",
        coq_list(&mp.prefix, |c| c.coq()),
        coq_list(&mp.cmds, |(s, c)| format!("({}, {})", if *s == Side::A { "SA" } else { "SB" }, c.coq())),
        coq_list(&outs, |s| s.clone())
    ));
    cx.bump("model_clone_pair_cases", 1);
}

fn do_triple(cx: &mut Ctx, seed: u64, idx: u64, drop_q: &[usize], drop_r: &[usize], shrink: bool) {
    cx.cases += 1;
    *cx.family_hist.entry("triple".into()).or_insert(0) += 1;
    let mut t = gen_triple(seed, idx);
    apply_drops(&mut t, drop_q, drop_r);
    let res = run_triple(&t, Some(&mut cx.item_hist), Some(&mut cx.err_hist));
    cx.bump("triple_q_declarations_accepted", res.q_decl_ok);
    cx.bump("triple_redeclarations_accepted_in_R", res.redeclared_ok);
    cx.bump("triple_api_missing_after_pop", res.api_missing_after_pop);
    cx.bump("triple_q_failed_commands", res.q_failed);
    cx.bump("triple_with_nested_push_pop", res.nested as usize);
    cx.bump("triple_final_pop_clean_error", res.last_pop_err as usize);
    cx.bump("triple_panics_seen_equal_on_both_sides", res.panics);
    let nt = res.q_decl_ok > 0 && (res.redeclared_ok > 0 || res.api_missing_after_pop > 0);
    let key = format!("{}|{:?}|{:?}|{:?}", t.header, t.p, t.q, t.r);
    if cx.distinct.insert(key) && nt {
        cx.nontrivial += 1;
    }
    if nt && cx.samples.iter().filter(|s| s["family"] == "triple").count() < 1 {
        cx.samples.push(triple_json(&t, seed, idx, drop_q, drop_r));
    }
    if let Some((key, what, _)) = res.violation {
        let (dq, dr) = if shrink && drop_q.is_empty() && drop_r.is_empty() { shrink_triple(seed, idx, &key) } else { (drop_q.to_vec(), drop_r.to_vec()) };
        let mut t2 = gen_triple(seed, idx);
        apply_drops(&mut t2, &dq, &dr);
        let what2 = run_triple(&t2, None, None).violation.map(|v| v.1).unwrap_or(what);
        cx.viols.push(Viol { what: what2, key, input: triple_json(&t2, seed, idx, &dq, &dr) });
    }
}

fn do_pair(cx: &mut Ctx, seed: u64, idx: u64) {
    cx.cases += 1;
    *cx.family_hist.entry("pair".into()).or_insert(0) += 1;
    let p = gen_pair(seed, idx);
    for (_, it) in &p.cmds {
        *cx.item_hist.entry(format!("C:{}", it.kind())).or_insert(0) += 1;
    }
    let (res, all) = run_pair(&p, false);
    cx.bump("pair_declarations_after_clone", res.decls_after_clone);
    cx.bump("pair_same_name_declared_by_both", res.collisions);
    cx.bump("pair_api_accesses_ok", res.api_ok);
    cx.bump("f6_reproductions", (res.f6 > 0) as usize);
    let nt = res.decls_after_clone >= 2 && res.api_ok > 0;
    let key = format!("{}|{:?}|{:?}", p.header, p.prefix, p.cmds.iter().map(|(s, i)| format!("{s:?}{i:?}")).collect::<Vec<_>>());
    if cx.distinct.insert(key) && nt {
        cx.nontrivial += 1;
    }
    if nt && cx.samples.iter().filter(|s| s["family"] == "pair").count() < 1 {
        cx.samples.push(pair_json(&p, seed, idx));
    }
    let mut seen_f6 = false;
    for (key, what, _) in all {
        if key.starts_with("F6") {
            if seen_f6 {
                continue;
            }
            seen_f6 = true;
        }
        cx.viols.push(Viol { what, key, input: pair_json(&p, seed, idx) });
    }
}

/// explicit text triple (corpus seeds): P;(push);Q;(pop);R versus P;R, per-command outcomes of R
fn do_text_triple(cx: &mut Ctx, v: &serde_json::Value) {
    cx.cases += 1;
    *cx.family_hist.entry("ttriple".into()).or_insert(0) += 1;
    let g = |k: &str| -> Vec<Item> { v[k].as_array().map(|a| a.iter().map(|x| Item::Text(x.as_str().unwrap().to_string())).collect()).unwrap_or_default() };
    let (p, q, r) = (g("p"), g("q"), g("r"));
    let mut a = EGraph::default();
    let mut b = EGraph::default();
    for it in &p {
        exec(&mut a, it);
        exec(&mut b, it);
    }
    exec(&mut a, &Item::Text("(push)".into()));
    for it in &q {
        exec(&mut a, it);
    }
    exec(&mut a, &Item::Text("(pop)".into()));
    for (i, it) in r.iter().enumerate() {
        let oa = exec(&mut a, it);
        let ob = exec(&mut b, it);
        if let Some((kind, d)) = compare(&oa, &ob) {
            cx.viols.push(Viol {
                what: format!("command {i} of R `{}` ({kind}): after P;(push);Q;(pop) it gave {d} (second: after P alone)", it.show()),
                key: "C08-pushpop-outcome".into(),
                input: v.clone(),
            });
            break;
        }
    }
}

fn replay_value(cx: &mut Ctx, v: &serde_json::Value, default_seed: u64) {
    let v = if v.get("violation").is_some() { &v["violation"]["input"] } else if v.get("input").is_some() { &v["input"] } else { v };
    let seed = v["seed"].as_u64().unwrap_or(default_seed);
    let idx = v["case"].as_u64().unwrap_or(0);
    let us = |k: &str| -> Vec<usize> { v[k].as_array().map(|a| a.iter().map(|x| x.as_u64().unwrap() as usize).collect()).unwrap_or_default() };
    match v["family"].as_str().unwrap_or("triple") {
        "triple" => do_triple(cx, seed, idx, &us("drop_q"), &us("drop_r"), false),
        "pair" => do_pair(cx, seed, idx),
        "ttriple" => do_text_triple(cx, v),
        "mpair" => {
            let mp = MPair {
                prefix: v["prefix"].as_array().unwrap().iter().map(MC::from_json).collect(),
                cmds: v["cmds"].as_array().unwrap().iter().map(|e| (if e[0].as_str().unwrap() == "A" { Side::A } else { Side::B }, MC::from_json(&e[1]))).collect(),
            };
            do_mpair(cx, &mp, serde_json::json!("replay"));
        }
        _ => {
            let g = |k: &str| -> Vec<MC> { v[k].as_array().unwrap().iter().map(MC::from_json).collect() };
            let t = MTriple { p: g("p"), q: g("q"), r: g("r") };
            do_mtriple(cx, &t, serde_json::json!("replay"));
        }
    }
}

fn main() {
    let o = verif_harness::parse_opts();
    std::panic::set_hook(Box::new(|_| {}));
    let header = "From Coq Require Import List ZArith NArith.\nImport ListNotations.\nRequire Import Verif.Base.Cases Verif.Snap.PushPop.\n";
    let mut cx = Ctx {
        w: CaseWriter::new(&o.out, "cases_snap", header, "check_xcase", 400),
        viols: vec![],
        cases: 0,
        nontrivial: 0,
        distinct: HashSet::new(),
        item_hist: BTreeMap::new(),
        err_hist: BTreeMap::new(),
        family_hist: BTreeMap::new(),
        cov: BTreeMap::new(),
        samples: vec![],
    };
    if let Some(path) = &o.replay {
        let txt = std::fs::read_to_string(path).expect("replay file");
        let v: serde_json::Value = serde_json::from_str(&txt).expect("json");
        replay_value(&mut cx, &v, o.seed);
    } else {
        // corpus seeds first
        let corpus = std::path::Path::new(env!("CARGO_MANIFEST_DIR")).join("../corpus/C08");
        if let Ok(rd) = std::fs::read_dir(&corpus) {
            let mut files: Vec<_> = rd.flatten().map(|e| e.path()).filter(|p| p.extension().map(|e| e == "json").unwrap_or(false)).collect();
            files.sort();
            for f in files {
                if let Ok(txt) = std::fs::read_to_string(&f) {
                    if let Ok(v) = serde_json::from_str::<serde_json::Value>(&txt) {
                        replay_value(&mut cx, &v, o.seed);
                        cx.bump("corpus_seeds", 1);
                    }
                }
            }
        }
        // pop without push on a fresh engine: an error, not a panic, and the engine stays usable
        {
            let mut eg = EGraph::default();
            let o1 = exec(&mut eg, &Item::Text("(pop)".into()));
            let o2 = exec(&mut eg, &Item::Text("(function f (i64) i64 :no-merge)\n(set (f 1) 2)\n(check (= (f 1) 2))".into()));
            if o1.ok || o1.panicked || o1.err_class != "pop" || !o2.ok {
                cx.viols.push(Viol { what: format!("(pop) on a fresh e-graph: {:?}; afterwards: {:?}", o1, o2), key: "C08-pop-without-push".into(), input: serde_json::json!({"family":"fresh-pop"}) });
            }
            cx.cases += 1;
        }
        let (nt, np, nmt, nmp) = if o.thorough { (2500, 1500, 4000, 4000) } else { (150, 90, 400, 400) };
        for i in 0..nt {
            do_triple(&mut cx, o.seed, i, &[], &[], true);
        }
        for i in 0..np {
            do_pair(&mut cx, o.seed, i);
        }
        for i in 0..nmt {
            let t = gen_mtriple(o.seed, i);
            do_mtriple(&mut cx, &t, serde_json::json!({"seed": o.seed, "case": i}));
        }
        for i in 0..nmp {
            let mp = gen_mpair(o.seed, i);
            do_mpair(&mut cx, &mp, serde_json::json!({"seed": o.seed, "case": i}));
        }
    }
    cx.w.flush();
    // at most a few violations per key
    let mut per_key: BTreeMap<String, usize> = BTreeMap::new();
    let mut vj: Vec<serde_json::Value> = Vec::new();
    for v in &cx.viols {
        let c = per_key.entry(v.key.clone()).or_insert(0);
        *c += 1;
        if *c <= 3 && vj.len() < 30 {
            vj.push(serde_json::json!({"what": v.what, "key": v.key, "input": v.input}));
        }
    }
    let mut extra: BTreeMap<String, serde_json::Value> = cx.cov.iter().map(|(k, v)| (k.clone(), serde_json::json!(v))).collect();
    extra.insert("violations_per_key".into(), serde_json::json!(per_key));
    let rep = serde_json::json!({
        "sub": "snap",
        "cases": cx.w.total + cx.family_hist.get("triple").copied().unwrap_or(0) + cx.family_hist.get("pair").copied().unwrap_or(0),
        "sessions": cx.cases,
        "shards": cx.w.shards,
        "distinct_nontrivial": cx.nontrivial,
        "rule": "four seeded families: (triple) egg_gen sessions split into P,Q,R with declarations of every kind / runs / failing commands / nested balanced push-pop / API writes inside Q and redeclarations / name-indexed API probes / prints / runs inside R, run as P;(push);Q;(pop);R and P;R on fresh engines and compared after every command of R (Ok/Err, error text, outputs without run report and fresh-symbol numbers, renaming-invariant database observation); (pair) b = a.clone() after a prefix, random interleaving of divergent commands incl. declarations from own and shared name pools and update/read name-indexed access, each copy compared in lockstep with an independent engine replaying prefix + its own commands; (mtriple, mpair) the same two shapes in the vocabulary of the Gallina model, outputs written as kernel cases. non-trivial: triple/mtriple iff Q declared something that was accepted and R redeclared one of Q's names successfully or probed a dropped table through the API; pair/mpair iff both copies declared tables after the clone (and, for pair, some name-indexed access succeeded); distinct by the full command text",
        "samples": cx.samples,
        "violations": vj,
        "item_hist": cx.item_hist,
        "err_hist": cx.err_hist,
        "family_hist": cx.family_hist,
        "extra_coverage": extra,
    });
    std::fs::write(o.out.join("impl_report.json"), serde_json::to_string(&rep).unwrap()).unwrap();
}
