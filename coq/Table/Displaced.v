(** C16: the DisplacedTable model (over the union-find translated from union-find/src/lib.rs)
    refines the map  displaced id -> (id, canonical id, timestamp)  for every op sequence,
    including [clear]. Uses the C17 lemmas about the translated union-find. *)
From Coq Require Import List Arith PeanoNat Bool Lia.
Import ListNotations.
Require Import Verif.Base.Res Verif.Base.Cases Verif.gen.UFSeq Verif.UF.Seq.
Require Import Verif.Table.Model Verif.Table.MapSpec.

Definition DRel (d : D) (s : DSpec) : Prop :=
  Inv (uf d) /\
  (forall x, root_of (uf d) x (rep s x)) /\
  (forall k, match assoc (lut d) k with
             | Some i => exists ts, nth_error (disp d) i = Some (k, ts) /\ drow s k = Some ts
             | None => drow s k = None
             end) /\
  (forall i k ts, nth_error (disp d) i = Some (k, ts) -> assoc (lut d) k = Some i) /\
  (forall k ts, drow s k = Some ts -> rep s k <> k) /\
  dpend d = ds_pend s.

Lemma Inv_nil : Inv [].
Proof. intros i. unfold par. destruct i; simpl; lia. Qed.

Lemma DRel_init : DRel dempty ds_init.
Proof.
  split; [apply Inv_nil|]. split.
  - intros x. constructor. unfold par. destruct x; reflexivity.
  - split; [intros k; reflexivity|]. split; [intros i k ts H; destruct i; discriminate|].
    split; [discriminate|reflexivity].
Qed.

Lemma rep_idem d s x : DRel d s -> rep s (rep s x) = rep s x.
Proof.
  intros (_ & HU & _). apply (root_unique (uf d) (rep s x)); [apply HU|].
  eapply root_idem. apply HU.
Qed.

Lemma nth_error_snoc {A} (l : list A) x i :
  nth_error (l ++ [x]) i = if i =? length l then Some x else nth_error l i.
Proof.
  destruct (Nat.eqb_spec i (length l)) as [E|N].
  - subst. rewrite nth_error_app2 by lia. rewrite Nat.sub_diag. reflexivity.
  - destruct (Nat.lt_ge_cases i (length l)).
    + apply nth_error_app1. auto.
    + assert (H1 : nth_error (l ++ [x]) i = None) by (apply nth_error_None; rewrite app_length; simpl; lia).
      assert (H2 : nth_error l i = None) by (apply nth_error_None; lia).
      congruence.
Qed.

(** [insert_impl] against the spec *)
Lemma dinsert_ok d s w d' : DRel d s -> dinsert d w = Ok d' -> DRel d' (ds_insert s w).
Proof.
  intros HR H. pose proof (rep_idem d s) as Hidem.
  destruct HR as (HI & HU & HL & HD & HN & HP).
  destruct w as ((a, b), ts). unfold dinsert in H. unfold ds_insert.
  destruct (find_ok (uf d) a (ffuel (uf d) a) HI (Nat.le_refl _)) as (p1 & ra & Hf1 & Hra & HI1 & _ & Hr1).
  rewrite Hf1 in H. cbn [bind] in H.
  destruct (find_ok p1 b (ffuel p1 b) HI1 (Nat.le_refl _)) as (p2 & rb & Hf2 & Hrb & HI2 & _ & Hr2).
  rewrite Hf2 in H. cbn [bind] in H.
  assert (Era : ra = rep s a) by (eapply root_unique; eauto).
  assert (Erb : rb = rep s b) by (eapply root_unique; [apply Hr1; exact Hrb|auto]).
  subst ra rb.
  assert (HU2 : forall x, root_of p2 x (rep s x)) by (intros x; apply Hr2, Hr1, HU).
  destruct (Nat.eqb_spec (rep s a) (rep s b)) as [Eq|Ne].
  - inversion H; subst d'. repeat (split; auto).
  - destruct (union_ok p2 a b (ffuel p2 (Nat.max a b)) HI2 (Nat.le_refl _))
      as (p3 & ra & rb & Hra3 & Hrb3 & Hun & HI3 & _ & Hr3).
    assert (ra = rep s a) by (eapply root_unique; eauto).
    assert (rb = rep s b) by (eapply root_unique; eauto). subst ra rb.
    assert (Eqb : (rep s a =? rep s b) = false) by (apply Nat.eqb_neq; auto).
    rewrite Eqb in Hun, Hr3. simpl negb in Hr3. rewrite Hun in H. cbn [bind] in H.
    set (pa := Nat.min (rep s a) (rep s b)) in *. set (ch := Nat.max (rep s a) (rep s b)) in *.
    destruct (find_ok p3 pa (ffuel p3 pa) HI3 (Nat.le_refl _)) as (p4 & r4 & Hf4 & _ & HI4 & _ & Hr4).
    rewrite Hf4 in H. cbn [bind] in H.
    destruct (find_ok p4 ch (ffuel p4 ch) HI4 (Nat.le_refl _)) as (p5 & r5 & Hf5 & _ & HI5 & _ & Hr5).
    rewrite Hf5 in H. cbn [bind] in H.
    destruct (ts <? snd (last (disp d) (0, 0))); [discriminate|]. inversion H; subst d'. clear H. simpl.
    assert (Hch_root : rep s ch = ch).
    { unfold ch. destruct (Nat.max_spec (rep s a) (rep s b)) as [[_ E]|[_ E]]; rewrite E; apply Hidem;
        repeat (split; auto). }
    assert (Hpa_root : rep s pa = pa).
    { unfold pa. destruct (Nat.min_spec (rep s a) (rep s b)) as [[_ E]|[_ E]]; rewrite E; apply Hidem;
        repeat (split; auto). }
    assert (Hpc : pa <> ch) by (unfold pa, ch; lia).
    assert (Hch_none : drow s ch = None).
    { destruct (drow s ch) as [t0|] eqn:E; auto. exfalso. apply (HN _ _ E). auto. }
    split; [exact HI5|]. split; [|split; [|split; [|split]]].
    + intros x. apply Hr5, Hr4. specialize (Hr3 x (rep s x) (HU2 x)). simpl in Hr3. exact Hr3.
    + intros k. simpl. destruct (Nat.eqb_spec ch k) as [E|N].
      * subst k. exists ts. rewrite nth_error_snoc, !Nat.eqb_refl. auto.
      * specialize (HL k). destruct (Nat.eqb_spec k ch); [congruence|].
        destruct (assoc (lut d) k) as [i|]; auto.
        destruct HL as (t0 & Hn & Hd). exists t0. split; auto.
        rewrite nth_error_snoc. assert (i < length (disp d)) by (apply nth_error_Some; congruence).
        destruct (Nat.eqb_spec i (length (disp d))); [lia|auto].
    + intros i k t0. simpl. rewrite nth_error_snoc. destruct (Nat.eqb_spec i (length (disp d))) as [E|N].
      * intros E'. inversion E'; subst. rewrite Nat.eqb_refl. reflexivity.
      * intros Hn. pose proof (HD _ _ _ Hn) as Ha. destruct (Nat.eqb_spec ch k) as [E|]; auto.
        exfalso. subst k. specialize (HL ch). rewrite Ha in HL. destruct HL as (t1 & _ & Hd). congruence.
    + intros k t0. simpl. destruct (Nat.eqb_spec k ch) as [E|N].
      * intros _. subst k. rewrite Hch_root, Nat.eqb_refl. auto.
      * intros Hd. pose proof (HN _ _ Hd) as Hk. destruct (Nat.eqb_spec (rep s k) ch); auto.
        intros E. subst k. apply Hk. auto.
    + simpl. exact HP.
Qed.

Lemma dinsert_all_ok : forall ws d s d',
  DRel d s -> dinsert_all d ws = Ok d' -> DRel d' (fold_left ds_insert ws s).
Proof.
  induction ws as [|w tl IH]; intros d s d' HR H; simpl in *.
  - inversion H; subst. auto.
  - destruct (dinsert d w) as [d1| |] eqn:E; try discriminate. simpl in H.
    eapply IH; [|exact H]. eapply dinsert_ok; eauto.
Qed.

Lemma ds_insert_pend s w : ds_pend (ds_insert s w) = ds_pend s.
Proof.
  destruct w as ((a, b), ts). unfold ds_insert. destruct (rep s a =? rep s b); reflexivity.
Qed.

Lemma fold_ds_insert_pend ws : forall s, ds_pend (fold_left ds_insert ws s) = ds_pend s.
Proof. induction ws as [|w tl IH]; intros s; simpl; auto. rewrite IH. apply ds_insert_pend. Qed.

Lemma dstep_ok d s o d' : DRel d s -> dstep d o = Ok d' -> DRel d' (ds_step s o).
Proof.
  intros HR H. destruct o; simpl in H; try (inversion H; subst d'; exact HR).
  - inversion H; subst d'. destruct HR as (A & B & C & E & F & G).
    repeat (split; auto). simpl. congruence.
  - unfold dmerge in H.
    destruct (dinsert_all (mkD (uf d) (disp d) (lut d) [] (dchanged d)) (dpend d)) as [d1| |] eqn:E;
      try discriminate. simpl in H. inversion H; subst d'. clear H.
    assert (HR0 : DRel (mkD (uf d) (disp d) (lut d) [] (dchanged d)) (mkDS (rep s) (drow s) [])).
    { destruct HR as (A & B & C & E' & F & G). repeat (split; auto). }
    destruct HR as (_ & _ & _ & _ & _ & HP). simpl. rewrite <- HP.
    pose proof (dinsert_all_ok _ _ _ _ HR0 E) as (A & B & C & E' & F & G).
    repeat (split; auto).
  - inversion H; subst d'. destruct HR as (HI & _). unfold dclear, ds_init.
    split; [apply reset_inv|]. split; [intros x; apply reset_root; reflexivity|].
    split; [intros k; reflexivity|]. split; [intros i k ts Hn; destruct i; discriminate|].
    split; [discriminate|reflexivity].
Qed.

(** the refinement, for every op sequence (including clear) *)
Theorem drun_refines : forall ops d s d',
  DRel d s -> drun d ops = Ok d' -> DRel d' (ds_run s ops).
Proof.
  induction ops as [|o tl IH]; intros d s d' HR H; simpl in *.
  - inversion H; subst. auto.
  - destruct (dstep d o) as [d1| |] eqn:E; try discriminate. simpl in H.
    eapply IH; [|exact H]. eapply dstep_ok; eauto.
Qed.

(** reads *)
Lemma dexpand_ok d s i k ts : DRel d s -> nth_error (disp d) i = Some (k, ts) ->
  dexpand d i = Ok [k; rep s k; ts].
Proof.
  intros (HI & HU & _) Hn. unfold dexpand, idx. rewrite Hn. cbn [bind].
  destruct (find_naive_ok (uf d) k (length (uf d)) HI (Nat.le_refl _)) as (r & Hf & Hr).
  rewrite Hf. cbn [bind]. rewrite (root_unique _ _ _ _ Hr (HU k)). reflexivity.
Qed.

(** [get_row] never panics and answers as the map *)
Theorem dget_as_map d s k : DRel d s ->
  exists o, dget d k = Ok o /\ option_map snd o = ds_get s k.
Proof.
  intros HR. pose proof HR as (_ & _ & HL & _). specialize (HL k). unfold dget, ds_get.
  destruct (assoc (lut d) k) as [i|].
  - destruct HL as (ts & Hn & Hd). rewrite (dexpand_ok d s i k ts HR Hn). cbn [bind].
    eexists. split; [reflexivity|]. simpl. rewrite Hd. reflexivity.
  - rewrite HL. eexists. split; reflexivity.
Qed.

(** scans never panic, and return exactly the rows of the map, each displaced id once *)
Lemma dscan_ids_ok d s cs : DRel d s -> forall ids,
  (forall i, In i ids -> i < length (disp d)) ->
  exists l, dscan_ids d ids cs = Ok l /\
    (forall i r, In (i, r) l <->
      In i ids /\ eval_cs cs r = true /\ exists k ts, nth_error (disp d) i = Some (k, ts) /\ r = [k; rep s k; ts]) /\
    (NoDup ids -> NoDup (map fst l)).
Proof.
  intros HR. induction ids as [|i tl IH]; intros Hlt; simpl.
  - exists []. split; auto. split; [intros i r; simpl; tauto|intros; constructor].
  - destruct IH as (l & Hl & Hiff & Hnd); [intros; apply Hlt; simpl; auto|].
    assert (Hi : i < length (disp d)) by (apply Hlt; simpl; auto).
    destruct (nth_error (disp d) i) as [(k, ts)|] eqn:En; [|apply nth_error_None in En; lia].
    rewrite (dexpand_ok d s i k ts HR En). cbn [bind]. rewrite Hl. cbn [bind].
    eexists. split; [reflexivity|]. destruct (eval_cs cs [k; rep s k; ts]) eqn:Ev.
    + split.
      * intros j r. simpl. rewrite Hiff. split.
        -- intros [E|(H1 & H2 & H3)]; [inversion E; subst; split; auto; split; auto; eauto|tauto].
        -- intros ([E|H1] & H2 & (k' & ts' & H3 & H4)).
           ++ subst j. left. congruence.
           ++ right. split; auto. split; auto. eauto.
      * intros Hnd'. inversion Hnd' as [|? ? Hni Hndtl]; subst. simpl. constructor; auto.
        intros Hin. apply in_map_iff in Hin. destruct Hin as ((j, r') & E & Hin). simpl in E. subst j.
        apply Hiff in Hin. tauto.
    + split.
      * intros j r. rewrite Hiff. split.
        -- intros (H1 & H2 & H3). tauto.
        -- intros ([E|H1] & H2 & (k' & ts' & H3 & H4)).
           ++ subst j. rewrite En in H3. inversion H3; subst. congruence.
           ++ split; auto. split; auto. eauto.
      * intros Hnd'. inversion Hnd'; subst. auto.
Qed.

Lemma NoDup_map_snd_inj {A B} (g : A -> B) (l : list (nat * A)) :
  NoDup (map fst l) ->
  (forall i j r r', In (i, r) l -> In (j, r') l -> g r = g r' -> i = j) ->
  NoDup (map (fun p => g (snd p)) l).
Proof.
  induction l as [|(i, r) tl IH]; intros Hnd Hinj; simpl; [constructor|].
  simpl in Hnd. inversion Hnd as [|? ? Hni Hndtl]; subst. constructor.
  - intros Hin. apply in_map_iff in Hin. destruct Hin as ((j, r') & E & Hin). simpl in E.
    assert (i = j) by (eapply Hinj; simpl; eauto). subst j.
    apply Hni. apply in_map_iff. exists (i, r'). auto.
  - apply IH; auto. intros a b x y Ha Hb. apply Hinj; simpl; auto.
Qed.

Theorem dscan_as_map d s cs : DRel d s ->
  exists l, dscan_ids d (seq 0 (length (disp d))) cs = Ok l /\
    (forall r, In r (map snd l) <-> eval_cs cs r = true /\ exists k, ds_get s k = Some r) /\
    NoDup (map (fun p => col (snd p) 0) l).
Proof.
  intros HR. destruct (dscan_ids_ok d s cs HR (seq 0 (length (disp d)))) as (l & Hl & Hiff & Hnd).
  { intros i Hi. apply in_seq in Hi. lia. }
  exists l. split; auto. pose proof HR as (_ & _ & HL & HD & _). split.
  - intros r. rewrite in_map_iff. split.
    + intros ((i, r') & E & Hin). simpl in E. subst r'. apply Hiff in Hin.
      destruct Hin as (_ & Hev & k & ts & Hn & Er). split; auto. exists k. unfold ds_get.
      pose proof (HD _ _ _ Hn) as Ha. specialize (HL k). rewrite Ha in HL.
      destruct HL as (t1 & Hn1 & Hd). rewrite Hn in Hn1. inversion Hn1; subst. rewrite Hd. reflexivity.
    + intros (Hev & k & Hg). unfold ds_get in Hg. destruct (drow s k) as [ts|] eqn:Ed; [|discriminate].
      inversion Hg; subst r. specialize (HL k). destruct (assoc (lut d) k) as [i|]; [|congruence].
      destruct HL as (t1 & Hn & Hd). assert (t1 = ts) by congruence. subst t1.
      exists (i, [k; rep s k; ts]). split; auto. apply Hiff. split.
      * apply in_seq. assert (i < length (disp d)) by (apply nth_error_Some; congruence). lia.
      * split; auto. eauto.
  - apply (NoDup_map_snd_inj (fun r => col r 0)); [apply Hnd, seq_NoDup|].
    intros i j r r' Hi Hj Hc. apply Hiff in Hi. apply Hiff in Hj.
    destruct Hi as (_ & _ & k & ts & Hn & Er). destruct Hj as (_ & _ & k' & ts' & Hn' & Er'). subst.
    unfold col in Hc. simpl in Hc. subst k'.
    pose proof (HD _ _ _ Hn). pose proof (HD _ _ _ Hn'). congruence.
Qed.

(** over whole histories *)
Theorem displaced_answers_as_map ops d :
  drun dempty ops = Ok d ->
  let s := ds_run ds_init ops in
  (forall k, exists o, dget d k = Ok o /\ option_map snd o = ds_get s k) /\
  (forall cs, exists l, dscan_ids d (seq 0 (length (disp d))) cs = Ok l /\
     (forall r, In r (map snd l) <-> eval_cs cs r = true /\ exists k, ds_get s k = Some r) /\
     NoDup (map (fun p => col (snd p) 0) l)) /\
  dpend d = ds_pend s.
Proof.
  intros H s. pose proof (drun_refines ops dempty ds_init d DRel_init H) as HR. fold s in HR.
  split; [intros k; apply dget_as_map; auto|]. split; [intros cs; apply dscan_as_map; auto|].
  destruct HR as (_ & _ & _ & _ & _ & HP). exact HP.
Qed.
