(** Well-formedness of term-level command lists for the Egg model (executable definitions only,
    no proofs, so that harness-written case files can evaluate [cmds_okb] without depending on
    the proof files). *)
From Coq Require Import List Arith Bool PeanoNat ZArith.
Import ListNotations.
Require Import Verif.Egg.Model.

(** well-formed programs: function ids in range, unions only between constructor terms
    (eq-sort values); executable, so that the harness / examples can evaluate it *)
Fixpoint term_okb (n : nat) (t : term) : bool :=
  match t with
  | TI _ => true
  | T f l => (f <? n) && forallb (term_okb n) l
  end.

Definition is_T (t : term) : bool := match t with T _ _ => true | TI _ => false end.

Definition cmd_okb (n : nat) (c : cmd) : bool :=
  match c with
  | CAdd t => term_okb n t
  | CUnion a b => term_okb n a && term_okb n b && is_T a && is_T b
  end.

Definition cmds_okb (n : nat) (cs : list cmd) : bool := forallb (cmd_okb n) cs.

