"""C18 configuration for bin/check."""

CFG = {
    "tier_a": ["UFSeq", "MergeArms", "BridgeFns",
               "MatchesFns.new", "MatchesFns.match_size", "MatchesFns.tuple_len", "MatchesFns.get_match",
               "MatchesFns.choose", "MatchesFns.choose_all", "MatchesFns.instantiate",
               "MatchesFns.sched_step_order", "MatchesFns.sched_residual_recanon",
               "MatchesFns.sched_cache_key_fields", "MatchesFns.sched_query_iff_should_seek"],
    "model_targets": ["Sched/Scheduler.vo", "Sched/MatchesPrelude.vo"],
    "proof_targets": ["Props/C18.vo"],
    "harness": [{"bin": "h_sched2", "prefix": "cases_sched2"}],
    "trusted": [
        "model coq/Sched/Scheduler.v part A (Matches::instantiate over a list of tuples) is now tied to the code TWICE: (1) Tier A: "
        "translator/src/x_matches.rs regenerates gen/MatchesFns.v from `impl Matches` of src/scheduler.rs on every run (new, "
        "match_size, tuple_len, get_match, choose, choose_all, instantiate with its four loops; statement-by-statement, checked usize "
        "subtraction/division, panicking slices/swaps/chunks) and c18_src_instantiate_refines proves the regenerated function computes "
        "the hand model on concat of the tuples; (2) h_sched2 still compares the exact ORDER of the residual tuples the engine offers "
        "at the rule's next filter_matches call with the model (kernel-evaluated CInst cases)",
        "std operations used by the regenerated code are given meaning by the hand-written coq/Sched/MatchesPrelude.v: "
        "sort_unstable on Vec<usize> = insertion sort (on integers every sort yields THE sorted permutation), dedup = removal of "
        "consecutive repeats, chunks / swap / truncate / slicing as documented by std; `+`/`*` on usize are unbounded (all products "
        "reached are bounded by a Vec length); Value and ResolvedVar are opaque N; table_action.insert is an append to an effect log",
        "expression-level facts of step_rules_with_scheduler (phase order, residual re-canonicalised by get_canon_repr before "
        "Matches::new, side cell receives instantiate's result, cache keyed by (ruleset, rule name), query rules gated by should_seek) "
        "are recognised syntactically by x_matches.rs (fail closed) and used by c18_src_step_structure",
        "hand-written model coq/Sched/Scheduler.v part B (step_rules_with_scheduler over the shared Egg core coq/Egg/Model.v + "
        "Egg/Rules.v, itself tied to the engine by h_egg): scheduler = arbitrary state machine, residual matches = raw value tuples "
        "outside the database, one tuple per body match; tied by h_sched2: Rules.match_body on the dumped tables vs the tuples the "
        "engine offered (kernel-evaluated COff cases: offered subset of matches, not more often than they match, every match "
        "offered now or earlier modulo the union-find)",
        "modelling choice of the apply phase: a decided match whose ids are all canonical is executed as Rules.v does (witness "
        "terms); a match holding a displaced id would be executed with the raw ids (finding F7, fixed in /repo c01cd3e: the step "
        "re-canonicalises the side vector first, modelled by canon_t; the raw branch is proved unreachable from WFs states); the engine's semi-naive "
        "query (each match offered once in total) is modelled by a naive query (offered at every search) -- the link is the "
        "cumulative 'offered now or earlier' check",
        "translator /verif/translator: gen/UFSeq.v, gen/MergeArms.v, gen/BridgeFns.v are used by Egg/Model.v",
        "hook H0 (cfg egglog_verif): EGraph::verif_canon_id, read-only canonical id accessor used by the invariant twin and for "
        "comparing earlier offers modulo the union-find",
        "harness reads the head variables of a match through Match::get_value; variables renamed by core-rule canonicalisation "
        "((= v0 (F v1)) renames v0 to a generated @F<n>) are located by probing names",
    ],
    "theorem_backed": "[session 4] impl Matches (new, match_size, get_match, choose, instantiate with its four loops) and the control facts of step_rules_with_scheduler (F7 / S2 fixes, phase order) are REGENERATED (gen/MatchesFns.v); c18_src_instantiate_refines (the regenerated code refines the hand model, so c18_instantiate_* speak about today's source), c18_src_instantiate_no_panic, c18_src_new_spec, c18_src_match_size, c18_src_get_match, c18_src_step_structure; c18_src_instantiate_refines (regenerated instantiate = hand model on concat, both branches), "
                      "c18_src_instantiate_perm/_all (the hand theorems re-stated over the regenerated function), c18_src_new_spec, "
                      "c18_src_instantiate_no_panic (every vector accepted by Matches::new + every in-range choice list: Ok, and the residual "
                      "is accepted by Matches::new again), c18_src_match_size, c18_src_get_match, c18_src_choose_spec, "
                      "c18_src_step_structure (regenerated control-structure facts; the model's `offered` is their instance); "
                      "c18_instantiate_perm/_dups/_all: instantiate never panics on in-range choices, inserts exactly the chosen rows, keeps a "
                      "permutation of the unchosen ones, duplicates/order of choices irrelevant; c18_offered_all: for every scheduler, "
                      "program and state each rule's filter_matches gets residual ++ (one tuple per match of the body iff a search was "
                      "requested); c18_offered_not_subsumed: match_body is invariant under deleting all subsumed rows; c18_no_loss: "
                      "unchosen matches are kept and offered again at the next step, read through the union-find of that moment, whatever "
                      "happens to the database in between; "
                      "c18_choose_all_eq_builtin: a choose-everything scheduler step = Rules.iteration (state and error) on a canonical "
                      "database, keeps no residual; c18_canonical_after_step: every step keeps WFs/canonicity for every scheduler and any "
                      "content of the side vectors (constructor fragment); c18_offered_is_canonical: every offered tuple holds canonical "
                      "ids (all signatures); c18_f7_scenario_now_canonical (the former F7 witness, vm_compute)",
    "link_only": "on the real engine, 5 policies x generated programs x injected writes: offered-set soundness/completeness/multiplicity vs an "
                 "independent naive matcher over non-subsumed rows; no loss (held-back matches re-offered, modulo the union-find, with "
                 "canonical ids: regression predicate of the fixed F7, key F7-scheduler-stale-ids; corpus/C18/f7_stale_ids.json must pass); heads "
                 "of chosen matches hold after the step modulo the equalities that hold then; nothing chosen => dump unchanged; choose-all "
                 "== step_rules on a clone in lockstep; Dump::invariant (H0) after every step incl. failed ones; unknown ruleset / "
                 "panicking action / failing primitive mid-step leave rulesets and schedulers usable. 'any fair scheduler reaches the "
                 "same saturated database on confluent programs' is not checked (no theorem, no predicate).",
    "assumptions": [
        "c18_canonical_after_step is proved for heads made of expressions and unions over constructor tables with all-UnionId "
        "signatures (the fragment c04_inv_reachable / exec_spec covers); for sets / subsume / delete heads canonicity after the step is "
        "checked on the implementation only (c18_offered_is_canonical still shows every applied match is canonical)",
        "the engine may offer fewer tuples than body matches when variables not read by the head are projected away by the planner "
        "(observed for variable-free heads): the model offers one per body match; set-level agreement is what is checked",
        "can_stop / RunReport flags and container-sorted variables are not modelled",
    ],
}
