(** C01 / C04 (invariant part): the main theorems over the Egg model.

    For EVERY command list run from the empty database over constructor tables (completeness
    additionally needs the list to be well formed: function ids in range, unions between
    constructor terms):
    - the run returns [Ok] (the stated rebuild fuel suffices)                 [c01_run_ok]
    - two terms evaluate to the same value only if they are in the congruence
      closure of the unions performed                                          [c01_sound]
    - two terms in that congruence closure that both evaluate, evaluate to
      the same value                                                           [c01_complete]
    - the state is canonical and functional                                    [c04_inv_reachable] *)
From Coq Require Import List Arith Lia PeanoNat Bool ZArith.
Import ListNotations.
Require Import Verif.Base.Res Verif.gen.UFSeq Verif.gen.MergeArms Verif.UF.Seq
  Verif.Egg.Model Verif.Egg.CmdOk Verif.Egg.RepFacts Verif.Egg.CCDefs Verif.Egg.Rebuild.

Definition all_unionid (sg : list mergefn) : Prop := Forall (fun m => m = MUnionId) sg.

Lemma WFs_mono n U U' s : incl U U' -> WFs n U s -> WFs n U' s.
Proof.
  intros Hi [H1 H2 H3 H4]. constructor; auto. eapply WFmid_mono; eauto.
Qed.

(* ------------------------------------------------------------------ *)
(** * one union followed by the rebuild loop *)

Lemma R_same_tabs p p' ts t v : coarse p p' -> R p ts t v -> R p' ts t (canon p' v).
Proof.
  intros Hco. apply R_transfer; [exact Hco|]. intros f r Hin. exists r. auto.
Qed.

Lemma union_step sg n U U' s a b : all_unionid sg -> incl U U' -> WFs n U s ->
  a < length (uf s) -> b < length (uf s) ->
  CC U' (nth a (wit s) (TI 0)) (nth b (wit s) (TI 0)) ->
  exists p' s' e, uf_union (uf s) a b = Ok p' /\
    rebuild (rebuild_fuel (mkSt p' (tabs s) (wit s))) sg (mkSt p' (tabs s) (wit s)) = Ok (s', e) /\
    WFs n U' s' /\
    rep (uf s') a = rep (uf s') b /\
    (forall t v, R (uf s) (tabs s) t v -> R (uf s') (tabs s') t (canon (uf s') v)).
Proof.
  intros Hsg Hinc HW Ha Hb Hab.
  pose proof (wf_mid _ _ _ HW) as HM. pose proof (wm_inv _ _ HM) as HI.
  destruct (uf_union_spec (uf s) a b HI Ha Hb) as (p' & Hu & HI' & Hl' & Hg).
  set (s3 := mkSt p' (tabs s) (wit s)).
  assert (Hco : coarse (uf s) p') by (eapply glue_coarse; eauto).
  assert (HM' : WFmid U' s) by (eapply WFmid_mono; eauto).
  assert (HM3 : WFmid U' s3).
  { constructor; cbn [uf tabs wit s3].
    - exact HI'.
    - rewrite Hl'. apply (wm_wit _ _ HM).
    - intros f r Hin. rewrite Hl'. apply (wm_lt _ _ HM f r Hin).
    - apply (wm_rsound _ _ HM').
    - intros i Hi. rewrite Hl' in Hi. revert i Hi.
      apply (glue_sound (fun x y => CC U' (nth x (wit s) (TI 0)) (nth y (wit s) (TI 0))) (uf s) p' a b); auto.
      + intros x y. apply cc_sym.
      + intros x y z. apply cc_trans.
      + apply (wm_usound _ _ HM'). }
  destruct (rebuild_spec sg U' n Hsg (rebuild_fuel s3) s3 HM3)
    as (s4 & e & Hr & HM4 & Hlen4 & Hco4 & Hcan4 & Hnd4 & HR4).
  { apply (wf_ntabs _ _ _ HW). }
  { unfold rebuild_fuel. pose proof (nroots_le_len (uf s3)). lia. }
  cbn [uf tabs s3] in Hco4, HR4.
  exists p', s4, e. split; [exact Hu|]. split; [exact Hr|].
  split; [constructor; auto|]. split.
  - apply (coarse_eq p' (uf s4)); [exact Hco4|]. rewrite !Hg. apply glue_merges.
  - intros t v H. apply (R_same_tabs (uf s) p' (tabs s) t v Hco) in H. apply HR4 in H.
    rewrite canon_coarse in H; auto.
Qed.

(* ------------------------------------------------------------------ *)
(** * commands and runs *)

Definition cmd_unions (c : cmd) : list (term * term) :=
  match c with CUnion a b => [(a, b)] | CAdd _ => [] end.

Lemma unions_of_cons c cs : unions_of (c :: cs) = cmd_unions c ++ unions_of cs.
Proof. destruct c; reflexivity. Qed.

Lemma is_id_inv v : is_id v -> exists i, v = VId i.
Proof. destruct v as [i|z]; cbn [is_id]; [eauto|intros []]. Qed.

(** every command, well formed or not, returns [Ok] and keeps the structural invariant; a well
    formed one also keeps the certificate *)
Lemma exec_spec sg n U s c : all_unionid sg -> WFs n U s ->
  exists s', exec sg s c = Ok s' /\ WFs n (U ++ cmd_unions c) s' /\
    (cmd_okb n c = true -> cert U s -> cert (U ++ cmd_unions c) s').
Proof.
  intros Hsg HW. destruct c as [t|t1 t2]; cbn [exec cmd_unions cmd_okb].
  - rewrite app_nil_r. destruct (add_term_struct n U t s HW) as (HW1 & He1 & _).
    eexists. split; [reflexivity|]. split; [exact HW1|].
    intros _ Hc. eapply cert_ext; eauto.
  - set (U' := U ++ [(t1, t2)]).
    assert (Hinc : incl U U') by (apply incl_appl, incl_refl).
    destruct (add_term_struct n U t1 s HW) as (HW1 & He1 & Hv1 & Hc1 & Hev1 & Hid1).
    destruct (add_term s t1) as [s1 v1]. cbn [fst snd] in *.
    destruct (add_term_struct n U t2 s1 HW1) as (HW2 & He2 & Hv2 & Hc2 & Hev2 & Hid2).
    destruct (add_term s1 t2) as [s2 v2]. cbn [fst snd] in *.
    assert (Hnoid : exists s', Ok s2 = Ok s' /\ WFs n U' s' /\
              ((is_id v1 /\ is_id v2 -> False) ->
               term_okb n t1 && term_okb n t2 && is_T t1 && is_T t2 = true -> cert U s -> cert U' s')).
    { exists s2. split; [reflexivity|]. split; [eapply WFs_mono; eauto|].
      intros Hno Hok _. exfalso. apply Hno.
      apply andb_true_iff in Hok. destruct Hok as [Hok HT2].
      apply andb_true_iff in Hok. destruct Hok as [Hok HT1]. auto. }
    destruct v1 as [a|z1].
    2:{ destruct Hnoid as (s' & E & HW' & Hc'). exists s'. split; [exact E|]. split; [exact HW'|].
        apply Hc'. intros [[] _]. }
    destruct v2 as [b|z2].
    2:{ destruct Hnoid as (s' & E & HW' & Hc'). exists s'. split; [exact E|]. split; [exact HW'|].
        apply Hc'. intros [_ []]. }
    clear Hnoid.
    assert (Hw1 : witv (wit s2) (VId a) = witv (wit s1) (VId a))
      by (apply (ext_wit _ _ He2); apply Hv1).
    rewrite <- Hw1 in Hc1.
    apply (ext_ok _ _ He2) in Hv1. destruct Hv1 as [Ha _]. destruct Hv2 as [Hb _]. cbn [vlt] in Ha, Hb.
    assert (Hab : CC U' (nth a (wit s2) (TI 0)) (nth b (wit s2) (TI 0))).
    { cbn [witv] in Hc1, Hc2.
      eapply cc_trans; [apply cc_sym; eapply CC_mono; [exact Hinc|exact Hc1]|].
      eapply cc_trans; [|eapply CC_mono; [exact Hinc|exact Hc2]].
      apply cc_ax. apply in_or_app. right. left. reflexivity. }
    destruct (union_step sg n U U' s2 a b Hsg Hinc HW2 Ha Hb Hab)
      as (p' & s' & e & Hu & Hr & HW' & Hm & HR).
    rewrite Hu. cbn [bind]. rewrite Hr. cbn [bind]. exists s'. split; [reflexivity|].
    split; [exact HW'|].
    intros Hok Hc.
    apply andb_true_iff in Hok. destruct Hok as [Hok HT2].
    apply andb_true_iff in Hok. destruct Hok as [Hok HT1].
    apply andb_true_iff in Hok. destruct Hok as [Hok1 Hok2].
    assert (Hc2' : cert U s2) by (eapply cert_ext; [exact He2|]; eapply cert_ext; eauto).
    assert (Hback : forall t v, eval s2 t = Some v -> eval s' t = Some (canon (uf s') v)).
    { intros t v Hev. apply R_eval.
      - apply (wm_inv _ _ (wf_mid _ _ _ HW')).
      - apply (wf_canon _ _ _ HW').
      - apply (wf_func _ _ _ HW').
      - apply HR. eapply eval_R; eauto. }
    intros x y Hin. apply in_app_or in Hin. destruct Hin as [Hin|[E|[]]].
    + destruct (Hc2' x y Hin) as (v & Hx & Hy). exists (canon (uf s') v). split; apply Hback; assumption.
    + injection E as <- <-. exists (canon (uf s') (VId a)). split.
      * apply Hback. apply (ext_eval _ _ He2). apply Hev1. exact Hok1.
      * replace (canon (uf s') (VId a)) with (canon (uf s') (VId b)) by (cbn [canon]; congruence).
        apply Hback. apply Hev2. exact Hok2.
Qed.

Lemma run_spec sg n : all_unionid sg -> forall cs U s, WFs n U s ->
  exists s', run sg s cs = Ok s' /\ WFs n (U ++ unions_of cs) s' /\
    (cmds_okb n cs = true -> cert U s -> cert (U ++ unions_of cs) s').
Proof.
  intros Hsg. induction cs as [|c cs IH]; intros U s HW.
  - exists s. cbn [run unions_of flat_map]. rewrite app_nil_r. auto.
  - destruct (exec_spec sg n U s c Hsg HW) as (s1 & He & HW1 & Hc1).
    destruct (IH _ s1 HW1) as (s' & Hr & HW' & Hc').
    exists s'. cbn [run]. rewrite He. cbn [bind]. split; [exact Hr|].
    rewrite unions_of_cons, app_assoc. split; [exact HW'|].
    unfold cmds_okb. cbn [forallb]. intros Hok Hc. apply andb_true_iff in Hok.
    destruct Hok as [Hokc Hokcs]. apply Hc'; [exact Hokcs|]. apply Hc1; assumption.
Qed.

Lemma run_app_egg sg : forall cs1 s cs2,
  run sg s (cs1 ++ cs2) = bind (run sg s cs1) (fun s1 => run sg s1 cs2).
Proof.
  induction cs1 as [|c cs1 IH]; intros s cs2; cbn [run app bind]; [reflexivity|].
  destruct (exec sg s c) as [s1| |]; cbn [bind]; auto.
Qed.

Lemma run_init_WFs sg n cs s : all_unionid sg ->
  run sg (init n) cs = Ok s -> WFs n (unions_of cs) s.
Proof.
  intros Hsg Hrun.
  destruct (run_spec sg n Hsg cs [] (init n) (WFs_init n)) as (s' & Hr & HW & _).
  rewrite Hrun in Hr. injection Hr as <-. exact HW.
Qed.

Lemma run_init_cert sg n cs s : all_unionid sg -> cmds_okb n cs = true ->
  run sg (init n) cs = Ok s -> cert (unions_of cs) s.
Proof.
  intros Hsg Hok Hrun.
  destruct (run_spec sg n Hsg cs [] (init n) (WFs_init n)) as (s' & Hr & _ & Hc).
  rewrite Hrun in Hr. injection Hr as <-. apply Hc; [exact Hok|]. intros a b [].
Qed.

(* ------------------------------------------------------------------ *)
(** * C01 *)

(** no command list whatsoever makes the run panic or exhaust the stated fuel: in particular
    the rebuild loop terminates within [rebuild_fuel] passes *)
Theorem c01_run_ok : forall n sg cs, all_unionid sg ->
  exists s, run sg (init n) cs = Ok s.
Proof.
  intros n sg cs Hsg.
  destruct (run_spec sg n Hsg cs [] (init n) (WFs_init n)) as (s' & Hr & _). eauto.
Qed.

(** no equality is invented (for EVERY command list, well formed or not) *)
Theorem c01_sound : forall n sg cs s t1 t2 v, all_unionid sg ->
  run sg (init n) cs = Ok s ->
  eval s t1 = Some v -> eval s t2 = Some v -> CC (unions_of cs) t1 t2.
Proof.
  intros n sg cs s t1 t2 v Hsg Hrun H1 H2.
  eapply sound_of_WFmid; [|exact H1|exact H2].
  apply (wf_mid n). eapply run_init_WFs; eauto.
Qed.

(** none that follows is missed once the command has returned *)
Theorem c01_complete : forall n sg cs s t1 t2 v1 v2, all_unionid sg -> cmds_okb n cs = true ->
  run sg (init n) cs = Ok s ->
  CC (unions_of cs) t1 t2 -> eval s t1 = Some v1 -> eval s t2 = Some v2 -> v1 = v2.
Proof.
  intros n sg cs s t1 t2 v1 v2 Hsg Hok Hrun Hcc H1 H2.
  eapply complete_of_cert; [|exact Hcc|exact H1|exact H2].
  eapply run_init_cert; eauto.
Qed.

(** reported equal iff the equality follows: for represented terms, same value <-> congruent *)
Theorem c01_iff : forall n sg cs s t1 t2 v1 v2, all_unionid sg -> cmds_okb n cs = true ->
  run sg (init n) cs = Ok s -> eval s t1 = Some v1 -> eval s t2 = Some v2 ->
  (v1 = v2 <-> CC (unions_of cs) t1 t2).
Proof.
  intros n sg cs s t1 t2 v1 v2 Hsg Hok Hrun H1 H2. split.
  - intros <-. eapply c01_sound; eauto.
  - intros Hcc. eapply c01_complete; eauto.
Qed.

(** the junk-element form: congruent terms have the same evaluation, defined or not *)
Theorem c01_complete_opt : forall n sg cs s t1 t2, all_unionid sg -> cmds_okb n cs = true ->
  run sg (init n) cs = Ok s ->
  CC (unions_of cs) t1 t2 -> eval s t1 = eval s t2.
Proof.
  intros n sg cs s t1 t2 Hsg Hok Hrun Hcc.
  eapply eval_respects_CC; [|exact Hcc]. intros a b Hab.
  destruct (run_init_cert sg n cs s Hsg Hok Hrun a b Hab) as (v & Ha & Hb). congruence.
Qed.

(** every asserted pair is represented and evaluates to one class *)
Theorem c01_unions_visible : forall n sg cs s a b, all_unionid sg -> cmds_okb n cs = true ->
  run sg (init n) cs = Ok s -> In (a, b) (unions_of cs) ->
  exists v, eval s a = Some v /\ eval s b = Some v.
Proof.
  intros n sg cs s a b Hsg Hok Hrun Hab.
  apply (run_init_cert sg n cs s Hsg Hok Hrun a b Hab).
Qed.

(** the value kept by MergeFn::UnionId is the representative chosen by the union-find *)
Theorem c01_unionid_agrees :
  (forall a b, merge_unionid a b = Nat.min a b) /\
  (forall p a b fuel, Inv p -> Nat.max (length p) (S (Nat.max a b)) <= fuel ->
     par p a = a -> par p b = b -> a <> b ->
     exists p', union fuel p a b = Ok (p', (merge_unionid a b, Nat.max a b)) /\
       root_of p' a (merge_unionid a b) /\ root_of p' b (merge_unionid a b)).
Proof.
  split; [exact merge_unionid_min|].
  intros p a b fuel HI Hf Ha Hb N.
  destruct (union_ok p a b fuel HI Hf) as (p' & ra & rb & Hra & Hrb & Hu & HI' & Hl & Hmap).
  apply (root_of_root p a Ha) in Hra. apply (root_of_root p b Hb) in Hrb. subst ra rb.
  exists p'. rewrite merge_unionid_min.
  destruct (Nat.eqb_spec a b) as [|_]; [contradiction|]. cbn [negb andb] in Hmap.
  split; [exact Hu|]. split.
  - pose proof (Hmap a a (root_here p a Ha)) as H.
    destruct (Nat.eqb_spec a (Nat.max a b)); [exact H|].
    replace (Nat.min a b) with a by lia. exact H.
  - pose proof (Hmap b b (root_here p b Hb)) as H.
    destruct (Nat.eqb_spec b (Nat.max a b)); [exact H|].
    replace (Nat.min a b) with b by lia. exact H.
Qed.

(* ------------------------------------------------------------------ *)
(** * C04, invariant part *)

Definition id_in_row (i : nat) (r : row) : Prop := In (VId i) (rargs r) \/ rret r = VId i.

Lemma vlt_vroot_in n p vs i : Forall (vlt n) vs -> Forall (vroot p) vs -> In (VId i) vs ->
  i < n /\ par p i = i.
Proof.
  intros H1 H2 Hin. rewrite Forall_forall in H1, H2. split; [apply (H1 _ Hin)|apply (H2 _ Hin)].
Qed.

Theorem c04_inv_reachable : forall n sg cs s, all_unionid sg ->
  run sg (init n) cs = Ok s ->
  Inv (uf s) /\ length (wit s) = length (uf s) /\ length (tabs s) = n /\
  (* every stored e-class id is in range and is the canonical representative of its class *)
  (forall f r i, In r (get_tab (tabs s) f) -> id_in_row i r ->
     i < length (uf s) /\ par (uf s) i = i /\ rep (uf s) i = i) /\
  (* every output column of a constructor table holds an e-class id *)
  (forall f r, In r (get_tab (tabs s) f) -> exists i, rret r = VId i) /\
  (* at most one row per key *)
  (forall f, NoDup (map rargs (get_tab (tabs s) f))) /\
  (* congruent rows have been merged *)
  (forall f r1 r2, In r1 (get_tab (tabs s) f) -> In r2 (get_tab (tabs s) f) ->
     map (canon (uf s)) (rargs r1) = map (canon (uf s)) (rargs r2) -> r1 = r2).
Proof.
  intros n sg cs s Hsg Hrun.
  pose proof (run_init_WFs sg n cs s Hsg Hrun) as HW.
  pose proof (wf_mid _ _ _ HW) as HM. pose proof (wm_inv _ _ HM) as HI.
  split; [exact HI|]. split; [apply (wm_wit _ _ HM)|]. split; [apply (wf_ntabs _ _ _ HW)|].
  split; [|split; [|split; [apply (wf_func _ _ _ HW)|]]].
  - intros f r i Hin Hi. destruct (wm_lt _ _ HM f r Hin) as (Hal & Hrl & _).
    destruct (wf_canon _ _ _ HW f r Hin) as (Hac & Hrc).
    assert (H : i < length (uf s) /\ par (uf s) i = i).
    { destruct Hi as [Hi|Hi].
      - eapply vlt_vroot_in; eauto.
      - rewrite Hi in Hrl, Hrc. cbn [vlt vroot] in Hrl, Hrc. auto. }
    destruct H as [H1 H2]. split; [exact H1|]. split; [exact H2|]. apply rep_fix; auto.
  - intros f r Hin. apply is_id_inv. apply (wm_lt _ _ HM f r Hin).
  - intros f r1 r2 H1 H2 E.
    destruct (wf_canon _ _ _ HW f r1 H1) as (Hc1 & _).
    destruct (wf_canon _ _ _ HW f r2 H2) as (Hc2 & _).
    rewrite !map_canon_vroot in E by auto.
    eapply keys_functional; eauto. apply (wf_func _ _ _ HW).
Qed.

(** Everything recorded as equal is visible to the very next query: on a reachable state the
    compositional [eval] (plain lookups, no union-find consulted) agrees with evaluation modulo
    the union-find. *)
Theorem c04_eval_is_eval_modulo_uf : forall n sg cs s t v, all_unionid sg ->
  run sg (init n) cs = Ok s ->
  (eval s t = Some v <-> R (uf s) (tabs s) t v).
Proof.
  intros n sg cs s t v Hsg Hrun.
  pose proof (run_init_WFs sg n cs s Hsg Hrun) as HW. split.
  - apply (eval_R n _ s HW).
  - apply R_eval; [apply (wm_inv _ _ (wf_mid _ _ _ HW))|apply (wf_canon _ _ _ HW)|apply (wf_func _ _ _ HW)].
Qed.

(* ------------------------------------------------------------------ *)
(** * non-vacuity and necessity of the well-formedness hypotheses *)

Module Ex.
Definition a := T 0 [].
Definition b := T 1 [].
Definition c := T 3 [].
Definition f x := T 2 [x].
Definition sg := repeat MUnionId 4.

(** a congruence chain of length 3: needs three rebuild passes after the union *)
Definition cs1 := [CAdd (f (f (f a))); CAdd (f (f (f b))); CAdd c; CUnion a b].

Definition evals_after (cs : list cmd) (ts : list term) : Res (list (option val)) :=
  bind (run sg (init 4) cs) (fun s => Ok (map (eval s) ts)).
End Ex.

Example ex_ok : cmds_okb 4 Ex.cs1 = true.
Proof. vm_compute. reflexivity. Qed.

Example ex_chain :
  Ex.evals_after Ex.cs1 [Ex.f (Ex.f (Ex.f Ex.a)); Ex.f (Ex.f (Ex.f Ex.b)); Ex.a; Ex.b; Ex.c; Ex.f Ex.c]
  = Ok [Some (VId 3); Some (VId 3); Some (VId 0); Some (VId 0); Some (VId 8); None].
Proof. vm_compute. reflexivity. Qed.

(** before the union the two chains are distinct *)
Example ex_chain_before :
  Ex.evals_after (firstn 3 Ex.cs1) [Ex.f (Ex.f (Ex.f Ex.a)); Ex.f (Ex.f (Ex.f Ex.b))]
  = Ok [Some (VId 3); Some (VId 7)].
Proof. vm_compute. reflexivity. Qed.

(** the "chain of k congruences needs k passes" worry, concretely: after [union a b] the loop
    needs 4 passes on this input (3 merging passes + the pass that finds nothing to do); 3 are
    not enough, [rebuild_fuel] (= 11 here) is *)
Example ex_passes :
  bind (run Ex.sg (init 4) (firstn 3 Ex.cs1)) (fun s =>
  bind (uf_union (uf s) 0 4) (fun p' =>
  let s3 := mkSt p' (tabs s) (wit s) in
  Ok (match rebuild 3 Ex.sg s3 with OutOfFuel => true | _ => false end,
      match rebuild 4 Ex.sg s3 with Ok _ => true | _ => false end,
      rebuild_fuel s3)))
  = Ok (true, true, 11).
Proof. vm_compute. reflexivity. Qed.

(** [cmds_okb] cannot be dropped from completeness: a union mentioning a function id outside
    the signature is recorded in [unions_of] but has no table to live in *)
Example c01_fn_bound_needed :
  let cs := [CUnion (T 5 []) (T 0 []); CUnion (T 5 []) (T 1 [])] in
  exists s, run (repeat MUnionId 2) (init 2) cs = Ok s /\
    CC (unions_of cs) (T 0 []) (T 1 []) /\
    eval s (T 0 []) = Some (VId 0) /\ eval s (T 1 []) = Some (VId 2).
Proof.
  eexists. split; [vm_compute; reflexivity|]. split; [|split; reflexivity].
  eapply cc_trans; [apply cc_sym|]; apply cc_ax; cbn; auto.
Qed.

(** ... nor can the restriction of unions to constructor terms (an ill-sorted union of two
    integer literals is ignored by [exec] but recorded by [unions_of]) *)
Example c01_eqsort_needed :
  let cs := [CUnion (TI 1) (TI 2)] in
  exists s, run [] (init 0) cs = Ok s /\
    CC (unions_of cs) (TI 1) (TI 2) /\ eval s (TI 1) = Some (VInt 1) /\ eval s (TI 2) = Some (VInt 2).
Proof.
  eexists. split; [vm_compute; reflexivity|]. split; [|split; reflexivity].
  apply cc_ax; cbn; auto.
Qed.
