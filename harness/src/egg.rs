//! Shared "Egg" session layer: a small egglog program AST that prints both as egglog text (for the
//! real engine) and as Gallina terms (for `coq/Egg/Rules.v`), a command-by-command runner on
//! `egglog::EGraph` with raw table dumps through the public read API, renaming-invariant
//! observations (class vector of probe terms, table sizes, subsumed counts, int-valued probes)
//! and the C04 invariant twin (functional tables, canonical ids).
use crate::util::*;
use egglog::{EGraph, Value};
use egglog_numeric_id::NumericId;
use std::collections::HashMap;

#[derive(Clone, Debug, PartialEq)]
pub enum Sort {
    S,
    I,
}

#[derive(Clone, Debug, PartialEq)]
pub enum Merge {
    Min,
    Max,
    Or,
    And,
    NoMerge,
}

#[derive(Clone, Debug, PartialEq)]
pub enum Kind {
    Ctor,
    Rel,
    Func(Merge),
}

#[derive(Clone, Debug)]
pub struct Decl {
    pub name: String,
    pub kind: Kind,
    pub args: Vec<Sort>,
}

#[derive(Clone, Debug, PartialEq, Eq, Hash)]
pub enum Pat {
    Var(usize),
    App(usize, Vec<Pat>),
    Int(i64),
    Add(Box<Pat>, Box<Pat>),
}

#[derive(Clone, Debug)]
pub enum Fact {
    Eq(usize, Pat),
    Pat(Pat),
    Lt(Pat, Pat),
    Neq(Pat, Pat),
}

#[derive(Clone, Debug)]
pub enum Action {
    Expr(Pat),
    Union(Pat, Pat),
    Set(usize, Vec<Pat>, Pat),
    Subsume(usize, Vec<Pat>),
    Delete(usize, Vec<Pat>),
    Panic,
}

#[derive(Clone, Debug)]
pub struct Rule {
    pub body: Vec<Fact>,
    pub head: Vec<Action>,
}

#[derive(Clone, Debug)]
pub enum Cmd {
    Act(Action),
    Rule(Rule),
    Run(usize),
    /// raw egglog text with no model counterpart (fault injection etc.); ends model comparison
    Raw(String),
}

#[derive(Clone, Debug)]
pub struct Program {
    pub decls: Vec<Decl>,
    pub cmds: Vec<Cmd>,
    /// known answers: after command `.0` (index into `cmds`) the fact `.1` must hold (`(check ..)`)
    pub expect: Vec<(usize, String)>,
}

// ------------------------------------------------------------------------------------------
// printing: egglog text

impl Program {
    pub fn sort_name() -> &'static str {
        "S"
    }
    pub fn header(&self) -> String {
        let mut s = String::new();
        s.push_str("(datatype S");
        for d in &self.decls {
            if d.kind == Kind::Ctor {
                s.push_str(&format!(" ({}", d.name));
                for a in &d.args {
                    s.push_str(if *a == Sort::S { " S" } else { " i64" });
                }
                s.push(')');
            }
        }
        s.push_str(")\n");
        for d in &self.decls {
            let args: Vec<&str> = d.args.iter().map(|a| if *a == Sort::S { "S" } else { "i64" }).collect();
            match &d.kind {
                Kind::Ctor => {}
                Kind::Rel => s.push_str(&format!("(relation {} ({}))\n", d.name, args.join(" "))),
                Kind::Func(m) => {
                    let mm = match m {
                        Merge::Min => ":merge (min old new)",
                        Merge::Max => ":merge (max old new)",
                        Merge::Or => ":merge (| old new)",
                        Merge::And => ":merge (& old new)",
                        Merge::NoMerge => ":no-merge",
                    };
                    s.push_str(&format!("(function {} ({}) i64 {})\n", d.name, args.join(" "), mm));
                }
            }
        }
        s
    }
    pub fn pat_text(&self, p: &Pat) -> String {
        match p {
            Pat::Var(x) => format!("v{x}"),
            Pat::Int(z) => format!("{z}"),
            Pat::Add(a, b) => format!("(+ {} {})", self.pat_text(a), self.pat_text(b)),
            Pat::App(f, args) => {
                let mut s = format!("({}", self.decls[*f].name);
                for a in args {
                    s.push(' ');
                    s.push_str(&self.pat_text(a));
                }
                s.push(')');
                s
            }
        }
    }
    fn app_text(&self, f: usize, args: &[Pat]) -> String {
        self.pat_text(&Pat::App(f, args.to_vec()))
    }
    pub fn action_text(&self, a: &Action) -> String {
        match a {
            Action::Expr(p) => self.pat_text(p),
            Action::Union(p, q) => format!("(union {} {})", self.pat_text(p), self.pat_text(q)),
            Action::Set(f, args, v) => {
                if self.decls[*f].kind == Kind::Rel {
                    self.app_text(*f, args)
                } else {
                    format!("(set {} {})", self.app_text(*f, args), self.pat_text(v))
                }
            }
            Action::Subsume(f, args) => format!("(subsume {})", self.app_text(*f, args)),
            Action::Delete(f, args) => format!("(delete {})", self.app_text(*f, args)),
            Action::Panic => "(panic \"boom\")".to_string(),
        }
    }
    pub fn fact_text(&self, f: &Fact) -> String {
        match f {
            Fact::Eq(x, p) => format!("(= v{x} {})", self.pat_text(p)),
            Fact::Pat(p) => self.pat_text(p),
            Fact::Lt(a, b) => format!("(< {} {})", self.pat_text(a), self.pat_text(b)),
            Fact::Neq(a, b) => format!("(!= {} {})", self.pat_text(a), self.pat_text(b)),
        }
    }
    pub fn cmd_text(&self, c: &Cmd) -> String {
        match c {
            Cmd::Act(a) => self.action_text(a),
            Cmd::Rule(r) => format!(
                "(rule ({}) ({}))",
                r.body.iter().map(|f| self.fact_text(f)).collect::<Vec<_>>().join(" "),
                r.head.iter().map(|a| self.action_text(a)).collect::<Vec<_>>().join(" ")
            ),
            Cmd::Run(n) => format!("(run {n})"),
            Cmd::Raw(t) => t.clone(),
        }
    }
    pub fn text(&self) -> String {
        let mut s = self.header();
        for c in &self.cmds {
            s.push_str(&self.cmd_text(c));
            s.push('\n');
        }
        s
    }

    // --------------------------------------------------------------------------------------
    // printing: Gallina (coq/Egg/Rules.v)

    pub fn sg_coq(&self) -> String {
        coq_list(&self.decls, |d| {
            match &d.kind {
                Kind::Ctor => "MUnionId",
                Kind::Rel => "MOld",
                Kind::Func(Merge::Min) => "MMin",
                Kind::Func(Merge::Max) => "MMax",
                Kind::Func(Merge::Or) => "MOr",
                Kind::Func(Merge::And) => "MAnd",
                Kind::Func(Merge::NoMerge) => "MAssertEq",
            }
            .to_string()
        })
    }
    pub fn pat_coq(p: &Pat) -> String {
        match p {
            Pat::Var(x) => format!("PVar {x}"),
            Pat::Int(z) => format!("PInt {}", coq_z(*z)),
            Pat::Add(a, b) => format!("PAdd ({}) ({})", Self::pat_coq(a), Self::pat_coq(b)),
            Pat::App(f, args) => format!("PApp {f} {}", coq_list(args, Self::pat_coq)),
        }
    }
    pub fn action_coq(a: &Action) -> String {
        match a {
            Action::Expr(p) => format!("AExpr ({})", Self::pat_coq(p)),
            Action::Union(p, q) => format!("AUnion ({}) ({})", Self::pat_coq(p), Self::pat_coq(q)),
            Action::Set(f, args, v) => format!("ASet {f} {} ({})", coq_list(args, Self::pat_coq), Self::pat_coq(v)),
            Action::Subsume(f, args) => format!("ASubsume {f} {}", coq_list(args, Self::pat_coq)),
            Action::Delete(f, args) => format!("ADelete {f} {}", coq_list(args, Self::pat_coq)),
            Action::Panic => "APanic".into(),
        }
    }
    pub fn fact_coq(f: &Fact) -> String {
        match f {
            Fact::Eq(x, p) => format!("FEq {x} ({})", Self::pat_coq(p)),
            Fact::Pat(p) => format!("FPat ({})", Self::pat_coq(p)),
            Fact::Lt(a, b) => format!("FLt ({}) ({})", Self::pat_coq(a), Self::pat_coq(b)),
            Fact::Neq(a, b) => format!("FNeq ({}) ({})", Self::pat_coq(a), Self::pat_coq(b)),
        }
    }
    pub fn cmd_coq(c: &Cmd) -> Option<String> {
        Some(match c {
            Cmd::Act(a) => format!("KAct ({})", Self::action_coq(a)),
            Cmd::Rule(r) => format!(
                "KRule (mkRule {} {})",
                coq_list(&r.body, Self::fact_coq),
                coq_list(&r.head, Self::action_coq)
            ),
            Cmd::Run(n) => format!("KRun {n}"),
            Cmd::Raw(_) => return None,
        })
    }
    /// ground pattern -> Gallina `term`
    pub fn term_coq(p: &Pat) -> String {
        match p {
            Pat::Int(z) => format!("TI {}", coq_z(*z)),
            Pat::App(f, args) => format!("T {f} {}", coq_list(args, Self::term_coq)),
            _ => panic!("not ground"),
        }
    }
}

// ------------------------------------------------------------------------------------------
// running on the real engine

#[derive(Clone, Debug, PartialEq, Eq, Hash, PartialOrd, Ord)]
pub enum V {
    Id(u32),
    Int(i64),
}

#[derive(Clone, Debug)]
pub struct DumpRow {
    pub args: Vec<V>,
    pub ret: V,
    pub sub: bool,
}

#[derive(Clone, Debug, Default)]
pub struct Dump {
    pub tables: Vec<Vec<DumpRow>>,
}

#[derive(Clone, Debug, PartialEq)]
pub struct Obs {
    pub classes: Vec<i64>,
    pub sizes: Vec<usize>,
    pub subs: Vec<usize>,
    pub ints: Vec<Option<i64>>,
}

impl Obs {
    pub fn coq(&self) -> String {
        format!(
            "mkObs {} {} {} {}",
            coq_list(&self.classes, |z| coq_z(*z)),
            coq_nat_list(&self.sizes),
            coq_nat_list(&self.subs),
            coq_list(&self.ints, |o| match o {
                Some(z) => format!("Some {}", coq_z(*z)),
                None => "None".into(),
            })
        )
    }
}

pub fn conv(eg: &EGraph, v: Value, s: &Sort) -> V {
    match s {
        Sort::S => V::Id(v.rep()),
        Sort::I => V::Int(eg.value_to_base::<i64>(v)),
    }
}

pub fn dump(eg: &EGraph, p: &Program) -> Result<Dump, String> {
    let mut d = Dump::default();
    for decl in &p.decls {
        let mut rows = Vec::new();
        match decl.kind {
            Kind::Ctor | Kind::Rel => {
                let is_ctor = decl.kind == Kind::Ctor;
                eg.constructor_enodes(&decl.name, |e| {
                    let args = e.children.iter().zip(decl.args.iter()).map(|(v, s)| conv(eg, *v, s)).collect();
                    let ret = if is_ctor { V::Id(e.eclass.rep()) } else { V::Int(0) };
                    rows.push(DumpRow { args, ret, sub: e.subsumed });
                })
                .map_err(|e| format!("{e}"))?;
            }
            Kind::Func(_) => {
                eg.function_entries(&decl.name, |e| {
                    let args = e.inputs.iter().zip(decl.args.iter()).map(|(v, s)| conv(eg, *v, s)).collect();
                    rows.push(DumpRow { args, ret: V::Int(eg.value_to_base::<i64>(e.output)), sub: e.subsumed });
                })
                .map_err(|e| format!("{e}"))?;
            }
        }
        d.tables.push(rows);
    }
    Ok(d)
}

impl Dump {
    pub fn index(&self) -> Vec<HashMap<Vec<V>, V>> {
        self.tables
            .iter()
            .map(|t| t.iter().map(|r| (r.args.clone(), r.ret.clone())).collect())
            .collect()
    }
    /// evaluate a ground pattern by lookups in the dump (never inserts)
    pub fn eval(ix: &[HashMap<Vec<V>, V>], p: &Pat) -> Option<V> {
        match p {
            Pat::Int(z) => Some(V::Int(*z)),
            Pat::App(f, args) => {
                let mut vs = Vec::new();
                for a in args {
                    vs.push(Self::eval(ix, a)?);
                }
                ix[*f].get(&vs).cloned()
            }
            _ => None,
        }
    }
    pub fn observe(&self, probes: &[Pat], iprobes: &[Pat]) -> Obs {
        let ix = self.index();
        let vals: Vec<Option<V>> = probes.iter().map(|p| Self::eval(&ix, p)).collect();
        let classes = vals
            .iter()
            .map(|o| match o {
                None => -1,
                Some(v) => vals.iter().position(|w| w.as_ref() == Some(v)).unwrap() as i64,
            })
            .collect();
        Obs {
            classes,
            sizes: self.tables.iter().map(|t| t.len()).collect(),
            subs: self.tables.iter().map(|t| t.iter().filter(|r| r.sub).count()).collect(),
            ints: iprobes
                .iter()
                .map(|p| match Self::eval(&ix, p) {
                    Some(V::Int(z)) => Some(z),
                    _ => None,
                })
                .collect(),
        }
    }
    /// C04 twin: every table is a function of its key, every stored e-class id is canonical.
    /// Returns a description of the first failure.
    pub fn invariant(&self, eg: &EGraph, p: &Program) -> Option<String> {
        for (f, t) in self.tables.iter().enumerate() {
            let mut seen: HashMap<&Vec<V>, &DumpRow> = HashMap::new();
            for r in t {
                if let Some(prev) = seen.insert(&r.args, r) {
                    return Some(format!(
                        "table {} has two rows for key {:?}: {:?} and {:?}",
                        p.decls[f].name, r.args, prev.ret, r.ret
                    ));
                }
                for v in r.args.iter().chain(std::iter::once(&r.ret)) {
                    if let V::Id(i) = v {
                        #[cfg(egglog_verif)]
                        {
                            let c = eg.verif_canon_id(Value::new(*i)).rep();
                            if c != *i {
                                return Some(format!(
                                    "table {} stores non-canonical id {} (canonical {}) in row {:?} -> {:?}",
                                    p.decls[f].name, i, c, r.args, r.ret
                                ));
                            }
                        }
                        #[cfg(not(egglog_verif))]
                        {
                            let _ = (i, eg);
                        }
                    }
                }
            }
        }
        // congruence: no two rows of one table with keys equal modulo canonical ids is implied by
        // the two checks above.
        None
    }
}

#[derive(Clone, Debug)]
pub struct StepResult {
    pub ok: bool,
    pub err_class: Option<String>,
    pub err_text: Option<String>,
    pub panicked: bool,
    pub dump: Option<Dump>,
}

pub fn classify_error(msg: &str) -> String {
    let m = msg.to_lowercase();
    if m.contains("panic") {
        "panic".into()
    } else if m.contains("merge") || m.contains("conflict") {
        "merge".into()
    } else if m.contains("check failed") || m.contains("check") {
        "check".into()
    } else if m.contains("parse") {
        "parse".into()
    } else if m.contains("type") || m.contains("unbound") || m.contains("arity") {
        "type".into()
    } else {
        "other".into()
    }
}

/// Run one command text on the engine, catching panics.
pub fn step(eg: &mut EGraph, text: &str) -> (Result<Vec<egglog::CommandOutput>, String>, bool) {
    let res = std::panic::catch_unwind(std::panic::AssertUnwindSafe(|| eg.parse_and_run_program(None, text)));
    match res {
        Ok(Ok(outs)) => (Ok(outs), false),
        Ok(Err(e)) => (Err(format!("{e}")), false),
        Err(p) => {
            let msg = if let Some(s) = p.downcast_ref::<String>() {
                s.clone()
            } else if let Some(s) = p.downcast_ref::<&str>() {
                s.to_string()
            } else {
                "panic".to_string()
            };
            (Err(format!("PANIC: {msg}")), true)
        }
    }
}

pub struct Session {
    pub eg: EGraph,
}

/// enumerate ground terms of sort S up to `depth` over the constructors (bounded)
pub fn enumerate_probes(p: &Program, depth: usize, max: usize, int_pool: &[i64]) -> Vec<Pat> {
    let mut levels: Vec<Vec<Pat>> = vec![Vec::new()];
    let mut all: Vec<Pat> = Vec::new();
    for d in 0..=depth {
        let prev: Vec<Pat> = all.clone();
        let mut new: Vec<Pat> = Vec::new();
        for (f, decl) in p.decls.iter().enumerate() {
            if decl.kind != Kind::Ctor {
                continue;
            }
            if d == 0 && decl.args.iter().any(|s| *s == Sort::S) {
                continue;
            }
            // all argument tuples from prev (S) / int_pool (I)
            let mut tuples: Vec<Vec<Pat>> = vec![vec![]];
            for s in &decl.args {
                let choices: Vec<Pat> = match s {
                    Sort::S => prev.clone(),
                    Sort::I => int_pool.iter().map(|z| Pat::Int(*z)).collect(),
                };
                let mut next = Vec::new();
                for t in &tuples {
                    for c in &choices {
                        let mut t2 = t.clone();
                        t2.push(c.clone());
                        next.push(t2);
                        if next.len() > 4 * max {
                            break;
                        }
                    }
                }
                tuples = next;
            }
            for t in tuples {
                let cand = Pat::App(f, t);
                if !all.contains(&cand) && !new.contains(&cand) {
                    new.push(cand);
                }
            }
        }
        levels.push(new.clone());
        for n in new {
            if all.len() < max {
                all.push(n);
            }
        }
    }
    all
}

pub fn pat_size(p: &Pat) -> usize {
    match p {
        Pat::App(_, a) => 1 + a.iter().map(pat_size).sum::<usize>(),
        Pat::Add(a, b) => 1 + pat_size(a) + pat_size(b),
        _ => 1,
    }
}

/// canonical representative of an e-class id (hook H0 when built with cfg egglog_verif)
pub fn canon_u32(eg: &EGraph, i: u32) -> u32 {
    #[cfg(egglog_verif)]
    {
        eg.verif_canon_id(Value::new(i)).rep()
    }
    #[cfg(not(egglog_verif))]
    {
        let _ = eg;
        i
    }
}

/// parse the printed form of an extracted term, e.g. `(F0 (K1))`, `(N 3)`, back into a ground pattern
pub fn parse_term(p: &Program, text: &str) -> Option<Pat> {
    let toks: Vec<String> = text.replace('(', " ( ").replace(')', " ) ").split_whitespace().map(|s| s.to_string()).collect();
    fn go(p: &Program, toks: &[String], i: &mut usize) -> Option<Pat> {
        let t = toks.get(*i)?;
        if t == "(" {
            *i += 1;
            let name = toks.get(*i)?.clone();
            *i += 1;
            let f = p.decls.iter().position(|d| d.name == name)?;
            let mut args = Vec::new();
            while toks.get(*i)? != ")" {
                args.push(go(p, toks, i)?);
            }
            *i += 1;
            Some(Pat::App(f, args))
        } else {
            *i += 1;
            if let Ok(z) = t.parse::<i64>() {
                Some(Pat::Int(z))
            } else {
                // nullary constructor printed without parentheses
                let f = p.decls.iter().position(|d| d.name == *t)?;
                Some(Pat::App(f, vec![]))
            }
        }
    }
    let mut i = 0;
    let r = go(p, &toks, &mut i)?;
    if i == toks.len() { Some(r) } else { None }
}

impl Dump {
    /// evaluate a ground pattern through NON-subsumed rows only; Err names the first application
    /// whose row is missing or subsumed
    pub fn eval_visible(&self, p: &Program, t: &Pat) -> Result<V, String> {
        match t {
            Pat::Int(z) => Ok(V::Int(*z)),
            Pat::App(f, args) => {
                let mut vs = Vec::new();
                for a in args {
                    vs.push(self.eval_visible(p, a)?);
                }
                match self.tables[*f].iter().find(|r| r.args == vs) {
                    Some(r) if !r.sub => Ok(r.ret.clone()),
                    Some(_) => Err(format!("{} is a SUBSUMED row", p.pat_text(t))),
                    None => Err(format!("{} is not a row of the database", p.pat_text(t))),
                }
            }
            _ => Err("not ground".into()),
        }
    }
}
