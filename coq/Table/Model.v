(** C16: executable model of core-relations' [SortedWritesTable] (table/mod.rs) and
    [DisplacedTable] (uf/mod.rs), as driven through the public API with one shard (no thread pool
    installed => [ShardedHashTable::default] has a single shard, so pending buffers are applied in
    FIFO order and physical row order is deterministic).

    Definitions only (no proofs), so that the correspondence check still runs when a proof breaks.

    What is physical here and where it comes from:
    - [rows]  : [Rows.data], append only; a stale row ([row[0] = Value::stale()]) is [None];
    - [stale] : [Rows.stale_rows];
    - [hash]  : the [ShardedHashTable<TableEntry>]: a bag of row ids; lookups compare the *content*
                of the row pointed to with the key, exactly like [get_entry]'s [test] closure;
    - [offs]  : [offsets : Vec<(Value, RowId)>], pushed by [serial_insert], rebuilt by [rehash_impl];
    - [gen]   : [generation] (major version); bumped by [rehash] and by [clear] of a non-empty table;
    - [pins]/[prem] : [PendingState] queues (a [Buffer] is dropped right after staging). *)
From Coq Require Import List Arith PeanoNat Bool.
Import ListNotations.
Require Import Verif.Base.Res Verif.Base.Cases Verif.gen.UFSeq.
Require Export Verif.Table.Prelude.
Require Verif.gen.TableFns.

Definition row := list nat.
Definition key := list nat.

Record cfg := mkCfg { nk : nat; sortc : option nat }.

Definition key_of (c : cfg) (r : row) : key := firstn (nk c) r.
Definition col (r : row) (i : nat) : nat := nth i r 0.
Definition keyb (a b : key) : bool := list_eqb Nat.eqb a b.

(* ------------------------------------------------------------------------------------------ *)
(** * SortedWritesTable *)

Record T := mkT {
  rows : list (option row);
  stale : nat;
  hash : list nat;
  offs : list (nat * nat);
  gen : nat;
  pins : list row;
  prem : list key }.

Definition empty : T := mkT [] 0 [] [] 0 [] [].

Definition live_at (rs : list (option row)) (i : nat) : option row :=
  match nth_error rs i with Some (Some r) => Some r | _ => None end.

(** [get_entry]: first entry of the hash whose row is live and has the key *)
Fixpoint hfind (c : cfg) (rs : list (option row)) (h : list nat) (k : key) : option (nat * row) :=
  match h with
  | [] => None
  | i :: tl =>
      match live_at rs i with
      | Some r => if keyb (key_of c r) k then Some (i, r) else hfind c rs tl k
      | None => hfind c rs tl k
      end
  end.

(** [Table::get_row] *)
Definition get (c : cfg) (t : T) (k : key) : option (nat * row) := hfind c (rows t) (hash t) k.

Definition hremove (i : nat) (h : list nat) : list nat := filter (fun x => negb (x =? i)) h.
Definition hreplace (i n : nat) (h : list nat) : list nat := map (fun x => if x =? i then n else x) h.

(** the [offsets] update of [serial_insert]: assert!(sort_val >= largest); push if greater *)
Definition push_off (o : list (nat * nat)) (v n : nat) : Res (list (nat * nat)) :=
  match o with
  | [] => Ok [(v, n)]
  | _ => let largest := fst (last o (0, 0)) in
         if v <? largest then Panic
         else if largest <? v then Ok (o ++ [(v, n)]) else Ok o
  end.

(** the [offsets] update of [rehash_impl] (no assertion) *)
Definition push_nochk (o : list (nat * nat)) (v n : nat) : list (nat * nat) :=
  match o with
  | [] => [(v, n)]
  | _ => if fst (last o (0, 0)) <? v then o ++ [(v, n)] else o
  end.

(** append the row [r]; the sort value recorded in [offsets] is read from [q] (the incoming
    row), as the code does ([query[sort_by]]), even when [r] is the merged row *)
Definition append (c : cfg) (t : T) (q r : row) : Res T :=
  let n := length (rows t) in
  match sortc c with
  | Some sc =>
      bind (push_off (offs t) (col q sc) n) (fun o =>
      Ok (mkT (rows t ++ [Some r]) (stale t) (hash t) o (gen t) (pins t) (prem t)))
  | None => Ok (mkT (rows t ++ [Some r]) (stale t) (hash t) (offs t) (gen t) (pins t) (prem t))
  end.

(** one iteration of [serial_insert]'s loop *)
Definition insert_one (c : cfg) (mf : row -> row -> option row) (t : T) (q : row) : Res T :=
  let n := length (rows t) in
  match hfind c (rows t) (hash t) (key_of c q) with
  | Some (i, cur) =>
      match mf cur q with
      | Some m =>
          bind (append c t q m) (fun t' =>
          Ok (mkT (set_nth (rows t') i None) (S (stale t')) (hreplace i n (hash t')) (offs t')
                  (gen t') (pins t') (prem t')))
      | None => Ok t
      end
  | None =>
      bind (append c t q q) (fun t' =>
      Ok (mkT (rows t') (stale t') (hash t' ++ [n]) (offs t') (gen t') (pins t') (prem t')))
  end.

(** one iteration of [serial_delete]'s loop *)
Definition delete_one (c : cfg) (t : T) (k : key) : T :=
  match hfind c (rows t) (hash t) k with
  | Some (i, _) =>
      mkT (set_nth (rows t) i None) (S (stale t)) (hremove i (hash t)) (offs t) (gen t) (pins t) (prem t)
  | None => t
  end.

Fixpoint insert_all (c : cfg) mf (t : T) (qs : list row) : Res T :=
  match qs with
  | [] => Ok t
  | q :: tl => bind (insert_one c mf t q) (fun t' => insert_all c mf t' tl)
  end.

Definition do_delete (c : cfg) (t : T) : T :=
  let t0 := mkT (rows t) (stale t) (hash t) (offs t) (gen t) (pins t) [] in
  fold_left (delete_one c) (prem t) t0.

Definition do_insert (c : cfg) mf (t : T) : Res T :=
  let t0 := mkT (rows t) (stale t) (hash t) (offs t) (gen t) [] (prem t) in
  insert_all c mf t0 (pins t).

(** [RowBuffer::remove_stale]: the live rows, in order *)
Fixpoint live_rows (rs : list (option row)) : list row :=
  match rs with
  | [] => []
  | Some r :: tl => r :: live_rows tl
  | None :: tl => live_rows tl
  end.

(** new id of the row at old index [i] = number of live rows before it *)
Fixpoint rank (rs : list (option row)) (i : nat) : nat :=
  match i, rs with
  | S i', Some _ :: tl => S (rank tl i')
  | S i', None :: tl => rank tl i'
  | _, _ => 0
  end.

Fixpoint live_ids (i : nat) (rs : list (option row)) : list nat :=
  match rs with
  | [] => []
  | Some _ :: tl => i :: live_ids (S i) tl
  | None :: tl => live_ids (S i) tl
  end.

Fixpoint build_offs (sc : nat) (lr : list row) (n : nat) (o : list (nat * nat)) : list (nat * nat) :=
  match lr with
  | [] => o
  | r :: tl => build_offs sc tl (S n) (push_nochk o (col r sc) n)
  end.

(** [rehash] + [rehash_impl]; the in-place remap of each entry (found by [|x| x == old]) is
    modelled as one simultaneous renaming by [rank]; the [expect("non-stale entry not mapped in
    hash")] is the Panic branch *)
Definition rehash (c : cfg) (t : T) : Res T :=
  if forallb (fun i => existsb (Nat.eqb i) (hash t)) (live_ids 0 (rows t)) then
    let lr := live_rows (rows t) in
    Ok (mkT (map Some lr) 0 (map (rank (rows t)) (hash t))
            (match sortc c with Some sc => build_offs sc lr 0 [] | None => offs t end)
            (S (gen t)) (pins t) (prem t))
  else Panic.

(** the guard is regenerated from [SortedWritesTable::maybe_rehash] (gen/TableFns.v) *)
Definition maybe_rehash (c : cfg) (t : T) : Res T :=
  if TableFns.maybe_rehash_skip (stale t) (length (rows t)) then Ok t else rehash c t.

(** [Table::merge] = do_delete; do_insert; maybe_rehash *)
Definition merge (c : cfg) mf (t : T) : Res T :=
  bind (do_insert c mf (do_delete c t)) (maybe_rehash c).

(** [Table::clear] *)
Definition clear (t : T) : T :=
  match rows t with
  | [] => mkT [] (stale t) (hash t) (offs t) (gen t) [] []
  | _ => mkT [] 0 [] [] (S (gen t)) [] []
  end.

(** ** reads *)
(* [constr] is defined in Table/Prelude.v *)
Definition eval_c (cn : constr) (r : row) : bool :=
  match cn with
  | CEq l r' => col r l =? col r r'
  | CEqC c v => col r c =? v
  | CLt c v => col r c <? v
  | CGt c v => v <? col r c
  | CLe c v => col r c <=? v
  | CGe c v => v <=? col r c
  end.
Definition eval_cs (cs : list constr) (r : row) : bool := forallb (fun cn => eval_c cn r) cs.

Fixpoint scan_from (i : nat) (rs : list (option row)) : list (nat * row) :=
  match rs with
  | [] => []
  | Some r :: tl => (i, r) :: scan_from (S i) tl
  | None :: tl => scan_from (S i) tl
  end.
(** [all] + [scan]: stale rows skipped *)
Definition scan_all (t : T) : list (nat * row) := scan_from 0 (rows t).
Definition scan_range (t : T) (lo hi : nat) : list (nat * row) :=
  filter (fun p => (lo <=? fst p) && (fst p <? hi)) (scan_all t).
(** [refine]/[refine_ref]/[scan_project] with constraints *)
Definition scan_cs (t : T) (cs : list constr) : list (nat * row) :=
  filter (fun p => eval_cs cs (snd p)) (scan_all t).

(** SPECIFICATION of [binary_search_sort_val] on a strictly increasing vector = first entry >= v
    (the executable model below runs the regenerated code; Table/GenLink.v proves it equal to
    this linear search for every library binary search that meets its documented contract) *)
Inductive bs_res := BOk (found bound : nat) | BErr (next : nat).
Fixpoint bsearch (o : list (nat * nat)) (v next_row : nat) : bs_res :=
  match o with
  | [] => BErr next_row
  | (w, s) :: tl =>
      if w <? v then bsearch tl v next_row
      else if w =? v then BOk s (match tl with (_, s') :: _ => s' | [] => next_row end)
      else BErr s
  end.

(** SPECIFICATION of [Table::fast_subset]: a dense range, or None *)
Definition fast_subset_spec (c : cfg) (t : T) (cn : constr) : option (nat * nat) :=
  match sortc c with
  | None => None
  | Some sc =>
      let n := length (rows t) in
      match cn with
      | CEq _ _ => None
      | CEqC cl v => if cl =? sc then
          Some (match bsearch (offs t) v n with BOk f b => (f, b) | BErr _ => (0, 0) end) else None
      | CLt cl v => if cl =? sc then
          Some (match bsearch (offs t) v n with BOk f _ => (0, f) | BErr x => (0, x) end) else None
      | CGt cl v => if cl =? sc then
          Some (match bsearch (offs t) v n with BOk _ b => (b, n) | BErr x => (x, n) end) else None
      | CLe cl v => if cl =? sc then
          Some (match bsearch (offs t) v n with BOk _ b => (0, b) | BErr x => (0, x) end) else None
      | CGe cl v => if cl =? sc then
          Some (match bsearch (offs t) v n with BOk f _ => (f, n) | BErr x => (x, n) end) else None
      end
  end.

(** [Table::fast_subset] as regenerated from table/mod.rs (gen/TableFns.v: [fast_subset] and
    [binary_search_sort_val]), run with the first-match instance of the library binary search *)
Definition fast_subset_with (bs : list nat -> nat -> rres nat nat) (c : cfg) (t : T) (cn : constr)
  : Res (option (nat * nat)) :=
  TableFns.fast_subset bs (sortc c) (offs t) (length (rows t)) cn.
Definition fast_subset := fast_subset_with lin_bs.

Definition read_panic_mark : list (list nat) := [[4998]].

(** ** operations and observations *)
Inductive op :=
| OIns (r : row) | ORem (k : key) | OMerge | OClear
| OGet (k : key) | OScan | OScanC (cs : list constr) | OFast (cn : constr) | OStat.

Definition step (c : cfg) mf (t : T) (o : op) : Res T :=
  match o with
  | OIns r => Ok (mkT (rows t) (stale t) (hash t) (offs t) (gen t) (pins t ++ [r]) (prem t))
  | ORem k => Ok (mkT (rows t) (stale t) (hash t) (offs t) (gen t) (pins t) (prem t ++ [k]))
  | OMerge => merge c mf t
  | OClear => Ok (clear t)
  | _ => Ok t
  end.

Fixpoint run (c : cfg) mf (t : T) (ops : list op) : Res T :=
  match ops with
  | [] => Ok t
  | o :: tl => bind (step c mf t o) (fun t' => run c mf t' tl)
  end.

Definition enc (l : list (nat * row)) : list (list nat) := map (fun p => fst p :: snd p) l.

(** what the caller sees for a read (None: not a read) *)
Definition read (c : cfg) (t : T) (o : op) : option (list (list nat)) :=
  match o with
  | OGet k => Some (match get c t k with Some p => enc [p] | None => [] end)
  | OScan => Some (enc (scan_all t))
  | OScanC cs => Some (enc (scan_cs t cs))
  | OFast cn => Some (match fast_subset c t cn with
                      | Ok None => []
                      | Ok (Some (lo, hi)) => [hi - lo] :: enc (scan_range t lo hi)
                      | _ => read_panic_mark
                      end)
  | OStat => Some [[length (rows t) - stale t; length (rows t); gen t]]
  | _ => None
  end.

Definition panic_mark : list (list nat) := [[4999]].

Fixpoint run_obs (c : cfg) mf (t : T) (ops : list op) : list (list (list nat)) :=
  match ops with
  | [] => []
  | o :: tl =>
      match step c mf t o with
      | Ok t' => (match read c t o with Some b => [b] | None => [] end) ++ run_obs c mf t' tl
      | _ => [panic_mark]
      end
  end.

(** ** the merge functions the harness installs *)
Inductive mkind := MNew | MAlways | MOld | MMax | MMin.

Definition comb (m : mkind) (a b : nat) : nat :=
  match m with MNew | MAlways => b | MOld => a | MMax => Nat.max a b | MMin => Nat.min a b end.
Definition is_sort (c : cfg) (i : nat) : bool :=
  match sortc c with Some sc => i =? sc | None => false end.
(** key columns and the sort column come from the incoming row, value columns are combined *)
Definition merged (c : cfg) (m : mkind) (cur new : row) : row :=
  mapi (fun i x => if (i <? nk c) || is_sort c i then x else comb m (col cur i) x) new.
Definition mask_sort (c : cfg) (r : row) : row := mapi (fun i x => if is_sort c i then 0 else x) r.
Definition mf_of (c : cfg) (m : mkind) (cur new : row) : option row :=
  match m with
  | MOld => None
  | MAlways => Some new
  | _ => let r := merged c m cur new in
         if list_eqb Nat.eqb (mask_sort c r) (mask_sort c cur) then None else Some r
  end.

(* ------------------------------------------------------------------------------------------ *)
(** * DisplacedTable (uf/mod.rs) over the union-find translated from union-find/src/lib.rs *)

Record D := mkD {
  uf : list nat;
  disp : list (nat * nat);          (* displaced : Vec<(child, ts)> *)
  lut : list (nat * nat);           (* lookup_table : HashMap<child, RowId>, newest binding first *)
  dpend : list (nat * nat * nat);   (* buffered_writes *)
  dchanged : bool }.

Definition dempty : D := mkD [] [] [] [] false.

(* [assoc] is defined in Table/Prelude.v *)
Definition ffuel (p : list nat) (id : nat) : nat := Nat.max (length p) (S id).

(** [insert_impl] *)
Definition dinsert (d : D) (w : nat * nat * nat) : Res D :=
  let '(a, b, ts) := w in
  bind (find (ffuel (uf d) a) (uf d) a) (fun '(p1, ra) =>
  bind (find (ffuel p1 b) p1 b) (fun '(p2, rb) =>
  if ra =? rb then Ok (mkD p2 (disp d) (lut d) (dpend d) (dchanged d))
  else
    bind (union (ffuel p2 (Nat.max a b)) p2 a b) (fun '(p3, (parent, child)) =>
    bind (find (ffuel p3 parent) p3 parent) (fun '(p4, _) =>
    bind (find (ffuel p4 child) p4 child) (fun '(p5, _) =>
    (* the assertion "highest <= ts" when there is a last row; [last [] (0,0)] makes the test vacuous *)
    if ts <? snd (last (disp d) (0, 0)) then Panic
    else Ok (mkD p5 (disp d ++ [(child, ts)]) ((child, length (disp d)) :: lut d) (dpend d) true)))))).

Fixpoint dinsert_all (d : D) (ws : list (nat * nat * nat)) : Res D :=
  match ws with
  | [] => Ok d
  | w :: tl => bind (dinsert d w) (fun d' => dinsert_all d' tl)
  end.

(** [merge] *)
Definition dmerge (d : D) : Res D :=
  bind (dinsert_all (mkD (uf d) (disp d) (lut d) [] (dchanged d)) (dpend d)) (fun d' =>
  Ok (mkD (uf d') (disp d') (lut d') (dpend d') false)).

(** [clear]: [uf.reset(); displaced.clear(); lookup_table.clear();] and the staged writes are
    drained (uf/mod.rs, after the repair of finding F8) *)
Definition dclear (d : D) : D := mkD (reset (uf d)) [] [] [] (dchanged d).

(** [expand] *)
Definition dexpand (d : D) (i : nat) : Res row :=
  bind (idx (disp d) i) (fun '(child, ts) =>
  bind (find_naive (length (uf d)) (uf d) child) (fun r => Ok [child; r; ts])).

(** [get_row] *)
Definition dget (d : D) (k : nat) : Res (option (nat * row)) :=
  match assoc (lut d) k with
  | None => Ok None
  | Some i => bind (dexpand d i) (fun r => Ok (Some (i, r)))
  end.

Fixpoint dscan_ids (d : D) (ids : list nat) (cs : list constr) : Res (list (nat * row)) :=
  match ids with
  | [] => Ok []
  | i :: tl =>
      bind (dexpand d i) (fun r =>
      bind (dscan_ids d tl cs) (fun rest =>
      Ok (if eval_cs cs r then (i, r) :: rest else rest)))
  end.

Definition count_lt (v : nat) (l : list (nat * nat)) : nat := length (filter (fun p => snd p <? v) l).
Definition count_le (v : nat) (l : list (nat * nat)) : nat := length (filter (fun p => snd p <=? v) l).

(** SPECIFICATION of [fast_subset]; [timestamp_bounds v] on the ts-sorted vector = Ok(lo,hi) with
    lo = #{ts<v}, hi = #{ts<=v} when lo<hi, else Err(lo) *)
Definition dfast_spec (d : D) (cn : constr) : option (nat * nat) :=
  let n := length (disp d) in
  let lo v := count_lt v (disp d) in
  let hi v := count_le v (disp d) in
  match cn with
  | CEq _ _ => None
  | CEqC 1 _ => None
  | CEqC 0 v => Some (match assoc (lut d) v with Some i => (i, S i) | None => (0, 0) end)
  | CEqC _ v => if lo v <? hi v then Some (lo v, hi v) else None
  | CLt 2 v => Some (0, lo v)
  | CGt 2 v => Some (hi v, n)
  | CLe 2 v => Some (0, hi v)
  | CGe 2 v => Some (lo v, n)
  | _ => None
  end.

(** [DisplacedTable::fast_subset] / [timestamp_bounds] as regenerated from uf/mod.rs; the two
    linear loops of [timestamp_bounds] run at most [length displaced] iterations each *)
Definition dfast_with (bs : list nat -> nat -> rres nat nat) (d : D) (cn : constr) : Res (option (nat * nat)) :=
  TableFns.displaced_fast_subset bs (S (length (disp d))) (disp d) (lut d) cn.
Definition dfast := dfast_with lin_bs.

Inductive dop :=
| DIns (a b ts : nat) | DMerge | DClear
| DGet (k : nat) | DScan | DScanC (cs : list constr) | DFast (cn : constr) | DStat.

Definition dstep (d : D) (o : dop) : Res D :=
  match o with
  | DIns a b ts => Ok (mkD (uf d) (disp d) (lut d) (dpend d ++ [(a, b, ts)]) (dchanged d))
  | DMerge => dmerge d
  | DClear => Ok (dclear d)
  | _ => Ok d
  end.

Fixpoint drun (d : D) (ops : list dop) : Res D :=
  match ops with
  | [] => Ok d
  | o :: tl => bind (dstep d o) (fun d' => drun d' tl)
  end.

Definition dread (d : D) (o : dop) : option (list (list nat)) :=
  let of_res (r : Res (list (list nat))) := match r with Ok x => x | _ => read_panic_mark end in
  match o with
  | DGet k => Some (of_res (bind (dget d k) (fun x =>
                  Ok (match x with Some p => enc [p] | None => [] end))))
  | DScan => Some (of_res (bind (dscan_ids d (seq 0 (length (disp d))) []) (fun l => Ok (enc l))))
  | DScanC cs => Some (of_res (bind (dscan_ids d (seq 0 (length (disp d))) cs) (fun l => Ok (enc l))))
  | DFast cn => Some (match dfast d cn with
                      | Ok None => []
                      | Ok (Some (lo, hi)) =>
                          of_res (bind (dscan_ids d (seq lo (hi - lo)) []) (fun l => Ok ([hi - lo] :: enc l)))
                      | _ => read_panic_mark
                      end)
  | DStat => Some [[length (disp d)]]
  | _ => None
  end.

Fixpoint drun_obs (d : D) (ops : list dop) : list (list (list nat)) :=
  match ops with
  | [] => []
  | o :: tl =>
      match dstep d o with
      | Ok d' => (match dread d o with Some b => [b] | None => [] end) ++ drun_obs d' tl
      | _ => [panic_mark]
      end
  end.

(* ------------------------------------------------------------------------------------------ *)
(** * cases written by harness/src/bin/h_table.rs *)
Inductive tcase :=
| CaseS (nkeys : nat) (sort : option nat) (m : mkind) (ops : list op) (expected : list (list (list nat)))
| CaseD (ops : list dop) (expected : list (list (list nat))).

Definition obs_eqb := list_eqb (list_eqb (list_eqb Nat.eqb)).

Definition check_case (cs : tcase) : bool :=
  match cs with
  | CaseS n s m ops expected =>
      let c := mkCfg n s in obs_eqb (run_obs c (mf_of c m) empty ops) expected
  | CaseD ops expected => obs_eqb (drun_obs dempty ops) expected
  end.
