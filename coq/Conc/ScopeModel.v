(** C19 / thread-pool scope: executable definitions only (no proofs here).

    Transition system of ONE [ThreadPool::scope] call (concurrency/src/threadpool/mod.rs):
    all threads, all interleavings, sequentially consistent.

    - [cnt] is the packed [AtomicCounts] word: expected in the high 32 bits, completed in the low
      32 bits, initial value [1 << 32] (the root callback counts as one expected item).
    - thread 0 is the root callback (runs on the caller's thread), thread k>0 is spawned task k.
    - [Scope::spawn] is two atomic steps: [expect_one] (CAS loop, guarded by the assertion
      expected < u32::MAX) THEN the channel send.
    - the job wrapper is: body; on Err [record_panic]; then [complete_one] (fetch_add 1, and when
      completed+1 = expected of the PREVIOUS word: [try_send] on the bounded(1) done channel).
    - the caller: callback (thread 0) ; [complete_root_and_wait]: complete_one, and if that was not
      the last completion block on the done channel (a background worker helps draining the
      queue meanwhile: in this one-scope model every queued job may be started at any time, so
      helping is the [SStart] step) ; [take_panic] ; return / resume_unwind.
    The work queue is a bag (crossbeam FIFO order is not relied upon).
    Worker availability (pool size, nesting) is the subject of Conc/Nested.v; safety of one scope
    does not depend on it: fewer workers only remove interleavings. *)
From Coq Require Import List Arith NArith Bool Lia.
Import ListNotations.
(** Tier A: the packing of [AtomicCounts] is REGENERATED from concurrency/src/threadpool/mod.rs on
    every run (gen/CountsFns.v, translator/src/x_counts.rs): [EXPECTED_SHIFT], [COMPLETED_MASK],
    [expected], [completed], the initial word, the guard and the CAS target of [expect_one], the
    [fetch_add] of [complete_one] and the "was that the last completion" test of
    [ScopeState::complete_one], all over N with an explicit [mod 2^w] after every wrapping operation.
    The transition system below uses those definitions, nothing hand-copied. *)
Require Verif.gen.CountsFns.

(** reference forms, used only to STATE what the regenerated arithmetic amounts to
    (Conc/Scope.v proves the regenerated functions equal to them: [expected_spec] ...) *)
Definition SHIFT : N := 4294967296.          (* 2^32 *)
Definition U32MAX : N := 4294967295.         (* u32::MAX *)
Definition U64MOD : N := 18446744073709551616.
Definition add64 (a b : N) : N := ((a + b) mod U64MOD)%N.       (* AtomicU64 arithmetic wraps *)

Definition expected (v : N) : N := CountsFns.expected v.
Definition completed (v : N) : N := CountsFns.completed v.

(** program counter of a job wrapper (root callback or spawned task) *)
Inductive pc := Body | Enq (k : nat) | Rec | Fin.
(** program counter of the thread that called [scope] *)
Inductive wpc := Cb | Wait | Take | Ret.

Definition pc_eqb (a b : pc) : bool :=
  match a, b with
  | Body, Body | Rec, Rec | Fin, Fin => true
  | Enq j, Enq k => Nat.eqb j k
  | _, _ => false
  end.

Record st := mk {
  cnt : N;                    (* AtomicCounts *)
  queue : list nat;           (* jobs in the channel *)
  run : list (nat * pc);      (* job wrappers being executed, with their pc *)
  caller : wpc;
  done_msgs : nat;            (* messages sitting in the bounded(1) done channel *)
  slot : bool;                (* ScopeState.panic is Some *)
  rooterr : bool;             (* `result` of catch_unwind(f) is Err *)
  reported : bool;            (* scope() left through resume_unwind *)
  (* ghost history *)
  sent : nat;                 (* number of times completion was signalled *)
  spawned : list nat;         (* ids for which expect_one was executed (0 = root callback) *)
  runs : list nat;            (* ids whose body was started, with multiplicity *)
  fins : list nat;            (* ids that executed complete_one, with multiplicity *)
  ptask : bool;               (* some spawned task's body panicked *)
  proot : bool                (* the root callback panicked *)
}.

Definition init : st :=
  mk CountsFns.with_root_callback [] [(0, Body)] Cb 0 false false false 0 [0] [0] [] false false.

Inductive label :=
| LExpect (w k : nat) | LEnqueue (w k : nat) | LStart (k : nat)
| LBodyOk (w : nat) | LBodyPanic (w : nat) | LRecord (w : nat)
| LComplete (w : nat) | LRecv | LReturn.

(** [ScopeState::complete_one] applies its test to the word RETURNED by [AtomicCounts::complete_one] *)
Definition is_last (c : N) : bool :=
  CountsFns.scope_complete_is_last (CountsFns.complete_one_result c).

Inductive step : st -> label -> st -> Prop :=
| SExpect s w k r1 r2 :
    run s = r1 ++ (w, Body) :: r2 -> ~ In k (spawned s) -> CountsFns.expect_one_guard (cnt s) = true ->
    step s (LExpect w k)
      (mk (CountsFns.expect_one_next (cnt s)) (queue s) (r1 ++ (w, Enq k) :: r2) (caller s) (done_msgs s)
          (slot s) (rooterr s) (reported s) (sent s) (k :: spawned s) (runs s) (fins s)
          (ptask s) (proot s))
| SEnqueue s w k r1 r2 :
    run s = r1 ++ (w, Enq k) :: r2 ->
    step s (LEnqueue w k)
      (mk (cnt s) (k :: queue s) (r1 ++ (w, Body) :: r2) (caller s) (done_msgs s)
          (slot s) (rooterr s) (reported s) (sent s) (spawned s) (runs s) (fins s)
          (ptask s) (proot s))
| SStart s k q1 q2 :
    queue s = q1 ++ k :: q2 ->
    step s (LStart k)
      (mk (cnt s) (q1 ++ q2) ((k, Body) :: run s) (caller s) (done_msgs s)
          (slot s) (rooterr s) (reported s) (sent s) (spawned s) (k :: runs s) (fins s)
          (ptask s) (proot s))
| SBodyOk s w r1 r2 :
    run s = r1 ++ (w, Body) :: r2 ->
    step s (LBodyOk w)
      (mk (cnt s) (queue s) (r1 ++ (w, Fin) :: r2) (caller s) (done_msgs s)
          (slot s) (rooterr s) (reported s) (sent s) (spawned s) (runs s) (fins s)
          (ptask s) (proot s))
| SBodyPanic s w r1 r2 :
    run s = r1 ++ (w, Body) :: r2 ->
    step s (LBodyPanic w)
      (mk (cnt s) (queue s) (r1 ++ (w, Rec) :: r2) (caller s) (done_msgs s)
          (slot s) (rooterr s) (reported s) (sent s) (spawned s) (runs s) (fins s)
          (if Nat.eqb w 0 then ptask s else true) (if Nat.eqb w 0 then true else proot s))
| SRecord s w r1 r2 :
    run s = r1 ++ (w, Rec) :: r2 ->
    step s (LRecord w)
      (mk (cnt s) (queue s) (r1 ++ (w, Fin) :: r2) (caller s) (done_msgs s)
          (if Nat.eqb w 0 then slot s else true) (if Nat.eqb w 0 then true else rooterr s)
          (reported s) (sent s) (spawned s) (runs s) (fins s) (ptask s) (proot s))
| SComplete s w r1 r2 :
    run s = r1 ++ (w, Fin) :: r2 ->
    step s (LComplete w)
      (mk (CountsFns.complete_one_next (cnt s)) (queue s) (r1 ++ r2)
          (if Nat.eqb w 0 then (if is_last (cnt s) then Take else Wait) else caller s)
          (if is_last (cnt s) then S (done_msgs s) else done_msgs s)
          (slot s) (rooterr s) (reported s)
          (if is_last (cnt s) then S (sent s) else sent s)
          (spawned s) (runs s) (w :: fins s) (ptask s) (proot s))
| SRecv s n :
    caller s = Wait -> done_msgs s = S n ->
    step s LRecv
      (mk (cnt s) (queue s) (run s) Take n
          (slot s) (rooterr s) (reported s) (sent s) (spawned s) (runs s) (fins s)
          (ptask s) (proot s))
| SReturn s :
    caller s = Take ->
    step s LReturn
      (mk (cnt s) (queue s) (run s) Ret (done_msgs s)
          false (rooterr s) (rooterr s || slot s) (sent s) (spawned s) (runs s) (fins s)
          (ptask s) (proot s)).

Inductive reachable : st -> Prop :=
| reach_init : reachable init
| reach_step s l s' : reachable s -> step s l s' -> reachable s'.

(* ------------------------------------------------------------------------------------------ *)
(** * executable stepper, used to replay event logs of the real thread pool *)

Fixpoint upd_pc (w : nat) (p q : pc) (r : list (nat * pc)) : option (list (nat * pc)) :=
  match r with
  | [] => None
  | (w', p') :: tl =>
      if (Nat.eqb w w' && pc_eqb p p')%bool then Some ((w, q) :: tl)
      else match upd_pc w p q tl with Some tl' => Some ((w', p') :: tl') | None => None end
  end.

Fixpoint del_pc (w : nat) (p : pc) (r : list (nat * pc)) : option (list (nat * pc)) :=
  match r with
  | [] => None
  | (w', p') :: tl =>
      if (Nat.eqb w w' && pc_eqb p p')%bool then Some tl
      else match del_pc w p tl with Some tl' => Some ((w', p') :: tl') | None => None end
  end.

Fixpoint del_q (k : nat) (q : list nat) : option (list nat) :=
  match q with
  | [] => None
  | k' :: tl => if Nat.eqb k k' then Some tl
                else match del_q k tl with Some tl' => Some (k' :: tl') | None => None end
  end.

Fixpoint mem (k : nat) (l : list nat) : bool :=
  match l with [] => false | x :: tl => (Nat.eqb k x || mem k tl)%bool end.

Definition exec (s : st) (l : label) : option st :=
  match l with
  | LExpect w k =>
      match upd_pc w Body (Enq k) (run s) with
      | Some r' =>
          if (negb (mem k (spawned s)) && CountsFns.expect_one_guard (cnt s))%bool then
            Some (mk (CountsFns.expect_one_next (cnt s)) (queue s) r' (caller s) (done_msgs s)
                    (slot s) (rooterr s) (reported s) (sent s) (k :: spawned s) (runs s) (fins s)
                    (ptask s) (proot s))
          else None
      | None => None
      end
  | LEnqueue w k =>
      match upd_pc w (Enq k) Body (run s) with
      | Some r' =>
          Some (mk (cnt s) (k :: queue s) r' (caller s) (done_msgs s)
                  (slot s) (rooterr s) (reported s) (sent s) (spawned s) (runs s) (fins s)
                  (ptask s) (proot s))
      | None => None
      end
  | LStart k =>
      match del_q k (queue s) with
      | Some q' =>
          Some (mk (cnt s) q' ((k, Body) :: run s) (caller s) (done_msgs s)
                  (slot s) (rooterr s) (reported s) (sent s) (spawned s) (k :: runs s) (fins s)
                  (ptask s) (proot s))
      | None => None
      end
  | LBodyOk w =>
      match upd_pc w Body Fin (run s) with
      | Some r' =>
          Some (mk (cnt s) (queue s) r' (caller s) (done_msgs s)
                  (slot s) (rooterr s) (reported s) (sent s) (spawned s) (runs s) (fins s)
                  (ptask s) (proot s))
      | None => None
      end
  | LBodyPanic w =>
      match upd_pc w Body Rec (run s) with
      | Some r' =>
          Some (mk (cnt s) (queue s) r' (caller s) (done_msgs s)
                  (slot s) (rooterr s) (reported s) (sent s) (spawned s) (runs s) (fins s)
                  (if Nat.eqb w 0 then ptask s else true) (if Nat.eqb w 0 then true else proot s))
      | None => None
      end
  | LRecord w =>
      match upd_pc w Rec Fin (run s) with
      | Some r' =>
          Some (mk (cnt s) (queue s) r' (caller s) (done_msgs s)
                  (if Nat.eqb w 0 then slot s else true) (if Nat.eqb w 0 then true else rooterr s)
                  (reported s) (sent s) (spawned s) (runs s) (fins s) (ptask s) (proot s))
      | None => None
      end
  | LComplete w =>
      match del_pc w Fin (run s) with
      | Some r' =>
          Some (mk (CountsFns.complete_one_next (cnt s)) (queue s) r'
                  (if Nat.eqb w 0 then (if is_last (cnt s) then Take else Wait) else caller s)
                  (if is_last (cnt s) then S (done_msgs s) else done_msgs s)
                  (slot s) (rooterr s) (reported s)
                  (if is_last (cnt s) then S (sent s) else sent s)
                  (spawned s) (runs s) (w :: fins s) (ptask s) (proot s))
      | None => None
      end
  | LRecv =>
      match caller s, done_msgs s with
      | Wait, S n =>
          Some (mk (cnt s) (queue s) (run s) Take n
                  (slot s) (rooterr s) (reported s) (sent s) (spawned s) (runs s) (fins s)
                  (ptask s) (proot s))
      | _, _ => None
      end
  | LReturn =>
      match caller s with
      | Take =>
          Some (mk (cnt s) (queue s) (run s) Ret (done_msgs s)
                  false (rooterr s) (rooterr s || slot s) (sent s) (spawned s) (runs s) (fins s)
                  (ptask s) (proot s))
      | _ => None
      end
  end.

Fixpoint exec_all (s : st) (ls : list label) : option st :=
  match ls with
  | [] => Some s
  | l :: tl => match exec s l with Some s' => exec_all s' tl | None => None end
  end.

(** events the harness can log around the public API (ordered by one SeqCst counter):
    - [ESpawn w k]  thread w (0 = root callback, k>0 = task k) is about to call [scope.spawn] for
                    the task the harness numbered k;
    - [EStart k]    first statement of task k's closure;
    - [EEnd w p]    last statement of w's closure (p: it is about to panic);
    - [EReturn r]   [pool.scope] came back to its caller (r: by unwinding). *)
Inductive ev := ESpawn (w k : nat) | EStart (k : nat) | EEnd (w : nat) (p : bool) | EReturn (r : bool).

Definition ev_labels (s : st) (e : ev) : list label :=
  match e with
  | ESpawn w k => [LExpect w k; LEnqueue w k]
  | EStart k => [LStart k]
  | EEnd w false => [LBodyOk w; LComplete w]
  | EEnd w true => [LBodyPanic w; LRecord w; LComplete w]
  | EReturn _ => match caller s with Wait => [LRecv; LReturn] | _ => [LReturn] end
  end.

Fixpoint replay (s : st) (es : list ev) : option st :=
  match es with
  | [] => Some s
  | e :: tl =>
      match exec_all s (ev_labels s e) with
      | Some s' =>
          match e with
          | EReturn r => if Bool.eqb r (reported s') then replay s' tl else None
          | _ => replay s' tl
          end
      | None => None
      end
  end.

Definition is_ret (c : wpc) : bool := match c with Ret => true | _ => false end.

(** a case = the event log of one scope of a real run; it checks iff every observed event is an
    enabled sequence of model steps and the log ends with the scope having returned *)
Definition check_case (es : list ev) : bool :=
  match replay init es with
  | Some s => is_ret (caller s)
  | None => false
  end.
