(** Executable model of [radix_sort_slice_by_value] (core-relations/src/hash_index/mod.rs).
    Definitions only; proofs are in Index/RadixProofs.v and Index/RadixArray.v.

    Two levels:
    - [bucket_pass] : one stable distribution pass stated functionally (concatenate, for the digits
      0..255 in order, the elements having that digit, each group in input order);
    - [array_pass]  : the pass as the code performs it - 256 counters ([u32], checked), exclusive
      prefix sums, and a scatter writing each element at its bucket's next free position of the
      destination buffer (Index/RadixArray.v proves it equal to [bucket_pass]).
    The pass count is a parameter ([passes_for]); [radix_sort] instantiates it with the
    definition regenerated from the source ([gen/PureFns.v], [radix_passes_for]). *)
From Coq Require Import List NArith Bool.
Import ListNotations.
Require Import Verif.Base.Res Verif.Index.Prelude Verif.gen.PureFns.
Local Open Scope N_scope.

(** [(v >> (pass * 8)) & 0xFF] *)
Definition digit (k : N) (v : N) : N := N.land (N.shiftr v (k * 8)) 255.

Definition digits256 : list N := map N.of_nat (seq 0 256).

(** functional statement of a stable distribution on digit [k] (digits are computed once) *)
Definition bucket_pass (k : N) (l : list vr) : list vr :=
  let tagged := map (fun p => (digit k (fst p), p)) l in
  flat_map (fun d => map snd (filter (fun tp => fst tp =? d) tagged)) digits256.

Fixpoint bucket_passes (p : nat) (k : N) (l : list vr) : list vr :=
  match p with
  | O => l
  | S p' => bucket_passes p' (k + 1) (bucket_pass k l)
  end.

(** the single scan at the top: largest value, and "already in ascending value order" *)
Definition max_val (l : list vr) : N := fold_left (fun m p => N.max m (fst p)) l 0.

Fixpoint vals_sorted_from (prev : N) (l : list vr) : bool :=
  match l with
  | [] => true
  | p :: tl => (prev <=? fst p) && vals_sorted_from (fst p) tl
  end.

(** [data.sort_unstable()] on the tuples: any correct sort returns the same list (the order is
    total and antisymmetric on pairs, see [sorted_perm_unique]); insertion sort is the model *)
Fixpoint lex_insert (x : vr) (l : list vr) : list vr :=
  match l with
  | [] => [x]
  | y :: tl => if vr_leb x y then x :: l else y :: lex_insert x tl
  end.
Definition lex_sort (l : list vr) : list vr := fold_right lex_insert [] l.

Definition radix_sort_buckets_with (passes_for : N -> N) (l : list vr) : list vr :=
  if (ulen_vr l <? 64) then lex_sort l
  else if vals_sorted_from 0 l then l
  else bucket_passes (N.to_nat (passes_for (max_val l))) 0 l.

Definition radix_sort_buckets : list vr -> list vr := radix_sort_buckets_with radix_passes_for.

(* ---------------------------------------------------------------------------------------- *)
(** ** The array level *)

Definition u32_max : N := 4294967295.

Fixpoint set_nth_opt {A} (l : list A) (i : nat) (v : A) : option (list A) :=
  match l, i with
  | [], _ => None
  | _ :: tl, O => Some (v :: tl)
  | h :: tl, S i' => match set_nth_opt tl i' v with Some tl' => Some (h :: tl') | None => None end
  end.

Definition aget {A} (l : list A) (i : N) : Res A :=
  match nth_error l (N.to_nat i) with Some v => Ok v | None => Panic end.
Definition aset {A} (l : list A) (i : N) (v : A) : Res (list A) :=
  match set_nth_opt l (N.to_nat i) v with Some l' => Ok l' | None => Panic end.

(** [count[bucket] += 1] on a [u32] counter *)
Definition incr_u32 (c : N) : Res N := if c + 1 <=? u32_max then Ok (c + 1) else Panic.

Fixpoint count_digits (k : N) (src : list vr) (count : list N) : Res (list N) :=
  match src with
  | [] => Ok count
  | p :: tl =>
      let b := digit k (fst p) in
      bind (aget count b) (fun c => bind (incr_u32 c) (fun c' => bind (aset count b c') (fun count' =>
      count_digits k tl count')))
  end.

(** exclusive prefix sums: [let prev = *c; *c = prefix; prefix += prev] *)
Fixpoint excl_prefix (prefix : N) (count : list N) : Res (list N) :=
  match count with
  | [] => Ok []
  | c :: tl =>
      bind (if prefix + c <=? u32_max then Ok (prefix + c) else Panic) (fun prefix' =>
      bind (excl_prefix prefix' tl) (fun tl' => Ok (prefix :: tl')))
  end.

(** [dst[count[bucket]] = pair; count[bucket] += 1] *)
Fixpoint scatter (k : N) (src : list vr) (count : list N) (dst : list vr) : Res (list vr) :=
  match src with
  | [] => Ok dst
  | p :: tl =>
      let b := digit k (fst p) in
      bind (aget count b) (fun c => bind (aset dst c p) (fun dst' => bind (incr_u32 c) (fun c' =>
      bind (aset count b c') (fun count' => scatter k tl count' dst'))))
  end.

Definition array_pass (k : N) (src dst : list vr) : Res (list vr) :=
  bind (count_digits k src (repeat 0 256)) (fun count =>
  bind (excl_prefix 0 count) (fun starts => scatter k src starts dst)).

(** the pass loop with the two ping-pong buffers; returns the final [src] (which the code copies
    back into [data] when the number of passes is odd, and which IS [data] when it is even) *)
Fixpoint array_passes (p : nat) (k : N) (src dst : list vr) : Res (list vr) :=
  match p with
  | O => Ok src
  | S p' =>
      (* [let shift = pass * 8; .. >> shift] on a [u32]: a shift by 32 or more is an overflow *)
      if (k * 8 <? 32) then
        bind (array_pass k src dst) (fun dst' => array_passes p' (k + 1) dst' src)
      else Panic
  end.

(** [radix_sort_slice_by_value(data, scratch)]: the new contents of [data] *)
Definition radix_sort_with (passes_for : N -> N) (data scratch : list vr) : Res (list vr) :=
  if (ulen_vr data <? 64) then Ok (lex_sort data)
  else if vals_sorted_from 0 data then Ok data
  else
    (* [&mut scratch[..n]] *)
    if (ulen_vr data <=? ulen_vr scratch) then
      array_passes (N.to_nat (passes_for (max_val data))) 0 data (firstn (length data) scratch)
    else Panic.

Definition radix_sort : list vr -> list vr -> Res (list vr) := radix_sort_with radix_passes_for.
