(** C16: the abstract specification -- a plain map from key to the latest merged row, with
    pending queues that are applied at merge (removals first, then inserts in staging order,
    each insert combined with the current row of its key by the table's merge function). *)
From Coq Require Import List Arith PeanoNat Bool.
Import ListNotations.
Require Import Verif.Base.Res Verif.Base.Cases Verif.Table.Model.

Definition smap := key -> option row.
Definition sempty : smap := fun _ => None.
Definition supd (m : smap) (k : key) (r : row) : smap := fun k' => if keyb k' k then Some r else m k'.
Definition sdel (m : smap) (k : key) : smap := fun k' => if keyb k' k then None else m k'.

Definition s_insert (c : cfg) (mf : row -> row -> option row) (m : smap) (q : row) : smap :=
  match m (key_of c q) with
  | Some cur => match mf cur q with Some r => supd m (key_of c q) r | None => m end
  | None => supd m (key_of c q) q
  end.

Record Spec := mkS { sm : smap; s_ins : list row; s_rem : list key }.
Definition s_init : Spec := mkS sempty [] [].

Definition s_step (c : cfg) mf (s : Spec) (o : op) : Spec :=
  match o with
  | OIns r => mkS (sm s) (s_ins s ++ [r]) (s_rem s)
  | ORem k => mkS (sm s) (s_ins s) (s_rem s ++ [k])
  | OMerge => mkS (fold_left (s_insert c mf) (s_ins s) (fold_left sdel (s_rem s) (sm s))) [] []
  | OClear => s_init
  | _ => s
  end.

Fixpoint s_run (c : cfg) mf (s : Spec) (ops : list op) : Spec :=
  match ops with
  | [] => s
  | o :: tl => s_run c mf (s_step c mf s o) tl
  end.

(** the contract of a [MergeFn]: the row it writes has the key of the incoming row, and (for a
    table with a sort column) the incoming row's sort value -- [serial_insert] records
    [query[sort_by]] in [offsets] while writing the merged row *)
Definition mf_ok (c : cfg) (mf : row -> row -> option row) : Prop :=
  forall cur q m, mf cur q = Some m ->
    key_of c m = key_of c q /\ (forall sc, sortc c = Some sc -> col m sc = col q sc).

(* ------------------------------------------------------------------------------------------ *)
(** * DisplacedTable: the map from a displaced id to (id, its canonical id, timestamp) *)

Record DSpec := mkDS {
  rep : nat -> nat;                 (* canonical id of every id *)
  drow : nat -> option nat;         (* displaced id -> timestamp at which it was displaced *)
  ds_pend : list (nat * nat * nat) }.

Definition ds_init : DSpec := mkDS (fun x => x) (fun _ => None) [].

(** uniting two classes displaces the larger of the two canonical ids *)
Definition ds_insert (s : DSpec) (w : nat * nat * nat) : DSpec :=
  let '(a, b, ts) := w in
  let ra := rep s a in
  let rb := rep s b in
  if ra =? rb then s
  else mkDS (fun x => if rep s x =? Nat.max ra rb then Nat.min ra rb else rep s x)
            (fun k => if k =? Nat.max ra rb then Some ts else drow s k)
            (ds_pend s).

Definition ds_step (s : DSpec) (o : dop) : DSpec :=
  match o with
  | DIns a b ts => mkDS (rep s) (drow s) (ds_pend s ++ [(a, b, ts)])
  | DMerge => fold_left ds_insert (ds_pend s) (mkDS (rep s) (drow s) [])
  | DClear => ds_init
  | _ => s
  end.

Fixpoint ds_run (s : DSpec) (ops : list dop) : DSpec :=
  match ops with
  | [] => s
  | o :: tl => ds_run (ds_step s o) tl
  end.

Definition ds_get (s : DSpec) (k : nat) : option row :=
  match drow s k with Some ts => Some [k; rep s k; ts] | None => None end.
