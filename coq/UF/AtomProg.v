(** C17 (concurrent half), Tier A: instruction type and interpreter of the *atomic programs* that
    the translator (translator/src/x_ufconc.rs) regenerates from union-find/src/concurrent/uf.rs
    into gen/UFConcFacts.v. Executable definitions only.

    A function is a control-flow graph: a list of instructions addressed by position (entry = 0),
    one node per Rust statement. [ILoad] / [ICas] are the atomic accesses to the parent array
    (`buf[i].load()`, `buf[i].cas(expected, new)`); everything else is thread-local. One *atomic
    step* of a thread ([astep]) = the memory access at its program counter followed by all local
    instructions up to (not including) the next memory access, or up to the return of the
    outermost function. Sequentially consistent memory (the orderings the code passes are
    regenerated as facts and pinned, not interpreted). *)
From Coq Require Import List String Arith Bool.
Import ListNotations.
Require Import Verif.UF.ConcModel.
Open Scope string_scope.

Inductive ordering := Relaxed | Acquire | Release | AcqRel | SeqCst.

Inductive expr :=
| EVar (x : string)
| EMin (a b : expr)
| EMax (a b : expr)
| EBool (b : bool).

Inductive cmp := CmpEq | CmpNe.

Inductive instr :=
| ISet (dst : string) (e : expr) (nx : nat)                 (* dst = e *)
| ILoad (dst : string) (addr : expr) (nx : nat)             (* dst = buf[addr].load() *)
| ICas (addr expected new : expr) (ok err : nat)            (* buf[addr].cas(expected, new) *)
| ICall (dst : string) (callee : string) (args : list expr) (nx : nat)
| IBr (c : cmp) (a b : expr) (yes no : nat)
| IJmp (nx : nat)
| IRet (es : list expr).

Record afn := {
  a_name : string;
  a_params : list string;
  a_need : option expr;      (* with_access(need + 1, ..): capacity demanded before the body runs *)
  a_code : list instr
}.

Definition env := string -> nat.
Definition eset (e : env) (x : string) (v : nat) : env :=
  fun y => if String.eqb y x then v else e y.

Fixpoint eval (e : env) (x : expr) : nat :=
  match x with
  | EVar v => e v
  | EMin a b => Nat.min (eval e a) (eval e b)
  | EMax a b => Nat.max (eval e a) (eval e b)
  | EBool b => if b then 1 else 0
  end.

Definition test (c : cmp) (a b : nat) : bool :=
  match c with CmpEq => Nat.eqb a b | CmpNe => negb (Nat.eqb a b) end.

Record frame := mkframe {
  fr_fn : string;     (* function being executed *)
  fr_pc : nat;
  fr_env : env;
  fr_dst : string     (* variable of the caller that receives the result *)
}.

Fixpoint find_fn (prog : list afn) (name : string) : option afn :=
  match prog with
  | [] => None
  | f :: tl => if String.eqb (a_name f) name then Some f else find_fn tl name
  end.

Fixpoint bind (ps : list string) (vs : list nat) (e : env) : env :=
  match ps, vs with
  | x :: ps', v :: vs' => bind ps' vs' (eset e x v)
  | _, _ => e
  end.

Definition instr_at (prog : list afn) (fr : frame) : option instr :=
  match find_fn prog (fr_fn fr) with
  | Some f => nth_error (a_code f) (fr_pc fr)
  | None => None
  end.

Inductive lres := AtMem (stk : list frame) | Returned (vs : list nat).

(** one local instruction *)
Inductive lstep_res := LCont (stk : list frame) | LStop (r : lres) | LFail.

Definition lstep (prog : list afn) (stk : list frame) : lstep_res :=
  match stk with
  | [] => LFail
  | fr :: rest =>
      let e := fr_env fr in
      match instr_at prog fr with
      | None => LFail
      | Some (ISet d x nx) =>
          LCont (mkframe (fr_fn fr) nx (eset e d (eval e x)) (fr_dst fr) :: rest)
      | Some (ILoad _ _ _) | Some (ICas _ _ _ _ _) => LStop (AtMem stk)
      | Some (ICall d g args nx) =>
          match find_fn prog g with
          | None => LFail
          | Some gf =>
              LCont (mkframe g 0 (bind (a_params gf) (map (eval e) args) (fun _ => 0)) d
                     :: mkframe (fr_fn fr) nx e (fr_dst fr) :: rest)
          end
      | Some (IBr c a b yes no) =>
          LCont (mkframe (fr_fn fr) (if test c (eval e a) (eval e b) then yes else no) e (fr_dst fr)
                 :: rest)
      | Some (IJmp nx) => LCont (mkframe (fr_fn fr) nx e (fr_dst fr) :: rest)
      | Some (IRet es) =>
          let vs := map (eval e) es in
          match rest with
          | [] => LStop (Returned vs)
          | caller :: rest' =>
              LCont (mkframe (fr_fn caller) (fr_pc caller)
                             (eset (fr_env caller) (fr_dst fr) (hd 0 vs)) (fr_dst caller) :: rest')
          end
      end
  end.

(** local instructions up to the next memory access / the outermost return *)
Fixpoint run_local (prog : list afn) (fuel : nat) (stk : list frame) : option lres :=
  match fuel with
  | 0 => None
  | S fuel =>
      match lstep prog stk with
      | LCont stk' => run_local prog fuel stk'
      | LStop r => Some r
      | LFail => None
      end
  end.

(** the memory access at the top frame's program counter *)
Definition mem_step (prog : list afn) (p : nat -> nat) (stk : list frame)
  : option ((nat -> nat) * list frame) :=
  match stk with
  | [] => None
  | fr :: rest =>
      let e := fr_env fr in
      match instr_at prog fr with
      | Some (ILoad d a nx) =>
          Some (p, mkframe (fr_fn fr) nx (eset e d (p (eval e a))) (fr_dst fr) :: rest)
      | Some (ICas a x n ok err) =>
          if Nat.eqb (p (eval e a)) (eval e x)
          then Some (upd p (eval e a) (eval e n), mkframe (fr_fn fr) ok e (fr_dst fr) :: rest)
          else Some (p, mkframe (fr_fn fr) err e (fr_dst fr) :: rest)
      | _ => None
      end
  end.

Definition lfuel : nat := 24.

Definition astep (prog : list afn) (p : nat -> nat) (stk : list frame)
  : option ((nat -> nat) * lres) :=
  match mem_step prog p stk with
  | Some (p', stk') =>
      match run_local prog lfuel stk' with
      | Some r => Some (p', r)
      | None => None
      end
  | None => None
  end.

(** invocation: bind the parameters, run the local prefix *)
Definition start (prog : list afn) (fname : string) (args : list nat) : option lres :=
  match find_fn prog fname with
  | Some f => run_local prog lfuel [mkframe fname 0 (bind (a_params f) args (fun _ => 0)) ""]
  | None => None
  end.

(* ------------------------------------------------------------------------------------------ *)
(** * the multi-threaded system over a program *)

Inductive opcall := OFind (x : nat) | OMerge (l r : nat) | OSame (l r : nat).

Definition op_fn (c : opcall) : string :=
  match c with OFind _ => "find" | OMerge _ _ => "merge" | OSame _ _ => "same_set" end.
Definition op_args (c : opcall) : list nat :=
  match c with OFind x => [x] | OMerge l r => [l; r] | OSame l r => [l; r] end.

Definition resp (c : opcall) (vs : list nat) : option res :=
  match c, vs with
  | OFind x, [r] => Some (RFind x r)
  | OMerge l r, [p; ch] => Some (RMerge l r p ch)
  | OSame l r, [b] => Some (RSame l r (Nat.eqb b 1))
  | _, _ => None
  end.

Record cst := mkc {
  c_par : nat -> nat;
  c_thr : nat -> option (opcall * list frame);     (* None: idle *)
  c_hist : list res                                 (* responses, newest first *)
}.

Definition cinit : cst := mkc (fun x => x) (fun _ => None) [].

Inductive clabel := CInvoke (t : nat) (c : opcall) | CRun (t : nat).

Definition cexec (prog : list afn) (s : cst) (lb : clabel) : option cst :=
  match lb with
  | CInvoke t c =>
      match c_thr s t with
      | Some _ => None
      | None =>
          match start prog (op_fn c) (op_args c) with
          | Some (AtMem stk) => Some (mkc (c_par s) (upd (c_thr s) t (Some (c, stk))) (c_hist s))
          | Some (Returned vs) =>
              match resp c vs with
              | Some r => Some (mkc (c_par s) (c_thr s) (r :: c_hist s))
              | None => None
              end
          | None => None
          end
      end
  | CRun t =>
      match c_thr s t with
      | None => None
      | Some (c, stk) =>
          match astep prog (c_par s) stk with
          | Some (p', AtMem stk') => Some (mkc p' (upd (c_thr s) t (Some (c, stk'))) (c_hist s))
          | Some (p', Returned vs) =>
              match resp c vs with
              | Some r => Some (mkc p' (upd (c_thr s) t None) (r :: c_hist s))
              | None => None
              end
          | None => None
          end
      end
  end.

Inductive creachable (prog : list afn) : cst -> Prop :=
| creach_init : creachable prog cinit
| creach_step s l s' : creachable prog s -> cexec prog s l = Some s' -> creachable prog s'.

Fixpoint cexec_all (prog : list afn) (s : cst) (ls : list clabel) : option cst :=
  match ls with
  | [] => Some s
  | l :: tl => match cexec prog s l with Some s' => cexec_all prog s' tl | None => None end
  end.

(** the arguments of the merges that returned (newest first) *)
Fixpoint merges_of (h : list res) : list (nat * nat) :=
  match h with
  | [] => []
  | RMerge l r _ _ :: tl => (l, r) :: merges_of tl
  | _ :: tl => merges_of tl
  end.
