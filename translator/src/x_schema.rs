//! Extension module (Tier A, C05 / C13). Output: coq/gen/SchemaFns.v
//! Contract: return (text of the .v file, report lines). Each report line is one JSON object
//! {"item":"SchemaFns.<name>","file":"<rust file>","ok":true|false[,"error":"..."]}.
//! Fail closed: when a site is not recognised, OMIT the Gallina definition (so dependent proofs stop
//! compiling) and push an ok:false report line.
//!
//! Items (all read from egglog-bridge/src/lib.rs):
//!  * `SchemaFns.SchemaMath`      struct SchemaMath {subsume, func_cols} and the methods `num_keys`,
//!    `table_columns`, `ret_val_col`, `ts_col`, `subsume_col`, `write_table_row`;
//!  * `SchemaFns.combine_subsumed` the constants SUBSUMED / NOT_SUBSUMED and `combine_subsumed` over N;
//!  * `SchemaFns.to_callback`     the closure returned by `MergeFn::to_callback`, as a function of the
//!    captured `schema_math`, the resolved merge function (parameter `resolved_run`), the execution
//!    state (effect log), the rows `cur`, `new` and the scratch row `out`; it returns
//!    `(changed, state, out)`;
//!  * `SchemaFns.ResolvedMergeFn` the enum as an Inductive (ids / values -> N, Vec<Self> -> list);
//!  * `SchemaFns.run`             `ResolvedMergeFn::run`, arm by arm, as a structural Fixpoint.
//!
//! Translation scheme (statement by statement, everything in `Res`): `let x = e` / mutation is
//! shadowing; the mutable variables in scope (`&mut` parameters and `let mut` locals: the *carried*
//! variables) are returned by every nested block / closure body / branch together with its value and
//! re-bound by the enclosing context, so a block that mutates an outer variable is translated
//! faithfully. `v[i]` -> `rget` (Panic out of bounds), `v[i] = e` -> `rset`, `assert!(c)` -> Panic
//! unless c, `assert_eq!(x, None)` -> Panic unless None, `c.then(|| b)` -> option, calls that take the
//! execution state return `(value, state)`: `state.call_external_func` / `state.stage_insert` /
//! `func.lookup_or_insert` are the prelude functions `State_*` / `TableAction_*` (they append to the
//! effect log and ask the environment oracle), `args.iter().map(|arg| arg.run(A..)).collect()` is a
//! local structural fix that threads the state left to right and calls `ResolvedMergeFn_run arg A..`
//! with the arguments in SOURCE ORDER. usize `+` / `-` are N addition / truncated subtraction (the
//! theorems carry `1 <= func_cols`). Anything else is an error for the item.
use std::cell::Cell;
use std::collections::HashSet;
use std::rc::Rc;
use syn::{spanned::Spanned, BinOp, Expr, FnArg, ImplItem, Item as SynItem, Lit, Pat, Stmt, Type, UnOp};

type R<T> = Result<T, String>;
const FILE: &str = "egglog-bridge/src/lib.rs";

fn err<T, S: Spanned>(s: &S, msg: &str) -> R<T> {
    Err(format!("line {}: {}", s.span().start().line, msg))
}

fn coq_name(s: &str) -> String {
    match s {
        "self" => "self_".into(),
        "fuel" | "bind" | "fun" | "end" | "in" | "let" | "match" | "with" | "if" | "then" | "else" | "as" | "at"
        | "return" | "fix" | "forall" | "exists" | "Type" | "Prop" | "Set" | "env" | "rget" | "rset" | "tt" => {
            format!("{s}_v")
        }
        _ => s.to_string(),
    }
}

fn path_last(p: &syn::Path) -> String {
    p.segments.last().map(|s| s.ident.to_string()).unwrap_or_default()
}

fn path_is(e: &Expr, name: &str) -> bool {
    matches!(e, Expr::Path(p) if p.path.segments.len() == 1 && p.path.segments[0].ident == name)
}

fn ident_of(e: &Expr) -> Option<String> {
    match e {
        Expr::Path(p) if p.path.segments.len() == 1 => Some(p.path.segments[0].ident.to_string()),
        Expr::Reference(r) => ident_of(&r.expr),
        Expr::Paren(p) => ident_of(&p.expr),
        _ => None,
    }
}

#[derive(Clone)]
struct Cx {
    /// mutable variables in scope, in declaration order
    carried: Vec<String>,
    /// type of `self` ("SchemaMath", "ResolvedMergeFn" or "")
    self_ty: &'static str,
    /// variables of type SchemaMath other than self
    sm_vars: Vec<String>,
    /// the local that holds the resolved merge function (closure of to_callback)
    resolved: Option<String>,
    /// the ExecutionState variable
    state: Option<String>,
    /// SchemaMath methods whose translation is in Res
    res_methods: Rc<HashSet<String>>,
    /// all SchemaMath methods translated so far
    sm_methods: Rc<HashSet<String>>,
    /// parameter order of write_table_row after (self, row): the fields of its RowVals pattern
    wtr_fields: Rc<Vec<String>>,
    tmp: Rc<Cell<usize>>,
    /// immutable locals that shadow a carried variable: (source name, generated name)
    renames: Vec<(String, String)>,
}

impl Cx {
    fn rn(&self, id: &str) -> String {
        match self.renames.iter().rev().find(|r| r.0 == id) {
            Some(r) => r.1.clone(),
            None => coq_name(id),
        }
    }
    /// the expression is a mutable variable in scope (and not hidden by a shadowing let)
    fn carried_var(&self, e: &Expr) -> Option<String> {
        let id = ident_of(e)?;
        if self.carried.contains(&id) && !self.renames.iter().any(|r| r.0 == id) {
            Some(id)
        } else {
            None
        }
    }
    fn fresh(&self) -> String {
        let n = self.tmp.get();
        self.tmp.set(n + 1);
        format!("t{n}_")
    }
    fn is_sm(&self, e: &Expr) -> Option<String> {
        let id = ident_of(e)?;
        if (id == "self" && self.self_ty == "SchemaMath") || self.sm_vars.contains(&id) {
            Some(coq_name(&id))
        } else {
            None
        }
    }
}

fn tup(first: &str, carried: &[String]) -> String {
    let mut s = first.to_string();
    for c in carried {
        s.push_str(", ");
        s.push_str(&coq_name(c));
    }
    s
}
fn ok(val: &str, carried: &[String]) -> String {
    if carried.is_empty() {
        format!("Ok {val}")
    } else {
        format!("Ok ({})", tup(val, carried))
    }
}
fn pat(name: &str, carried: &[String]) -> String {
    if carried.is_empty() {
        name.to_string()
    } else {
        format!("'({})", tup(name, carried))
    }
}

/// pure expressions: Ok(None) = not a pure expression (the caller tries `bind_expr`)
fn atom(e: &Expr, cx: &Cx) -> R<Option<String>> {
    Ok(Some(match e {
        Expr::Paren(p) => return atom(&p.expr, cx),
        Expr::Group(g) => return atom(&g.expr, cx),
        Expr::Reference(r) => return atom(&r.expr, cx),
        Expr::Unary(u) => match u.op {
            UnOp::Deref(_) => return atom(&u.expr, cx),
            UnOp::Not(_) => match atom(&u.expr, cx)? {
                Some(a) => format!("(negb {a})"),
                None => return Ok(None),
            },
            _ => return err(e, "unsupported unary operator"),
        },
        Expr::Path(p) => {
            if p.path.segments.len() != 1 {
                return err(e, "unsupported path expression");
            }
            cx.rn(&p.path.segments[0].ident.to_string())
        }
        Expr::Lit(l) => match &l.lit {
            Lit::Int(i) => i.base10_digits().to_string(),
            Lit::Bool(b) => b.value.to_string(),
            _ => return err(e, "unsupported literal"),
        },
        Expr::Array(a) => {
            let mut xs = Vec::new();
            for x in &a.elems {
                match atom(x, cx)? {
                    Some(t) => xs.push(t),
                    None => return err(x, "array element is not a pure expression"),
                }
            }
            format!("[{}]", xs.join("; "))
        }
        Expr::Field(f) => {
            let fname = match &f.member {
                syn::Member::Named(i) => i.to_string(),
                _ => return err(e, "tuple field"),
            };
            match cx.is_sm(&f.base) {
                Some(v) if fname == "subsume" || fname == "func_cols" => format!("(sm_{fname} {v})"),
                _ => return err(e, "unsupported field access"),
            }
        }
        Expr::Binary(b) => {
            let op = match b.op {
                BinOp::Add(_) => "+",
                BinOp::Sub(_) => "-",
                BinOp::Eq(_) => "=?",
                BinOp::Ne(_) => "<>?",
                _ => return Ok(None),
            };
            let (l, r) = match (atom(&b.left, cx)?, atom(&b.right, cx)?) {
                (Some(l), Some(r)) => (l, r),
                _ => return Ok(None),
            };
            match op {
                "=?" => format!("(N.eqb {l} {r})"),
                "<>?" => format!("(negb (N.eqb {l} {r}))"),
                _ => format!("({l} {op} {r})"),
            }
        }
        Expr::If(i) => {
            // pure conditional: both branches single pure expressions
            let c = match atom(&i.cond, cx) {
                Ok(Some(c)) => c,
                _ => return Ok(None),
            };
            let single = |b: &syn::Block| -> Option<Expr> {
                if b.stmts.len() == 1 {
                    if let Stmt::Expr(x, None) = &b.stmts[0] {
                        return Some(x.clone());
                    }
                }
                None
            };
            let (t, f) = match (&i.else_branch, single(&i.then_branch)) {
                (Some((_, eb)), Some(t)) => match &**eb {
                    Expr::Block(bb) => match single(&bb.block) {
                        Some(f) => (t, f),
                        None => return Ok(None),
                    },
                    _ => return Ok(None),
                },
                _ => return Ok(None),
            };
            match (atom(&t, cx)?, atom(&f, cx)?) {
                (Some(t), Some(f)) => format!("(if {c} then {t} else {f})"),
                _ => return Ok(None),
            }
        }
        Expr::Call(c) => {
            let fname = match &*c.func {
                Expr::Path(p) => p.path.segments.iter().map(|s| s.ident.to_string()).collect::<Vec<_>>().join("::"),
                _ => return err(e, "unsupported callee"),
            };
            let mut args = Vec::new();
            for a in &c.args {
                match atom(a, cx)? {
                    Some(t) => args.push(t),
                    None => return Ok(None),
                }
            }
            match (fname.as_str(), args.len()) {
                ("Some", 1) => format!("(Some {})", args[0]),
                ("std::cmp::min", 2) | ("cmp::min", 2) => format!("(N.min {} {})", args[0], args[1]),
                ("std::cmp::max", 2) | ("cmp::max", 2) => format!("(N.max {} {})", args[0], args[1]),
                ("combine_subsumed", 2) => format!("(combine_subsumedN {} {})", args[0], args[1]),
                ("Value::new_const", 1) => args[0].clone(),
                _ => return err(e, &format!("unsupported call {fname}/{}", args.len())),
            }
        }
        Expr::MethodCall(m) => {
            let name = m.method.to_string();
            if name == "clone" && m.args.is_empty() {
                return atom(&m.receiver, cx);
            }
            if let Some(v) = cx.is_sm(&m.receiver) {
                if m.args.is_empty() && cx.sm_methods.contains(&name) && !cx.res_methods.contains(&name) {
                    return Ok(Some(format!("(SchemaMath_{name} {v})")));
                }
            }
            return Ok(None);
        }
        _ => return Ok(None),
    }))
}

fn atoms(args: impl Iterator<Item = impl std::borrow::Borrow<Expr>>, cx: &Cx) -> R<Vec<String>> {
    let mut v = Vec::new();
    for a in args {
        let a = a.borrow();
        match atom(a, cx)? {
            Some(t) => v.push(t),
            None => return err(a, "argument is not a pure expression"),
        }
    }
    Ok(v)
}

/// evaluate `e` to an atom (binding a temporary when it is not pure), then continue with `k`
fn with_atom(e: &Expr, cx: &Cx, k: impl FnOnce(String) -> R<String>) -> R<String> {
    if let Some(a) = atom(e, cx)? {
        return k(a);
    }
    let t = cx.fresh();
    let rest = k(t.clone())?;
    bind_expr(e, &t, cx, rest)
}

/// the body of a closure / a branch, as a term of type Res (value * carried)
fn value_block(e: &Expr, cx: &Cx) -> R<String> {
    match e {
        Expr::Block(b) => tr_stmts(&b.block.stmts, cx.clone(), &cx.carried),
        Expr::Closure(c) => {
            if !c.inputs.is_empty() {
                return err(e, "closure with parameters");
            }
            value_block(&c.body, cx)
        }
        _ => {
            let t = cx.fresh();
            bind_expr(e, &t, cx, ok(&t, &cx.carried))
        }
    }
}

fn block_value(b: &syn::Block, cx: &Cx) -> R<String> {
    tr_stmts(&b.stmts, cx.clone(), &cx.carried)
}

/// an effectful call: Some(term of type Res (value * state))
fn state_call(e: &Expr, cx: &Cx) -> R<Option<String>> {
    let m = match e {
        Expr::MethodCall(m) => m,
        Expr::Paren(p) => return state_call(&p.expr, cx),
        _ => return Ok(None),
    };
    let name = m.method.to_string();
    let st = match &cx.state {
        Some(s) => s.clone(),
        None => return Ok(None),
    };
    let recv = ident_of(&m.receiver);
    if name == "run" && recv.is_some() && recv == cx.resolved {
        let a = atoms(m.args.iter(), cx)?;
        return Ok(Some(format!("(resolved_run {})", a.join(" "))));
    }
    if (name == "call_external_func" || name == "stage_insert") && recv.as_deref() == Some(st.as_str()) {
        let a = atoms(m.args.iter(), cx)?;
        let envp = if name == "call_external_func" { "env " } else { "" };
        return Ok(Some(format!("(State_{name} {envp}{} {})", coq_name(&st), a.join(" "))));
    }
    if name == "lookup_or_insert" {
        let r = match atom(&m.receiver, cx)? {
            Some(r) => r,
            None => return err(e, "receiver of lookup_or_insert"),
        };
        let a = atoms(m.args.iter(), cx)?;
        return Ok(Some(format!("(TableAction_lookup_or_insert env {r} {})", a.join(" "))));
    }
    if name == "collect" && m.args.is_empty() {
        // args.iter().map(|arg| arg.run(A..)).collect::<Vec<_>>()
        if let Expr::MethodCall(mp) = &*m.receiver {
            if mp.method == "map" && mp.args.len() == 1 {
                if let (Expr::MethodCall(it), Expr::Closure(cl)) = (&*mp.receiver, &mp.args[0]) {
                    if it.method == "iter" && it.args.is_empty() && cl.inputs.len() == 1 {
                        let list = match atom(&it.receiver, cx)? {
                            Some(l) => l,
                            None => return err(e, "iterated expression"),
                        };
                        let var = match &cl.inputs[0] {
                            Pat::Ident(pi) => pi.ident.to_string(),
                            _ => return err(e, "closure parameter"),
                        };
                        if let Expr::MethodCall(rc) = &*cl.body {
                            if rc.method == "run" && path_is(&rc.receiver, &var) && cx.self_ty == "ResolvedMergeFn" {
                                let a = atoms(rc.args.iter(), cx)?;
                                if a.first().map(|s| s.as_str()) != Some(coq_name(&st).as_str()) {
                                    return err(e, "first argument of the recursive run must be the state");
                                }
                                let rest_args = a[1..].join(" ");
                                let s = coq_name(&st);
                                return Ok(Some(format!(
                                    "((fix run_args_ (l_ : list ResolvedMergeFn) ({s} : list effect) {{struct l_}} : Res (list N * list effect) :=\n        match l_ with\n        | [] => Ok ([], {s})\n        | {v} :: tl_ =>\n            bind (ResolvedMergeFn_run env {v} {s} {rest_args}) (fun '(v_, {s}) =>\n            bind (run_args_ tl_ {s}) (fun '(vs_, {s}) => Ok (v_ :: vs_, {s})))\n        end) {list} {s})",
                                    v = coq_name(&var)
                                )));
                            }
                        }
                    }
                }
            }
        }
        return err(e, "unsupported collect(..) shape");
    }
    Ok(None)
}

fn opt_match(scrut: &str, some_var: &str, some_body: &str, none_body: &str) -> String {
    format!("match {scrut} with\n    | Some {some_var} => {some_body}\n    | None => {none_body}\n    end")
}

/// code that evaluates `e`, binds its value to `name` (re-binding the carried variables it may have
/// changed) and continues with `rest`
fn bind_expr(e: &Expr, name: &str, cx: &Cx, rest: String) -> R<String> {
    if let Some(a) = atom(e, cx)? {
        return Ok(format!("let {name} := {a} in\n  {rest}"));
    }
    if let Some(call) = state_call(e, cx)? {
        let st = vec![cx.state.clone().unwrap()];
        return Ok(format!("bind {call} (fun {} =>\n  {rest})", pat(name, &st)));
    }
    let carried = &cx.carried;
    match e {
        Expr::Paren(p) => bind_expr(&p.expr, name, cx, rest),
        Expr::Index(ix) => {
            let row = match atom(&ix.expr, cx)? {
                Some(r) => r,
                None => return err(e, "indexed expression"),
            };
            with_atom(&ix.index, cx, |i| Ok(format!("bind (rget {row} {i}) (fun {name} =>\n  {rest})")))
        }
        Expr::Block(b) => {
            let body = block_value(&b.block, cx)?;
            Ok(format!("bind ({body}) (fun {} =>\n  {rest})", pat(name, carried)))
        }
        Expr::If(i) => {
            let then_b = block_value(&i.then_branch, cx)?;
            let else_b = match &i.else_branch {
                None => ok("tt", carried),
                Some((_, eb)) => match &**eb {
                    Expr::Block(bb) => block_value(&bb.block, cx)?,
                    _ => return err(e, "else-if"),
                },
            };
            let sel = match &*i.cond {
                Expr::Let(l) => {
                    let (ctor, var) = match &*l.pat {
                        Pat::TupleStruct(ts) if ts.elems.len() == 1 => match &ts.elems[0] {
                            Pat::Ident(pi) => (path_last(&ts.path), pi.ident.to_string()),
                            _ => return err(e, "if-let pattern"),
                        },
                        _ => return err(e, "if-let pattern"),
                    };
                    if ctor != "Some" {
                        return err(e, "if-let on something else than Some");
                    }
                    let scrut = match atom(&l.expr, cx)? {
                        Some(s) => s,
                        None => return err(e, "if-let scrutinee"),
                    };
                    opt_match(&scrut, &coq_name(&var), &then_b, &else_b)
                }
                c => match atom(c, cx)? {
                    Some(c) => format!("if {c} then ({then_b}) else ({else_b})"),
                    None => return err(e, "condition is not a pure expression"),
                },
            };
            Ok(format!("bind ({sel}) (fun {} =>\n  {rest})", pat(name, carried)))
        }
        Expr::Match(m) => {
            let call = match state_call(&m.expr, cx)? {
                Some(c) => c,
                None => return err(e, "match scrutinee"),
            };
            let (mut some_arm, mut none_arm) = (None, None);
            for arm in &m.arms {
                if arm.guard.is_some() {
                    return err(arm, "match guard");
                }
                match &arm.pat {
                    Pat::TupleStruct(ts) if path_last(&ts.path) == "Some" && ts.elems.len() == 1 => match &ts.elems[0] {
                        Pat::Ident(pi) => some_arm = Some((pi.ident.to_string(), value_block(&arm.body, cx)?)),
                        _ => return err(arm, "pattern"),
                    },
                    Pat::Ident(pi) if pi.ident == "None" => none_arm = Some(value_block(&arm.body, cx)?),
                    Pat::Path(p) if path_last(&p.path) == "None" => none_arm = Some(value_block(&arm.body, cx)?),
                    _ => return err(arm, "pattern"),
                }
            }
            let ((sv, sb), nb) = match (some_arm, none_arm) {
                (Some(s), Some(n)) if m.arms.len() == 2 => (s, n),
                _ => return err(e, "match must have exactly the arms Some(x) and None"),
            };
            let st = vec![cx.state.clone().unwrap()];
            let t = cx.fresh();
            Ok(format!(
                "bind {call} (fun {} =>\n  bind ({}) (fun {} =>\n  {rest}))",
                pat(&t, &st),
                opt_match(&t, &coq_name(&sv), &sb, &nb),
                pat(name, carried)
            ))
        }
        Expr::MethodCall(m) => {
            let mname = m.method.to_string();
            match mname.as_str() {
                "then" if m.args.len() == 1 => {
                    let c = match atom(&m.receiver, cx)? {
                        Some(c) => c,
                        None => return err(e, "receiver of then"),
                    };
                    let body = value_block(&m.args[0], cx)?;
                    let v = cx.fresh();
                    Ok(format!(
                        "bind (if {c} then bind ({body}) (fun {} => {}) else {}) (fun {} =>\n  {rest})",
                        pat(&v, carried),
                        ok(&format!("(Some {v})"), carried),
                        ok("None", carried),
                        pat(name, carried)
                    ))
                }
                "unwrap_or_else" if m.args.len() == 1 => {
                    let call = match state_call(&m.receiver, cx)? {
                        Some(c) => c,
                        None => return err(e, "receiver of unwrap_or_else"),
                    };
                    let body = value_block(&m.args[0], cx)?;
                    let st = vec![cx.state.clone().unwrap()];
                    let (t, v) = (cx.fresh(), cx.fresh());
                    Ok(format!(
                        "bind {call} (fun {} =>\n  bind ({}) (fun {} =>\n  {rest}))",
                        pat(&t, &st),
                        opt_match(&t, &v, &ok(&v, carried), &body),
                        pat(name, carried)
                    ))
                }
                "extend_from_slice" if m.args.len() == 1 => {
                    let v = match cx.carried_var(&m.receiver) {
                        Some(v) => coq_name(&v),
                        _ => return err(e, "extend_from_slice on something that is not a mutable row"),
                    };
                    let a = atoms(m.args.iter(), cx)?;
                    Ok(format!("let {v} := ({v} ++ {}) in\n  let {name} := tt in\n  {rest}", a[0]))
                }
                "resize_with" if m.args.len() == 2 => {
                    let v = match cx.carried_var(&m.receiver) {
                        Some(v) => coq_name(&v),
                        _ => return err(e, "resize_with on something that is not a mutable row"),
                    };
                    let n = atoms(std::iter::once(&m.args[0]), cx)?;
                    let fill = match &m.args[1] {
                        Expr::Closure(c) if c.inputs.is_empty() => match atom(&c.body, cx)? {
                            Some(f) => f,
                            None => return err(e, "fill closure"),
                        },
                        _ => return err(e, "fill closure"),
                    };
                    Ok(format!("let {v} := resize_with {v} {} {fill} in\n  let {name} := tt in\n  {rest}", n[0]))
                }
                "write_table_row" if m.args.len() == 2 => {
                    let sm = match cx.is_sm(&m.receiver) {
                        Some(s) => s,
                        None => return err(e, "receiver of write_table_row"),
                    };
                    let row = match cx.carried_var(&m.args[0]) {
                        Some(v) => coq_name(&v),
                        _ => return err(e, "row argument of write_table_row must be a mutable row in scope"),
                    };
                    let lit = match &m.args[1] {
                        Expr::Struct(s) if path_last(&s.path) == "RowVals" && s.rest.is_none() => s,
                        _ => return err(e, "second argument of write_table_row must be a RowVals literal"),
                    };
                    if cx.wtr_fields.is_empty() || lit.fields.len() != cx.wtr_fields.len() {
                        return err(e, "RowVals fields do not match write_table_row");
                    }
                    let mut args = Vec::new();
                    for f in cx.wtr_fields.iter() {
                        let fv = lit.fields.iter().find(|fv| matches!(&fv.member, syn::Member::Named(i) if i == f));
                        match fv {
                            Some(fv) => match atom(&fv.expr, cx)? {
                                Some(a) => args.push(a),
                                None => return err(e, "RowVals field is not a pure expression"),
                            },
                            None => return err(e, &format!("RowVals field {f} missing")),
                        }
                    }
                    Ok(format!(
                        "bind (SchemaMath_write_table_row {sm} {row} {}) (fun {row} =>\n  let {name} := tt in\n  {rest})",
                        args.join(" ")
                    ))
                }
                _ => {
                    if let Some(v) = cx.is_sm(&m.receiver) {
                        if m.args.is_empty() && cx.res_methods.contains(&mname) {
                            return Ok(format!("bind (SchemaMath_{mname} {v}) (fun {name} =>\n  {rest})"));
                        }
                    }
                    err(e, &format!("unsupported method call .{mname}(..)"))
                }
            }
        }
        _ => err(e, "unsupported expression"),
    }
}

fn macro_args(mac: &syn::Macro) -> R<Vec<Expr>> {
    mac.parse_body_with(syn::punctuated::Punctuated::<Expr, syn::Token![,]>::parse_terminated)
        .map(|p| p.into_iter().collect())
        .map_err(|e| format!("macro arguments: {e}"))
}

fn tr_macro(mac: &syn::Macro, cx: &Cx, rest: String) -> R<String> {
    let name = path_last(&mac.path);
    let args = macro_args(mac)?;
    match name.as_str() {
        "assert" if !args.is_empty() => match atom(&args[0], cx)? {
            Some(c) => Ok(format!("if {c} then\n  {rest}\n  else Panic")),
            None => err(mac, "assert! condition"),
        },
        "assert_eq" if args.len() == 2 && path_is(&args[1], "None") => match atom(&args[0], cx)? {
            Some(x) => Ok(format!("match {x} with None =>\n  {rest}\n  | Some _ => Panic end")),
            None => err(mac, "assert_eq! argument"),
        },
        _ => err(mac, &format!("unsupported macro {name}!")),
    }
}

/// statements of a block -> term of type Res (value * ret_carried)
fn tr_stmts(stmts: &[Stmt], cx: Cx, ret_carried: &[String]) -> R<String> {
    let (first, tail) = match stmts.split_first() {
        Some(x) => x,
        None => return Ok(ok("tt", ret_carried)),
    };
    let last = tail.is_empty();
    match first {
        Stmt::Local(l) => {
            let (name, is_mut) = match &l.pat {
                Pat::Ident(pi) if pi.subpat.is_none() && pi.by_ref.is_none() => (pi.ident.to_string(), pi.mutability.is_some()),
                _ => return err(l, "unsupported let pattern"),
            };
            let init = match &l.init {
                Some(i) if i.diverge.is_none() => &i.expr,
                _ => return err(l, "let without initialiser / let-else"),
            };
            let mut cx2 = cx.clone();
            let mut bound = coq_name(&name);
            if cx2.carried.contains(&name) {
                // a new immutable binding hides a carried variable of the same name until the end of
                // the block: it gets a fresh generated name, the carried variable keeps its own
                if is_mut {
                    return err(l, "let mut shadows a mutable variable");
                }
                bound = format!("{}{}_", name, cx.tmp.get());
                cx.tmp.set(cx.tmp.get() + 1);
                cx2.renames.push((name.clone(), bound.clone()));
            } else if is_mut {
                cx2.carried.push(name.clone());
            } else {
                cx2.renames.retain(|r| r.0 != name);
            }
            if cx.resolved.as_deref() == Some(name.as_str()) {
                return err(l, "rebinding of the resolved merge function");
            }
            let rest = tr_stmts(tail, cx2, ret_carried)?;
            bind_expr(init, &bound, &cx, rest)
        }
        Stmt::Macro(sm) => {
            let rest = tr_stmts(tail, cx.clone(), ret_carried)?;
            tr_macro(&sm.mac, &cx, rest)
        }
        Stmt::Expr(Expr::Macro(em), _) => {
            let rest = tr_stmts(tail, cx.clone(), ret_carried)?;
            tr_macro(&em.mac, &cx, rest)
        }
        Stmt::Expr(e, semi) => {
            if last && semi.is_none() {
                // the value of the block
                if let Some(a) = atom(e, &cx)? {
                    return Ok(ok(&a, ret_carried));
                }
                let t = cx.fresh();
                return bind_expr(e, &t, &cx, ok(&t, ret_carried));
            }
            // x |= e
            if let Expr::Binary(b) = e {
                if let BinOp::BitOrAssign(_) = b.op {
                    let v = match cx.carried_var(&b.left) {
                        Some(v) => coq_name(&v),
                        _ => return err(e, "|= on something that is not a mutable variable in scope"),
                    };
                    let rest = tr_stmts(tail, cx.clone(), ret_carried)?;
                    return with_atom(&b.right, &cx, |r| Ok(format!("let {v} := orb {v} {r} in\n  {rest}")));
                }
            }
            if let Expr::Assign(a) = e {
                let rest = tr_stmts(tail, cx.clone(), ret_carried)?;
                match &*a.left {
                    Expr::Index(ix) => {
                        let v = match cx.carried_var(&ix.expr) {
                            Some(v) => coq_name(&v),
                            _ => return err(e, "indexed assignment to something that is not a mutable row in scope"),
                        };
                        let val = match atom(&a.right, &cx)? {
                            Some(x) => x,
                            None => return err(e, "assigned value is not a pure expression"),
                        };
                        return with_atom(&ix.index, &cx, |i| Ok(format!("bind (rset {v} {i} {val}) (fun {v} =>\n  {rest})")));
                    }
                    l => {
                        let v = match cx.carried_var(l) {
                            Some(v) => coq_name(&v),
                            _ => return err(e, "assignment to something that is not a mutable variable in scope"),
                        };
                        return with_atom(&a.right, &cx, |r| Ok(format!("let {v} := {r} in\n  {rest}")));
                    }
                }
            }
            // if c { return e; }
            if let Expr::If(i) = e {
                if i.else_branch.is_none() && i.then_branch.stmts.len() == 1 {
                    let ret = match &i.then_branch.stmts[0] {
                        Stmt::Expr(Expr::Return(r), _) => Some(r),
                        _ => None,
                    };
                    if let Some(r) = ret {
                        let c = match atom(&i.cond, &cx)? {
                            Some(c) => c,
                            None => return err(e, "condition"),
                        };
                        let v = match &r.expr {
                            Some(x) => match atom(x, &cx)? {
                                Some(a) => a,
                                None => return err(e, "returned value is not a pure expression"),
                            },
                            None => "tt".to_string(),
                        };
                        // `return` leaves the function: only allowed where the block's carried set is the function's
                        if cx.carried != ret_carried {
                            return err(e, "early return inside a nested scope");
                        }
                        let rest = tr_stmts(tail, cx.clone(), ret_carried)?;
                        return Ok(format!("if {c} then {} else\n  {rest}", ok(&v, ret_carried)));
                    }
                }
            }
            if let Expr::Return(_) = e {
                return err(e, "unsupported return");
            }
            let rest = if last { ok("tt", ret_carried) } else { tr_stmts(tail, cx.clone(), ret_carried)? };
            bind_expr(e, "_", &cx, rest)
        }
        Stmt::Item(_) => err(first, "nested item"),
    }
}

// ------------------------------------------------------------------------------------------ items

fn find_method<'a>(file: &'a syn::File, ty: &str, name: &str) -> Option<&'a syn::ImplItemFn> {
    for it in &file.items {
        if let SynItem::Impl(im) = it {
            if im.trait_.is_some() {
                continue;
            }
            let tn = match &*im.self_ty {
                Type::Path(tp) => path_last(&tp.path),
                _ => continue,
            };
            if tn != ty {
                continue;
            }
            for ii in &im.items {
                if let ImplItem::Fn(f) = ii {
                    if f.sig.ident == name {
                        return Some(f);
                    }
                }
            }
        }
    }
    None
}

fn base_cx() -> Cx {
    Cx {
        carried: vec![],
        self_ty: "",
        sm_vars: vec![],
        resolved: None,
        state: None,
        res_methods: Rc::new(HashSet::new()),
        sm_methods: Rc::new(HashSet::new()),
        wtr_fields: Rc::new(vec![]),
        tmp: Rc::new(Cell::new(0)),
        renames: vec![],
    }
}

fn contains_effect(b: &syn::Block) -> bool {
    struct V(bool);
    impl<'ast> syn::visit::Visit<'ast> for V {
        fn visit_macro(&mut self, _m: &'ast syn::Macro) {
            self.0 = true;
        }
        fn visit_expr_index(&mut self, _i: &'ast syn::ExprIndex) {
            self.0 = true;
        }
    }
    let mut v = V(false);
    syn::visit::Visit::visit_block(&mut v, b);
    v.0
}

struct SmOut {
    text: String,
    res_methods: HashSet<String>,
    sm_methods: HashSet<String>,
    wtr_fields: Vec<String>,
}

fn gen_schema_math(file: &syn::File) -> R<SmOut> {
    // the struct itself: exactly {subsume: bool, func_cols: usize}
    let st = file
        .items
        .iter()
        .find_map(|it| match it {
            SynItem::Struct(s) if s.ident == "SchemaMath" => Some(s),
            _ => None,
        })
        .ok_or("struct SchemaMath not found")?;
    let fields: Vec<(String, String)> = match &st.fields {
        syn::Fields::Named(n) => n
            .named
            .iter()
            .map(|f| {
                (
                    f.ident.as_ref().unwrap().to_string(),
                    match &f.ty {
                        Type::Path(tp) => path_last(&tp.path),
                        _ => "?".into(),
                    },
                )
            })
            .collect(),
        _ => return Err("SchemaMath is not a struct with named fields".into()),
    };
    if fields != vec![("subsume".to_string(), "bool".to_string()), ("func_cols".to_string(), "usize".to_string())] {
        return Err(format!("SchemaMath fields changed: {fields:?}"));
    }
    let mut text = String::from("(* struct SchemaMath { subsume: bool, func_cols: usize } is the Record of Egg/SchemaPrelude.v *)\n\n");
    let mut res_methods = HashSet::new();
    let mut sm_methods = HashSet::new();
    for name in ["num_keys", "table_columns", "ret_val_col", "ts_col", "subsume_col"] {
        let f = find_method(file, "SchemaMath", name).ok_or(format!("SchemaMath::{name} not found"))?;
        if f.sig.inputs.len() != 1 || !matches!(f.sig.inputs[0], FnArg::Receiver(_)) {
            return Err(format!("SchemaMath::{name}: unexpected signature"));
        }
        let is_res = contains_effect(&f.block);
        let mut cx = base_cx();
        cx.self_ty = "SchemaMath";
        cx.res_methods = Rc::new(res_methods.clone());
        cx.sm_methods = Rc::new(sm_methods.clone());
        if is_res {
            let body = tr_stmts(&f.block.stmts, cx, &[]).map_err(|e| format!("SchemaMath::{name}: {e}"))?;
            text.push_str(&format!("Definition SchemaMath_{name} (self_ : SchemaMath) : Res N :=\n  {body}.\n\n"));
            res_methods.insert(name.to_string());
        } else {
            let body = match &f.block.stmts[..] {
                [Stmt::Expr(e, None)] => atom(e, &cx).map_err(|e| format!("SchemaMath::{name}: {e}"))?,
                _ => None,
            }
            .ok_or(format!("SchemaMath::{name}: body is not a single pure expression"))?;
            text.push_str(&format!("Definition SchemaMath_{name} (self_ : SchemaMath) : N :=\n  {body}.\n\n"));
        }
        sm_methods.insert(name.to_string());
    }
    // write_table_row(&self, row: &mut impl HasResizeWith<T>, RowVals{..}: RowVals<T>)
    let f = find_method(file, "SchemaMath", "write_table_row").ok_or("SchemaMath::write_table_row not found")?;
    let ins: Vec<&FnArg> = f.sig.inputs.iter().collect();
    if ins.len() != 3 || !matches!(ins[0], FnArg::Receiver(_)) {
        return Err("write_table_row: unexpected signature".into());
    }
    let row = match ins[1] {
        FnArg::Typed(pt) => match (&*pt.pat, &*pt.ty) {
            (Pat::Ident(pi), Type::Reference(r)) if r.mutability.is_some() => pi.ident.to_string(),
            _ => return Err("write_table_row: second parameter must be `row: &mut ..`".into()),
        },
        _ => return Err("write_table_row: second parameter".into()),
    };
    let wtr_fields: Vec<String> = match ins[2] {
        FnArg::Typed(pt) => match &*pt.pat {
            Pat::Struct(ps) if path_last(&ps.path) == "RowVals" && ps.rest.is_none() => {
                let mut v = Vec::new();
                for fp in &ps.fields {
                    match (&fp.member, &*fp.pat) {
                        (syn::Member::Named(m), Pat::Ident(pi)) if *m == pi.ident => v.push(m.to_string()),
                        _ => return Err("write_table_row: RowVals pattern must use field shorthand".into()),
                    }
                }
                v
            }
            _ => return Err("write_table_row: third parameter must be a RowVals pattern".into()),
        },
        _ => return Err("write_table_row: third parameter".into()),
    };
    // field types of RowVals: T or Option<T>
    let rv = file
        .items
        .iter()
        .find_map(|it| match it {
            SynItem::Struct(s) if s.ident == "RowVals" => Some(s),
            _ => None,
        })
        .ok_or("struct RowVals not found")?;
    let mut params = String::new();
    for fld in &wtr_fields {
        let ty = match &rv.fields {
            syn::Fields::Named(n) => n.named.iter().find(|f| f.ident.as_ref().unwrap() == fld).map(|f| &f.ty),
            _ => None,
        }
        .ok_or(format!("RowVals field {fld} not found"))?;
        let cty = match ty {
            Type::Path(tp) if path_last(&tp.path) == "Option" => "option N",
            Type::Path(tp) if path_last(&tp.path) == "T" => "N",
            _ => return Err(format!("RowVals field {fld}: unsupported type")),
        };
        params.push_str(&format!(" ({} : {cty})", coq_name(fld)));
    }
    let mut cx = base_cx();
    cx.self_ty = "SchemaMath";
    cx.res_methods = Rc::new(res_methods.clone());
    cx.sm_methods = Rc::new(sm_methods.clone());
    cx.carried = vec![row.clone()];
    let body = tr_stmts(&f.block.stmts, cx, &[row.clone()]).map_err(|e| format!("write_table_row: {e}"))?;
    text.push_str(&format!(
        "(* returns the row (a `&mut` parameter) *)\nDefinition SchemaMath_write_table_row (self_ : SchemaMath) ({} : list N){params} : Res (list N) :=\n  bind ({body}) (fun '(_, {}) => Ok {}).\n\n",
        coq_name(&row),
        coq_name(&row),
        coq_name(&row)
    ));
    sm_methods.insert("write_table_row".into());
    Ok(SmOut { text, res_methods, sm_methods, wtr_fields })
}

fn gen_combine(file: &syn::File) -> R<String> {
    let mut text = String::new();
    for cname in ["SUBSUMED", "NOT_SUBSUMED"] {
        let c = file
            .items
            .iter()
            .find_map(|it| match it {
                SynItem::Const(c) if c.ident == cname => Some(c),
                _ => None,
            })
            .ok_or(format!("const {cname} not found"))?;
        let v = atom(&c.expr, &base_cx())?.ok_or(format!("const {cname}: not a pure expression"))?;
        text.push_str(&format!("Definition {cname} : N := {v}.\n"));
    }
    let f = file
        .items
        .iter()
        .find_map(|it| match it {
            SynItem::Fn(f) if f.sig.ident == "combine_subsumed" => Some(f),
            _ => None,
        })
        .ok_or("fn combine_subsumed not found")?;
    let mut names = Vec::new();
    for a in &f.sig.inputs {
        match a {
            FnArg::Typed(pt) => match &*pt.pat {
                Pat::Ident(pi) => names.push(coq_name(&pi.ident.to_string())),
                _ => return Err("combine_subsumed: parameter pattern".into()),
            },
            _ => return Err("combine_subsumed: receiver".into()),
        }
    }
    let body = match &f.block.stmts[..] {
        [Stmt::Expr(e, None)] => atom(e, &base_cx())?,
        _ => None,
    }
    .ok_or("combine_subsumed: body is not a single pure expression")?;
    text.push_str(&format!(
        "Definition combine_subsumedN {} : N :=\n  {body}.\n\n",
        names.iter().map(|n| format!("({n} : N)")).collect::<Vec<_>>().join(" ")
    ));
    Ok(text)
}

fn gen_callback(file: &syn::File, sm: &SmOut) -> R<String> {
    let f = find_method(file, "MergeFn", "to_callback").ok_or("MergeFn::to_callback not found")?;
    // parameters: &self, schema_math: SchemaMath, ..
    let mut sm_var = None;
    for a in &f.sig.inputs {
        if let FnArg::Typed(pt) = a {
            if let (Pat::Ident(pi), Type::Path(tp)) = (&*pt.pat, &*pt.ty) {
                if path_last(&tp.path) == "SchemaMath" {
                    sm_var = Some(pi.ident.to_string());
                }
            }
        }
    }
    let sm_var = sm_var.ok_or("to_callback: no SchemaMath parameter")?;
    // body: let resolved = self.resolve(..); Box::new(move |state, cur, new, out| {..})
    let (resolved, closure) = match &f.block.stmts[..] {
        [Stmt::Local(l), Stmt::Expr(Expr::Call(c), None)] => {
            let name = match &l.pat {
                Pat::Ident(pi) => pi.ident.to_string(),
                _ => return err(l, "to_callback: first statement"),
            };
            let ok_init = match &l.init {
                Some(i) => matches!(&*i.expr, Expr::MethodCall(m) if m.method == "resolve" && path_is(&m.receiver, "self")),
                None => false,
            };
            if !ok_init {
                return err(l, "to_callback: expected `let resolved = self.resolve(..)`");
            }
            let is_box = matches!(&*c.func, Expr::Path(p) if p.path.segments.iter().map(|s| s.ident.to_string()).collect::<Vec<_>>() == ["Box", "new"]);
            match (is_box, c.args.first()) {
                (true, Some(Expr::Closure(cl))) if c.args.len() == 1 => (name, cl),
                _ => return err(c, "to_callback: expected Box::new(move |..| {..})"),
            }
        }
        _ => return Err("to_callback: body shape changed".into()),
    };
    let mut ps = Vec::new();
    for p in &closure.inputs {
        match p {
            Pat::Ident(pi) => ps.push(pi.ident.to_string()),
            _ => return err(p, "closure parameter"),
        }
    }
    if ps.len() != 4 {
        return Err("to_callback: the closure must take (state, cur, new, out)".into());
    }
    let mut cx = base_cx();
    cx.sm_vars = vec![sm_var.clone()];
    cx.resolved = Some(resolved);
    cx.state = Some(ps[0].clone());
    cx.carried = vec![ps[0].clone(), ps[3].clone()];
    cx.res_methods = Rc::new(sm.res_methods.clone());
    cx.sm_methods = Rc::new(sm.sm_methods.clone());
    cx.wtr_fields = Rc::new(sm.wtr_fields.clone());
    let rc = cx.carried.clone();
    let body = match &*closure.body {
        Expr::Block(b) => tr_stmts(&b.block.stmts, cx, &rc)?,
        _ => return Err("to_callback: closure body is not a block".into()),
    };
    Ok(format!(
        "(* the closure returned by MergeFn::to_callback: core_relations::MergeFn = Fn(state, cur, new, out) -> bool;\n   result: (changed, {st}, {out}) *)\nDefinition MergeFn_to_callback ({smv} : SchemaMath)\n    (resolved_run : list effect -> N -> N -> N -> Res (N * list effect))\n    ({st} : list effect) ({cur} {new} {out} : list N) : Res (bool * list effect * list N) :=\n  {body}.\n\n",
        smv = coq_name(&sm_var),
        st = coq_name(&ps[0]),
        cur = coq_name(&ps[1]),
        new = coq_name(&ps[2]),
        out = coq_name(&ps[3]),
    ))
}

fn gen_enum(file: &syn::File) -> R<(String, Vec<(String, Vec<String>, bool)>)> {
    let en = file
        .items
        .iter()
        .find_map(|it| match it {
            SynItem::Enum(e) if e.ident == "ResolvedMergeFn" => Some(e),
            _ => None,
        })
        .ok_or("enum ResolvedMergeFn not found")?;
    let cty = |t: &Type| -> R<String> {
        match t {
            Type::Path(tp) => {
                let seg = tp.path.segments.last().unwrap();
                let n = seg.ident.to_string();
                match n.as_str() {
                    "Value" | "ExternalFunctionId" | "TableId" | "TableAction" | "FunctionId" => Ok("N".into()),
                    "Vec" => {
                        if let syn::PathArguments::AngleBracketed(ab) = &seg.arguments {
                            if let Some(syn::GenericArgument::Type(Type::Path(ip))) = ab.args.first() {
                                if path_last(&ip.path) == "ResolvedMergeFn" {
                                    return Ok("list ResolvedMergeFn".into());
                                }
                            }
                        }
                        Err("unsupported Vec field".into())
                    }
                    _ => Err(format!("unsupported field type {n}")),
                }
            }
            _ => Err("unsupported field type".into()),
        }
    };
    let mut text = String::from("Inductive ResolvedMergeFn :=\n");
    let mut variants = Vec::new();
    for v in &en.variants {
        let vname = v.ident.to_string();
        let (fields, named): (Vec<(String, String)>, bool) = match &v.fields {
            syn::Fields::Unit => (vec![], false),
            syn::Fields::Unnamed(u) => {
                let mut fs = Vec::new();
                for (i, f) in u.unnamed.iter().enumerate() {
                    fs.push((format!("x{i}"), cty(&f.ty)?));
                }
                (fs, false)
            }
            syn::Fields::Named(n) => {
                let mut fs = Vec::new();
                for f in &n.named {
                    fs.push((f.ident.as_ref().unwrap().to_string(), cty(&f.ty)?));
                }
                (fs, true)
            }
        };
        text.push_str(&format!(
            "| RMF_{vname}{}\n",
            fields.iter().map(|(n, t)| format!(" ({} : {t})", coq_name(n))).collect::<String>()
        ));
        variants.push((vname, fields.into_iter().map(|(n, _)| n).collect(), named));
    }
    text.pop();
    text.push_str(".\n\n");
    Ok((text, variants))
}

fn gen_run(file: &syn::File, variants: &[(String, Vec<String>, bool)]) -> R<String> {
    let f = find_method(file, "ResolvedMergeFn", "run").ok_or("ResolvedMergeFn::run not found")?;
    let mut params = Vec::new();
    for a in f.sig.inputs.iter().skip(1) {
        match a {
            FnArg::Typed(pt) => match &*pt.pat {
                Pat::Ident(pi) => params.push((pi.ident.to_string(), matches!(&*pt.ty, Type::Reference(r) if r.mutability.is_some()))),
                _ => return err(a, "run: parameter pattern"),
            },
            _ => return err(a, "run: parameter"),
        }
    }
    if params.len() != 4 || !params[0].1 || params[1..].iter().any(|p| p.1) {
        return Err("run: expected (&self, state: &mut ExecutionState, cur, new, ts)".into());
    }
    let m = match &f.block.stmts[..] {
        [Stmt::Expr(Expr::Match(m), None)] if path_is(&m.expr, "self") => m,
        _ => return Err("run: body is not `match self {..}`".into()),
    };
    let mut cx = base_cx();
    cx.self_ty = "ResolvedMergeFn";
    cx.state = Some(params[0].0.clone());
    cx.carried = vec![params[0].0.clone()];
    let mut arms = String::new();
    let mut seen = HashSet::new();
    for arm in &m.arms {
        if arm.guard.is_some() {
            return err(arm, "run: match guard");
        }
        let (path, binders): (&syn::Path, Vec<(Option<String>, String)>) = match &arm.pat {
            Pat::Path(p) => (&p.path, vec![]),
            Pat::Ident(pi) => return err(pi, "run: catch-all arm"),
            Pat::TupleStruct(ts) => {
                let mut b = Vec::new();
                for e in &ts.elems {
                    match e {
                        Pat::Ident(pi) => b.push((None, pi.ident.to_string())),
                        _ => return err(e, "run: arm pattern"),
                    }
                }
                (&ts.path, b)
            }
            Pat::Struct(ps) => {
                if ps.rest.is_some() {
                    return err(ps, "run: `..` in an arm pattern");
                }
                let mut b = Vec::new();
                for fp in &ps.fields {
                    match (&fp.member, &*fp.pat) {
                        (syn::Member::Named(m), Pat::Ident(pi)) => b.push((Some(m.to_string()), pi.ident.to_string())),
                        _ => return err(fp, "run: arm pattern"),
                    }
                }
                (&ps.path, b)
            }
            p => return err(p, "run: arm pattern"),
        };
        let vname = path_last(path);
        let (_, vfields, named) = variants.iter().find(|v| v.0 == vname).ok_or(format!("run: unknown variant {vname}"))?;
        if binders.len() != vfields.len() {
            return err(arm, "run: arm does not bind every field");
        }
        let mut names = Vec::new();
        if *named {
            for vf in vfields {
                let b = binders.iter().find(|b| b.0.as_deref() == Some(vf.as_str())).ok_or(format!("run: field {vf} not bound"))?;
                names.push(coq_name(&b.1));
            }
        } else {
            names = binders.iter().map(|b| coq_name(&b.1)).collect();
        }
        seen.insert(vname.clone());
        let body = value_block(&arm.body, &cx).map_err(|e| format!("run, arm {vname}: {e}"))?;
        arms.push_str(&format!("  | RMF_{vname}{} =>\n  {body}\n", names.iter().map(|n| format!(" {n}")).collect::<String>()));
    }
    if seen.len() != variants.len() {
        return Err("run: not every variant has an arm".into());
    }
    let p = |i: usize| coq_name(&params[i].0);
    Ok(format!(
        "Fixpoint ResolvedMergeFn_run (env : menv) (self_ : ResolvedMergeFn) ({} : list effect) ({} {} {} : N) {{struct self_}}\n  : Res (N * list effect) :=\n  match self_ with\n{arms}  end.\n\n",
        p(0),
        p(1),
        p(2),
        p(3)
    ))
}

pub fn generate(repo: &std::path::Path) -> (String, Vec<String>) {
    let mut rep = Vec::new();
    let mut out = String::from(
        "(* GENERATED by /verif/translator (x_schema.rs) from egglog-bridge/src/lib.rs; do not edit *)\nFrom Coq Require Import List NArith Bool.\nImport ListNotations.\nRequire Import Verif.Base.Res Verif.Egg.SchemaPrelude.\nLocal Open Scope N_scope.\n\n",
    );
    let report = |rep: &mut Vec<String>, item: &str, r: &Result<(), String>| match r {
        Ok(()) => rep.push(format!("{{\"item\":\"SchemaFns.{item}\",\"file\":\"{FILE}\",\"ok\":true}}")),
        Err(e) => rep.push(format!("{{\"item\":\"SchemaFns.{item}\",\"file\":\"{FILE}\",\"ok\":false,\"error\":{:?}}}", e)),
    };
    let items = ["SchemaMath", "combine_subsumed", "to_callback", "ResolvedMergeFn", "run"];
    let file = match std::fs::read_to_string(repo.join(FILE)).map_err(|e| e.to_string()).and_then(|s| syn::parse_file(&s).map_err(|e| e.to_string())) {
        Ok(f) => f,
        Err(e) => {
            for it in items {
                report(&mut rep, it, &Err(e.clone()));
            }
            return ("(* GENERATED: cannot read / parse egglog-bridge/src/lib.rs *)\n".into(), rep);
        }
    };
    let fail = |out: &mut String, what: &str, e: &str| {
        out.push_str(&format!("(* {what}: translation FAILED: {} *)\n\n", e.replace("*)", "* )")));
    };
    let sm = gen_schema_math(&file);
    match &sm {
        Ok(s) => {
            out.push_str(&s.text);
            report(&mut rep, "SchemaMath", &Ok(()));
        }
        Err(e) => {
            fail(&mut out, "SchemaMath", e);
            report(&mut rep, "SchemaMath", &Err(e.clone()));
        }
    }
    let comb = gen_combine(&file);
    match &comb {
        Ok(t) => {
            out.push_str(t);
            report(&mut rep, "combine_subsumed", &Ok(()));
        }
        Err(e) => {
            fail(&mut out, "combine_subsumed", e);
            report(&mut rep, "combine_subsumed", &Err(e.clone()));
        }
    }
    let cb = match (&sm, &comb) {
        (Ok(s), Ok(_)) => gen_callback(&file, s),
        _ => Err("depends on SchemaMath / combine_subsumed".to_string()),
    };
    match &cb {
        Ok(t) => {
            out.push_str(t);
            report(&mut rep, "to_callback", &Ok(()));
        }
        Err(e) => {
            fail(&mut out, "MergeFn::to_callback", e);
            report(&mut rep, "to_callback", &Err(e.clone()));
        }
    }
    let en = gen_enum(&file);
    match &en {
        Ok((t, _)) => {
            out.push_str(t);
            report(&mut rep, "ResolvedMergeFn", &Ok(()));
        }
        Err(e) => {
            fail(&mut out, "enum ResolvedMergeFn", e);
            report(&mut rep, "ResolvedMergeFn", &Err(e.clone()));
        }
    }
    let run = match &en {
        Ok((_, vs)) => gen_run(&file, vs),
        Err(_) => Err("depends on enum ResolvedMergeFn".to_string()),
    };
    match &run {
        Ok(t) => {
            out.push_str(t);
            report(&mut rep, "run", &Ok(()));
        }
        Err(e) => {
            fail(&mut out, "ResolvedMergeFn::run", e);
            report(&mut rep, "run", &Err(e.clone()));
        }
    }
    (out, rep)
}
