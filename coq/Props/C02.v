(** C02 — A rule run fires for exactly the set of matches of its body.
    This file only pins statements and prints their assumptions.

    Tier A': the query planner (plan.rs) is not modelled. Every single-bag plan it emits is dumped
    (hook H1) and checked per instance by [plan_ok]; the theorems below say what an accepted plan
    guarantees, for ALL databases and ALL run-time stage orders. *)
From Coq Require Import List Arith PeanoNat.
Import ListNotations.
Require Import Verif.Query.Spec Verif.Query.Stages Verif.Query.PlanOk Verif.Query.SpecProofs Verif.Query.Sound.

(** MAIN THEOREM. If the checker accepts the compiled plan [p] for the query [q] then, on every
    database [d] and for every order oracle [ch] (the executor re-sorts the remaining stages at
    run time, possibly differently in every branch), the stage machine of free_join/execute.rs
    ([Intersect] and [FusedIntersect] stages over header-filtered atoms) emits exactly the
    substitutions the nested-loop specification produces: every emitted binding extends to a
    match of the body and every match of the body is emitted — as sets of substitutions
    restricted to the variables the plan binds. *)
Theorem c02_plan_sound : forall q p, plan_ok q p = true ->
  forall (d : db) (ch : chooser),
    (forall s, In s (run_plan ch p d) -> exists t, In t (matches q d) /\ agree (plan_vars p) s t) /\
    (forall t, In t (matches q d) -> exists s, In s (run_plan ch p d) /\ agree (plan_vars p) s t).
Proof. exact plan_ok_sound. Qed.
Print Assumptions c02_plan_sound.

(** ... and the variables the rule's actions read are among them: seen through the action's
    variables, the rule fires for exactly the matches of its body. *)
Theorem c02_plan_sound_out : forall q p, plan_ok q p = true ->
  forall (d : db) (ch : chooser), sem_eq (q_out q) (run_plan ch p d) (matches q d).
Proof. exact plan_ok_sound_out. Qed.
Print Assumptions c02_plan_sound_out.

(** The join plan does not matter: two accepted plans for one query (different strategies,
    different stage orders) fire for the same substitutions on every database. *)
Theorem c02_plan_independent : forall q p1 p2, plan_ok q p1 = true -> plan_ok q p2 = true ->
  forall (d : db) (ch1 ch2 : chooser) s1, In s1 (run_plan ch1 p1 d) ->
    exists s2, In s2 (run_plan ch2 p2 d) /\ agree (q_out q) s1 s2.
Proof. exact plans_agree. Qed.
Print Assumptions c02_plan_independent.

(** What "match" means: the nested loops produce [t] only with one witness row per atom, taken
    from the atom's relation, that satisfies the atom under [t] ... *)
Theorem c02_match_has_witness : forall q d t, In t (matches q d) -> exists ws, witness q d t ws.
Proof. exact matches_sound. Qed.
Print Assumptions c02_match_has_witness.

(** ... and conversely any choice of rows that satisfy every atom's constants and constraints and
    agree with each other on every variable is the witness of a produced substitution. *)
Theorem c02_witness_is_match : forall q d ws,
  Forall2 (local_ok d) (q_atoms q) ws -> pair_consistent (combine (q_atoms q) ws) ->
  exists t, In t (matches q d) /\ witness q d t ws.
Proof. exact matches_complete. Qed.
Print Assumptions c02_witness_is_match.

(** repeated variables, literals, and per-atom constraints (the constant on the subsume column
    that excludes subsumed rows, the semi-naive timestamp bounds) are honoured by every match *)
Theorem c02_repeated_var : forall a t w c c' x,
  row_ok a t w -> In (c, AVar x) (iargs a) -> In (c', AVar x) (iargs a) -> col w c = col w c'.
Proof. exact row_ok_repeated. Qed.
Print Assumptions c02_repeated_var.

Theorem c02_const : forall a t w c k, row_ok a t w -> In (c, AConst k) (iargs a) -> col w c = k.
Proof. exact row_ok_const. Qed.
Print Assumptions c02_const.

Theorem c02_constraint_honoured : forall a t w k, row_ok a t w -> In k (a_cs a) -> cs_ok w k = true.
Proof. exact row_ok_constraint. Qed.
Print Assumptions c02_constraint_honoured.

(* ---------------------------------------------------------------- non-vacuity *)

(** the triangle query with a generic-join plan (three Intersect stages) ... *)
Definition ex_q := mkQuery [mkAtom 0 [AVar 0; AVar 1] []; mkAtom 1 [AVar 1; AVar 2] []; mkAtom 2 [AVar 2; AVar 0] []] [0; 1; 2].
Definition ex_gj := mkPlan [0; 1; 2] []
  [Intersect 0 [mkScan 0 0 []; mkScan 2 1 []]; Intersect 1 [mkScan 0 1 []; mkScan 1 0 []]; Intersect 2 [mkScan 1 1 []; mkScan 2 0 []]].
(** ... and with a free-join plan (a cover scan probing the two other atoms, then an Intersect) *)
Definition ex_fj := mkPlan [0; 1; 2] []
  [Fused 0 [] [(0, 0); (1, 1)] [mkMScan 1 [0] [1] []; mkMScan 2 [1] [0] []]; Intersect 2 [mkScan 1 1 []; mkScan 2 0 []]].
Definition ex_db : db := [[[1; 2]; [1; 3]; [4; 5]]; [[2; 7]; [3; 7]; [5; 9]]; [[7; 1]; [9; 1]]].

Example c02_example_accepts : plan_ok ex_q ex_gj = true /\ plan_ok ex_q ex_fj = true.
Proof. vm_compute. split; reflexivity. Qed.

Example c02_example_runs :
  set_eqb (map (proj [0; 1; 2]) (run_plan ch_last ex_gj ex_db)) (map (proj [0; 1; 2]) (matches ex_q ex_db)) = true /\
  set_eqb (map (proj [0; 1; 2]) (run_plan ch_first ex_fj ex_db)) [[Some 1; Some 2; Some 7]; [Some 1; Some 3; Some 7]] = true.
Proof. vm_compute. split; reflexivity. Qed.

(** the checker is not trivially true: a plan that omits one scan of an Intersect is rejected,
    and it really over-fires (on a database where the omitted atom would have filtered) *)
Definition ex_bad := mkPlan [0; 1; 2] []
  [Intersect 0 [mkScan 0 0 []]; Intersect 1 [mkScan 0 1 []; mkScan 1 0 []]; Intersect 2 [mkScan 1 1 []; mkScan 2 0 []]].
Example c02_example_rejects :
  plan_ok ex_q ex_bad = false /\
  set_eqb (map (proj [0; 1; 2]) (run_plan ch_first ex_bad [[[1; 2]]; [[2; 7]]; [[7; 3]]])) [[Some 1; Some 2; Some 7]] = true /\
  matches ex_q [[[1; 2]]; [[2; 7]]; [[7; 3]]] = [].
Proof. vm_compute. repeat split; reflexivity. Qed.

(** repeated variable inside an atom, a literal, a column constraint, an unread variable:
    R(x, x, 5), S(x, y) with y < 9, action reads x only; the equality of the two columns of R is
    evaluated as a constraint of the first scan, the literal by the header *)
Example c02_example_repeated_const :
  plan_ok (mkQuery [mkAtom 0 [AVar 0; AVar 0; AConst 5] []; mkAtom 1 [AVar 0; AVar 1] [CLtConst 1 9]] [0])
          (mkPlan [0; 1] [mkHeader 0 [CEqConst 2 5]] [Intersect 0 [mkScan 0 0 [CEq 1 0]; mkScan 1 0 [CLtConst 1 9]]]) = true /\
  plan_ok (mkQuery [mkAtom 0 [AVar 0; AVar 0; AConst 5] []; mkAtom 1 [AVar 0; AVar 1] [CLtConst 1 9]] [0])
          (mkPlan [0; 1] [mkHeader 0 [CEqConst 2 5]] [Intersect 0 [mkScan 0 0 []; mkScan 1 0 [CLtConst 1 9]]]) = false.
Proof. vm_compute. split; reflexivity. Qed.

(* ================================================================ decomposed (multi-bag) plans *)
Require Import Verif.gen.PlanFacts Verif.Query.Decomp Verif.Query.DecompProofs.

(** Every bag block of an accepted decomposed plan is an accepted single-bag plan of its block
    query (the atoms the bag owns as written, the sub-atoms it touches weakened to what it enforces,
    the materialisation read by the KeyOnly prologue as one more atom over the message variables):
    on EVERY database - whatever the earlier materialisations contain - and under EVERY run-time
    stage order the block materialises exactly the matches of that query, seen through the
    block's message and value variables. *)
Theorem c02_decomp_block_sound : forall q dp, dplan_ok q dp = true ->
  forall i b, In (i, b) (iblocks dp) ->
  forall (d' : db) (ch : chooser),
    sem_eq (needed b) (run_plan ch (block_plan dp i b) d') (matches (block_query q dp i b) d').
Proof. exact dplan_block_sound. Qed.
Print Assumptions c02_decomp_block_sound.

(** The admissible run-time orders are those of the REGENERATED barrier predicate
    (gen/PlanFacts.v [sort_barrier], from execute.rs sort_plan_by_size): no stage of a bag block
    is a barrier (any order, covered above) ... *)
Theorem c02_decomp_bag_stages_movable : forall q dp, dplan_ok q dp = true ->
  forall i b st, In (i, b) (iblocks dp) -> In st (b_stages b) -> sort_barrier (dstage_kind st) = false.
Proof. exact dplan_bag_stages_movable. Qed.
Print Assumptions c02_decomp_bag_stages_movable.

(** ... and every stage of the result block is one, so the result block (Full, then Value lookups
    keyed by already bound message variables) runs in plan order whatever the order oracle says. *)
Theorem c02_decomp_result_order : forall q dp, dplan_ok q dp = true ->
  forall (d : db) (ch : chooser) (rc rc' : list nat), run_dplan ch rc dp d = run_dplan ch rc' dp d.
Proof. exact dplan_result_order. Qed.
Print Assumptions c02_decomp_result_order.

(** non-vacuity: a plan the real planner produced (two bags, KeyOnly prologue, Full + Value result
    block) is accepted and runs to the matches of the query; the same plan with the result stages
    swapped (Value before its key variable is bound) is rejected and loses every match *)
Definition ex_dq := (mkQuery [mkAtom 2 [AVar 0; AVar 1; AVar 5; AConst 0] []; mkAtom 2 [AVar 1; AVar 2; AVar 6; AVar 7] []; mkAtom 0 [AConst 0; AVar 3; AVar 2; AVar 8] []; mkAtom 1 [AVar 9; AVar 4; AVar 3] []] [2; 3; 6; 7; 8]).
Definition ex_dp := (mkDPlan 3 [2; 2; 0; 1] [mkHeader 2 [CEqConst 0 0]; mkHeader 0 [CEqConst 3 0]; mkHeader 2 [CEqConst 0 0]] [mkBSpec [DPlain (Intersect 2 [mkScan 1 1 []; mkScan 2 2 []]); DPlain (Intersect 3 [mkScan 2 1 []; mkScan 3 2 []]); DPlain (Fused 2 [] [(3, 8)] [])] [2] [3; 8]; mkBSpec [DMat 0 MoKeyOnly [(0, 2)] [mkMScan 1 [1] [0] []; mkMScan 2 [2] [0] []]; DPlain (Intersect 1 [mkScan 0 1 []; mkScan 1 0 []]); DPlain (Fused 1 [] [(2, 6); (3, 7)] [])] [] [2; 6; 7]] [mkRStage 1 MoFull [(0, 2); (1, 6); (2, 7)]; mkRStage 0 (MoValue [2]) [(0, 3); (1, 8)]]).
Definition ex_dp_bad := (mkDPlan 3 [2; 2; 0; 1] [mkHeader 2 [CEqConst 0 0]; mkHeader 0 [CEqConst 3 0]; mkHeader 2 [CEqConst 0 0]] [mkBSpec [DPlain (Intersect 2 [mkScan 1 1 []; mkScan 2 2 []]); DPlain (Intersect 3 [mkScan 2 1 []; mkScan 3 2 []]); DPlain (Fused 2 [] [(3, 8)] [])] [2] [3; 8]; mkBSpec [DMat 0 MoKeyOnly [(0, 2)] [mkMScan 1 [1] [0] []; mkMScan 2 [2] [0] []]; DPlain (Intersect 1 [mkScan 0 1 []; mkScan 1 0 []]); DPlain (Fused 1 [] [(2, 6); (3, 7)] [])] [] [2; 6; 7]] [mkRStage 0 (MoValue [2]) [(0, 3); (1, 8)]; mkRStage 1 MoFull [(0, 2); (1, 6); (2, 7)]]).
Definition ex_dd : db := [[[0; 0; 0; 0]; [3; 2; 1; 0]; [0; 0; 4; 0]; [0; 0; 3; 0]; [0; 0; 4; 1]; [0; 0; 0; 2]; [0; 3; 0; 3]; [0; 0; 0; 3]; [0; 0; 0; 4]]; [[0; 0; 0]; [0; 0; 2]; [0; 2; 2]; [0; 1; 0]; [4; 0; 0]; [1; 1; 0]]; [[0; 0; 0; 0]; [0; 4; 0; 0]; [0; 2; 0; 0]; [0; 0; 4; 0]; [2; 0; 0; 0]; [2; 4; 0; 0]; [1; 0; 0; 0]; [3; 0; 0; 4]; [0; 4; 2; 0]]].

Example c02_decomp_example_accepts :
  dplan_ok ex_dq ex_dp = true /\
  set_eqb (map (proj (q_out ex_dq)) (run_dplan ch_last [] ex_dp ex_dd)) (map (proj (q_out ex_dq)) (matches ex_dq ex_dd)) = true /\
  length (matches ex_dq ex_dd) <> 0.
Proof. vm_compute. repeat split; try reflexivity. discriminate. Qed.

Example c02_decomp_example_rejects :
  dplan_ok ex_dq ex_dp_bad = false /\ run_dplan ch_first [] ex_dp_bad ex_dd = [].
Proof. vm_compute. split; reflexivity. Qed.

(** the regenerated facts the model relies on *)
Example c02_decomp_facts :
  sort_barrier (KFusedIntersectMat MValue) = true /\ sort_barrier (KFusedIntersectMat MLookup) = true /\
  sort_barrier (KFusedIntersectMat MFull) = true /\ sort_barrier (KFusedIntersectMat MKeyOnly) = false /\
  sort_barrier KIntersect = false /\ sort_barrier KFusedIntersect = false /\
  mat_key_part = PMsgVars /\ mat_val_part = PValVars.
Proof. repeat split; reflexivity. Qed.
