"""C15 configuration for bin/check."""

CFG = {
        "tier_a": [],
        "model_targets": ["Syntax/Ast.vo"],
        "proof_targets": ["Props/C15.vo"],
        "harness": [{"bin": "h_syntax", "prefix": "cases_syntax", "timeout": 3000}],
        "trusted": [],
        "theorem_backed": "",
        "link_only": "",
        "assumptions": [],
    }
