//! Extension module (Tier A), owner x-ufconc. Output: coq/gen/UFConcFacts.v
//!
//! Section 1 (C17, concurrent half): the *atomic programs* of `find_impl`, `find`, `merge`,
//! `same_set` of union-find/src/concurrent/uf.rs as control-flow graphs over the instruction type of
//! coq/UF/AtomProg.v (one node per Rust statement: local assignment, atomic load, compare-exchange,
//! call of find_impl, two-way branch, jump, return), plus the memory orderings that
//! union-find/src/concurrent/atomic_int.rs gives to load / store / compare_exchange.
//! Section 2 (C06): cut-off constants and `should_parallelize` of
//! core-relations/src/parallel_heuristics.rs and the queue-then-flush structure of
//! `parallel_insert` (core-relations/src/table/mod.rs).
//!
//! Contract: return (text of the .v file, report lines). Fail closed: when a site is not recognised,
//! OMIT the Gallina definition (so dependent proofs stop compiling) and push an ok:false line.

use quote::ToTokens;
use std::path::Path;
use syn::visit::Visit;

// ------------------------------------------------------------------------------------------------
// CFG construction
// ------------------------------------------------------------------------------------------------

#[derive(Clone, Debug)]
enum Ex {
    Var(String),
    Min(Box<Ex>, Box<Ex>),
    Max(Box<Ex>, Box<Ex>),
    Bool(bool),
}

impl Ex {
    fn coq(&self) -> String {
        match self {
            Ex::Var(v) => format!("EVar \"{v}\""),
            Ex::Min(a, b) => format!("EMin ({}) ({})", a.coq(), b.coq()),
            Ex::Max(a, b) => format!("EMax ({}) ({})", a.coq(), b.coq()),
            Ex::Bool(b) => format!("EBool {b}"),
        }
    }
}

#[derive(Clone, Debug)]
enum In {
    Set(String, Ex, usize),
    Load(String, Ex, usize),
    Cas(Ex, Ex, Ex, usize, usize),
    Call(String, String, Vec<Ex>, usize),
    Br(bool /* true: ==, false: != */, Ex, Ex, usize, usize),
    Jmp(usize),
    Ret(Vec<Ex>),
}

const DEAD: usize = usize::MAX;

struct Cfg {
    nodes: Vec<Option<In>>,
}

fn toks<T: ToTokens>(t: &T) -> String {
    t.to_token_stream().to_string().split_whitespace().collect::<Vec<_>>().join("")
}

fn path_str(p: &syn::Path) -> String {
    p.segments.iter().map(|s| s.ident.to_string()).collect::<Vec<_>>().join("::")
}

/// `#[cfg(egglog_verif)] egglog_concurrency::verif_hooks::perturb(N);` : a no-op unless a
/// perturbation seed is set (hook H5); skipped.
fn is_perturb_hook(attrs: &[syn::Attribute], e: &syn::Expr) -> bool {
    if attrs.len() != 1 || toks(&attrs[0]) != "#[cfg(egglog_verif)]" {
        return false;
    }
    if let syn::Expr::Call(c) = e {
        if let syn::Expr::Path(p) = &*c.func {
            return path_str(&p.path) == "egglog_concurrency::verif_hooks::perturb";
        }
    }
    false
}

fn expr_attrs(e: &syn::Expr) -> &[syn::Attribute] {
    match e {
        syn::Expr::Call(c) => &c.attrs,
        syn::Expr::MethodCall(c) => &c.attrs,
        syn::Expr::Path(c) => &c.attrs,
        syn::Expr::If(c) => &c.attrs,
        syn::Expr::While(c) => &c.attrs,
        syn::Expr::Loop(c) => &c.attrs,
        syn::Expr::Match(c) => &c.attrs,
        syn::Expr::Assign(c) => &c.attrs,
        syn::Expr::Return(c) => &c.attrs,
        syn::Expr::Continue(c) => &c.attrs,
        _ => &[],
    }
}

struct Ctx {
    /// `macro_rules! load` was seen with the expected body
    load_macro: bool,
}

impl Ctx {
    /// pure expression over locals: `x`, `T::as_usize(e)`, `cmp::min(a,b)`, `cmp::max(a,b)`, `true`/`false`
    fn pure(&self, e: &syn::Expr) -> Result<Ex, String> {
        match e {
            syn::Expr::Path(p) if p.path.segments.len() == 1 => Ok(Ex::Var(p.path.segments[0].ident.to_string())),
            syn::Expr::Paren(p) => self.pure(&p.expr),
            syn::Expr::Lit(l) => match &l.lit {
                syn::Lit::Bool(b) => Ok(Ex::Bool(b.value)),
                _ => Err(format!("unsupported literal `{}`", toks(e))),
            },
            syn::Expr::Call(c) => {
                let f = match &*c.func {
                    syn::Expr::Path(p) => path_str(&p.path),
                    _ => return Err(format!("unsupported call `{}`", toks(e))),
                };
                let args: Vec<&syn::Expr> = c.args.iter().collect();
                match (f.as_str(), args.len()) {
                    ("T::as_usize", 1) => self.pure(args[0]),
                    ("cmp::min", 2) => Ok(Ex::Min(Box::new(self.pure(args[0])?), Box::new(self.pure(args[1])?))),
                    ("cmp::max", 2) => Ok(Ex::Max(Box::new(self.pure(args[0])?), Box::new(self.pure(args[1])?))),
                    _ => Err(format!("unsupported pure call `{}`", toks(e))),
                }
            }
            _ => Err(format!("unsupported pure expression `{}`", toks(e))),
        }
    }

    /// `buf[T::as_usize(a)]` -> a
    fn cell(&self, e: &syn::Expr) -> Result<Ex, String> {
        if let syn::Expr::Index(ix) = e {
            if toks(&ix.expr) == "buf" {
                return self.pure(&ix.index);
            }
        }
        Err(format!("not a cell of the parent array: `{}`", toks(e)))
    }

    /// atomic load: `buf[..].load()` or `load!(x)`
    fn as_load(&self, e: &syn::Expr) -> Option<Result<Ex, String>> {
        match e {
            syn::Expr::MethodCall(m) if m.method == "load" && m.args.is_empty() => Some(self.cell(&m.receiver)),
            syn::Expr::Macro(m) if path_str(&m.mac.path) == "load" => {
                if !self.load_macro {
                    return Some(Err("load! used but macro_rules! load not recognised".into()));
                }
                Some(syn::parse2::<syn::Expr>(m.mac.tokens.clone()).map_err(|e| e.to_string()).and_then(|a| self.pure(&a)))
            }
            _ => None,
        }
    }

    /// compare-exchange: `buf[..].cas(expected, new)`
    fn as_cas(&self, e: &syn::Expr) -> Option<Result<(Ex, Ex, Ex), String>> {
        match e {
            syn::Expr::MethodCall(m) if m.method == "cas" && m.args.len() == 2 => Some((|| {
                Ok((self.cell(&m.receiver)?, self.pure(&m.args[0])?, self.pure(&m.args[1])?))
            })()),
            _ => None,
        }
    }

    /// `Self::find_impl(buf, x)`
    fn as_call(&self, e: &syn::Expr) -> Option<Result<(String, Vec<Ex>), String>> {
        if let syn::Expr::Call(c) = e {
            if let syn::Expr::Path(p) = &*c.func {
                let f = path_str(&p.path);
                if let Some(name) = f.strip_prefix("Self::") {
                    let args: Vec<&syn::Expr> = c.args.iter().collect();
                    if args.is_empty() || toks(args[0]) != "buf" {
                        return Some(Err(format!("call `{}`: first argument must be buf", toks(e))));
                    }
                    let mut out = vec![];
                    for a in &args[1..] {
                        match self.pure(a) {
                            Ok(x) => out.push(x),
                            Err(e) => return Some(Err(e)),
                        }
                    }
                    return Some(Ok((name.to_string(), out)));
                }
            }
        }
        None
    }

    fn cond(&self, e: &syn::Expr) -> Result<(bool, Ex, Ex), String> {
        if let syn::Expr::Binary(b) = e {
            let eq = match b.op {
                syn::BinOp::Eq(_) => true,
                syn::BinOp::Ne(_) => false,
                _ => return Err(format!("unsupported condition `{}`", toks(e))),
            };
            return Ok((eq, self.pure(&b.left)?, self.pure(&b.right)?));
        }
        Err(format!("unsupported condition `{}`", toks(e)))
    }
}

impl Cfg {
    fn add(&mut self, i: In) -> usize {
        self.nodes.push(Some(i));
        self.nodes.len() - 1
    }
    fn reserve(&mut self) -> usize {
        self.nodes.push(None);
        self.nodes.len() - 1
    }

    /// `dst = <rhs>` / `let [mut] dst = <rhs>` -> entry label
    fn assign(&mut self, cx: &Ctx, dst: &str, rhs: &syn::Expr, next: usize) -> Result<usize, String> {
        if let Some(r) = cx.as_load(rhs) {
            return Ok(self.add(In::Load(dst.to_string(), r?, next)));
        }
        if let Some(r) = cx.as_cas(rhs) {
            if dst != "_" {
                return Err("result of cas bound to a variable: unsupported".into());
            }
            let (a, e, n) = r?;
            return Ok(self.add(In::Cas(a, e, n, next, next)));
        }
        if let Some(r) = cx.as_call(rhs) {
            let (f, args) = r?;
            return Ok(self.add(In::Call(dst.to_string(), f, args, next)));
        }
        if dst == "_" {
            return Err(format!("`let _ = {}`: unsupported", toks(rhs)));
        }
        Ok(self.add(In::Set(dst.to_string(), cx.pure(rhs)?, next)))
    }

    /// a value in return position -> entry label of `return e`
    fn ret(&mut self, cx: &Ctx, e: Option<&syn::Expr>) -> Result<usize, String> {
        match e {
            None => Ok(self.add(In::Ret(vec![]))),
            Some(syn::Expr::Tuple(t)) => {
                let mut v = vec![];
                for x in &t.elems {
                    v.push(cx.pure(x)?);
                }
                Ok(self.add(In::Ret(v)))
            }
            Some(e) => {
                if let Some(r) = cx.as_call(e) {
                    let (f, args) = r?;
                    let r = self.add(In::Ret(vec![Ex::Var("_ret".into())]));
                    return Ok(self.add(In::Call("_ret".into(), f, args, r)));
                }
                if cx.as_load(e).is_some() || cx.as_cas(e).is_some() {
                    return Err(format!("atomic operation in return position: `{}`", toks(e)));
                }
                let v = cx.pure(e)?;
                Ok(self.add(In::Ret(vec![v])))
            }
        }
    }

    /// statement-like expression (control flow or effect); `next`: where control goes afterwards
    fn stmt_expr(&mut self, cx: &Ctx, e: &syn::Expr, next: usize, lh: Option<usize>) -> Result<usize, String> {
        match e {
            syn::Expr::Assign(a) => {
                let dst = match &*a.left {
                    syn::Expr::Path(p) if p.path.segments.len() == 1 => p.path.segments[0].ident.to_string(),
                    _ => return Err(format!("unsupported assignment target `{}`", toks(&a.left))),
                };
                self.assign(cx, &dst, &a.right, next)
            }
            syn::Expr::While(w) => {
                if w.label.is_some() {
                    return Err("labelled loop".into());
                }
                let (eq, a, b) = cx.cond(&w.cond)?;
                let h = self.reserve();
                let body = self.block(cx, &w.body.stmts, h, Some(h), false)?;
                self.nodes[h] = Some(In::Br(eq, a, b, body, next));
                Ok(h)
            }
            syn::Expr::Loop(l) => {
                if l.label.is_some() {
                    return Err("labelled loop".into());
                }
                let h = self.reserve();
                let body = self.block(cx, &l.body.stmts, h, Some(h), false)?;
                self.nodes[h] = Some(In::Jmp(body));
                Ok(h)
            }
            syn::Expr::If(i) => {
                let (eq, a, b) = cx.cond(&i.cond)?;
                let yes = self.block(cx, &i.then_branch.stmts, next, lh, false)?;
                let no = match &i.else_branch {
                    None => next,
                    Some((_, e)) => match &**e {
                        syn::Expr::Block(b) => self.block(cx, &b.block.stmts, next, lh, false)?,
                        other => self.stmt_expr(cx, other, next, lh)?,
                    },
                };
                Ok(self.add(In::Br(eq, a, b, yes, no)))
            }
            syn::Expr::Match(m) => {
                let (a, ex, n) = match cx.as_cas(&m.expr) {
                    Some(r) => r?,
                    None => return Err(format!("match on something other than a cas: `{}`", toks(&m.expr))),
                };
                if m.arms.len() != 2 {
                    return Err("match on cas: expected exactly the arms Ok(_) and Err(_)".into());
                }
                let mut ok = None;
                let mut err = None;
                for arm in &m.arms {
                    if arm.guard.is_some() {
                        return Err("match arm with guard".into());
                    }
                    let l = self.stmt_expr(cx, &arm.body, next, lh)?;
                    match toks(&arm.pat).as_str() {
                        "Ok(_)" => ok = Some(l),
                        "Err(_)" => err = Some(l),
                        p => return Err(format!("match on cas: unsupported pattern `{p}`")),
                    }
                }
                match (ok, err) {
                    (Some(o), Some(e)) => Ok(self.add(In::Cas(a, ex, n, o, e))),
                    _ => Err("match on cas: expected exactly the arms Ok(_) and Err(_)".into()),
                }
            }
            syn::Expr::Return(r) => self.ret(cx, r.expr.as_deref()),
            syn::Expr::Continue(c) => {
                if c.label.is_some() {
                    return Err("labelled continue".into());
                }
                match lh {
                    Some(h) => Ok(self.add(In::Jmp(h))),
                    None => Err("continue outside of a loop".into()),
                }
            }
            syn::Expr::Block(b) => self.block(cx, &b.block.stmts, next, lh, false),
            other => Err(format!("unsupported statement `{}`", toks(other))),
        }
    }

    /// statements, compiled back to front; `tail_returns`: a trailing value expression is the
    /// function's result
    fn block(&mut self, cx: &Ctx, stmts: &[syn::Stmt], next: usize, lh: Option<usize>, tail_returns: bool) -> Result<usize, String> {
        let mut next = next;
        let n = stmts.len();
        for (k, s) in stmts.iter().enumerate().rev() {
            match s {
                syn::Stmt::Local(l) => {
                    let dst = match &l.pat {
                        syn::Pat::Ident(p) if p.by_ref.is_none() && p.subpat.is_none() => p.ident.to_string(),
                        syn::Pat::Wild(_) => "_".to_string(),
                        p => return Err(format!("unsupported let pattern `{}`", toks(p))),
                    };
                    let init = l.init.as_ref().ok_or("let without initialiser")?;
                    if init.diverge.is_some() {
                        return Err("let-else".into());
                    }
                    next = self.assign(cx, &dst, &init.expr, next)?;
                }
                syn::Stmt::Expr(e, semi) => {
                    if is_perturb_hook(expr_attrs(e), e) {
                        continue;
                    }
                    if !expr_attrs(e).is_empty() {
                        return Err(format!("attribute on statement `{}`", toks(e)));
                    }
                    let is_control = matches!(
                        e,
                        syn::Expr::While(_)
                            | syn::Expr::Loop(_)
                            | syn::Expr::If(_)
                            | syn::Expr::Match(_)
                            | syn::Expr::Return(_)
                            | syn::Expr::Continue(_)
                            | syn::Expr::Assign(_)
                            | syn::Expr::Block(_)
                    );
                    if semi.is_none() && k == n - 1 && !is_control {
                        if !tail_returns {
                            return Err(format!("value expression `{}` in statement position", toks(e)));
                        }
                        next = self.ret(cx, Some(e))?;
                    } else {
                        next = self.stmt_expr(cx, e, next, lh)?;
                    }
                }
                syn::Stmt::Macro(m) => {
                    return Err(format!("macro statement `{}`", toks(&m.mac.path)));
                }
                syn::Stmt::Item(it) => {
                    // only the `load!` helper macro is allowed; checked by the caller
                    if let syn::Item::Macro(mm) = it {
                        if mm.ident.as_ref().map(|i| i == "load").unwrap_or(false) {
                            continue;
                        }
                    }
                    return Err(format!("nested item `{}`", toks(it).chars().take(40).collect::<String>()));
                }
            }
        }
        Ok(next)
    }

    /// renumber reachable nodes in depth-first preorder from `entry` (entry becomes 0)
    fn finish(&self, entry: usize) -> Result<Vec<In>, String> {
        let mut order: Vec<usize> = vec![];
        let mut map = vec![usize::MAX; self.nodes.len()];
        let mut stack = vec![entry];
        while let Some(n) = stack.pop() {
            if n == DEAD {
                continue;
            }
            if map[n] != usize::MAX {
                continue;
            }
            map[n] = order.len();
            order.push(n);
            let succ: Vec<usize> = match self.nodes[n].as_ref().ok_or("unfilled node")? {
                In::Set(_, _, a) | In::Load(_, _, a) | In::Call(_, _, _, a) | In::Jmp(a) => vec![*a],
                In::Cas(_, _, _, a, b) | In::Br(_, _, _, a, b) => vec![*a, *b],
                In::Ret(_) => vec![],
            };
            for s in succ.into_iter().rev() {
                stack.push(s);
            }
        }
        let m = |x: usize| if x == DEAD { 9999 } else { map[x] };
        Ok(order
            .iter()
            .map(|&n| match self.nodes[n].clone().unwrap() {
                In::Set(d, e, a) => In::Set(d, e, m(a)),
                In::Load(d, e, a) => In::Load(d, e, m(a)),
                In::Call(d, f, args, a) => In::Call(d, f, args, m(a)),
                In::Jmp(a) => In::Jmp(m(a)),
                In::Cas(a, e, n2, o, r) => In::Cas(a, e, n2, m(o), m(r)),
                In::Br(q, a, b, y, no) => In::Br(q, a, b, m(y), m(no)),
                In::Ret(v) => In::Ret(v),
            })
            .collect())
    }
}

fn coq_instr(i: &In) -> String {
    match i {
        In::Set(d, e, a) => format!("ISet \"{d}\" ({}) {a}", e.coq()),
        In::Load(d, e, a) => format!("ILoad \"{d}\" ({}) {a}", e.coq()),
        In::Call(d, f, args, a) => format!(
            "ICall \"{d}\" \"{f}\" [{}] {a}",
            args.iter().map(|x| x.coq()).collect::<Vec<_>>().join("; ")
        ),
        In::Jmp(a) => format!("IJmp {a}"),
        In::Cas(a, e, n, o, r) => format!("ICas ({}) ({}) ({}) {o} {r}", a.coq(), e.coq(), n.coq()),
        In::Br(q, a, b, y, n) => format!("IBr {} ({}) ({}) {y} {n}", if *q { "CmpEq" } else { "CmpNe" }, a.coq(), b.coq()),
        In::Ret(v) => format!("IRet [{}]", v.iter().map(|x| x.coq()).collect::<Vec<_>>().join("; ")),
    }
}

fn find_impl_fn<'a>(file: &'a syn::File, name: &str) -> Option<&'a syn::ImplItemFn> {
    for it in &file.items {
        if let syn::Item::Impl(im) = it {
            for ii in &im.items {
                if let syn::ImplItem::Fn(f) = ii {
                    if f.sig.ident == name {
                        return Some(f);
                    }
                }
            }
        }
    }
    None
}

fn params_of(f: &syn::ImplItemFn) -> Result<Vec<String>, String> {
    let mut out = vec![];
    for a in &f.sig.inputs {
        match a {
            syn::FnArg::Receiver(_) => {}
            syn::FnArg::Typed(t) => match &*t.pat {
                syn::Pat::Ident(p) => {
                    let n = p.ident.to_string();
                    if n != "buf" {
                        out.push(n)
                    }
                }
                p => return Err(format!("unsupported parameter pattern `{}`", toks(p))),
            },
        }
    }
    Ok(out)
}

/// one function of uf.rs -> (params, need-expression (capacity = need + 1), code)
fn uf_function(file: &syn::File, name: &str, wrapped: bool) -> Result<(Vec<String>, Option<Ex>, Vec<In>), String> {
    let f = find_impl_fn(file, name).ok_or(format!("fn {name} not found"))?;
    let params = params_of(f)?;
    let mut cx = Ctx { load_macro: false };
    let mut cfg = Cfg { nodes: vec![] };
    if !wrapped {
        // plain body (find_impl): the optional helper macro must be exactly the parent-array load
        for s in &f.block.stmts {
            if let syn::Stmt::Item(syn::Item::Macro(mm)) = s {
                let t = toks(mm);
                if t == "macro_rules!load{($x:expr)=>{buf[T::as_usize($x)].load()};}" {
                    cx.load_macro = true;
                } else {
                    return Err(format!("unexpected macro definition `{t}`"));
                }
            }
        }
        let entry = cfg.block(&cx, &f.block.stmts, DEAD, None, true)?;
        return Ok((params, None, cfg.finish(entry)?));
    }
    // wrapped: [let ..;]* self.data.with_access(<need> + 1, |buf| <body>, T::from_usize)
    let n = f.block.stmts.len();
    if n == 0 {
        return Err("empty body".into());
    }
    let last = match &f.block.stmts[n - 1] {
        syn::Stmt::Expr(e, None) => e,
        _ => return Err("body does not end in self.data.with_access(..)".into()),
    };
    let mc = match last {
        syn::Expr::MethodCall(m) if m.method == "with_access" && toks(&m.receiver) == "self.data" && m.args.len() == 3 => m,
        _ => return Err("body does not end in self.data.with_access(len, |buf| .., T::from_usize)".into()),
    };
    if toks(&mc.args[2]) != "T::from_usize" {
        return Err("with_access: initialiser is not T::from_usize".into());
    }
    let need = match &mc.args[0] {
        syn::Expr::Binary(b) if matches!(b.op, syn::BinOp::Add(_)) && toks(&b.right) == "1" => cx.pure(&b.left)?,
        e => return Err(format!("with_access: length `{}` is not `<e> + 1`", toks(e))),
    };
    let clo = match &mc.args[1] {
        syn::Expr::Closure(c) => c,
        _ => return Err("with_access: second argument is not a closure".into()),
    };
    if clo.inputs.len() != 1 || toks(&clo.inputs[0]) != "buf" {
        return Err("with_access: closure parameter is not `buf`".into());
    }
    let body_entry = match &*clo.body {
        syn::Expr::Block(b) => cfg.block(&cx, &b.block.stmts, DEAD, None, true)?,
        e => cfg.ret(&cx, Some(e))?,
    };
    // the `let`s in front of with_access are local computations
    let entry = cfg.block(&cx, &f.block.stmts[..n - 1], body_entry, None, false)?;
    Ok((params, Some(need), cfg.finish(entry)?))
}

fn orderings(repo: &Path) -> Result<String, String> {
    let rel = "union-find/src/concurrent/atomic_int.rs";
    let src = std::fs::read_to_string(repo.join(rel)).map_err(|e| e.to_string())?;
    let file = syn::parse_file(&src).map_err(|e| e.to_string())?;
    let mut consts = std::collections::BTreeMap::new();
    for it in &file.items {
        if let syn::Item::Const(c) = it {
            let v = toks(&c.expr);
            let v = v.strip_prefix("Ordering::").ok_or(format!("const {} is not an Ordering::", c.ident))?.to_string();
            if !["Relaxed", "Acquire", "Release", "AcqRel", "SeqCst"].contains(&v.as_str()) {
                return Err(format!("unknown ordering {v}"));
            }
            consts.insert(c.ident.to_string(), v);
        }
    }
    // every impl of AtomicInt must pass exactly these constants
    let mut impls = 0;
    for it in &file.items {
        if let syn::Item::Impl(im) = it {
            if im.trait_.as_ref().map(|t| path_str(&t.1) == "AtomicInt").unwrap_or(false) {
                impls += 1;
                for ii in &im.items {
                    if let syn::ImplItem::Fn(f) = ii {
                        let body = toks(&f.block);
                        let want = match f.sig.ident.to_string().as_str() {
                            "load" => Some("{self.load(LOAD_ORDERING)}"),
                            "store" => Some("{self.store(value,STORE_ORDERING);}"),
                            "cas" => Some("{self.compare_exchange(current,new,CAS_SUCCESS_ORDERING,CAS_FAILURE_ORDERING)}"),
                            _ => None,
                        };
                        if let Some(w) = want {
                            if body != w {
                                return Err(format!("AtomicInt::{} for {}: body `{}` is not `{}`", f.sig.ident, toks(&im.self_ty), body, w));
                            }
                        }
                    }
                }
            }
        }
    }
    if impls == 0 {
        return Err("no impl of AtomicInt found".into());
    }
    let get = |k: &str| consts.get(k).cloned().ok_or(format!("const {k} not found"));
    Ok(format!(
        "(* {rel}: {impls} impls of AtomicInt, all of load/store/cas pass these constants *)\nDefinition uf_load_ordering : ordering := {}.\nDefinition uf_store_ordering : ordering := {}.\nDefinition uf_cas_success_ordering : ordering := {}.\nDefinition uf_cas_failure_ordering : ordering := {}.\n",
        get("LOAD_ORDERING")?,
        get("STORE_ORDERING")?,
        get("CAS_SUCCESS_ORDERING")?,
        get("CAS_FAILURE_ORDERING")?
    ))
}

fn uf_section(repo: &Path, out: &mut String, rep: &mut Vec<String>) {
    let rel = "union-find/src/concurrent/uf.rs";
    let mut push = |name: &str, file: &str, r: Result<String, String>, out: &mut String| match r {
        Ok(t) => {
            out.push_str(&t);
            out.push('\n');
            rep.push(format!("{{\"item\":\"UFConcFacts.{name}\",\"file\":\"{file}\",\"ok\":true}}"));
        }
        Err(e) => {
            out.push_str(&format!("(* {name}: FAILED: {} *)\n\n", e.replace("*)", "* )")));
            rep.push(format!("{{\"item\":\"UFConcFacts.{name}\",\"file\":\"{file}\",\"ok\":false,\"error\":{:?}}}", e));
        }
    };
    let parsed = std::fs::read_to_string(repo.join(rel))
        .map_err(|e| e.to_string())
        .and_then(|s| syn::parse_file(&s).map_err(|e| e.to_string()));
    let mut ok_all = true;
    for (name, wrapped) in [("find_impl", false), ("find", true), ("merge", true), ("same_set", true)] {
        let r = parsed.clone().and_then(|f| uf_function(&f, name, wrapped)).map(|(params, need, code)| {
            let mut t = format!("(* {rel}: fn {name} *)\nDefinition uf_{name}_fn : afn := {{|\n  a_name := \"{name}\";\n  a_params := [{}];\n  a_need := {};\n  a_code := [\n",
                params.iter().map(|p| format!("\"{p}\"")).collect::<Vec<_>>().join("; "),
                match &need { Some(e) => format!("Some ({})", e.coq()), None => "None".to_string() });
            for (k, i) in code.iter().enumerate() {
                t.push_str(&format!("    (* {k:2} *) {}{}\n", coq_instr(i), if k + 1 < code.len() { ";" } else { "" }));
            }
            t.push_str("  ]\n|}.\n");
            t
        });
        if r.is_err() {
            ok_all = false;
        }
        push(&format!("uf_{name}_fn"), rel, r, out);
    }
    if ok_all {
        out.push_str("Definition uf_prog : list afn := [uf_find_impl_fn; uf_find_fn; uf_merge_fn; uf_same_set_fn].\n\n");
    }
    push("uf_orderings", "union-find/src/concurrent/atomic_int.rs", orderings(repo), out);
}

// ------------------------------------------------------------------------------------------------
// C06 section: see `par_section`
// ------------------------------------------------------------------------------------------------

#[allow(dead_code)]
struct Dummy;
impl<'ast> Visit<'ast> for Dummy {}

pub fn generate(repo: &Path) -> (String, Vec<String>) {
    let mut out = String::from(
        "(* GENERATED by /verif/translator (x_ufconc.rs) on every run; do not edit *)\nFrom Coq Require Import List String.\nImport ListNotations.\nRequire Import Verif.UF.AtomProg.\nOpen Scope string_scope.\n\n(* ---- section 1: atomic programs of the concurrent union-find ---- *)\n\n",
    );
    let mut rep = vec![];
    uf_section(repo, &mut out, &mut rep);
    (out, rep)
}
