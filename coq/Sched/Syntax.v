(** C10: data types shared by the translated schedule interpreter (gen/SchedFns.v) and the
    hand-written development: the modelled part of [RunReport] (egglog-reports/src/lib.rs) and the
    schedule language ([GenericSchedule], src/ast/mod.rs:369-374, spans dropped).  No proofs. *)
From Coq Require Import List Bool Arith PeanoNat.
Import ListNotations.

(** [RunReport]: the three fields that drive control flow.  [I] is the type of an
    [IterationReport]; the per-rule / per-ruleset timing and match-count maps are additive
    bookkeeping that no branch reads and are not modelled. *)
Record RunReport (I : Type) : Type := mkReport {
  iterations : list I;
  updated : bool;
  can_stop : bool }.
Arguments mkReport {I} _ _ _.
Arguments iterations {I} _.
Arguments updated {I} _.
Arguments can_stop {I} _.

Definition set_iterations {I} (r : RunReport I) (v : list I) : RunReport I := mkReport v (updated r) (can_stop r).
Definition set_updated {I} (r : RunReport I) (v : bool) : RunReport I := mkReport (iterations r) v (can_stop r).
Definition set_can_stop {I} (r : RunReport I) (v : bool) : RunReport I := mkReport (iterations r) (updated r) v.

(** [GenericRunConfig { ruleset, until }] *)
Record run_config (R F : Type) : Type := mkConfig { ruleset : R; until : option F }.
Arguments mkConfig {R F} _ _.
Arguments ruleset {R F} _.
Arguments until {R F} _.

(** [GenericSchedule] (constructor order as in the source) *)
Inductive schedule (R F : Type) : Type :=
| Saturate (sched : schedule R F)
| Repeat (limit : nat) (sched : schedule R F)
| Run (config : run_config R F)
| Sequence (scheds : list (schedule R F)).
Arguments Saturate {R F} _.
Arguments Repeat {R F} _ _.
Arguments Run {R F} _.
Arguments Sequence {R F} _.

(** [Ruleset] (src/ast/mod.rs:55-62): rule ids of a plain ruleset, or the names of the
    sub-rulesets of a combined one; the ruleset table is an association list in insertion order
    (the code uses an IndexMap). *)
Inductive ruleset_def : Type :=
| Rules (rules : list nat)
| Combined (sub_rulesets : list nat).

(** association-list view of an [IndexMap<String, _>] keyed by interned names *)
Fixpoint assoc_get {A} (m : list (nat * A)) (k : nat) : option A :=
  match m with
  | [] => None
  | (k', v) :: tl => if Nat.eqb k' k then Some v else assoc_get tl k
  end.
