(** C06: the logical effect of the parallel insertion / rebuild variants as a function of an
    explicit sharding and scheduling oracle, compared with the serial variant.
    Over [Egg/Model.v]'s [tab_insert]/[insert_all] (Egg/Merge.v). *)
From Coq Require Import List Arith ZArith Bool PeanoNat Lia Permutation.
Import ListNotations.
Require Import Verif.Egg.Model Verif.Egg.Merge.

Section Sharding.
  (** any shard function of the KEY (the real one is a hash of the key columns) *)
  Variable h : list val -> nat.

  Definition shard (i : nat) (ws : list row) : list row :=
    filter (fun w => Nat.eqb (h (rargs w)) i) ws.

  Lemma filter_key_shard k i ws :
    filter (fun w => vals_eqb (rargs w) k) (shard i ws)
    = if Nat.eqb (h k) i then filter (fun w => vals_eqb (rargs w) k) ws else [].
  Proof.
    unfold shard. induction ws as [|w ws IH].
    - simpl. destruct (Nat.eqb (h k) i); reflexivity.
    - cbn [filter]. destruct (vals_eqb (rargs w) k) eqn:Ek.
      + assert (Hk : rargs w = k) by (apply vals_eqb_eq; exact Ek). rewrite Hk.
        destruct (Nat.eqb (h k) i) eqn:Ei.
        * cbn [filter]. rewrite Ek. f_equal. exact IH.
        * exact IH.
      + destruct (Nat.eqb (h (rargs w)) i).
        * cbn [filter]. rewrite Ek. exact IH.
        * exact IH.
  Qed.

  (** the writes to key k seen when the shards are processed in ANY order [order] (each shard
      once) are exactly the writes to k in arrival order *)
  Lemma writes_to_sharded k ws : forall order, NoDup order -> In (h k) order ->
    writes_to k (flat_map (fun i => shard i ws) order) = writes_to k ws.
  Proof.
    unfold writes_to. intros order ND Hin. f_equal.
    induction order as [|i order IH]; [destruct Hin|].
    cbn [flat_map]. rewrite filter_app, filter_key_shard.
    inversion ND as [|? ? Hni ND']; subst.
    destruct (Nat.eqb_spec (h k) i) as [E|N].
    - (* the remaining shards contain no row of key k *)
      assert (Z : filter (fun w => vals_eqb (rargs w) k) (flat_map (fun j => shard j ws) order) = []).
      { rewrite <- E in Hni. clear -Hni. induction order as [|j order IH]; [reflexivity|].
        cbn [flat_map]. rewrite filter_app, filter_key_shard.
        destruct (Nat.eqb_spec (h k) j) as [E|_]; [exfalso; apply Hni; left; auto|].
        cbn [app]. apply IH. intro H. apply Hni. right. exact H. }
      rewrite Z, app_nil_r. reflexivity.
    - cbn [app]. apply IH; auto. destruct Hin as [E|H]; [congruence|exact H].
  Qed.

  (** C06 (table merge): pending rows partitioned by a hash of their key, shards processed in
      any order — every key ends with exactly the value the serial merge gives it, for EVERY
      merge function (no algebraic law needed: a key's writes stay in one shard, in order) *)
  Theorem shard_merge_eq_serial m t ws k order : NoDup order -> In (h k) order ->
    tab_get (insert_all m t (flat_map (fun i => shard i ws) order)) k
    = tab_get (insert_all m t ws) k.
  Proof.
    intros ND Hin. rewrite !insert_all_get, writes_to_sharded; auto.
  Qed.

  (** same for the subsumed flag (Egg/Subsume.v states stickiness; here: shard-independence) *)
End Sharding.

(** C06 (rule partition): when the matches of one iteration are split among workers in any way,
    the staged writes arrive in a different order; for a lattice merge the stored value is the
    same (this is [c05_order_irrelevant]); restated here for the multiset of writes *)
Theorem worker_partition_irrelevant m t k (ws ws' : list (list val * Z)) :
  lattice m -> int_table t -> Permutation ws ws' ->
  int_get (insert_all m t (mk_rows ws)) k = int_get (insert_all m t (mk_rows ws')) k.
Proof. exact (c05_order_irrelevant_lemma m t k ws ws'). Qed.
