(** C18 — the regenerated [Matches] methods (gen/MatchesFns.v, translated from src/scheduler.rs on
    every run) REFINE the hand model of [Sched/Scheduler.v] part A: the flat [Vec<Value>] with
    [tuple_width] cells per match is [concat] of the list of tuples the hand model works on. *)
From Coq Require Import List Arith Lia PeanoNat Bool Permutation NArith Sorted.
Import ListNotations.
Require Import Verif.Base.Res Verif.Sched.MatchesPrelude Verif.gen.MatchesFns
  Verif.Sched.Scheduler Verif.Sched.SchedulerProofs.

(* ====================================================================================== *)
(** * flat vectors as [concat] of tuples of width [w] *)

Section Flat.
  Context {A : Type}.
  Variable w : nat.
  Notation wide := (Forall (fun t : list A => length t = w)).

  Lemma length_concat_w (ms : list (list A)) : wide ms -> length (concat ms) = length ms * w.
  Proof.
    induction 1 as [|t r Ht _ IH]; [reflexivity|].
    cbn [concat length]. rewrite app_length, IH, Ht. lia.
  Qed.

  Lemma skipn_app_exact (t r : list A) n : length t = n -> skipn n (t ++ r) = r.
  Proof. intros <-. rewrite skipn_app, skipn_all, Nat.sub_diag. reflexivity. Qed.

  Lemma firstn_app_exact (t r : list A) n : length t = n -> firstn n (t ++ r) = t.
  Proof. intros <-. rewrite firstn_app, firstn_all, Nat.sub_diag. simpl. apply app_nil_r. Qed.

  Lemma skipn_concat (ms : list (list A)) : wide ms -> forall c,
    skipn (c * w) (concat ms) = concat (skipn c ms).
  Proof.
    induction 1 as [|t r Ht _ IH]; intros c.
    - rewrite !skipn_nil. reflexivity.
    - destruct c as [|c]; [reflexivity|].
      cbn [concat skipn]. replace (S c * w) with (w + c * w) by lia.
      rewrite <- (IH c). rewrite skipn_app. rewrite (skipn_all2 t) by lia.
      rewrite Ht. replace (w + c * w - w) with (c * w) by lia. reflexivity.
  Qed.

  Lemma firstn_concat (ms : list (list A)) : wide ms -> forall q,
    firstn (q * w) (concat ms) = concat (firstn q ms).
  Proof.
    induction 1 as [|t r Ht _ IH]; intros q.
    - rewrite !firstn_nil. reflexivity.
    - destruct q as [|q]; [reflexivity|].
      cbn [concat firstn]. replace (S q * w) with (w + q * w) by lia.
      rewrite firstn_app. rewrite (firstn_all2 t) by lia. rewrite Ht.
      replace (w + q * w - w) with (q * w) by lia. rewrite IH. reflexivity.
  Qed.

  Lemma slice_concat (ms : list (list A)) c : wide ms -> c < length ms ->
    slice (concat ms) (c * w) ((c + 1) * w) = Ok (nth c ms []).
  Proof.
    intros Hw Hc. unfold slice.
    rewrite (length_concat_w ms Hw).
    replace (c * w <=? (c + 1) * w) with true by (symmetry; apply Nat.leb_le; nia).
    replace ((c + 1) * w <=? length ms * w) with true by (symmetry; apply Nat.leb_le; nia).
    cbn [andb]. f_equal. replace ((c + 1) * w - c * w) with w by nia.
    rewrite (skipn_concat ms Hw).
    assert (Hn : length (nth c ms []) = w).
    { rewrite Forall_forall in Hw. apply Hw. apply nth_In. exact Hc. }
    destruct (nth_split ms [] (n := c)) as (l1 & l2 & E & L1); [exact Hc|].
    set (t := nth c ms []) in *. rewrite E. rewrite <- L1.
    rewrite skipn_app, skipn_all, Nat.sub_diag. cbn [skipn app concat].
    apply firstn_app_exact. exact Hn.
  Qed.

  Lemma chunks_concat (ms : list (list A)) : 0 < w -> wide ms -> chunks (concat ms) w = Ok ms.
  Proof.
    intros Hw0 Hw. unfold chunks. destruct w as [|w'] eqn:Ew; [lia|]. rewrite <- Ew in *. f_equal.
    assert (G : forall fuel, length ms <= fuel -> chunks_fuel fuel w (concat ms) = ms).
    { clear Ew w'. induction Hw as [|t r Ht Hr IH]; intros fuel Hf.
      - destruct fuel; reflexivity.
      - destruct fuel as [|fuel]; [simpl in Hf; lia|].
        cbn [concat chunks_fuel]. destruct t as [|a t']; [simpl in Ht; lia|].
        cbn [app]. change (a :: t' ++ concat r) with ((a :: t') ++ concat r).
        rewrite (firstn_app_exact _ _ _ Ht), (skipn_app_exact _ _ _ Ht).
        f_equal. apply IH. simpl in Hf. lia. }
    apply G. rewrite (length_concat_w ms Hw). nia.
  Qed.

  (** every vector whose length is a multiple of [w] is such a [concat] *)
  Lemma unflatten : 0 < w -> forall k (m : list A), length m = k * w ->
    exists ms, m = concat ms /\ wide ms /\ length ms = k.
  Proof.
    intros Hw0. induction k as [|k IH]; intros m Hm.
    - exists []. destruct m; [auto|simpl in Hm; lia].
    - destruct (IH (skipn w m)) as (ms & E & Hw & L).
      { rewrite skipn_length. lia. }
      exists (firstn w m :: ms). split; [|split].
      + cbn [concat]. rewrite <- E. symmetry. apply firstn_skipn.
      + constructor; [|exact Hw]. rewrite firstn_length. nia.
      + simpl. lia.
  Qed.
End Flat.

(* ====================================================================================== *)
(** * [sort_unstable(); dedup()] is the increasing enumeration of the chosen indices *)

Lemma insert_nat_in x l y : In y (insert_nat x l) <-> y = x \/ In y l.
Proof.
  induction l as [|z tl IH]; simpl; [intuition|].
  destruct (x <=? z); simpl; [intuition|]. rewrite IH. intuition.
Qed.

Lemma sort_nat_in l y : In y (sort_nat l) <-> In y l.
Proof.
  induction l as [|x tl IH]; simpl; [tauto|]. rewrite insert_nat_in, IH. intuition.
Qed.

Lemma insert_nat_sorted x l : StronglySorted le l -> StronglySorted le (insert_nat x l).
Proof.
  induction 1 as [|z tl Hs IH Hall]; simpl; [repeat constructor|].
  destruct (x <=? z) eqn:E.
  - apply Nat.leb_le in E. constructor; [constructor; assumption|].
    constructor; [exact E|]. eapply Forall_impl; [|exact Hall]. simpl. intros; lia.
  - apply Nat.leb_gt in E. constructor; [exact IH|].
    rewrite Forall_forall in *. intros y Hy. apply insert_nat_in in Hy.
    destruct Hy as [->|Hy]; [lia|auto].
Qed.

Lemma sort_nat_sorted l : StronglySorted le (sort_nat l).
Proof. induction l; simpl; [constructor|]. apply insert_nat_sorted. assumption. Qed.

Lemma dedup_nat_spec l : StronglySorted le l ->
  StronglySorted lt (dedup_nat l) /\ forall y, In y (dedup_nat l) <-> In y l.
Proof.
  induction 1 as [|x tl Hs IH Hall]; [split; [constructor|tauto]|].
  destruct IH as [IH1 IH2]. cbn [dedup_nat].
  destruct tl as [|y tl']; [split; [repeat constructor|tauto]|].
  destruct (x =? y) eqn:E.
  - apply Nat.eqb_eq in E. subst y. split; [exact IH1|].
    intros z. rewrite IH2. simpl. tauto.
  - apply Nat.eqb_neq in E. split.
    + constructor; [exact IH1|]. rewrite Forall_forall. intros z Hz. apply IH2 in Hz.
      rewrite Forall_forall in Hall. pose proof (Hall z Hz) as H1.
      inversion Hs as [|? ? _ Hy]; subst. rewrite Forall_forall in Hy.
      assert (y <= z) by (destruct Hz as [->|Hz]; [lia|auto]).
      pose proof (Hall y (or_introl eq_refl)). lia.
    + intros z. change (In z (x :: dedup_nat (y :: tl'))) with (x = z \/ In z (dedup_nat (y :: tl'))).
      rewrite IH2. simpl. tauto.
Qed.

Lemma sorted_lt_ext : forall l1 l2, StronglySorted lt l1 -> StronglySorted lt l2 ->
  (forall y, In y l1 <-> In y l2) -> l1 = l2.
Proof.
  induction l1 as [|a t1 IH]; intros l2 H1 H2 Hin.
  - destruct l2 as [|b t2]; [reflexivity|]. exfalso. apply (Hin b). left; reflexivity.
  - destruct l2 as [|b t2]; [exfalso; apply (Hin a); left; reflexivity|].
    inversion H1 as [|? ? S1 F1]; inversion H2 as [|? ? S2 F2]; subst.
    rewrite Forall_forall in F1, F2.
    assert (a = b).
    { destruct (proj1 (Hin a) (or_introl eq_refl)) as [->|Ha]; [reflexivity|].
      destruct (proj2 (Hin b) (or_introl eq_refl)) as [->|Hb]; [reflexivity|].
      pose proof (F1 b Hb). pose proof (F2 a Ha). lia. }
    subst b. f_equal. apply IH; auto. intros y. split; intros Hy.
    + destruct (proj1 (Hin y) (or_intror Hy)) as [<-|H]; [|exact H].
      pose proof (F1 a Hy). lia.
    + destruct (proj2 (Hin y) (or_intror Hy)) as [<-|H]; [|exact H].
      pose proof (F2 a Hy). lia.
Qed.

Lemma seq_sorted : forall n a, StronglySorted lt (seq a n).
Proof.
  induction n as [|n IH]; intros a; [constructor|]. cbn [seq]. constructor; [apply IH|].
  rewrite Forall_forall. intros y Hy. apply in_seq in Hy. lia.
Qed.

Lemma filter_sorted {B} (R : B -> B -> Prop) f l : StronglySorted R l -> StronglySorted R (filter f l).
Proof.
  induction 1 as [|x tl Hs IH Hall]; simpl; [constructor|].
  destruct (f x); [|exact IH]. constructor; [exact IH|].
  rewrite Forall_forall in *. intros y Hy. apply filter_In in Hy. apply Hall. tauto.
Qed.

(** the std functions on the chosen indices = the hand model's [sort_dedup] *)
Lemma sort_dedup_src (chosen : list nat) n : Forall (fun c => c < n) chosen ->
  dedup_nat (sort_nat chosen) = sort_dedup chosen n.
Proof.
  intros Hc. destruct (dedup_nat_spec _ (sort_nat_sorted chosen)) as [S1 I1].
  apply sorted_lt_ext; [exact S1| |].
  - unfold sort_dedup. apply filter_sorted. apply seq_sorted.
  - intros y. rewrite I1, sort_nat_in. unfold sort_dedup. rewrite filter_In, in_seq.
    rewrite Forall_forall in Hc. split.
    + intros Hy. split; [pose proof (Hc y Hy); lia|].
      apply existsb_exists. exists y. split; [exact Hy|apply Nat.eqb_refl].
    + intros [_ Hy]. apply existsb_exists in Hy. destruct Hy as (z & Hz & E).
      apply Nat.eqb_eq in E. subst z. exact Hz.
Qed.

(* ====================================================================================== *)
(** * the loops of the regenerated [instantiate] *)

Notation wideN w := (Forall (fun t : list N => length t = w)).

Lemma vswap_is_swap {A} (l : list A) i j : vswap l i j = Scheduler.swap l i j.
Proof. reflexivity. Qed.

Ltac norm_app := rewrite <- ?app_assoc; cbn [app]; rewrite <- ?app_assoc; cbn [app].

(** the innermost loop [for i in 0..tuple_width { matches.swap(idx_c + i, idx_p + i) }] exchanges
    two disjoint blocks of the flat vector *)
Lemma loop4_blocks sc sv stw sac ins tw vl u p c : forall (a2 b2 X a1 b1 Y Z : list N) i idxc idxp,
  length a2 = length b2 -> length a1 = i -> length b1 = i ->
  idxc = length X -> idxp = length X + (i + length a2) + length Y ->
  instantiate_loop4 sc sv stw sac ins tw vl u p c idxc idxp (seq i (length a2))
      (X ++ b1 ++ a2 ++ Y ++ a1 ++ b2 ++ Z)
  = Ok (X ++ (b1 ++ b2) ++ Y ++ (a1 ++ a2) ++ Z).
Proof.
  induction a2 as [|x a2 IH]; intros [|y b2] X a1 b1 Y Z i idxc idxp H2 Ha1 Hb1 Hc Hp;
    try (simpl in H2; discriminate).
  - cbn [length seq instantiate_loop4 app]. rewrite !app_nil_r. reflexivity.
  - cbn [length seq instantiate_loop4].
    assert (EL : X ++ b1 ++ (x :: a2) ++ Y ++ a1 ++ (y :: b2) ++ Z
                 = (X ++ b1) ++ x :: (a2 ++ Y ++ a1) ++ y :: (b2 ++ Z)).
    { norm_app. reflexivity. }
    rewrite EL.
    replace (idxc + i) with (length (X ++ b1)) by (rewrite app_length; lia).
    replace (idxp + i) with (length (X ++ b1) + S (length (a2 ++ Y ++ a1))).
    2:{ rewrite !app_length. simpl in Hp. lia. }
    rewrite vswap_is_swap, swap_split. cbn [bind].
    replace ((X ++ b1) ++ y :: (a2 ++ Y ++ a1) ++ x :: b2 ++ Z)
      with (X ++ (b1 ++ [y]) ++ a2 ++ Y ++ (a1 ++ [x]) ++ b2 ++ Z) by (norm_app; reflexivity).
    rewrite (IH b2 X (a1 ++ [x]) (b1 ++ [y]) Y Z (S i) idxc idxp).
    + f_equal. norm_app. reflexivity.
    + simpl in H2. lia.
    + rewrite app_length. simpl. lia.
    + rewrite app_length. simpl. lia.
    + exact Hc.
    + simpl in Hp. lia.
Qed.

Lemma wide_split w (l1 : list (list N)) a l2 b l3 : wideN w (l1 ++ a :: l2 ++ b :: l3) ->
  wideN w l1 /\ length a = w /\ wideN w l2 /\ length b = w /\ wideN w l3.
Proof.
  intros H. apply Forall_app in H. destruct H as [H1 H]. inversion H as [|? ? Ha H']; subst.
  apply Forall_app in H'. destruct H' as [H2 H']. inversion H' as [|? ? Hb H3]; subst. auto.
Qed.

Lemma wide_join w (l1 : list (list N)) a l2 b l3 :
  wideN w l1 -> length a = w -> wideN w l2 -> length b = w -> wideN w l3 ->
  wideN w (l1 ++ a :: l2 ++ b :: l3).
Proof.
  intros. apply Forall_app. split; [assumption|]. constructor; [assumption|].
  apply Forall_app. split; [assumption|]. constructor; assumption.
Qed.

(** the swap-remove loop over the flat vector = the hand model's [swap_remove] over tuples *)
Lemma loop3_refines w sc sv stw sac ins vl u : forall l p (ms : list (list N)) q ms',
  desc_below l p -> p <= length ms -> wideN w ms ->
  swap_remove l p ms = Ok (q, ms') ->
  wideN w ms' /\
  instantiate_loop3 sc sv stw sac ins w vl u l (concat ms) p = Ok (concat ms', q).
Proof.
  induction l as [|c tl IH]; intros p ms q ms' Hd Hp Hw Hsr.
  - simpl in Hsr. inversion Hsr; subst. split; [assumption|reflexivity].
  - destruct Hd as [Hc Hd]. destruct p as [|p']; [lia|].
    cbn [swap_remove] in Hsr. cbn [instantiate_loop3]. unfold usub. cbn [Nat.leb bind].
    replace (S p' - 1) with p' by lia.
    destruct (Nat.eqb c p') eqn:E; cbn [negb].
    + apply Nat.eqb_eq in E. subst c. cbn [bind] in Hsr.
      apply (IH p' ms q ms'); auto. lia.
    + apply Nat.eqb_neq in E.
      destruct (split2 (@nil N) ms c p') as (l1 & l2 & l3 & Em & Hl1 & Hl2); [lia|lia|].
      set (a := nth c ms []) in *. set (b := nth p' ms []) in *.
      assert (Hsw : swap ms c p' = Ok (l1 ++ b :: l2 ++ a :: l3)).
      { rewrite Em at 1. rewrite <- Hl2, <- Hl1. apply swap_split. }
      rewrite Hsw in Hsr. cbn [bind] in Hsr.
      assert (Hw' := Hw). rewrite Em in Hw'.
      destruct (wide_split _ _ _ _ _ _ Hw') as (W1 & Wa & W2 & Wb & W3).
      set (ms1 := l1 ++ b :: l2 ++ a :: l3) in *.
      assert (Hw1 : wideN w ms1) by (apply wide_join; assumption).
      assert (Hlen1 : length ms1 = length ms).
      { unfold ms1. rewrite Em. rewrite !app_length. simpl. rewrite !app_length. simpl. lia. }
      assert (Hd' : desc_below tl p') by (eapply desc_below_weaken; [exact Hd|lia]).
      destruct (IH p' ms1 q ms' Hd' ltac:(lia) Hw1 Hsr) as [G1 G2].
      split; [exact G1|].
      pose proof (loop4_blocks sc sv stw sac ins w vl u p' c a b (concat l1) [] [] (concat l2)
                    (concat l3) 0 (c * w) (p' * w)) as H4.
      cbn [app] in H4. rewrite Wa in H4.
      rewrite Em at 1. rewrite concat_app. cbn [concat]. rewrite concat_app. cbn [concat].
      unfold range_excl. rewrite Nat.sub_0_r.
      rewrite H4.
      * cbn [bind].
        replace (concat l1 ++ b ++ concat l2 ++ a ++ concat l3) with (concat ms1).
        { exact G2. }
        unfold ms1. rewrite concat_app. cbn [concat]. rewrite concat_app. reflexivity.
      * lia.
      * reflexivity.
      * reflexivity.
      * rewrite (length_concat_w w l1 W1). lia.
      * rewrite (length_concat_w w l1 W1), (length_concat_w w l2 W2). nia.
Qed.

(** the row written into the `decided` table for a stored tuple: its first [vars.len()] cells
    followed by the unit value *)
Definition decided_row (vl : nat) (u : N) (t : list N) : list N := firstn vl t ++ [u].

Lemma slice_prefix (t : list N) vl : vl <= length t -> slice t 0 vl = Ok (firstn vl t).
Proof.
  intros H. unfold slice. cbn [Nat.leb andb]. apply Nat.leb_le in H. rewrite H.
  rewrite Nat.sub_0_r. reflexivity.
Qed.

Lemma loop1_spec sm sc sv stw sac tw u w : length sv <= w -> forall (ms : list (list N)) ins,
  wideN w ms ->
  instantiate_loop1 sm sc sv stw sac tw (length sv) u ms ins
  = Ok (ins ++ map (decided_row (length sv) u) ms).
Proof.
  intros Hvl. induction ms as [|t r IH]; intros ins Hw.
  - simpl. rewrite app_nil_r. reflexivity.
  - inversion Hw as [|? ? Ht Hr]; subst. cbn [instantiate_loop1 map].
    rewrite slice_prefix by lia. cbn [bind]. rewrite (IH _ Hr).
    rewrite <- app_assoc. reflexivity.
Qed.

Lemma loop2_spec sc sv stw sac u w (ms : list (list N)) : length sv <= w -> wideN w ms ->
  forall chosen ins, Forall (fun c => c < length ms) chosen ->
  instantiate_loop2 (concat ms) sc sv stw sac w (length sv) u chosen ins
  = Ok (ins ++ map (decided_row (length sv) u) (map (fun c => nth c ms []) chosen)).
Proof.
  intros Hvl Hw. induction chosen as [|c tl IH]; intros ins Hc.
  - simpl. rewrite app_nil_r. reflexivity.
  - inversion Hc as [|? ? Hc1 Hc2]; subst. cbn [instantiate_loop2 map].
    rewrite (slice_concat w ms c Hw Hc1). cbn [bind].
    assert (Hn : length (nth c ms []) = w).
    { rewrite Forall_forall in Hw. apply Hw. apply nth_In. exact Hc1. }
    rewrite slice_prefix by lia. cbn [bind]. rewrite (IH _ Hc2).
    rewrite <- app_assoc. reflexivity.
Qed.

Lemma match_size_concat w (ms : list (list N)) sc sv sac : 0 < w -> wideN w ms ->
  match_size (concat ms) sc sv w sac = Ok (length ms).
Proof.
  intros H0 Hw. unfold match_size. rewrite (length_concat_w w ms Hw).
  destruct w as [|w']; [lia|]. cbn [udiv bind]. rewrite Nat.div_mul by lia. reflexivity.
Qed.

(** REFINEMENT: the regenerated [Matches::instantiate] over the flat vector computes what the hand
    model [Scheduler.instantiate] computes over the list of tuples — same inserted rows (cut to the
    variable columns and closed by the unit cell), same residual (flattened) — and returns [Ok]
    exactly like it. *)
Theorem instantiate_refines (ms : list (list N)) (chosen : list nat) (vars : list N) (w : nat)
    (all : bool) (u : N) :
  0 < w -> wideN w ms -> length vars <= w ->
  (all = false -> Forall (fun c => c < length ms) chosen) ->
  exists ins res,
    Scheduler.instantiate ms chosen all = Ok (ins, res) /\
    MatchesFns.instantiate (concat ms) chosen vars w all u
      = Ok (map (decided_row (length vars) u) ins, concat res).
Proof.
  intros H0 Hw Hvl Hc. destruct all.
  - exists ms, []. split; [reflexivity|]. unfold MatchesFns.instantiate.
    rewrite (chunks_concat w ms H0 Hw). cbn [bind].
    rewrite (loop1_spec _ _ _ _ _ _ _ w Hvl ms [] Hw). cbn [bind app concat]. reflexivity.
  - specialize (Hc eq_refl).
    destruct (instantiate_perm (@nil N) ms chosen Hc) as (res & Hi & _).
    exists (map (fun c => nth c ms []) chosen), res. split; [exact Hi|].
    unfold Scheduler.instantiate in Hi. rewrite (mapM_idx_ok [] ms chosen Hc) in Hi. cbn [bind] in Hi.
    destruct (swap_remove (rev (sort_dedup chosen (length ms))) (length ms) ms) as [[q ms']| |] eqn:Es;
      cbn [bind] in Hi; try discriminate.
    inversion Hi; subst res. clear Hi.
    unfold MatchesFns.instantiate.
    rewrite (loop2_spec _ _ _ _ u w ms Hvl Hw chosen [] Hc). cbn [bind app].
    rewrite (match_size_concat w ms _ _ _ H0 Hw). cbn [bind].
    rewrite (sort_dedup_src chosen (length ms) Hc).
    pose proof (desc_below_rev_filter (fun i => existsb (Nat.eqb i) chosen) (length ms) 0) as Hdb.
    cbn [Nat.add] in Hdb.
    destruct (loop3_refines w (sort_dedup chosen (length ms)) vars w false
                (map (decided_row (length vars) u) (map (fun c => nth c ms []) chosen))
                (length vars) u _ _ ms q ms'
                Hdb (le_n _) Hw Es) as [Hw' Hl].
    unfold sort_dedup in Hl |- *. rewrite Hl. cbn [bind].
    rewrite (firstn_concat w ms' Hw'). reflexivity.
Qed.

(* ====================================================================================== *)
(** * consequences stated over the regenerated functions *)

(** the hand theorem [instantiate_perm], now about the regenerated code: in-range choices (any
    order, duplicates allowed) never panic, the rows inserted into `decided` are the chosen tuples
    in call order, the residual vector is the flattening of a permutation of the unchosen tuples *)
Theorem src_instantiate_perm (ms : list (list N)) (chosen : list nat) (vars : list N) (w : nat) (u : N) :
  0 < w -> wideN w ms -> length vars <= w -> Forall (fun c => c < length ms) chosen ->
  exists res,
    MatchesFns.instantiate (concat ms) chosen vars w false u
      = Ok (map (fun c => decided_row (length vars) u (nth c ms [])) chosen, concat res)
    /\ Permutation res
         (map (fun c => nth c ms [])
              (filter (fun i => negb (existsb (Nat.eqb i) chosen)) (seq 0 (length ms)))).
Proof.
  intros H0 Hw Hvl Hc.
  destruct (instantiate_refines ms chosen vars w false u H0 Hw Hvl (fun _ => Hc)) as (ins & res & H1 & H2).
  destruct (instantiate_perm (@nil N) ms chosen Hc) as (res' & Hi & _ & Hp).
  rewrite Hi in H1. inversion H1; subst ins res. exists res'. split; [|exact Hp].
  rewrite H2. rewrite map_map. reflexivity.
Qed.

Theorem src_instantiate_all (ms : list (list N)) (chosen : list nat) (vars : list N) (w : nat) (u : N) :
  0 < w -> wideN w ms -> length vars <= w ->
  MatchesFns.instantiate (concat ms) chosen vars w true u
    = Ok (map (decided_row (length vars) u) ms, []).
Proof.
  intros H0 Hw Hvl.
  destruct (instantiate_refines ms chosen vars w true u H0 Hw Hvl) as (ins & res & H1 & H2);
    [discriminate|].
  cbv [Scheduler.instantiate] in H1. inversion H1; subst. exact H2.
Qed.

Lemma wide_perm w (a b : list (list N)) : Permutation a b -> wideN w b -> wideN w a.
Proof.
  intros P H. rewrite Forall_forall in *. intros x Hx. apply H. eapply Permutation_in; eauto.
Qed.

(** [Matches::new]: the only way not to panic is the assert, and then the fields are these *)
Theorem src_new_spec (matches vars : list N) :
  let w := Nat.max (length vars) 1 in
  (length matches mod w = 0 -> MatchesFns.new matches vars = Ok (matches, [], vars, w, false)) /\
  (length matches mod w <> 0 -> MatchesFns.new matches vars = Panic).
Proof.
  cbv zeta. unfold MatchesFns.new, is_multiple_of.
  destruct (Nat.max (length vars) 1) as [|w'] eqn:E; [lia|].
  split; intros H.
  - rewrite H. reflexivity.
  - apply Nat.eqb_neq in H. rewrite H. reflexivity.
Qed.

(** NO PANIC, end to end over the flat representation: a vector accepted by [Matches::new] and
    choices below [match_size] make [instantiate] return [Ok]; the residual it returns is accepted
    by [Matches::new] again (so the assert of the NEXT step cannot fire), and its match count is
    what is left after removing the distinct chosen indices *)
Theorem src_instantiate_no_panic (matches vars : list N) (chosen : list nat) (all : bool) (u : N) :
  forall m c v w a, MatchesFns.new matches vars = Ok (m, c, v, w, a) ->
  forall n, match_size m c v w a = Ok n ->
  Forall (fun i => i < n) chosen ->
  exists ins res,
    MatchesFns.instantiate m chosen v w all u = Ok (ins, res) /\
    (exists M', MatchesFns.new res vars = Ok M') /\
    (all = true -> res = [] /\ length ins = n) /\
    (all = false -> length ins = length chosen /\
       length res = (n - length (sort_dedup chosen n)) * w).
Proof.
  intros m c v w a Hnew n Hn Hc.
  destruct (src_new_spec matches vars) as [N1 N2]. cbv zeta in N1, N2.
  destruct (Nat.eq_dec (length matches mod Nat.max (length vars) 1) 0) as [Hm|Hm];
    [|rewrite (N2 Hm) in Hnew; discriminate].
  rewrite (N1 Hm) in Hnew. inversion Hnew; subst m c v w a. clear Hnew N1 N2.
  set (w := Nat.max (length vars) 1) in *.
  assert (H0 : 0 < w) by (unfold w; lia).
  assert (Hvl : length vars <= w) by (unfold w; lia).
  destruct (unflatten w H0 (length matches / w) matches) as (ms & E & Hw & L).
  { pose proof (Nat.div_mod (length matches) w ltac:(lia)). lia. }
  subst matches. rewrite (match_size_concat w ms _ _ _ H0 Hw) in Hn. inversion Hn; subst n. clear Hn.
  assert (Hnew' : forall r, wideN w r -> exists M', MatchesFns.new (concat r) vars = Ok M').
  { intros r Hr. destruct (src_new_spec (concat r) vars) as [N1 _]. cbv zeta in N1. fold w in N1.
    eexists. apply N1. rewrite (length_concat_w w r Hr). apply Nat.mod_mul. lia. }
  destruct all.
  - exists (map (decided_row (length vars) u) ms), []. rewrite (src_instantiate_all ms chosen vars w u H0 Hw Hvl).
    split; [reflexivity|]. split; [apply (Hnew' []); constructor|].
    split; [intros _; split; [reflexivity|apply map_length]|discriminate].
  - destruct (instantiate_refines ms chosen vars w false u H0 Hw Hvl (fun _ => Hc)) as (ins & res & H1 & H2).
    destruct (instantiate_perm (@nil N) ms chosen Hc) as (res' & Hi & Hp1 & Hp).
    rewrite Hi in H1. inversion H1; subst ins res. clear H1.
    assert (Hwr : wideN w res').
    { eapply wide_perm; [exact Hp|]. rewrite Forall_forall in *. intros x Hx.
      apply in_map_iff in Hx. destruct Hx as (i & <- & Hi'). apply filter_In in Hi'.
      destruct Hi' as [Hi' _]. apply in_seq in Hi'. apply Hw. apply nth_In. lia. }
    eexists _, _. split; [exact H2|]. split; [apply Hnew'; exact Hwr|].
    split; [discriminate|]. intros _. split; [rewrite !map_length; reflexivity|].
    rewrite (length_concat_w w res' Hwr). f_equal.
    apply Permutation_length in Hp1. rewrite app_length, map_length in Hp1. lia.
Qed.

(** [match_size] and [get_match] index arithmetic: [get_match] uses [tuple_len() = vars.len()],
    which is the stored width except for variable-free rules (width 1, no variable column) *)
Theorem src_match_size (ms : list (list N)) chosen vars w all : 0 < w -> wideN w ms ->
  match_size (concat ms) chosen vars w all = Ok (length ms).
Proof. intros; apply match_size_concat; assumption. Qed.

Theorem src_get_match (ms : list (list N)) chosen vars w all i :
  wideN w ms -> i < length ms -> (length vars = w \/ (length vars = 0 /\ w = 1)) ->
  get_match (concat ms) chosen vars w all i = Ok (firstn (length vars) (nth i ms []), vars).
Proof.
  intros Hw Hi [Hv|[Hv Hw1]]; unfold get_match, tuple_len; cbn [bind].
  - rewrite Hv. rewrite (slice_concat w ms i Hw Hi). cbn [bind].
    rewrite firstn_all2; [reflexivity|].
    rewrite Forall_forall in Hw. rewrite (Hw (nth i ms [])); [lia|]. apply nth_In. exact Hi.
  - rewrite Hv, !Nat.mul_0_r. unfold slice. cbn [Nat.leb andb Nat.sub firstn bind]. reflexivity.
Qed.

(** [choose] / [choose_all] only record the choice: the interface the hand model's scheduler
    function ([filter]: all-flag + list of indices in call order) abstracts *)
Theorem src_choose_spec (m : list N) c v w a i :
  choose m c v w a i = Ok (m, c ++ [i], v, w, a) /\ choose_all m c v w a = Ok (m, c, v, w, true).
Proof. split; reflexivity. Qed.
